package main

// The property C20 evaluated on the implementation, independent of the Lean model:
// a flat specification (object name -> byte array, handles with a position) that predicts, for
// every script line INSIDE the property's discipline, what the property determines about the
// result, and keeps silent about everything else.
//
// Discipline (the quantifier of C20; a line outside it switches the oracle off for the rest of
// the case, the model/implementation comparison goes on):
//   * one bucket "bkt"; path segments are non-empty and the set of all segments used in the case is
//     prefix-free (no segment is a proper prefix of another); no name is a file and a folder at once,
//     no file has a file as an ancestor;
//   * at most one open handle per object; Create/Rename/Remove/RemoveAll do not touch an object
//     (or a folder holding one) that has an open handle;
//   * OpenFile on existing objects with O_RDONLY/O_WRONLY/O_RDWR, optionally |O_TRUNC or |O_APPEND;
//     reads only through readable, writes/truncates only through writable handles;
//   * Write/Read/Seek(whence 1) only while the handle position is known: it is known after open and
//     after Seek with whence 0 or 2, and lost by ReadAt/WriteAt;
//   * every offset (Write position, WriteAt/ReadAt offset, Seek target) lies in [0, size];
//     Truncate only shrinks (n <= size);
//   * listing with n <= 0 only; Rename only of objects (not folders), onto a name that is no folder.

import (
	"fmt"
	"sort"
	"strings"

	"github.com/spf13/afero/gcsfs/verifcmd/gcsdrv/corr"
)

type oHandle struct {
	path               string // bucket-relative; "" = bucket root
	dir                bool
	pos                int64
	posKnown           bool
	closed             bool
	canRead, canWrite  bool
	dirty              bool // a write may still be uncommitted: the bucket need not show it before Close
	reopened, wroteMid bool
}

type orc struct {
	objs map[string][]byte
	hs   []*oHandle
	off  bool // discipline left
	// coverage
	insideWrite, insideReread, implicitFolderOp, tailKeep, truncShrink, appendOpen bool
	midWritten                                                                     map[string]bool
}

// expectation kinds
const (
	expNone   = iota
	expExact  // result line must equal val
	expPrefix // result line must start with val
	expHandle // must be "h=<val>"
	expNotOk  // must not be "ok" / an info line (the call has to fail)
	expBucket // objs line: compared name by name (val unused)
	expDir    // must be an info line for base name val with dir=true (the size of a folder is not claimed)
)

type expct struct {
	kind int
	val  string
	why  string
}

func newOrc() *orc { return &orc{objs: map[string][]byte{}, midWritten: map[string]bool{}} }

func (o *orc) clone() *orc {
	c := *o
	c.objs = make(map[string][]byte, len(o.objs))
	for k, v := range o.objs {
		c.objs[k] = v // byte slices are replaced, never mutated in place
	}
	c.hs = make([]*oHandle, len(o.hs))
	for i, h := range o.hs {
		hh := *h
		c.hs[i] = &hh
	}
	c.midWritten = make(map[string]bool, len(o.midWritten))
	for k, v := range o.midWritten {
		c.midWritten[k] = v
	}
	return &c
}

// normName mirrors the documented spelling rules of gcsfs names (gs:// prefix, backslashes,
// one leading separator) and splits off the bucket.
func splitGcsName(name string) (path string, ok bool) {
	name = strings.TrimPrefix(name, "gs://")
	name = strings.ReplaceAll(name, "\\", "/")
	name = strings.TrimPrefix(name, "/")
	if name == bucketName {
		return "", true
	}
	if !strings.HasPrefix(name, bucketName+"/") {
		return "", false
	}
	return name[len(bucketName)+1:], true
}

func segsOK(p string) bool { // non-empty segments, no trailing separator
	if p == "" {
		return false
	}
	for _, s := range strings.Split(p, "/") {
		if s == "" {
			return false
		}
	}
	return true
}

func (o *orc) isFile(p string) bool {
	_, ok := o.objs[p]
	return ok && p != "" && !strings.HasSuffix(p, "/")
}

func (o *orc) isFolder(p string) bool {
	if p == "" {
		return true
	}
	for n := range o.objs {
		if strings.HasPrefix(n, p+"/") {
			return true
		}
	}
	return false
}

func (o *orc) implicit(p string) bool { _, ok := o.objs[p+"/"]; return !ok }

func (o *orc) ancestorsOK(p string) bool {
	segs := strings.Split(p, "/")
	for i := 1; i < len(segs); i++ {
		if o.isFile(strings.Join(segs[:i], "/")) {
			return false
		}
	}
	return true
}

func (o *orc) openOn(p string) int {
	k := 0
	for _, h := range o.hs {
		if !h.closed && !h.dir && h.path == p {
			k++
		}
	}
	return k
}

func (o *orc) openUnder(p string) int {
	k := 0
	for _, h := range o.hs {
		if !h.closed && !h.dir && (h.path == p || strings.HasPrefix(h.path, p+"/")) {
			k++
		}
	}
	return k
}

func (o *orc) dirtyOn(p string) bool {
	for _, h := range o.hs {
		if !h.closed && !h.dir && h.path == p && h.dirty {
			return true
		}
	}
	return false
}

// children of folder p: immediate child names, "/"-suffixed when they are folders
func (o *orc) children(p string) []string {
	pp := ""
	if p != "" {
		pp = p + "/"
	}
	set := map[string]bool{}
	for n := range o.objs {
		if !strings.HasPrefix(n, pp) || n == pp {
			continue
		}
		rest := n[len(pp):]
		if i := strings.Index(rest, "/"); i >= 0 {
			set[corr.HexS(rest[:i])+"/"] = true
		} else {
			set[corr.HexS(rest)] = true
		}
	}
	var out []string
	for k := range set {
		out = append(out, k)
	}
	sort.Strings(out)
	return out
}

func baseOf(p string) string {
	if p == "" {
		return bucketName
	}
	if i := strings.LastIndex(p, "/"); i >= 0 {
		return p[i+1:]
	}
	return p
}

func (o *orc) leave() expct { o.off = true; return expct{} }

// consistent: the layout discipline on the current object set
func (o *orc) consistent() bool {
	for n := range o.objs {
		p := strings.TrimSuffix(n, "/")
		if !segsOK(p) {
			return false
		}
		if !strings.HasSuffix(n, "/") && o.isFolder(n) {
			return false
		}
		if !o.ancestorsOK(p) {
			return false
		}
	}
	return true
}

func (o *orc) push(h *oHandle) expct {
	o.hs = append(o.hs, h)
	return expct{kind: expHandle, val: fmt.Sprint(len(o.hs) - 1)}
}

// step predicts what the property determines about script line t and advances the flat state.
// gotHandle tells whether the implementation returned a handle (needed to keep handle numbers
// aligned once the discipline has been left).
func (o *orc) step(t []string) expct {
	if o.off {
		return expct{}
	}
	switch t[0] {
	case "case":
		for _, tok := range t[1:] {
			kv := strings.SplitN(tok, "=", 2)
			o.objs[string(unhex(kv[0]))] = payloadOf(kv[1])
		}
		if !o.consistent() {
			return o.leave()
		}
		return expct{kind: expExact, val: "case"}
	case "bucket":
		return expct{kind: expBucket}
	}
	fsName := func(i int) (string, bool) { return splitGcsName(string(unhex(t[i]))) }
	switch t[0] {
	case "create":
		p, ok := fsName(1)
		if !ok || !segsOK(p) || o.isFolder(p) || !o.ancestorsOK(p) || o.openOn(p) > 0 {
			return o.leave()
		}
		o.objs[p] = nil
		return o.push(&oHandle{path: p, posKnown: true, canRead: true, canWrite: true})
	case "open", "openfile":
		flag := 0
		if t[0] == "openfile" {
			flag = atoi(t[2])
		}
		p, ok := fsName(1)
		if !ok {
			return o.leave()
		}
		if flag == 0 && !o.isFile(p) && o.isFolder(p) && (p == "" || segsOK(p)) {
			return o.push(&oHandle{path: p, dir: true})
		}
		acc, rest := flag&3, flag&^3
		if !o.isFile(p) || o.openOn(p) > 0 || acc == 3 || (rest != 0 && rest != 512 && rest != 1024) || (acc == 0 && rest != 0) {
			return o.leave()
		}
		h := &oHandle{path: p, posKnown: true, canRead: acc != 1, canWrite: acc != 0, reopened: o.midWritten[p]}
		if rest == 512 { // O_TRUNC: gcsfs re-creates the object and hands out a read-write handle
			o.objs[p] = nil
			h.canRead, h.canWrite = true, true
		}
		if rest == 1024 {
			h.pos = int64(len(o.objs[p]))
			o.appendOpen = true
		}
		return o.push(h)
	case "stat":
		p, ok := fsName(1)
		if !ok {
			return o.leave()
		}
		if strings.HasSuffix(p, "/") { // an implicit folder named with its trailing separator; explicit ones are not in the domain
			q := strings.TrimSuffix(p, "/")
			if !segsOK(q) || o.isFile(q) || !o.isFolder(q) || !o.implicit(q) {
				return o.leave()
			}
			o.implicitFolderOp = true
			return expct{kind: expDir, val: corr.HexS(baseOf(q)), why: "a name with objects under it is a folder"}
		}
		switch {
		case o.isFile(p):
			if o.dirtyOn(p) {
				return expct{kind: expPrefix, val: fmt.Sprintf("info name=%s size=", corr.HexS(baseOf(p))), why: "an object is a file"}
			}
			return expct{kind: expExact, val: fmt.Sprintf("info name=%s size=%d dir=false", corr.HexS(baseOf(p)), len(o.objs[p])), why: "size and kind of an object"}
		case o.isFolder(p):
			if p != "" && o.implicit(p) {
				o.implicitFolderOp = true
			}
			return expct{kind: expDir, val: corr.HexS(baseOf(p)), why: "a name with objects under it is a folder"}
		default:
			return expct{kind: expNotOk, why: "a name with no object and nothing under it does not exist"}
		}
	case "mkdir", "mkdirall":
		p, ok := fsName(1)
		p = strings.TrimSuffix(p, "/") // a folder may be named with its trailing separator ("logs/", "logs\\")
		if !ok || !segsOK(p) || o.isFile(p) || !o.ancestorsOK(p) {
			return o.leave()
		}
		if t[0] == "mkdir" {
			o.objs[p+"/"] = nil
		} else {
			segs := strings.Split(p, "/")
			for i := 1; i <= len(segs); i++ {
				o.objs[strings.Join(segs[:i], "/")+"/"] = nil
			}
		}
		return expct{kind: expExact, val: "ok", why: "creating a folder"}
	case "remove":
		p, ok := fsName(1)
		if !ok || p == "" {
			return o.leave()
		}
		switch {
		case o.isFile(p):
			if o.openOn(p) > 0 {
				return o.leave()
			}
			delete(o.objs, p)
			return expct{kind: expExact, val: "ok", why: "removing an object"}
		case o.isFolder(p):
			if o.implicit(p) {
				o.implicitFolderOp = true
			}
			if len(o.children(p)) > 0 {
				return expct{kind: expExact, val: "err:notempty", why: "a non-empty folder cannot be removed by Remove"}
			}
			delete(o.objs, p+"/")
			return expct{kind: expExact, val: "ok", why: "removing an empty folder"}
		default:
			return expct{kind: expNotOk, why: "removing a name that does not exist"}
		}
	case "removeall":
		p, ok := fsName(1)
		if !ok || p == "" || o.openUnder(p) > 0 {
			return o.leave()
		}
		if !o.isFile(p) && o.isFolder(p) && o.implicit(p) {
			o.implicitFolderOp = true
		}
		// the state is what the property speaks about; the next `bucket` line checks it
		for n := range o.objs {
			if n == p || strings.HasPrefix(n, p+"/") {
				delete(o.objs, n)
			}
		}
		return expct{}
	case "rename":
		a, ok1 := fsName(1)
		b, ok2 := fsName(2)
		if !ok1 || !ok2 || !o.isFile(a) || a == b || !segsOK(b) || o.isFolder(b) || !o.ancestorsOK(b) || o.openOn(a) > 0 || o.openOn(b) > 0 {
			return o.leave()
		}
		o.objs[b] = o.objs[a]
		delete(o.objs, a)
		if o.midWritten[a] {
			o.midWritten[b] = true
		}
		return expct{kind: expExact, val: "ok", why: "renaming an object"}
	}
	// handle calls
	if len(t) < 2 {
		return o.leave()
	}
	k := atoi(t[1])
	if k < 0 || k >= len(o.hs) {
		return o.leave()
	}
	h := o.hs[k]
	if t[0] == "readdir" && atoi(t[2]) > 0 {
		return o.leave() // page sizes are not in the property's quantifier
	}
	if h.closed {
		return expct{} // use after Close: nothing claimed, nothing may change (later bucket lines check)
	}
	if h.dir {
		switch t[0] {
		case "readdir":
			if atoi(t[2]) > 0 {
				return o.leave() // page sizes are not in the property's quantifier
			}
			if h.path != "" && o.implicit(h.path) {
				o.implicitFolderOp = true
			}
			if !o.isFolder(h.path) { // the folder vanished under the handle
				return expct{}
			}
			return expct{kind: expExact, val: "names=" + strings.Join(o.children(h.path), ",") + " err:-", why: "listing a folder returns its immediate children once each"}
		case "close":
			h.closed = true
			return expct{kind: expExact, val: "ok"}
		case "hstat":
			return expct{}
		}
		return o.leave()
	}
	data, exists := o.objs[h.path]
	if !exists {
		return o.leave()
	}
	L := int64(len(data))
	switch t[0] {
	case "write", "writeat", "readfrom":
		b := payloadOf(t[2])
		off := h.pos
		if t[0] == "writeat" {
			off = int64(atoi(t[3]))
		} else if !h.posKnown {
			return o.leave()
		}
		if t[0] == "readfrom" && len(b) == 0 { // an empty copy makes no call at all
			return o.leave()
		}
		if !h.canWrite || off < 0 || off > L {
			return o.leave()
		}
		n := int64(len(b))
		if n > 0 && off+n < L {
			o.insideWrite, o.tailKeep = true, true
			o.midWritten[h.path] = true
		}
		nd := make([]byte, 0, L+n)
		nd = append(nd, data[:off]...)
		nd = append(nd, b...)
		if off+n < L {
			nd = append(nd, data[off+n:]...)
		}
		o.objs[h.path] = nd
		h.dirty = true
		if t[0] != "writeat" {
			h.pos += n
		} else {
			h.posKnown = false
		}
		return expct{kind: expExact, val: fmt.Sprintf("n=%d err:-", n), why: "a write inside the object succeeds completely"}
	case "read", "readat":
		n := int64(atoi(t[2]))
		off := h.pos
		if t[0] == "readat" {
			off = int64(atoi(t[3]))
		} else if !h.posKnown {
			return o.leave()
		}
		if !h.canRead || off < 0 || off > L || n < 0 {
			return o.leave()
		}
		end := off + n
		if end > L {
			end = L
		}
		if t[0] == "read" {
			h.pos = end
		} else {
			h.posKnown = false
		}
		if h.reopened && end > off {
			o.insideReread = true
		}
		return expct{kind: expPrefix, val: "bytes=" + renderBytes(data[off:end]) + " err:", why: "a read returns the object's bytes from that offset"}
	case "seek":
		off, wh := int64(atoi(t[2])), atoi(t[3])
		var tgt int64
		switch wh {
		case 0:
			tgt = off
		case 1:
			if !h.posKnown {
				return o.leave()
			}
			tgt = h.pos + off
		case 2:
			tgt = L + off
		default:
			return o.leave()
		}
		if tgt < 0 || tgt > L {
			return o.leave()
		}
		h.pos, h.posKnown = tgt, true
		return expct{kind: expExact, val: fmt.Sprintf("pos=%d", tgt), why: "Seek reports the new position"}
	case "trunc":
		n := int64(atoi(t[2]))
		if !h.canWrite || n < 0 || n > L {
			return o.leave()
		}
		if n < L {
			o.truncShrink = true
		}
		o.objs[h.path] = data[:n:n]
		h.dirty = true
		return expct{kind: expExact, val: "ok", why: "a shrinking Truncate succeeds"}
	case "close":
		h.closed, h.dirty = true, false
		return expct{kind: expExact, val: "ok", why: "Close commits"}
	case "hstat":
		h.dirty = false // Stat through the handle syncs first
		return expct{kind: expExact, val: fmt.Sprintf("info name=%s size=%d dir=false", corr.HexS(baseOf(h.path)), L), why: "sizes match"}
	case "readdir":
		if atoi(t[2]) > 0 {
			return o.leave()
		}
		return expct{}
	}
	return o.leave()
}

func (o *orc) checkBucket(got string) string {
	if !strings.HasPrefix(got, "objs=") {
		return "bucket dump missing"
	}
	have := map[string]string{}
	if body := got[5:]; body != "" {
		for _, e := range strings.Split(body, ",") {
			kv := strings.SplitN(e, ":", 2)
			if len(kv) != 2 {
				return "bucket dump malformed"
			}
			have[string(unhex(kv[0]))] = kv[1]
		}
	}
	var names []string
	for n := range o.objs {
		names = append(names, n)
	}
	sort.Strings(names)
	for _, n := range names {
		g, ok := have[n]
		if !ok {
			return fmt.Sprintf("object %q is missing from the bucket", n)
		}
		if o.dirtyOn(n) {
			continue
		}
		if want := renderBytes(o.objs[n]); g != want {
			return fmt.Sprintf("object %q holds %s, the flat array is %s", n, g, want)
		}
	}
	var extra []string
	for n := range have {
		if _, ok := o.objs[n]; !ok {
			extra = append(extra, n)
		}
	}
	if len(extra) > 0 {
		sort.Strings(extra)
		return fmt.Sprintf("the bucket holds %q, which should not exist", extra[0])
	}
	return ""
}

func (o *orc) check(e expct, got string) string {
	switch e.kind {
	case expExact:
		if got != e.val {
			return fmt.Sprintf("%s: implementation %q, property %q", e.why, got, e.val)
		}
	case expPrefix:
		if !strings.HasPrefix(got, e.val) {
			return fmt.Sprintf("%s: implementation %q, property %q…", e.why, got, e.val)
		}
	case expHandle:
		if got != "h="+e.val {
			return fmt.Sprintf("open of an existing object / creation must succeed: implementation %q", got)
		}
	case expNotOk:
		if got == "ok" || strings.HasPrefix(got, "info ") {
			return fmt.Sprintf("%s: implementation %q", e.why, got)
		}
	case expBucket:
		return o.checkBucket(got)
	case expDir:
		if !strings.HasPrefix(got, "info name="+e.val+" ") || !strings.HasSuffix(got, " dir=true") {
			return fmt.Sprintf("%s: implementation %q", e.why, got)
		}
	}
	return ""
}

// prefixFree: the set of all path segments used anywhere in the case
func prefixFree(c corr.Case) bool {
	set := map[string]bool{}
	add := func(name string) {
		for _, s := range strings.Split(name, "/") {
			if s != "" {
				set[s] = true
			}
		}
	}
	for _, line := range c.Lines {
		t := strings.Fields(line)
		if len(t) == 0 {
			continue
		}
		switch t[0] {
		case "case":
			for _, tok := range t[1:] {
				add(string(unhex(strings.SplitN(tok, "=", 2)[0])))
			}
		case "create", "open", "openfile", "stat", "mkdir", "mkdirall", "remove", "removeall":
			if p, ok := splitGcsName(string(unhex(t[1]))); ok {
				add(p)
			}
		case "rename":
			for _, i := range []int{1, 2} {
				if p, ok := splitGcsName(string(unhex(t[i]))); ok {
					add(p)
				}
			}
		}
	}
	var segs []string
	for s := range set {
		segs = append(segs, s)
	}
	for _, a := range segs {
		for _, b := range segs {
			if a != b && strings.HasPrefix(b, a) {
				return false
			}
		}
	}
	return true
}

// disciplineExit returns the index of the first script line outside the discipline (-1: none).
func disciplineExit(c corr.Case) int {
	if !prefixFree(c) {
		return 0
	}
	o := newOrc()
	for i, line := range c.Lines {
		t := strings.Fields(line)
		if len(t) == 0 {
			return i
		}
		func() {
			defer func() {
				if recover() != nil {
					o.off = true
				}
			}()
			o.step(t)
		}()
		if o.off || !o.consistent() {
			return i
		}
	}
	return -1
}

// runOracle replays the case on the flat specification. Returns the first violated expectation.
func runOracle(c corr.Case, impl []string) (string, int, *orc) {
	o := newOrc()
	if !prefixFree(c) {
		o.off = true
		return "", -1, o
	}
	for i, line := range c.Lines {
		t := strings.Fields(line)
		if len(t) == 0 {
			continue
		}
		if i >= len(impl) {
			return "implementation produced no result", i, o
		}
		var e expct
		func() {
			defer func() {
				if r := recover(); r != nil { // malformed line: outside the discipline
					o.off = true
					e = expct{}
				}
			}()
			e = o.step(t)
		}()
		if o.off {
			return "", -1, o
		}
		if impl[i] == "panic" {
			return fmt.Sprintf("call panics: %s", line), i, o
		}
		if w := o.check(e, impl[i]); w != "" {
			return w, i, o
		}
		if !o.consistent() {
			o.off = true
			return "", -1, o
		}
	}
	return "", -1, o
}
