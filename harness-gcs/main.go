// gcsdrv C20 --tier quick|thorough --seed N --driver path --known path --out result.json [--replay file] [--repo dir]
// Same command line and result JSON as harness/cmd/h; lives inside the gcsfs module tree (build overlay).
package main

import (
	"encoding/json"
	"flag"
	"fmt"
	"io"
	"log"
	"os"
	"strings"

	"github.com/spf13/afero/gcsfs/verifcmd/gcsdrv/corr"
)

func main() {
	if len(os.Args) < 2 {
		fmt.Fprintln(os.Stderr, "usage: gcsdrv C20 [flags]")
		os.Exit(2)
	}
	id := os.Args[1]
	if id == "run" { // debugging aid: script on stdin -> implementation result lines
		log.SetOutput(io.Discard)
		b, _ := io.ReadAll(os.Stdin)
		var c corr.Case
		for _, l := range strings.Split(strings.TrimSpace(string(b)), "\n") {
			c.Lines = append(c.Lines, l)
		}
		for i, o := range runImpl(c) {
			fmt.Printf("%-40s => %s\n", c.Lines[i], o)
		}
		fmt.Fprintf(os.Stderr, "disciplineExit=%d prefixFree=%v\n", disciplineExit(c), prefixFree(c))
		return
	}
	fs := flag.NewFlagSet("gcsdrv", flag.ExitOnError)
	tier := fs.String("tier", "quick", "")
	seed := fs.Uint64("seed", 1, "")
	driver := fs.String("driver", "/verif/lean/.lake/build/bin/driver", "")
	known := fs.String("known", "/verif/known-findings.json", "")
	out := fs.String("out", "", "")
	replay := fs.String("replay", "", "")
	_ = fs.String("repo", "/repo", "")
	fs.Parse(os.Args[2:])
	if id != "C20" {
		fmt.Fprintln(os.Stderr, "no engine for", id)
		os.Exit(2)
	}
	log.SetOutput(io.Discard) // GcsFile.Seek logs a warning on every real seek
	e := C20()
	var rp *corr.Case
	if *replay != "" {
		b, err := os.ReadFile(*replay)
		if err != nil {
			fmt.Fprintln(os.Stderr, err)
			os.Exit(2)
		}
		var r struct {
			Case []string `json:"case"`
		}
		if err := json.Unmarshal(b, &r); err != nil || len(r.Case) == 0 {
			fmt.Fprintln(os.Stderr, "replay file has no case")
			os.Exit(2)
		}
		rp = &corr.Case{Lines: r.Case}
	}
	res := corr.Run(e, *tier, *seed, *driver, *known, rp)
	if *out != "" {
		corr.WriteResult(*out, res)
	} else {
		b, _ := json.MarshalIndent(res, "", " ")
		fmt.Println(string(b))
	}
}
