package main

// Script interpreter for property C20: executes one case on the real gcsfs.Fs over the fake
// object store and prints one canonical result line per script line.
//
//   case <hexname>=<payload> …          seed bucket "bkt" with these objects (names bucket-relative)
//   create P | open P | openfile P FLAG -> h=K | err:CLASS          (P = hex of the gcsfs name, "bkt/…")
//   read K N | readat K N OFF           -> bytes=B err:CLASS
//   write K PAYLOAD | writeat K PAYLOAD OFF -> n=N err:CLASS
//   seek K OFF WHENCE                   -> pos=N | err:CLASS
//   trunc K N | close K                 -> ok | err:CLASS
//   hstat K | stat P                    -> info name=HEX size=N dir=BOOL | err:CLASS
//   readdir K N                         -> names=HEX[/],… err:CLASS      (sorted; "/" marks a folder)
//   mkdir P | mkdirall P | remove P | removeall P | rename P Q -> ok | err:CLASS
//   bucket                              -> objs=HEXNAME:B,…              (read directly from the fake, sorted)
//
// PAYLOAD: hex, "-" (empty) or "#N:A" (N bytes, byte i = (A+i) mod 251).  B: hex / "-" for up to
// 48 bytes, else "#LEN:HASH" with HASH = fold (h*31+b) mod 2^32.  Error CLASSES only, never messages.

import (
	"bytes"
	"context"
	"errors"
	"fmt"
	"io"
	"os"
	"sort"
	"strconv"
	"strings"
	"syscall"

	"cloud.google.com/go/storage"

	"github.com/spf13/afero/gcsfs"
	"github.com/spf13/afero/gcsfs/verifcmd/gcsdrv/corr"
)

const bucketName = "bkt"

func errClass(err error) string {
	if err == nil {
		return "-"
	}
	switch {
	case errors.Is(err, gcsfs.ErrFileClosed):
		return "closed"
	case errors.Is(err, io.EOF):
		return "eof"
	case errors.Is(err, gcsfs.ErrOutOfRange):
		return "range"
	case errors.Is(err, syscall.ENOENT), errors.Is(err, storage.ErrObjectNotExist), errors.Is(err, os.ErrNotExist):
		return "notexist"
	case errors.Is(err, syscall.ENOTEMPTY):
		return "notempty"
	case errors.Is(err, syscall.ENOTDIR):
		return "notdir"
	case errors.Is(err, syscall.EISDIR):
		return "isdir"
	case errors.Is(err, syscall.EPERM):
		return "perm"
	case errors.Is(err, gcsfs.ErrNoBucketInName):
		return "nobucketname"
	case err.Error() == gcsfs.ErrEmptyObjectName.Error():
		return "emptyname"
	case errors.Is(err, storage.ErrBucketNotExist):
		return "nobucket"
	case errors.Is(err, errFakeRange):
		return "badrange"
	}
	return "other"
}

func unhex(s string) []byte {
	if s == "-" {
		return nil
	}
	b := make([]byte, len(s)/2)
	for i := range b {
		v, err := strconv.ParseUint(s[2*i:2*i+2], 16, 8)
		if err != nil {
			panic("bad hex " + s)
		}
		b[i] = byte(v)
	}
	return b
}

func payloadOf(tok string) []byte {
	if strings.HasPrefix(tok, "#") {
		parts := strings.SplitN(tok[1:], ":", 2)
		n, a := atoi(parts[0]), atoi(parts[1])
		b := make([]byte, n)
		for i := range b {
			b[i] = byte((a + i) % 251)
		}
		return b
	}
	return unhex(tok)
}

func renderBytes(b []byte) string {
	if len(b) <= 48 {
		return corr.Hex(b)
	}
	var h uint32
	for _, x := range b {
		h = h*31 + uint32(x)
	}
	return fmt.Sprintf("#%d:%d", len(b), h)
}

func atoi(s string) int {
	n, err := strconv.Atoi(s)
	if err != nil {
		panic("bad int " + s)
	}
	return n
}

func guard(f func() string) (out string) {
	defer func() {
		if r := recover(); r != nil {
			out = "panic"
		}
	}()
	return f()
}

type gcsImpl struct {
	store *fakeStore
	fs    *gcsfs.Fs
	hs    []*gcsfs.GcsFile
}

func newImpl() *gcsImpl {
	st := newFakeStore(bucketName)
	return &gcsImpl{store: st, fs: gcsfs.NewGcsFs(context.Background(), &fakeClient{s: st})}
}

func fsErr(err error) string {
	if err != nil {
		return "err:" + errClass(err)
	}
	return "ok"
}

func infoLine(fi os.FileInfo) string {
	return fmt.Sprintf("info name=%s size=%d dir=%v", corr.HexS(fi.Name()), fi.Size(), fi.IsDir())
}

func (g *gcsImpl) opened(f *gcsfs.GcsFile, err error) string {
	if err != nil || f == nil {
		return "err:" + errClass(err)
	}
	g.hs = append(g.hs, f)
	return fmt.Sprintf("h=%d", len(g.hs)-1)
}

func (g *gcsImpl) bucketLine() string {
	var parts []string
	for _, n := range g.store.names(bucketName) {
		d, _ := g.store.get(bucketName, n)
		parts = append(parts, corr.HexS(n)+":"+renderBytes(d))
	}
	return "objs=" + strings.Join(parts, ",")
}

func (g *gcsImpl) exec(t []string) string {
	arg := func(i int) string { return string(unhex(t[i])) }
	switch t[0] {
	case "create":
		return g.opened(g.fs.Create(arg(1)))
	case "open":
		return g.opened(g.fs.Open(arg(1)))
	case "openfile":
		return g.opened(g.fs.OpenFile(arg(1), atoi(t[2]), 0))
	case "stat":
		fi, err := g.fs.Stat(arg(1))
		if err != nil {
			return "err:" + errClass(err)
		}
		return infoLine(fi)
	case "mkdir":
		return fsErr(g.fs.Mkdir(arg(1), 0o755))
	case "mkdirall":
		return fsErr(g.fs.MkdirAll(arg(1), 0o755))
	case "remove":
		return fsErr(g.fs.Remove(arg(1)))
	case "removeall":
		return fsErr(g.fs.RemoveAll(arg(1)))
	case "rename":
		return fsErr(g.fs.Rename(arg(1), arg(2)))
	case "bucket":
		return g.bucketLine()
	}
	if len(t) < 2 {
		return "bad-op"
	}
	k := atoi(t[1])
	if k < 0 || k >= len(g.hs) {
		return "err:nohandle"
	}
	h := g.hs[k]
	switch t[0] {
	case "read":
		b := make([]byte, atoi(t[2]))
		n, err := h.Read(b)
		return fmt.Sprintf("bytes=%s err:%s", renderBytes(b[:n]), errClass(err))
	case "readat":
		b := make([]byte, atoi(t[2]))
		n, err := h.ReadAt(b, int64(atoi(t[3])))
		return fmt.Sprintf("bytes=%s err:%s", renderBytes(b[:n]), errClass(err))
	case "write":
		n, err := h.Write(payloadOf(t[2]))
		return fmt.Sprintf("n=%d err:%s", n, errClass(err))
	case "readfrom": // io.Copy into the handle from a reader that offers nothing but Read: io.ReaderFrom if the handle has it, Write otherwise
		n, err := io.Copy(h, struct{ io.Reader }{bytes.NewReader(payloadOf(t[2]))})
		return fmt.Sprintf("n=%d err:%s", n, errClass(err))
	case "writeat":
		n, err := h.WriteAt(payloadOf(t[2]), int64(atoi(t[3])))
		return fmt.Sprintf("n=%d err:%s", n, errClass(err))
	case "seek":
		p, err := h.Seek(int64(atoi(t[2])), atoi(t[3]))
		if err != nil {
			return "err:" + errClass(err)
		}
		return fmt.Sprintf("pos=%d", p)
	case "trunc":
		return fsErr(h.Truncate(int64(atoi(t[2]))))
	case "close":
		return fsErr(h.Close())
	case "hstat":
		fi, err := h.Stat()
		if err != nil {
			return "err:" + errClass(err)
		}
		return infoLine(fi)
	case "readdir":
		fis, err := h.Readdir(atoi(t[2]))
		var ns []string
		for _, fi := range fis {
			n := corr.HexS(fi.Name())
			if fi.IsDir() {
				n += "/"
			}
			ns = append(ns, n)
		}
		sort.Strings(ns)
		return "names=" + strings.Join(ns, ",") + " err:" + errClass(err)
	}
	return "bad-op"
}

// outsideMark replaces the result of every script line that is not in the domain of C20 (from the
// line that leaves the discipline on): what gcsfs does there is not the property's business, so it
// is neither compared with the model nor judged by the oracle.  C20_WILD=1 keeps the raw results
// (used when maintaining the model).
const outsideMark = "<outside>"

func runImpl(c corr.Case) []string {
	out := runImplRaw(c)
	if os.Getenv("C20_WILD") != "" {
		return out
	}
	k := disciplineExit(c)
	for i := range out {
		if k >= 0 && i >= k && i > 0 {
			out[i] = outsideMark
		}
	}
	return out
}

func runImplRaw(c corr.Case) []string {
	var g *gcsImpl
	out := make([]string, 0, len(c.Lines))
	for _, line := range c.Lines {
		t := strings.Fields(line)
		if len(t) == 0 {
			out = append(out, "bad-op")
			continue
		}
		if t[0] == "case" {
			g = newImpl()
			for _, tok := range t[1:] {
				kv := strings.SplitN(tok, "=", 2)
				g.store.put(bucketName, string(unhex(kv[0])), payloadOf(kv[1]))
			}
			out = append(out, "case")
			continue
		}
		if g == nil {
			g = newImpl()
		}
		out = append(out, guard(func() string { return g.exec(t) }))
	}
	return out
}
