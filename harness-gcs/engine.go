package main

// Engine for property C20 (gcsfs stores and returns object data exactly, with virtual folders).
// Generators are driven by the flat oracle's own state, so generated scripts are inside the
// property's discipline by construction; a separate stream leaves it on purpose (correspondence
// only).

import (
	"fmt"
	"sort"
	"strings"

	"github.com/spf13/afero/gcsfs/verifcmd/gcsdrv/corr"
)

func hx(s string) string { return corr.HexS(s) }
func fsn(p string) string {
	if p == "" {
		return hx(bucketName)
	}
	return hx(bucketName + "/" + p)
}

func seqBytes(n int, start int) []byte {
	b := make([]byte, n)
	for i := range b {
		b[i] = byte(start + i)
	}
	return b
}

func layout(objs map[string][]byte) string {
	var names []string
	for n := range objs {
		names = append(names, n)
	}
	sort.Strings(names)
	parts := []string{"case"}
	for _, n := range names {
		parts = append(parts, hx(n)+"="+corr.Hex(objs[n]))
	}
	return strings.Join(parts, " ")
}

// ---------------- corpus: one case per defect / observation ----------------

func c20Corpus() []corr.Case {
	mk := func(l ...string) corr.Case { return corr.Case{Lines: l} }
	return []corr.Case{
		// S23: a child whose base name equals the folder's own name is dropped from the listing
		mk("case "+hx("d/")+"=- "+hx("d/d")+"=0102 "+hx("d/x")+"=03", "open "+fsn("d"), "readdir 0 0", "readdir 0 -1", "close 0", "bucket"),
		mk("case "+hx("d/d/y")+"=01", "open "+fsn("d"), "readdir 0 0", "open "+fsn("d/d"), "readdir 1 0"),
		// … and then Remove takes the folder for empty and deletes its placeholder
		mk("case "+hx("d/")+"=- "+hx("d/d")+"=0102", "remove "+fsn("d"), "bucket", "stat "+fsn("d")),
		// RemoveAll stops at the first implicit sub-folder: the rest of the subtree survives
		mk("case "+hx("d/e/y")+"=01 "+hx("d/x")+"=02 "+hx("z")+"=03", "removeall "+fsn("d"), "bucket", "stat "+fsn("d")),
		mk("case "+hx("d/x")+"=02 "+hx("z")+"=03", "removeall "+fsn("d"), "bucket"),
		mk("case "+hx("d/")+"=- "+hx("d/e/")+"=- "+hx("d/e/y")+"=01 "+hx("d/x")+"=02 "+hx("z")+"=03", "removeall "+fsn("d"), "bucket"),
		// write strictly inside an object keeps head and tail; close; reopen; read from an offset
		mk("case "+hx("f")+"=0102030405", "openfile "+fsn("f")+" 2", "seek 0 2 0", "write 0 aabb", "close 0", "bucket",
			"openfile "+fsn("f")+" 0", "seek 1 1 0", "read 1 10", "hstat 1", "close 1", "stat "+fsn("f")),
		// positional write then re-established position, sequential continuation, shrinking truncate
		mk("case "+hx("f")+"=0102030405", "openfile "+fsn("f")+" 2", "writeat 0 cc 1", "seek 0 3 0", "write 0 dd", "write 0 ee", "readat 0 5 0", "seek 0 0 2",
			"write 0 ff", "trunc 0 4", "close 0", "bucket"),
		// create, sequential writes, reopen through the registered resource, append
		mk("case", "create "+fsn("d/x"), "write 0 0102", "write 0 03", "close 0", "bucket", "openfile "+fsn("d/x")+" 1026", "write 1 04", "close 1", "bucket",
			"rename "+fsn("d/x")+" "+fsn("e/y"), "bucket", "openfile "+fsn("e/y")+" 514", "write 2 09", "close 2", "bucket"),
		// an object renamed over a name this Fs created and has looked at since: sizes, end-relative seeks and appends
		// through later handles are those of the NEW object
		mk("case", "create "+fsn("dst"), "write 0 0102030405", "close 0", "open "+fsn("dst"), "hstat 1", "seek 1 0 2", "close 1", "stat "+fsn("dst"),
			"create "+fsn("src"), "write 2 1112131415161718191a1b1c1d1e", "close 2", "rename "+fsn("src")+" "+fsn("dst"), "bucket",
			"stat "+fsn("dst"), "open "+fsn("dst"), "hstat 3", "seek 3 0 2", "seek 3 -2 2", "read 3 9", "close 3",
			"openfile "+fsn("dst")+" 1025", "write 4 2b2b", "close 4", "bucket", "open "+fsn("dst"), "read 5 64", "hstat 5"),
		mk("case "+hx("a")+"=0102030405060708 "+hx("b")+"=11", "openfile "+fsn("b")+" 2", "hstat 0", "close 0", "rename "+fsn("a")+" "+fsn("b"), "bucket",
			"openfile "+fsn("b")+" 2", "hstat 1", "seek 1 0 2", "write 1 ff", "close 1", "bucket"),
		// a folder next to an object whose name merely begins with the folder's name ("report/…" and "report.txt"):
		// outside the discipline of the theorems (segments are prefix-free there) — model and code must still agree
		mk("case "+hx("report/jan")+"=01 "+hx("report.txt")+"=02 "+hx("report-old/x")+"=03", "stat "+fsn("report"), "open "+fsn("report"), "readdir 0 0", "close 0",
			"remove "+fsn("report"), "removeall "+fsn("report"), "bucket", "stat "+fsn("report"), "stat "+fsn("report.txt")),
		// folder names spelled with backslashes, also a trailing one
		mk("case", "mkdir "+hx(bucketName+"\\logs\\"), "bucket", "stat "+fsn("logs"), "create "+fsn("logs/a"), "close 0", "remove "+fsn("logs/a"), "bucket",
			"removeall "+hx(bucketName+"\\logs"), "bucket", "stat "+fsn("logs"), "mkdirall "+hx(bucketName+"\\p\\q\\"), "bucket", "removeall "+fsn("p"), "bucket"),
		// a read has opened the handle's stream; a shrinking Truncate follows; reads that continue at the old position
		// see the truncated object (positional and sequential, at and behind the new end)
		mk("case "+hx("f")+"=30313233343536373839", "openfile "+fsn("f")+" 2", "read 0 4", "trunc 0 6", "readat 0 8 4", "seek 0 4 0", "read 0 8", "close 0", "bucket",
			"openfile "+fsn("f")+" 2", "read 1 1", "trunc 1 1", "readat 1 8 1", "readat 1 8 0", "hstat 1", "close 1", "bucket"),
		// io.Copy into a handle positioned inside an existing object: the bytes behind the copied range survive
		mk("case "+hx("f")+"=30313233343536373839", "openfile "+fsn("f")+" 2", "seek 0 2 0", "readfrom 0 616263", "close 0", "bucket", "stat "+fsn("f"), "open "+fsn("f"), "read 1 32",
			"create "+fsn("g"), "readfrom 2 6768", "readfrom 2 69", "close 2", "bucket"),
		// an implicit folder asked for with its trailing separator
		mk("case "+hx("report/jan")+"=01 "+hx("report/feb/x")+"=02", "stat "+hx(bucketName+"/report/"), "stat "+hx(bucketName+"\\report\\feb\\"), "stat "+fsn("report/feb"), "bucket"),
		// large payloads across the 32 KiB copy buffer
		mk("case "+hx("f")+"=#70000:3", "openfile "+fsn("f")+" 2", "seek 0 40000 0", "write 0 #5:200", "close 0", "bucket", "open "+fsn("f"), "seek 1 39998 0", "read 1 10", "readat 1 40000 30000"),
		// explicit and implicit folders, Mkdir/MkdirAll, Remove of an empty explicit folder
		mk("case "+hx("x")+"=01", "mkdir "+fsn("d"), "mkdirall "+fsn("e/d/y"), "bucket", "stat "+fsn("e/d"), "open "+fsn(""), "readdir 0 0", "remove "+fsn("d"), "remove "+fsn("e"), "removeall "+fsn("e"), "bucket"),
		// O1 (outside the domain; model and code must still agree): Readdir(count > entries) panics
		mk("case "+hx("d/x")+"=02", "open "+fsn("d"), "readdir 0 5", "readdir 0 1"),
		// outside the domain: positional calls move the handle offset, extending Truncate pads with spaces
		mk("case "+hx("f")+"=010203", "openfile "+fsn("f")+" 2", "writeat 0 aa 1", "write 0 bb", "readat 0 1 0", "read 0 5", "trunc 0 6", "close 0", "bucket"),
	}
}

// ---------------- exhaustive tables ----------------

// data table: every pair of in-discipline handle ops on an object of every small size
func dataMenu(size int) [][]string {
	var m [][]string
	pay := func(n int) string { return corr.Hex([]byte{0xa1, 0xa2, 0xa3}[:n]) }
	for off := 0; off <= size; off++ {
		for ln := 0; ln <= 2; ln++ {
			m = append(m, []string{fmt.Sprintf("seek 0 %d 0", off), "write 0 " + pay(ln)})
			m = append(m, []string{fmt.Sprintf("writeat 0 %s %d", pay(ln), off)})
		}
		for _, n := range []int{0, 1, 3} {
			m = append(m, []string{fmt.Sprintf("seek 0 %d 0", off), fmt.Sprintf("read 0 %d", n)})
			m = append(m, []string{fmt.Sprintf("readat 0 %d %d", n, off)})
		}
		m = append(m, []string{fmt.Sprintf("trunc 0 %d", off)})
		m = append(m, []string{fmt.Sprintf("seek 0 %d 2", off-size), "write 0 b1"})
	}
	m = append(m, []string{"write 0 c1c2"}, []string{"read 0 2"}, []string{"hstat 0"}, []string{"seek 0 0 1"},
		[]string{"close 0", "openfile " + fsn("f") + " 2", "seek 1 0 2", "write 1 d1", "close 1"})
	return m
}

func c20Exhaustive(tier string) []corr.Case {
	var cases []corr.Case
	maxSize := 3
	if tier == "thorough" {
		maxSize = 5
	}
	for size := 0; size <= maxSize; size++ {
		menu := dataMenu(size)
		hdr := "case " + hx("f") + "=" + corr.Hex(seqBytes(size, 0x11)) + " " + hx("g") + "=7777"
		for _, a := range menu {
			for _, b := range menu {
				l := []string{hdr, "openfile " + fsn("f") + " 2"}
				l = append(l, a...)
				l = append(l, b...)
				l = append(l, "close 0", "bucket", "open "+fsn("f"), "read 2 9", "read 2 1", "close 2")
				// handle numbers: the reopen inside the menu (if any) took 1; otherwise the final open is 1
				if !strings.Contains(strings.Join(l, ";"), "openfile "+fsn("f")+" 2;seek 1") {
					l[len(l)-3], l[len(l)-2], l[len(l)-1] = "read 1 9", "read 1 1", "close 1"
				}
				cases = append(cases, corr.Case{Lines: l})
			}
		}
	}
	// created (registered) objects: the same single ops after Create + a first write
	for size := 0; size <= maxSize; size++ {
		for _, a := range dataMenu(size) {
			l := []string{"case", "create " + fsn("f"), "write 0 " + corr.Hex(seqBytes(size, 0x11))}
			l = append(l, a...)
			l = append(l, "close 0", "bucket", "stat "+fsn("f"))
			cases = append(cases, corr.Case{Lines: l})
		}
	}
	// folder table: every subset of a small universe of object names (explicit and implicit folders,
	// a child named like its folder, nesting) x every observation and every folder operation
	uni := []string{"d/", "d/d", "d/x", "d/e/", "d/e/y", "x", "e/y", "e/"}
	targets := []string{"", "d", "d/d", "d/e", "d/x", "x", "e", "y", "d/e/y"}
	for mask := 0; mask < 1<<len(uni); mask++ {
		objs := map[string][]byte{}
		for i, n := range uni {
			if mask&(1<<i) != 0 {
				objs[n] = nil
				if !strings.HasSuffix(n, "/") {
					objs[n] = []byte{byte(i + 1)}
				}
			}
		}
		hdr := layout(objs)
		obs := []string{hdr, "bucket"}
		k := 0
		for _, tgt := range targets {
			obs = append(obs, "stat "+fsn(tgt))
			if _, isObj := objs[tgt]; isObj || hasUnder(objs, tgt) || tgt == "" {
				obs = append(obs, "open "+fsn(tgt), fmt.Sprintf("readdir %d 0", k), fmt.Sprintf("readdir %d -1", k), fmt.Sprintf("close %d", k))
				k++
			}
		}
		obs = append(obs, "bucket")
		cases = append(cases, corr.Case{Lines: obs})
		for _, tgt := range targets[1:] {
			for _, op := range []string{"remove", "removeall", "mkdir", "mkdirall"} {
				cases = append(cases, corr.Case{Lines: []string{hdr, op + " " + fsn(tgt), "bucket", "stat " + fsn(tgt), "stat " + fsn("d"), "open " + fsn(""), "readdir 0 0"}})
			}
			if mask%4 == 1 { // a folder named with its trailing separator, in either spelling
				for _, op := range []string{"mkdir", "mkdirall"} {
					for _, nm := range []string{bucketName + "/" + tgt + "/", strings.ReplaceAll(bucketName+"/"+tgt, "/", "\\") + "\\"} {
						cases = append(cases, corr.Case{Lines: []string{hdr, op + " " + hx(nm), "bucket", "stat " + fsn(tgt), "open " + fsn(""), "readdir 0 0"}})
					}
				}
			}
		}
		if tier == "thorough" || mask%8 == 5 {
			for _, a := range []string{"d/d", "d/x", "x", "e/y", "d"} {
				for _, b := range []string{"x", "d/y", "z/x", "e/y"} {
					cases = append(cases, corr.Case{Lines: []string{hdr, "rename " + fsn(a) + " " + fsn(b), "bucket"}})
				}
			}
		}
	}
	return cases
}

func hasUnder(objs map[string][]byte, p string) bool {
	for n := range objs {
		if strings.HasPrefix(n, p+"/") {
			return true
		}
	}
	return false
}

// ---------------- random: in-discipline programs generated from the oracle's own state ----------------

var segs = []string{"d", "e", "x", "y", "z"} // prefix-free

func randPath(r *corr.Rand, depth int) string {
	n := 1 + r.Intn(depth)
	var s []string
	for i := 0; i < n; i++ {
		s = append(s, corr.Pick(r, segs))
	}
	return strings.Join(s, "/")
}

func randPayload(r *corr.Rand) string {
	switch k := r.Intn(100); {
	case k < 8:
		return "-"
	case k < 11:
		return fmt.Sprintf("#%d:%d", 100+r.Intn(70000), r.Intn(250))
	default:
		n := 1 + r.Intn(6)
		b := make([]byte, n)
		for i := range b {
			b[i] = byte(1 + r.Intn(250))
		}
		return corr.Hex(b)
	}
}

func spelling(r *corr.Rand, p string) string {
	full := bucketName
	if p != "" {
		full += "/" + p
	}
	switch k := r.Intn(100); {
	case k < 8:
		return hx("/" + full)
	case k < 12:
		return hx("gs://" + full)
	case k < 15:
		return hx(strings.ReplaceAll(full, "/", "\\"))
	}
	return hx(full)
}

// folderSpelling is spelling for a name that is about to become a folder: one time in three it carries its
// trailing separator, in the spelling's own separator ("bkt/logs/", "bkt\\logs\\").
func folderSpelling(r *corr.Rand, p string) string {
	h := spelling(r, p)
	if p == "" || !r.Chance(33) {
		return h
	}
	raw := string(unhex(h))
	if strings.Contains(raw, "\\") {
		return hx(raw + "\\")
	}
	return hx(raw + "/")
}

func randLayout(r *corr.Rand) map[string][]byte {
	objs := map[string][]byte{}
	o := newOrc()
	n := r.Intn(7)
	for i := 0; i < n; i++ {
		p := randPath(r, 3)
		cand := p
		var data []byte
		if r.Chance(30) {
			cand = p + "/"
		} else {
			data = payloadOf(randPayload(r))
			if len(data) > 64 && r.Chance(70) {
				data = data[:r.Intn(12)]
			}
		}
		o.objs[cand] = data
		if !o.consistent() {
			delete(o.objs, cand)
			continue
		}
		objs[cand] = data
	}
	return objs
}

func layoutLine(objs map[string][]byte) string {
	var names []string
	for n := range objs {
		names = append(names, n)
	}
	sort.Strings(names)
	parts := []string{"case"}
	for _, n := range names {
		d := objs[n]
		tok := corr.Hex(d)
		if len(d) > 64 {
			// keep big seeds compact when they are a (A+i) mod 251 run
			ok := true
			for i := range d {
				if d[i] != byte((int(d[0])+i)%251) {
					ok = false
					break
				}
			}
			if ok {
				tok = fmt.Sprintf("#%d:%d", len(d), d[0])
			}
		}
		parts = append(parts, hx(n)+"="+tok)
	}
	return strings.Join(parts, " ")
}

// one in-discipline program
func randProgram(r *corr.Rand, steps int) corr.Case {
	objs := randLayout(r)
	hdr := layoutLine(objs)
	o := newOrc()
	o.step(strings.Fields(hdr))
	lines := []string{hdr}
	emit := func(l string) bool {
		c := o.clone()
		func() {
			defer func() {
				if recover() != nil {
					c.off = true
				}
			}()
			c.step(strings.Fields(l))
		}()
		if c.off || !c.consistent() {
			return false
		}
		*o = *c
		lines = append(lines, l)
		return true
	}
	files := func() []string {
		var fs []string
		for n := range o.objs {
			if !strings.HasSuffix(n, "/") {
				fs = append(fs, n)
			}
		}
		sort.Strings(fs)
		return fs
	}
	folders := func() []string {
		set := map[string]bool{}
		for n := range o.objs {
			s := strings.Split(strings.TrimSuffix(n, "/"), "/")
			top := len(s)
			if !strings.HasSuffix(n, "/") {
				top--
			}
			for i := 1; i <= top; i++ {
				set[strings.Join(s[:i], "/")] = true
			}
		}
		var fs []string
		for k := range set {
			fs = append(fs, k)
		}
		sort.Strings(fs)
		return fs
	}
	openHs := func(dir bool) []int {
		var ks []int
		for i, h := range o.hs {
			if !h.closed && h.dir == dir {
				ks = append(ks, i)
			}
		}
		return ks
	}
	for s := 0; s < steps; s++ {
		fhs := openHs(false)
		roll := r.Intn(100)
		switch {
		case len(fhs) > 0 && roll < 55: // handle I/O
			k := corr.Pick(r, fhs)
			h := o.hs[k]
			L := int64(len(o.objs[h.path]))
			off := int64(0)
			if L > 0 {
				off = corr.Pick(r, []int64{0, 1, L - 1, L, L / 2, int64(r.Intn(int(L) + 1))})
				if off < 0 || off > L {
					off = L
				}
			}
			switch q := r.Intn(100); {
			case q < 22:
				if !h.posKnown {
					emit(fmt.Sprintf("seek %d %d 0", k, off))
				}
				if pl := randPayload(r); pl != "-" && !strings.HasPrefix(pl, "#") && r.Chance(25) {
					emit(fmt.Sprintf("readfrom %d %s", k, pl)) // io.Copy into the handle from a plain reader (one piece): a sequential Write
				} else {
					emit(fmt.Sprintf("write %d %s", k, pl))
				}
			case q < 36:
				emit(fmt.Sprintf("writeat %d %s %d", k, randPayload(r), off))
			case q < 52:
				if !h.posKnown {
					emit(fmt.Sprintf("seek %d %d 0", k, off))
				}
				emit(fmt.Sprintf("read %d %d", k, corr.Pick(r, []int{0, 1, 2, 5, 9, 40000})))
			case q < 64:
				emit(fmt.Sprintf("readat %d %d %d", k, corr.Pick(r, []int{0, 1, 3, 8}), off))
			case q < 78:
				switch r.Intn(3) {
				case 0:
					emit(fmt.Sprintf("seek %d %d 0", k, off))
				case 1:
					emit(fmt.Sprintf("seek %d %d 2", k, off-L))
				default:
					if h.posKnown {
						emit(fmt.Sprintf("seek %d %d 1", k, off-h.pos))
					}
				}
			case q < 86:
				emit(fmt.Sprintf("trunc %d %d", k, off))
			case q < 90:
				emit(fmt.Sprintf("hstat %d", k))
			default:
				if emit(fmt.Sprintf("close %d", k)) {
					emit("bucket")
				}
			}
		case roll < 63:
			if emit("create " + spelling(r, randPath(r, 3))) {
				emit("bucket")
			}
		case roll < 74:
			if fs := files(); len(fs) > 0 {
				flag := corr.Pick(r, []int{0, 1, 2, 2, 2, 2 | 512, 1 | 512, 2 | 1024, 1 | 1024})
				emit(fmt.Sprintf("openfile %s %d", spelling(r, corr.Pick(r, fs)), flag))
			}
		case roll < 80:
			names := append(files(), folders()...)
			names = append(names, randPath(r, 3), "")
			emit("stat " + folderSpelling(r, corr.Pick(r, names)))
		case roll < 86:
			fo := append(folders(), "")
			if emit("open " + spelling(r, corr.Pick(r, fo))) {
				k := len(o.hs) - 1
				emit(fmt.Sprintf("readdir %d %d", k, -r.Intn(2)))
				emit(fmt.Sprintf("close %d", k))
			}
		case roll < 89:
			op := "mkdir "
			if r.Bool() {
				op = "mkdirall "
			}
			if emit(op + folderSpelling(r, randPath(r, 3))) {
				emit("bucket")
			}
		case roll < 93:
			names := append(files(), folders()...)
			names = append(names, randPath(r, 2))
			if emit("remove " + spelling(r, corr.Pick(r, names))) {
				emit("bucket")
			}
		case roll < 97:
			names := append(files(), folders()...)
			names = append(names, randPath(r, 2))
			if emit("removeall " + spelling(r, corr.Pick(r, names))) {
				emit("bucket")
			}
		default:
			if fs := files(); len(fs) > 0 {
				dst := randPath(r, 3)
				if r.Chance(40) { // over a name that exists (and that this Fs may have handled before)
					dst = corr.Pick(r, fs)
				}
				if emit("rename " + spelling(r, corr.Pick(r, fs)) + " " + spelling(r, dst)) {
					emit("bucket")
				}
			}
		}
	}
	for _, k := range openHs(false) {
		emit(fmt.Sprintf("close %d", k))
	}
	emit("bucket")
	// read everything back through fresh handles
	for _, f := range files() {
		if emit("open " + fsn(f)) {
			k := len(o.hs) - 1
			emit(fmt.Sprintf("read %d 100000", k))
			emit(fmt.Sprintf("close %d", k))
		}
	}
	return corr.Case{Lines: lines}
}

// a program that leaves the discipline on purpose (model and code must still agree)
func wildProgram(r *corr.Rand, steps int) corr.Case {
	names := []string{"d", "d/x", "d/d", "dog", "d/e/y", "x", "e", "x/y", ""}
	objs := map[string][]byte{}
	for i := 0; i < r.Intn(5); i++ {
		n := corr.Pick(r, []string{"d/", "d/x", "d/d", "dog", "d/e/y", "x", "e/", "x/y", "d/e/"})
		objs[n] = payloadOf(corr.Hex(seqBytes(r.Intn(5), 1)))
	}
	lines := []string{layout(objs)}
	nh := 0
	for s := 0; s < steps; s++ {
		p := fsn(corr.Pick(r, names))
		k := 0
		if nh > 0 {
			k = r.Intn(nh)
		}
		off := r.Intn(8) - 1
		var l string
		switch q := r.Intn(100); {
		case q < 8:
			l = "create " + p
			nh++
		case q < 20:
			l = fmt.Sprintf("openfile %s %d", p, corr.Pick(r, []int{0, 1, 2, 64, 66, 2 | 512, 2 | 1024, 2 | 64 | 512, 1089}))
			nh++
		case q < 30:
			l = fmt.Sprintf("write %d %s", k, corr.Hex(seqBytes(r.Intn(4), 0xa0)))
		case q < 38:
			l = fmt.Sprintf("writeat %d %s %d", k, corr.Hex(seqBytes(r.Intn(4), 0xb0)), off)
		case q < 46:
			l = fmt.Sprintf("read %d %d", k, r.Intn(5))
		case q < 52:
			l = fmt.Sprintf("readat %d %d %d", k, r.Intn(5), off)
		case q < 60:
			l = fmt.Sprintf("seek %d %d %d", k, off, r.Intn(3))
		case q < 65:
			l = fmt.Sprintf("trunc %d %d", k, off+1)
		case q < 70:
			l = fmt.Sprintf("close %d", k)
		case q < 74:
			l = fmt.Sprintf("hstat %d", k)
		case q < 79:
			l = fmt.Sprintf("readdir %d %d", k, r.Intn(4)-1)
		case q < 83:
			l = "stat " + p
		case q < 86:
			l = "mkdir " + p
		case q < 88:
			l = "mkdirall " + p
		case q < 92:
			l = "remove " + p
		case q < 95:
			l = "removeall " + p
		case q < 98:
			l = "rename " + p + " " + fsn(corr.Pick(r, names))
		default:
			l = "bucket"
		}
		lines = append(lines, l)
	}
	lines = append(lines, "bucket")
	return corr.Case{Lines: lines, Tag: "malformed"}
}

func c20Random(r *corr.Rand, tier string) []corr.Case {
	n := 1500
	if tier == "thorough" {
		n = 40000
	}
	var cases []corr.Case
	for i := 0; i < n; i++ {
		rr := r.Fork()
		if i%20 == 19 {
			cases = append(cases, wildProgram(rr, 6+rr.Intn(20)))
		} else {
			cases = append(cases, randProgram(rr, 8+rr.Intn(40)))
		}
	}
	return cases
}

// ---------------- engine ----------------

func c20Oracle(c corr.Case, impl []string) (string, int) {
	w, line, _ := runOracle(c, impl)
	return w, line
}

func c20NonTrivial(c corr.Case, impl []string) bool {
	_, _, o := runOracle(c, impl)
	return !o.off && ((o.insideWrite && o.insideReread) || o.implicitFolderOp)
}

func c20Classify(c corr.Case, impl []string, hist map[string]int) {
	for i, line := range c.Lines {
		t := strings.Fields(line)
		if len(t) == 0 {
			continue
		}
		hist["op:"+t[0]]++
		if i < len(impl) {
			if k := strings.Index(impl[i], "err:"); k >= 0 {
				hist["err:"+impl[i][k+4:]]++
			}
			if impl[i] == "panic" {
				hist["panic"]++
			}
		}
	}
	_, _, o := runOracle(c, impl)
	if o.off {
		hist["discipline:left"]++
		if k := disciplineExit(c); k >= 0 && k < len(c.Lines) {
			hist["left-at:"+c.Tag+":"+strings.Fields(c.Lines[k])[0]]++
		}
	} else {
		hist["discipline:inside"]++
	}
	for name, b := range map[string]bool{"inside-write": o.insideWrite, "reread-after-inside-write": o.insideReread,
		"implicit-folder-op": o.implicitFolderOp, "truncate-shrink": o.truncShrink, "append-open": o.appendOpen} {
		if b {
			hist["branch:"+name]++
		}
	}
}

func c20Signature(c corr.Case, impl []string, what string, line int) string {
	if line >= 0 && line < len(c.Lines) {
		t := strings.Fields(c.Lines[line])
		w := strings.SplitN(what, ":", 2)[0]
		for { // object names do not belong in a signature
			i := strings.Index(w, "\"")
			if i < 0 {
				break
			}
			j := strings.Index(w[i+1:], "\"")
			if j < 0 {
				break
			}
			w = w[:i] + "<name>" + w[i+j+2:]
		}
		return "C20:" + t[0] + ":" + w
	}
	return "C20:?"
}

// Search: append observations after a disagreeing case (a difference in the store shows at the next dump)
func c20Search(c corr.Case, r *corr.Rand) []corr.Case {
	var out []corr.Case
	for _, tail := range [][]string{{"bucket"}, {"open " + fsn(""), "readdir 0 0", "bucket"}, {"open " + fsn("d"), "readdir 0 0", "bucket"}} {
		l := append(append([]string{}, c.Lines...), tail...)
		out = append(out, corr.Case{Lines: l, Tag: "search"})
	}
	return out
}

func C20() *corr.Engine {
	return &corr.Engine{
		ID: "C20", DriverEngine: "gcs",
		Corpus: c20Corpus, Exhaustive: c20Exhaustive, Random: c20Random,
		RunImpl: runImpl, Oracle: c20Oracle, NonTrivial: c20NonTrivial,
		Rule:      "program inside the discipline with a write strictly inside an existing object followed by close and a re-read through a new handle, or a folder operation (stat, listing, Remove, RemoveAll) on an implicit folder; distinct by script hash",
		Signature: c20Signature, Classify: c20Classify, Search: c20Search,
		CompareLine: func(impl, model string) bool { return impl == outsideMark },
	}
}
