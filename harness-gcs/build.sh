#!/bin/sh
# build.sh <repo-dir> <out-binary>
# Builds the C20 harness INSIDE the gcsfs module tree of <repo-dir> through a build overlay
# (needed for gcsfs/internal/stiface); <repo-dir> itself is not touched.
set -e
REPO=$(cd "${1:-/repo}" && pwd)
OUT=${2:-/tmp/gcsdrv}
HERE=$(cd "$(dirname "$0")" && pwd)
CORR="$HERE/../harness/corr/corr.go"
TMP=$(mktemp -d /tmp/verif-gcs-overlay.XXXXXX)
trap 'rm -rf "$TMP"' EXIT
V="$REPO/gcsfs/verifcmd/gcsdrv"
{
  printf '{"Replace":{\n'
  for f in "$HERE"/*.go; do
    printf '  "%s/%s": "%s",\n' "$V" "$(basename "$f")" "$f"
  done
  printf '  "%s/corr/corr.go": "%s"\n' "$V" "$CORR"
  printf '}}\n'
} > "$TMP/overlay.json"
export GOFLAGS=-mod=mod GOPROXY=off GOSUMDB=off GOTOOLCHAIN=local
cd "$REPO/gcsfs"
go build -overlay "$TMP/overlay.json" -o "$OUT" ./verifcmd/gcsdrv
