package main

// An in-memory fake of the Google Cloud Storage client, behind gcsfs' internal `stiface`
// interfaces.  It is compiled into the gcsfs module tree for checks only (go build -overlay);
// nothing in /repo refers to it.
//
// STATED SEMANTICS (this is what property C20 assumes of "an object store with GCS semantics";
// the Lean model AferoVerif/Model/Gcs.lean has the same definitions, function by function):
//
//   * A store is a set of buckets; a bucket maps an object name (any non-empty string) to
//     (bytes, updated).  `updated` is a logical counter, never compared.
//   * BucketHandle.Attrs: nil error for an existing bucket, storage.ErrBucketNotExist otherwise.
//   * ObjectHandle.Attrs:   empty name -> error "storage: object name is empty";
//                           missing    -> storage.ErrObjectNotExist (the sentinel itself);
//                           else Name, Bucket, Size, Updated.
//     These are exactly the two errors gcsfs matches by message / identity.
//   * NewWriter never fails; Write buffers; Close atomically replaces the whole object by the
//     buffered bytes (creates it when missing) — nothing is visible before Close.  Close on the
//     empty name fails like Attrs; on a missing bucket with storage.ErrBucketNotExist.  A second
//     Close, or a Write after Close, is an error.  CloseWithError discards the buffer.
//   * NewRangeReader(off, length): empty name / missing object fail as for Attrs; off > size
//     fails ("range not satisfiable"); off < 0 fails (real GCS would serve a suffix: outside
//     the domain of C20).  Otherwise the reader is a snapshot of bytes [off, off+length) clipped
//     to the object (length < 0: to the end), taken when the reader is created: a later
//     replacement of the object does not affect it (GCS pins the generation).  Read copies
//     min(len(p), remaining) bytes; it returns (0, io.EOF) exactly when nothing remains.
//     Remain() is the number of unread bytes.  NewReader = NewRangeReader(0, -1).
//   * Delete: empty name / missing object fail as for Attrs; else the object is gone.
//   * CopierFrom(src).Run: src missing -> storage.ErrObjectNotExist; else dst := bytes of src.
//   * Objects(query{Prefix, Delimiter}): considers the objects whose name starts with Prefix,
//     in ascending byte order of names.  If Delimiter is non-empty and occurs in the rest of
//     the name after Prefix, the object is rolled up into the prefix
//     Prefix+rest[:first delimiter]+Delimiter; otherwise it is an item (Name, Size, Updated).
//     The iterator returns all items in name order, then every distinct rolled-up prefix once
//     (Prefix field only), in order, then iterator.Done.  The listing is computed at the first
//     Next().  A folder placeholder such as "d/" is an ordinary (empty) object: it is an item of
//     the listing with Prefix "d/" and is rolled up into the prefix "d/" for Prefix "" or "d".
//     Versions, offsets and match globs of the query are not supported (gcsfs does not use them).

import (
	"context"
	"errors"
	"io"
	"sort"
	"strings"
	"time"

	"cloud.google.com/go/storage"
	"google.golang.org/api/iterator"

	"github.com/spf13/afero/gcsfs/internal/stiface"
)

var (
	errFakeEmptyName = errors.New("storage: object name is empty")
	errFakeRange     = errors.New("storage: requested range not satisfiable")
	errFakeClosed    = errors.New("storage: writer already closed")
)

type fakeObj struct {
	data    []byte
	updated time.Time
}

type fakeStore struct {
	buckets map[string]map[string]*fakeObj
	tick    int64
}

func newFakeStore(buckets ...string) *fakeStore {
	s := &fakeStore{buckets: map[string]map[string]*fakeObj{}}
	for _, b := range buckets {
		s.buckets[b] = map[string]*fakeObj{}
	}
	return s
}

func (s *fakeStore) now() time.Time {
	s.tick++
	return time.Unix(1_700_000_000+s.tick, 0)
}

// put / names / get are used by the harness to seed and to read the bucket directly
func (s *fakeStore) put(bucket, name string, data []byte) {
	s.buckets[bucket][name] = &fakeObj{data: append([]byte(nil), data...), updated: s.now()}
}

func (s *fakeStore) names(bucket string) []string {
	var ns []string
	for n := range s.buckets[bucket] {
		ns = append(ns, n)
	}
	sort.Strings(ns)
	return ns
}

func (s *fakeStore) get(bucket, name string) ([]byte, bool) {
	o, ok := s.buckets[bucket][name]
	if !ok {
		return nil, false
	}
	return o.data, true
}

// ---- Client ----

type fakeClient struct {
	stiface.Client
	s *fakeStore
}

func (c *fakeClient) Bucket(name string) stiface.BucketHandle { return &fakeBucket{s: c.s, name: name} }
func (c *fakeClient) Close() error                            { return nil }

// ---- BucketHandle ----

type fakeBucket struct {
	stiface.BucketHandle
	s    *fakeStore
	name string
}

func (b *fakeBucket) Attrs(context.Context) (*storage.BucketAttrs, error) {
	if _, ok := b.s.buckets[b.name]; !ok {
		return nil, storage.ErrBucketNotExist
	}
	return &storage.BucketAttrs{Name: b.name}, nil
}

func (b *fakeBucket) Object(name string) stiface.ObjectHandle {
	return &fakeObject{s: b.s, bucket: b.name, name: name}
}

func (b *fakeBucket) Objects(_ context.Context, q *storage.Query) stiface.ObjectIterator {
	it := &fakeIter{s: b.s, bucket: b.name}
	if q != nil {
		it.prefix, it.delim = q.Prefix, q.Delimiter
	}
	return it
}

// ---- ObjectIterator ----

type fakeIter struct {
	stiface.ObjectIterator
	s             *fakeStore
	bucket        string
	prefix, delim string
	started       bool
	out           []*storage.ObjectAttrs
}

func (it *fakeIter) Next() (*storage.ObjectAttrs, error) {
	if !it.started {
		it.started = true
		objs, ok := it.s.buckets[it.bucket]
		if !ok {
			return nil, storage.ErrBucketNotExist
		}
		var prefixes []string
		seen := map[string]bool{}
		for _, n := range it.s.names(it.bucket) {
			if !strings.HasPrefix(n, it.prefix) {
				continue
			}
			rest := n[len(it.prefix):]
			if it.delim != "" {
				if i := strings.Index(rest, it.delim); i >= 0 {
					p := it.prefix + rest[:i+len(it.delim)]
					if !seen[p] {
						seen[p] = true
						prefixes = append(prefixes, p)
					}
					continue
				}
			}
			o := objs[n]
			it.out = append(it.out, &storage.ObjectAttrs{Bucket: it.bucket, Name: n, Size: int64(len(o.data)), Updated: o.updated})
		}
		sort.Strings(prefixes)
		for _, p := range prefixes {
			it.out = append(it.out, &storage.ObjectAttrs{Prefix: p})
		}
	}
	if _, ok := it.s.buckets[it.bucket]; !ok {
		return nil, storage.ErrBucketNotExist
	}
	if len(it.out) == 0 {
		return nil, iterator.Done
	}
	r := it.out[0]
	it.out = it.out[1:]
	return r, nil
}

func (it *fakeIter) PageInfo() *iterator.PageInfo { return nil }

// ---- ObjectHandle ----

type fakeObject struct {
	stiface.ObjectHandle
	s            *fakeStore
	bucket, name string
}

func (o *fakeObject) lookup() (*fakeObj, error) {
	if o.name == "" {
		return nil, errFakeEmptyName
	}
	b, ok := o.s.buckets[o.bucket]
	if !ok {
		return nil, storage.ErrObjectNotExist
	}
	obj, ok := b[o.name]
	if !ok {
		return nil, storage.ErrObjectNotExist
	}
	return obj, nil
}

func (o *fakeObject) Attrs(context.Context) (*storage.ObjectAttrs, error) {
	obj, err := o.lookup()
	if err != nil {
		return nil, err
	}
	return &storage.ObjectAttrs{Bucket: o.bucket, Name: o.name, Size: int64(len(obj.data)), Updated: obj.updated}, nil
}

func (o *fakeObject) NewReader(ctx context.Context) (stiface.Reader, error) {
	return o.NewRangeReader(ctx, 0, -1)
}

func (o *fakeObject) NewRangeReader(_ context.Context, off, length int64) (stiface.Reader, error) {
	obj, err := o.lookup()
	if err != nil {
		return nil, err
	}
	size := int64(len(obj.data))
	if off < 0 || off > size {
		return nil, errFakeRange
	}
	end := size
	if length >= 0 && off+length < size {
		end = off + length
	}
	return &fakeReader{data: append([]byte(nil), obj.data[off:end]...), size: size}, nil
}

func (o *fakeObject) NewWriter(context.Context) stiface.Writer {
	return &fakeWriter{o: o}
}

func (o *fakeObject) Delete(context.Context) error {
	if _, err := o.lookup(); err != nil {
		return err
	}
	delete(o.s.buckets[o.bucket], o.name)
	return nil
}

func (o *fakeObject) CopierFrom(src stiface.ObjectHandle) stiface.Copier {
	return &fakeCopier{dst: o, src: src.(*fakeObject)}
}

// ---- Reader ----

type fakeReader struct {
	stiface.Reader
	data   []byte // unread part of the snapshot
	size   int64
	closed bool
}

func (r *fakeReader) Read(p []byte) (int, error) {
	if len(r.data) == 0 {
		return 0, io.EOF
	}
	n := copy(p, r.data)
	r.data = r.data[n:]
	return n, nil
}
func (r *fakeReader) Close() error  { r.closed = true; return nil }
func (r *fakeReader) Size() int64   { return r.size }
func (r *fakeReader) Remain() int64 { return int64(len(r.data)) }

// ---- Writer ----

type fakeWriter struct {
	stiface.Writer
	o      *fakeObject
	buf    []byte
	closed bool
}

func (w *fakeWriter) Write(p []byte) (int, error) {
	if w.closed {
		return 0, errFakeClosed
	}
	w.buf = append(w.buf, p...)
	return len(p), nil
}

func (w *fakeWriter) Close() error {
	if w.closed {
		return errFakeClosed
	}
	if w.o.name == "" {
		return errFakeEmptyName
	}
	b, ok := w.o.s.buckets[w.o.bucket]
	if !ok {
		return storage.ErrBucketNotExist
	}
	w.closed = true
	b[w.o.name] = &fakeObj{data: w.buf, updated: w.o.s.now()}
	w.buf = nil
	return nil
}

func (w *fakeWriter) CloseWithError(error) error { w.closed = true; w.buf = nil; return nil }
func (w *fakeWriter) ObjectAttrs() *storage.ObjectAttrs {
	return &storage.ObjectAttrs{Bucket: w.o.bucket, Name: w.o.name}
}
func (w *fakeWriter) Attrs() *storage.ObjectAttrs { return w.ObjectAttrs() }
func (w *fakeWriter) SetChunkSize(int)            {}
func (w *fakeWriter) SetProgressFunc(func(int64)) {}
func (w *fakeWriter) SetCRC32C(uint32)            {}

// ---- Copier ----

type fakeCopier struct {
	stiface.Copier
	dst, src *fakeObject
}

func (c *fakeCopier) Run(context.Context) (*storage.ObjectAttrs, error) {
	obj, err := c.src.lookup()
	if err != nil {
		return nil, err
	}
	if c.dst.name == "" {
		return nil, errFakeEmptyName
	}
	b, ok := c.dst.s.buckets[c.dst.bucket]
	if !ok {
		return nil, storage.ErrBucketNotExist
	}
	n := &fakeObj{data: append([]byte(nil), obj.data...), updated: c.dst.s.now()}
	b[c.dst.name] = n
	return &storage.ObjectAttrs{Bucket: c.dst.bucket, Name: c.dst.name, Size: int64(len(n.data)), Updated: n.updated}, nil
}
