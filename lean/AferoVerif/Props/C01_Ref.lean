/-
  Property C01, further clauses — MemMapFs against a POSIX-style reference.

  `view m : Key → Option Node` is what a state says about a name (regular file with bytes and mode, or
  directory with mode) — no object identities, no per-directory indexes, no handles, no times.  The
  reference operations (`refRemove`, `refRemoveAll`, `refMkdir`, `refCreate`, `refRename…`, `refChmod`,
  `refOpenFile`; `refStep` for a whole call) are one-line functions on views that a reader can hold
  against POSIX (Proofs/MemFsRef.lean).  Proved here: every operation of the model, under the
  preconditions the property states, does to the view exactly what the reference operation does; listings
  show exactly the children; failed calls keep the view; and the lift to whole programs.

  PARTIAL (what the program-level theorem leaves out, and the exploration decides): handle writes (which
  name a handle writes to is not a function of the view: the per-handle byte semantics is C02's theorem,
  and `tree_consistent_fragment` covers the index through them), creation with missing ancestors (the
  reference assumes, like the property, that parents exist), and the comparison of this reference with the
  real operating system, which is the OS-twin oracle of the correspondence run.
-/
import AferoVerif.Proofs.MemFsRef
namespace AferoVerif.C01
open AferoVerif AferoVerif.Path AferoVerif.MemFs

/-- **MemMapFs refines the reference, call by call**: in a consistent state, a call that meets the
    property's preconditions (`WFop'`: parents exist as directories, files and directories are not confused,
    only files or empty directories are removed, renames move a file, an empty directory or a whole subtree
    to a free name or replace leaf by leaf; any open, stat, metadata call, listing, read, seek, close) leaves
    exactly the view the reference operation computes from the view before -/
theorem memfs_refines_reference_step (m : MemFs) (hc : Consistent m) (hk : KeysNodup m) (ho : ObjsOK m) (op : Op)
    (hw : WFop' m op) : view (m.step op).1 = refStep (view m) op :=
  step_refines m hc hk ho op hw

/-- **… and program by program, from the empty filesystem**: after any well-formed program (without writes
    through handles) the tree MemMapFs exposes is the one the reference interpreter computes -/
theorem memfs_refines_reference (ops : List Op) (hw : WFrun' MemFs.init ops) :
    view (run MemFs.init ops) = ops.foldl refStep refInit :=
  run_refines_init ops hw

/-- **renaming a directory moves its whole subtree with contents intact**: every name below the old
    directory is found below the new one with the same bytes and mode (or as the same kind of directory),
    and nothing is left at or below the old name -/
theorem rename_moves_subtree_intact (m : MemFs) (hc : Consistent m) (hk : KeysNodup m) (ho : ObjsOK m) (a b : Str)
    (h : RenameSubtree m (keyOfStr a) (keyOfStr b)) (k : Key) (hu : isUnder (keyOfStr a) k = true) :
    view (m.step (.rename a b)).1 (rePrefix (keyOfStr a) (keyOfStr b) k) = view m k ∧
      view (m.step (.rename a b)).1 k = none ∧
      view (m.step (.rename a b)).1 (keyOfStr b) = view m (keyOfStr a) ∧
      view (m.step (.rename a b)).1 (keyOfStr a) = none :=
  rename_dir_subtree_intact m hc hk ho a b h k hu

/-- **Stat reads the view**: existence, kind, size and mode bits are a function of the view alone -/
theorem stat_is_view (m : MemFs) (hc : Consistent m) (k : Key) :
    m.stat k = match view m k with
      | none => .err .notexist
      | some (.file d md) => .info (baseName k) d.length false md
      | some (.dir md) => .info (baseName k) 42 true md :=
  stat_reads_view m hc k

/-- **a directory lists exactly its children**: the per-directory index holds a name iff the name exists,
    is not the root, and its parent is that directory -/
theorem index_is_children (m : MemFs) (hc : Consistent m) (k : Key) (p : Nat) (d : List (Key × Nat))
    (hl : m.lookup k = some p) (hd : (m.obj p).memDir = some d) (k' : Key) (f' : Nat) :
    alLookup d k' = some f' ↔ (m.lookup k' = some f' ∧ parentKey k' = k ∧ k' ≠ rootKey) :=
  listing_is_children m hc k p d hl hd k' f'

/-- **… as a caller sees it**: after any well-formed program, `Readdir(-1)` through a freshly opened handle
    on a directory returns, each once, exactly the objects of the existing names whose parent is that
    directory -/
theorem readdir_is_children (ops : List Op) (hw : WFrun MemFs.init ops) (k : Key) (p : Nat)
    (hl : (run MemFs.init ops).lookup k = some p) (hdir : ((run MemFs.init ops).obj p).dir = true)
    (hi : Nat) (mh : MHandle) (hh : (run MemFs.init ops).handles[hi]? = some mh) (hobj : mh.obj = p)
    (hfresh : mh.readDirCount = 0) :
    ∃ listed, ((run MemFs.init ops).readdir hi (-1)).2 = (some listed, none) ∧ listed.Nodup ∧
      ∀ f', f' ∈ listed ↔ ∃ k', (run MemFs.init ops).lookup k' = some f' ∧ parentKey k' = k ∧ k' ≠ rootKey :=
  readdir_lists_children_reachable ops hw k p hl hdir hi mh hh hobj hfresh

/-- **a failed call changes nothing of the view**, with the outcome class the property names: already-exists
    for Mkdir and exclusive opens of an existing name, not-exist for Remove, Rename, Open, Chmod, Chown,
    Chtimes and non-creating opens of a missing name (`failed_calls_keep_view` states them all) -/
theorem failed_mkdir_keeps_view (m : MemFs) (s : Str) (h : (m.lookup (keyOfStr s)).isSome = true) (perm : Nat) :
    (m.step (.mkdir s perm)).2 = .err .exist ∧ view (m.step (.mkdir s perm)).1 = view m :=
  ((failed_calls_keep_view m s).1 h).1 perm

theorem failed_remove_keeps_view (m : MemFs) (s : Str) (h : m.lookup (keyOfStr s) = none) :
    (m.step (.remove s)).2 = .err .notexist ∧ view (m.step (.remove s)).1 = view m :=
  ((failed_calls_keep_view m s).2 h).1

theorem failed_rename_keeps_view (m : MemFs) (s t : Str) (h : m.lookup (keyOfStr s) = none) :
    (m.step (.rename s t)).2 = .err .notexist ∧ view (m.step (.rename s t)).1 = view m :=
  ((failed_calls_keep_view m s).2 h).2.1 t

/-- the directory flag and the uniqueness of index keys, used above, hold in every reachable state -/
theorem objects_well_formed (ops : List Op) : ObjsOK (run MemFs.init ops) :=
  objsOK_run ops MemFs.init objsOK_init

end AferoVerif.C01
