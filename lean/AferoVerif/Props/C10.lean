/-
  Property C10 — CacheOnReadFs serves base content and honours its cache duration.

  Proved here: the classification `cacheStatus` is exactly the rule of the property
  (`status_miss_iff`, `dur0_hit`, `dur_pos_stale_iff`, `dur_pos_hit_of_fresh`), and Open routes by
  it: a hit on a file is served from the cache layer and the answer does not depend on the base
  at all (`dur0_sticky`), a miss or a stale entry is copied first and then served from the layer
  (`miss_routes`, `stale_routes`), directories are never copied (`dirs_never_copied`).
  That the copy is byte-identical and carries the base's mtime is decided by the correspondence
  and the read-through oracle for now.
-/
import AferoVerif.Model.Cache
import AferoVerif.Proofs.CowContent
import AferoVerif.Proofs.Reach
import AferoVerif.Generated.Facts
namespace AferoVerif.C10
open AferoVerif AferoVerif.Cache

theorem status_miss_iff (c : Cow) (dur : Int) (k : Key) :
    cacheStatus c dur k = .miss ↔ c.s.l.lookup k = none := by
  unfold cacheStatus
  cases c.s.l.lookup k with
  | none => simp
  | some lf =>
    simp only
    repeat' split
    all_goals simp

/-- duration zero: whatever is cached is a hit, for ever -/
theorem dur0_hit (c : Cow) (k : Key) (lf : Nat) (h : c.s.l.lookup k = some lf) :
    cacheStatus c 0 k = .hit := by
  unfold cacheStatus; simp [h]

/-- positive duration: the cached copy is stale exactly when it is older than the duration
    *and* the base copy is newer than it -/
theorem dur_pos_stale_iff (c : Cow) (dur : Int) (k : Key) (hd : dur ≠ 0) :
    cacheStatus c dur k = .stale ↔
      ∃ lf bf, c.s.l.lookup k = some lf ∧ c.s.b.lookup k = some bf ∧
        (c.s.l.obj lf).mtime + dur < c.s.l.now ∧ (c.s.b.obj bf).mtime > (c.s.l.obj lf).mtime := by
  unfold cacheStatus
  cases hl : c.s.l.lookup k with
  | none => simp
  | some lf =>
    simp only [hd, if_false]
    by_cases hexp : (c.s.l.obj lf).mtime + dur < c.s.l.now
    · simp only [hexp, if_true]
      cases hb : c.s.b.lookup k with
      | none => simp
      | some bf =>
        simp only
        by_cases hn : (c.s.b.obj bf).mtime > (c.s.l.obj lf).mtime
        · simp only [hn, if_true, true_iff]
          exact ⟨lf, bf, rfl, rfl, hexp, hn⟩
        · simp only [hn, if_false]
          constructor
          · intro h; cases h
          · rintro ⟨lf', bf', h1, h2, _, h4⟩
            injection h1 with h1; injection h2 with h2; subst h1; subst h2
            exact absurd h4 hn
    · simp only [hexp, if_false]
      constructor
      · intro h; cases h
      · rintro ⟨lf', bf', h1, _, h3, _⟩
        injection h1 with h1; subst h1
        exact absurd h3 hexp

/-- a cached copy younger than the duration is a hit, whatever the base looks like -/
theorem dur_pos_hit_of_fresh (c : Cow) (dur : Int) (k : Key) (lf : Nat) (h : c.s.l.lookup k = some lf)
    (hfresh : ¬ (c.s.l.obj lf).mtime + dur < c.s.l.now) : cacheStatus c dur k = .hit := by
  unfold cacheStatus
  simp only [h]
  by_cases hd : dur = 0
  · simp [hd]
  · simp [hd, hfresh]

/-- an expired copy whose base is not newer is still a hit -/
theorem dur_pos_hit_of_base_not_newer (c : Cow) (dur : Int) (k : Key) (lf bf : Nat)
    (hl : c.s.l.lookup k = some lf) (hb : c.s.b.lookup k = some bf)
    (hn : ¬ (c.s.b.obj bf).mtime > (c.s.l.obj lf).mtime) : cacheStatus c dur k = .hit := by
  unfold cacheStatus
  simp only [hl, hb]
  repeat' split
  all_goals first
    | rfl
    | (exfalso; omega)

/-! ### Open routes by the classification -/

/-- a hit on a regular file is served from the cache layer -/
theorem hit_serves_cache (c : Cow) (dur : Int) (p : Str) (lf : Nat)
    (hst : cacheStatus c dur (keyOfStr p) = .hit) (hl : c.s.l.lookup (keyOfStr p) = some lf)
    (hfile : (c.s.l.obj lf).dir = false) :
    Cache.open_ c dur p = Cache.layerOpen c (keyOfStr p) := by
  unfold Cache.open_
  simp [hst, hl, hfile]

/-- what `layerOpen` does depends on the cache layer only: replacing the base by anything else
    changes neither the answer nor the layer -/
theorem layerOpen_indep_base (c : Cow) (k : Key) (b' : MemFs) :
    (Cache.layerOpen (Cache.setB c b') k).2 = (Cache.layerOpen c k).2 ∧
    (Cache.layerOpen (Cache.setB c b') k).1.s.l = (Cache.layerOpen c k).1.s.l := by
  unfold Cache.layerOpen Cache.setB Cache.setL Cow.addH
  simp only
  split <;> simp

/-- **dur = 0 is sticky.** Once a file is in the cache layer, with cache duration zero a read
    through the cache is served from the cache layer and is the same whatever has happened to the
    base in the meantime (any base state `b'`) and whatever the clock says. -/
theorem dur0_sticky (c : Cow) (p : Str) (lf : Nat) (b' : MemFs)
    (hl : c.s.l.lookup (keyOfStr p) = some lf) (hfile : (c.s.l.obj lf).dir = false) :
    (Cache.open_ (Cache.setB c b') 0 p).2 = (Cache.open_ c 0 p).2 ∧
    (Cache.open_ (Cache.setB c b') 0 p).1.s.l = (Cache.open_ c 0 p).1.s.l := by
  have h1 := hit_serves_cache c 0 p lf (dur0_hit c _ lf hl) hl hfile
  have hl' : (Cache.setB c b').s.l.lookup (keyOfStr p) = some lf := hl
  have h2 := hit_serves_cache (Cache.setB c b') 0 p lf (dur0_hit _ _ lf hl') hl' hfile
  rw [h1, h2]
  exact layerOpen_indep_base c (keyOfStr p) b'

/-- a miss on a regular base file: copy to the layer, then serve from the layer -/
theorem miss_routes (c : Cow) (dur : Int) (p : Str) (bf : Nat)
    (hst : cacheStatus c dur (keyOfStr p) = .miss) (hb : c.s.b.lookup (keyOfStr p) = some bf)
    (hfile : (c.s.b.obj bf).dir = false) :
    Cache.open_ c dur p = Cache.copyThenOpen c p (keyOfStr p) := by
  unfold Cache.open_
  simp [hst, hb, hfile]

/-- a stale regular file: refresh the cached copy from the base, then serve from the layer -/
theorem stale_routes (c : Cow) (dur : Int) (p : Str) (bf : Nat)
    (hst : cacheStatus c dur (keyOfStr p) = .stale) (hb : c.s.b.lookup (keyOfStr p) = some bf)
    (hfile : (c.s.b.obj bf).dir = false) :
    Cache.open_ c dur p = Cache.copyThenOpen c p (keyOfStr p) := by
  unfold Cache.open_
  simp [hst, hb, hfile]

/-- a name that exists nowhere is reported as not existing and nothing changes -/
theorem absent_notexist (c : Cow) (dur : Int) (p : Str)
    (hl : c.s.l.lookup (keyOfStr p) = none) (hb : c.s.b.lookup (keyOfStr p) = none) :
    Cache.open_ c dur p = (c, .err .notexist) := by
  unfold Cache.open_
  simp [(status_miss_iff c dur _).mpr hl, hb]

/-- **directories are never copied**: opening an uncached base directory goes to the base and
    leaves the cache layer exactly as it was -/
theorem dirs_never_copied (c : Cow) (dur : Int) (p : Str) (bf : Nat)
    (hl : c.s.l.lookup (keyOfStr p) = none) (hb : c.s.b.lookup (keyOfStr p) = some bf)
    (hdir : (c.s.b.obj bf).dir = true) :
    (Cache.open_ c dur p).1.s.l = c.s.l := by
  unfold Cache.open_
  simp only [(status_miss_iff c dur _).mpr hl, hb, hdir, if_true]
  unfold Cache.baseOpen Cache.setB Cow.addH
  simp only
  split <;> rfl

/-! non-vacuity: a base file read through a cache with a one-hour duration -/
def base0 : MemFs :=
  let m := (MemFs.init.step (.create "/f".toList)).1
  let m := (m.step (.hWrite 0 [1, 2, 3])).1
  let m := (m.step (.chtimes "/f".toList (-9000))).1
  { m with handles := [] }
def c0 : Cow := { s := { b := base0, l := MemFs.init }, hs := [] }

example : cacheStatus c0 3600 (keyOfStr "/f".toList) = .miss := by decide
/-- after the first read the copy is in the layer, carries the base's mtime, and is a hit -/
example : let c1 := (Cache.step 3600 c0 (.open_ "/f".toList)).1
    c1.s.l.stat (keyOfStr "/f".toList) = .info "f".toList 3 false modeTemporary ∧
    cacheStatus c1 3600 (keyOfStr "/f".toList) = .hit := by decide
/-- the base gets newer than the (expired) copy: stale -/
example : let c1 := (Cache.step 3600 c0 (.open_ "/f".toList)).1
    let c2 := Cache.setB c1 (c1.s.b.chtimes (keyOfStr "/f".toList) (-10)).1
    cacheStatus c2 3600 (keyOfStr "/f".toList) = .stale ∧ cacheStatus c2 0 (keyOfStr "/f".toList) = .hit := by decide

/-! ### the copy made on a miss or for a stale entry is the base's content -/

/-- **a read that is not served from the cache serves the base.** For a regular base file whose
    status is miss or stale, Open succeeds; afterwards the cache layer holds under that name an
    object with exactly the base's bytes and the base's modification time, the base is unchanged,
    and the returned handle is a fresh read-only handle at offset 0 on that object. -/
theorem miss_or_stale_serves_base (c : Cow) (dur : Int) (p : Str) (bf : Nat)
    (hst : cacheStatus c dur (keyOfStr p) = .miss ∨ cacheStatus c dur (keyOfStr p) = .stale)
    (hb : c.s.b.lookup (keyOfStr p) = some bf) (hfile : (c.s.b.obj bf).dir = false) (hr : MemFs.InRange c.s.l) :
    ∃ lf i, (Cache.open_ c dur p).2 = .handle c.hs.length none ∧
      (Cache.open_ c dur p).1.s.b = c.s.b ∧
      (Cache.open_ c dur p).1.hs = c.hs ++ [.layer i] ∧
      (Cache.open_ c dur p).1.s.l.handles[i]? = some { obj := lf, h := { readOnly := true } } ∧
      (Cache.open_ c dur p).1.s.l.lookup (keyOfStr p) = some lf ∧
      ((Cache.open_ c dur p).1.s.l.obj lf).data = (c.s.b.obj bf).data ∧
      ((Cache.open_ c dur p).1.s.l.obj lf).mtime = (c.s.b.obj bf).mtime := by
  have e : Cache.open_ c dur p = Cache.copyThenOpen c p (keyOfStr p) := by
    rcases hst with h | h
    · exact miss_routes c dur p bf h hb hfile
    · exact stale_routes c dur p bf h hb hfile
  rw [e]
  exact copyThenOpen_serves_base c p bf hb hfile hr

/-- the cache layer of any history satisfies the hypothesis above -/
theorem layer_reachable_ok (ops : List Op) : MemFs.InRange (MemFs.run MemFs.init ops) :=
  MemFs.reachable_inRange ops

/-! ### tie to the source: constants regenerated from the Go code on every run -/

/-- the mask by which `CacheOnReadFs.OpenFile` decides "opened for writing" (the model uses
    `cowWriteMask` there) is the one written in cacheOnReadFs.go -/
theorem cacheWriteMask_is_source : cowWriteMask = Generated.cacheWriteMask := by decide

/-- per exported method of `CacheOnReadFs`: number of calls of `cacheStatus`, `copyToLayer` and
    `copyFileToLayer`, as extracted from the current cacheOnReadFs.go — the routing the model follows:
    every method but Create/Mkdir/MkdirAll classifies first; Open copies (miss and stale branches),
    OpenFile copies with the caller's flags, the metadata methods and Rename copy before acting -/
theorem cache_methods_are_source : Generated.cacheCalls =
    [("Chmod", [1, 1, 0]), ("Chown", [1, 1, 0]), ("Chtimes", [1, 1, 0]), ("Create", [0, 0, 0]), ("Mkdir", [0, 0, 0]),
     ("MkdirAll", [0, 0, 0]), ("Name", [0, 0, 0]), ("Open", [1, 2, 0]), ("OpenFile", [1, 0, 1]), ("Remove", [1, 0, 0]),
     ("RemoveAll", [1, 0, 0]), ("Rename", [1, 1, 0]), ("Stat", [1, 0, 0])] := by decide

end AferoVerif.C10
