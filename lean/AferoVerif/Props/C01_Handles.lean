/-
  Property C01, further clauses — handles stay bound to their file, whatever happens to its name.

  A handle of MemMapFs is bound to the file OBJECT, as an open file description of an operating system
  is bound to the inode.  Stated here on the abstract `view` (Proofs/MemFsRef.lean: what each name shows —
  regular file with bytes and mode, or directory) and on the flat byte semantics of C02 (`writeS`,
  `truncS`, `readS`; Model/MemFile.lean):

  * `WOp` — the write-type handle methods `Write d`, `WriteAt d off`, `Truncate n`; `w.op hi` is the call on
    handle `hi`; `w.bytes old pos` the bytes an open writable handle at offset `pos` makes of `old` (bytes
    before the offset kept, a gap beyond the end zero-filled, payload, tail kept; cut or zero-extended);
    `w.out` what the call reports; `readAtS d n off` what a positional read reports on the bytes `d`.
  * `OpenRW m hi mh` — handle `hi` of `m` is `mh`, open, writable, its offset not negative.

  1. `handle_follows_rename`, 2. `handle_follows_dir_rename`, 3. `handle_survives_remove` (and
  `handle_survives_removeAll`), 4. `two_handles_one_file` (and `handle_io_is_flat`: ANY interleaving of
  calls through any number of handles on one object is C02's flat array), 5. `memfs_refines_reference_h`:
  the program-level refinement WITH handle writes.

  Side conditions found (each with its counterexample below): in (1) the two names must differ — `Rename`
  of a name onto itself is a successful no-op, so the old name does NOT disappear; everywhere the handle's
  offset must not be negative (the model's `Write` at a negative offset is Go's slice-bounds panic; no call
  of the model produces a negative offset: `offsets_never_negative`).

  Observed, not a side condition: `Stat` through a handle reports the base name the object has NOW (after a
  rename: the new one — `mem.ChangeFileName` rewrites the shared `FileData.name`; after `Remove`: still the old
  one), whereas an `os.File` reports the name it was opened with.  Names reported through handles are therefore
  not part of what these theorems compare with the operating system; sizes and contents are.
-/
import AferoVerif.Proofs.MemFsHandles
namespace AferoVerif.C01
open AferoVerif AferoVerif.Path AferoVerif.MemFs

/-- **1. the handle follows the rename of its file.**  In a consistent state the name `a` leads to the object
    of the open writable handle `hi` and shows a regular file with bytes `old` and mode `md`; `a` is renamed
    to a different name `b` — free, or holding another file (or empty directory), below an existing directory
    (`RenameLeaf`).  Then: the rename succeeds; a write-type call `w` through the handle reports exactly what
    it would have reported before the rename, namely `w.out`; afterwards `b` shows the bytes the flat semantics
    makes of `old` (mode unchanged), `a` shows nothing, every other name shows what it did at the start;
    `Stat b` and `Stat` through the handle agree, the size being the length of the new bytes. -/
theorem handle_follows_rename (m : MemFs) (hc : Consistent m) (a b : Str)
    (hr : RenameLeaf m (keyOfStr a) (keyOfStr b)) (hab : keyOfStr a ≠ keyOfStr b)
    (hi : Nat) (mh : MHandle) (H : OpenRW m hi mh) (hl : m.lookup (keyOfStr a) = some mh.obj)
    (old : Bytes) (md : Nat) (hv : view m (keyOfStr a) = some (.file old md)) (w : WOp) :
    (m.step (.rename a b)).2 = .ok ∧
    ((m.step (.rename a b)).1.step (w.op hi)).2 = (m.step (w.op hi)).2 ∧
    ((m.step (.rename a b)).1.step (w.op hi)).2 = .file w.out ∧
    view ((m.step (.rename a b)).1.step (w.op hi)).1 (keyOfStr b) = some (.file (w.bytes old mh.h.pos) md) ∧
    view ((m.step (.rename a b)).1.step (w.op hi)).1 (keyOfStr a) = none ∧
    (∀ k', k' ≠ keyOfStr a → k' ≠ keyOfStr b → view ((m.step (.rename a b)).1.step (w.op hi)).1 k' = view m k') ∧
    ((m.step (.rename a b)).1.step (w.op hi)).1.stat (keyOfStr b) =
      ((m.step (.rename a b)).1.step (w.op hi)).1.hStat hi ∧
    ((m.step (.rename a b)).1.step (w.op hi)).1.hStat hi =
      .info (baseName (keyOfStr b)) (w.bytes old mh.h.pos).length false md :=
  follows_rename m hc _ _ hr hab hi mh H hl old md hv w

/-- the hypotheses are met: in `exH` (`/a/b/f` = 1 2 3 4 5 with the read-write handle 0 at offset 2, `/g` an empty
    file) rename `/a/b/f` over `/g`, then write 9 9 through handle 0: `/g` shows 1 2 9 9 5, `Stat /g` says 5 -/
example :
    view ((exH.step (.rename "/a/b/f".toList "/g".toList)).1.step (.hWrite 0 [9, 9])).1 (keyOfStr "/g".toList) =
      some (.file [1, 2, 9, 9, 5] modeTemporary) ∧
    view ((exH.step (.rename "/a/b/f".toList "/g".toList)).1.step (.hWrite 0 [9, 9])).1 (keyOfStr "/a/b/f".toList) = none ∧
    ((exH.step (.rename "/a/b/f".toList "/g".toList)).1.step (.hWrite 0 [9, 9])).1.stat (keyOfStr "/g".toList) =
      .info "g".toList 5 false modeTemporary := by
  obtain ⟨_, _, _, h4, h5, _, h7, h8⟩ := handle_follows_rename exH exH_consistent "/a/b/f".toList "/g".toList exH_leaf
    (by decide) 0 _ exH_h0 (by decide) [1, 2, 3, 4, 5] modeTemporary (by decide) (.write [9, 9])
  exact ⟨h4, h5, h7.trans h8⟩

/-- **side condition `hab`, counterexample**: `Rename` of a name onto itself meets `RenameLeaf`, succeeds and
    changes nothing, so the "old" name does not disappear: after `rename /g /g` and a write through handle 1,
    `/g` shows the written byte (not `none`) -/
example : RenameLeaf exH (keyOfStr "/g".toList) (keyOfStr "/g".toList) ∧
    view ((exH.step (.rename "/g".toList "/g".toList)).1.step (.hWrite 1 [7])).1 (keyOfStr "/g".toList) =
      some (.file [7] modeTemporary) :=
  ⟨⟨4, by decide, Or.inl rfl, by decide, by decide, by decide, by decide,
    ⟨0, _, by decide, rfl⟩, Or.inr ⟨4, by decide, Or.inl rfl⟩, by decide⟩, by decide⟩

/-- **side condition `OpenRW.hpos`, counterexample**: with a negative offset (a state no program reaches:
    `offsets_never_negative`) the model's `Write` is Go's slice-bounds panic -/
example : (({ exH with handles := [{ obj := 3, h := { pos := -1 } }] } : MemFs).step (.hWrite 0 [7])).2 = .file .panic := by
  decide

/-- **2. the handle follows the rename of an ancestor directory.**  `k`, a name below the directory `a`, leads
    to the object of the open writable handle `hi` and shows a regular file with bytes `old`; `a` is renamed
    with its whole subtree to the free name `b` (`RenameSubtree`).  Then a write-type call through the handle
    reports what it would have reported before, and its bytes show under the re-prefixed name
    `rePrefix a b k`; `k` shows nothing; every other name shows what the rename alone leaves (`refRenameDir`:
    the subtree under the new name, nothing under the old); `Stat` of the new name and `Stat` through the
    handle agree.  (`hk`, `ho` hold in every reachable state: `keysNodup_run`, `objsOK_run`.) -/
theorem handle_follows_dir_rename (m : MemFs) (hc : Consistent m) (hk : KeysNodup m) (ho : ObjsOK m) (a b : Str)
    (hr : RenameSubtree m (keyOfStr a) (keyOfStr b)) (k : Key) (hu : isUnder (keyOfStr a) k = true)
    (hi : Nat) (mh : MHandle) (H : OpenRW m hi mh) (hl : m.lookup k = some mh.obj)
    (old : Bytes) (md : Nat) (hv : view m k = some (.file old md)) (w : WOp) :
    (m.step (.rename a b)).2 = .ok ∧
    ((m.step (.rename a b)).1.step (w.op hi)).2 = (m.step (w.op hi)).2 ∧
    ((m.step (.rename a b)).1.step (w.op hi)).2 = .file w.out ∧
    view ((m.step (.rename a b)).1.step (w.op hi)).1 (rePrefix (keyOfStr a) (keyOfStr b) k) =
      some (.file (w.bytes old mh.h.pos) md) ∧
    view ((m.step (.rename a b)).1.step (w.op hi)).1 k = none ∧
    (∀ k', k' ≠ rePrefix (keyOfStr a) (keyOfStr b) k →
      view ((m.step (.rename a b)).1.step (w.op hi)).1 k' = refRenameDir (view m) (keyOfStr a) (keyOfStr b) k') ∧
    ((m.step (.rename a b)).1.step (w.op hi)).1.stat (rePrefix (keyOfStr a) (keyOfStr b) k) =
      ((m.step (.rename a b)).1.step (w.op hi)).1.hStat hi ∧
    ((m.step (.rename a b)).1.step (w.op hi)).1.hStat hi =
      .info (baseName (rePrefix (keyOfStr a) (keyOfStr b) k)) (w.bytes old mh.h.pos).length false md :=
  follows_dir_rename m hc hk ho _ _ (normKey_keyOfStr a) (normKey_keyOfStr b) hr k hu hi mh H hl old md hv w

/-- the hypotheses are met: in `exH` rename the directory `/a` to `/z`, then `Truncate(7)` through handle 0:
    `/z/b/f` shows 1 2 3 4 5 0 0, nothing is left at `/a/b/f` -/
example :
    view ((exH.step (.rename "/a".toList "/z".toList)).1.step (.hTrunc 0 7)).1 (keyOfStr "/z/b/f".toList) =
      some (.file [1, 2, 3, 4, 5, 0, 0] modeTemporary) ∧
    view ((exH.step (.rename "/a".toList "/z".toList)).1.step (.hTrunc 0 7)).1 (keyOfStr "/a/b/f".toList) = none := by
  obtain ⟨_, _, _, h4, h5, _, _, _⟩ := handle_follows_dir_rename exH exH_consistent exH_keysNodup exH_objsOK
    "/a".toList "/z".toList exH_sub (keyOfStr "/a/b/f".toList) (by decide) 0 _ exH_h0 (by decide)
    [1, 2, 3, 4, 5] modeTemporary (by decide) (.trunc 7)
  exact ⟨h4, h5⟩

/-- **3. the handle survives the removal of its file.**  `a` leads to the object of the open writable handle
    `hi` and shows a regular file with bytes `old`.  After `Remove a` the name shows nothing, but positional
    reads through the handle still return `old`; a write-type call through it reports `w.out`; reads after it
    return the bytes the flat semantics makes of `old`, and `Stat` through the handle reports their length —
    while NO name's view is changed by the write: the object is unreachable from the tree. -/
theorem handle_survives_remove (m : MemFs) (hc : Consistent m) (a : Str) (hroot : keyOfStr a ≠ rootKey)
    (hi : Nat) (mh : MHandle) (H : OpenRW m hi mh) (hl : m.lookup (keyOfStr a) = some mh.obj)
    (old : Bytes) (md : Nat) (hv : view m (keyOfStr a) = some (.file old md)) :
    (m.step (.remove a)).2 = .ok ∧ view (m.step (.remove a)).1 (keyOfStr a) = none ∧
    (∀ n off, ((m.step (.remove a)).1.step (.hReadAt hi n off)).2 = .file (readAtS old n off)) ∧
    ∀ w : WOp,
      ((m.step (.remove a)).1.step (w.op hi)).2 = .file w.out ∧
      (∀ k', view ((m.step (.remove a)).1.step (w.op hi)).1 k' = view (m.step (.remove a)).1 k') ∧
      (∀ n off, (((m.step (.remove a)).1.step (w.op hi)).1.step (.hReadAt hi n off)).2 =
        .file (readAtS (w.bytes old mh.h.pos) n off)) ∧
      ((m.step (.remove a)).1.step (w.op hi)).1.hStat hi =
        .info (baseName (keyOfStr a)) (w.bytes old mh.h.pos).length false md :=
  survives_remove m hc _ hroot hi mh H hl old md hv

/-- the hypotheses are met: in `exH` remove `/a/b/f`; handle 0 still reads 2 3 4 at offset 1; `WriteAt([7], 6)`
    through it zero-fills the gap, a later read returns 1 2 3 4 5 0 7 (and EOF), and no name's view changes -/
example :
    view (exH.step (.remove "/a/b/f".toList)).1 (keyOfStr "/a/b/f".toList) = none ∧
    ((exH.step (.remove "/a/b/f".toList)).1.step (.hReadAt 0 3 1)).2 = .file (.bytes [2, 3, 4] none) ∧
    (((exH.step (.remove "/a/b/f".toList)).1.step (.hWriteAt 0 [7] 6)).1.step (.hReadAt 0 9 0)).2 =
      .file (.bytes [1, 2, 3, 4, 5, 0, 7] (some .eof)) ∧
    (∀ k', view ((exH.step (.remove "/a/b/f".toList)).1.step (.hWriteAt 0 [7] 6)).1 k' =
      view (exH.step (.remove "/a/b/f".toList)).1 k') := by
  obtain ⟨_, h2, h3, h4⟩ := handle_survives_remove exH exH_consistent "/a/b/f".toList (by decide) 0 _ exH_h0
    (by decide) [1, 2, 3, 4, 5] modeTemporary (by decide)
  obtain ⟨_, g2, g3, _⟩ := h4 (.writeAt [7] 6)
  exact ⟨h2, h3 3 1, g3 9 0, g2⟩

/-- **… and the removal of an ancestor** (`RemoveAll c`, the file's name `k` being `c` itself or below it) -/
theorem handle_survives_removeAll (m : MemFs) (hc : Consistent m) (c : Str) (hcs : (keyOfStr c).segs ≠ [])
    (k : Key) (hu : k = keyOfStr c ∨ isUnder (keyOfStr c) k = true)
    (hi : Nat) (mh : MHandle) (H : OpenRW m hi mh) (hl : m.lookup k = some mh.obj)
    (old : Bytes) (md : Nat) (hv : view m k = some (.file old md)) :
    (m.step (.removeAll c)).2 = .ok ∧ view (m.step (.removeAll c)).1 k = none ∧
    (∀ n off, ((m.step (.removeAll c)).1.step (.hReadAt hi n off)).2 = .file (readAtS old n off)) ∧
    ∀ w : WOp,
      ((m.step (.removeAll c)).1.step (w.op hi)).2 = .file w.out ∧
      (∀ k', view ((m.step (.removeAll c)).1.step (w.op hi)).1 k' = view (m.step (.removeAll c)).1 k') ∧
      (∀ n off, (((m.step (.removeAll c)).1.step (w.op hi)).1.step (.hReadAt hi n off)).2 =
        .file (readAtS (w.bytes old mh.h.pos) n off)) ∧
      ((m.step (.removeAll c)).1.step (w.op hi)).1.hStat hi =
        .info (baseName k) (w.bytes old mh.h.pos).length false md :=
  survives_removeAll m hc _ hcs (normKey_keyOfStr c) k hu hi mh H hl old md hv

/-- the hypotheses are met: `RemoveAll /a` in `exH`, then a write through handle 0 (`Stat` through the handle
    still answers, under the old base name) -/
example :
    view (exH.step (.removeAll "/a".toList)).1 (keyOfStr "/a/b/f".toList) = none ∧
    (∀ k', view ((exH.step (.removeAll "/a".toList)).1.step (.hWrite 0 [7])).1 k' =
      view (exH.step (.removeAll "/a".toList)).1 k') ∧
    ((exH.step (.removeAll "/a".toList)).1.step (.hWrite 0 [7])).1.hStat 0 = .info "f".toList 5 false modeTemporary := by
  obtain ⟨_, h2, _, h4⟩ := handle_survives_removeAll exH exH_consistent "/a".toList (by decide)
    (keyOfStr "/a/b/f".toList) (Or.inr (by decide)) 0 _ exH_h0 (by decide) [1, 2, 3, 4, 5] modeTemporary (by decide)
  obtain ⟨_, g2, _, g4⟩ := h4 (.write [7])
  exact ⟨h2, g2, g4⟩

/-- **4. two handles on one file see each other's writes, and report ONE length.**  `hi` (open, writable) and
    `hj` (open) are bound to the same object.  After a write-type call through `hi` — a write at the handle's
    offset or at a given one, an append, a truncation — positional reads through EITHER handle return the bytes
    the flat semantics makes of the old ones, and `Stat` through either handle and `Seek(0, SeekEnd)` through
    either handle report the one length of those bytes. -/
theorem two_handles_one_file (m : MemFs) (hi hj : Nat) (mi mj : MHandle) (hne : hi ≠ hj) (Hi : OpenRW m hi mi)
    (hmj : m.handles[hj]? = some mj) (hobj : mj.obj = mi.obj) (hjopen : mj.h.closed = false)
    (hjpos : 0 ≤ mj.h.pos) (hr : mi.obj < m.objs.length) (w : WOp) :
    (∀ n off, ((m.step (w.op hi)).1.step (.hReadAt hj n off)).2 =
      .file (readAtS (w.bytes (m.obj mi.obj).data mi.h.pos) n off)) ∧
    (∀ n off, ((m.step (w.op hi)).1.step (.hReadAt hi n off)).2 =
      .file (readAtS (w.bytes (m.obj mi.obj).data mi.h.pos) n off)) ∧
    (m.step (w.op hi)).1.hStat hi = (m.step (w.op hi)).1.hStat hj ∧
    ((m.obj mi.obj).dir = false → (m.step (w.op hi)).1.hStat hj =
      .info (baseName (m.obj mi.obj).name) (w.bytes (m.obj mi.obj).data mi.h.pos).length false (m.obj mi.obj).mode) ∧
    ((m.step (w.op hi)).1.step (.hSeek hi 0 2)).2 = .file (.pos (w.bytes (m.obj mi.obj).data mi.h.pos).length) ∧
    ((m.step (w.op hi)).1.step (.hSeek hj 0 2)).2 = .file (.pos (w.bytes (m.obj mi.obj).data mi.h.pos).length) :=
  two_handles m hi hj mi mj hne Hi hmj hobj hjopen hjpos hr w

/-- the hypotheses are met: handles 0 (read-write) and 2 (read-only) of `exH` are on `/a/b/f`; after the append
    `WriteAt([8, 8], 5)` through handle 0, handle 2 reads 4 5 8 8 at offset 3 and both report the length 7 -/
example :
    ((exH.step (.hWriteAt 0 [8, 8] 5)).1.step (.hReadAt 2 10 3)).2 = .file (.bytes [4, 5, 8, 8] (some .eof)) ∧
    ((exH.step (.hWriteAt 0 [8, 8] 5)).1.step (.hSeek 2 0 2)).2 = .file (.pos 7) ∧
    ((exH.step (.hWriteAt 0 [8, 8] 5)).1.step (.hSeek 0 0 2)).2 = .file (.pos 7) ∧
    (exH.step (.hWriteAt 0 [8, 8] 5)).1.hStat 0 = (exH.step (.hWriteAt 0 [8, 8] 5)).1.hStat 2 := by
  obtain ⟨h1, _, h3, _, h5, h6⟩ := two_handles_one_file exH 0 2 _ { obj := 3, h := { readOnly := true } } (by decide)
    exH_h0 rfl rfl rfl (by decide) (by decide) (.writeAt [8, 8] 5)
  exact ⟨h1 10 3, h6, h5, h3⟩

/-- **… in general: any interleaving of reads, writes, truncations and seeks through any number of handles on
    ONE object is the flat byte array of C02.**  `ops` are such calls on handles bound to the object `o`
    (`IOon`); `fileStOf m o` is the object's bytes with every handle's offset and flags.  The results the model
    gives (`outs`) are those of the flat specification `stepS`, and so are the object's final bytes and the
    final offsets — a corollary of `C02.refines_flat`'s step lemma, stated over `MemFs.step`. -/
theorem handle_io_is_flat (ops : List Op) (m : MemFs) (o : Nat) (hr : o < m.objs.length) (hp : PosOK m)
    (hio : IOon (m.handles.map (·.obj)) o ops) :
    outs m ops = (runWith stepS (fileStOf m o) (ops.filterMap fopOf)).2.map .file ∧
    fileStOf (run m ops) o = (runWith stepS (fileStOf m o) (ops.filterMap fopOf)).1 :=
  MemFs.handle_io_is_flat ops m o hr (inv_of_posOK m o hp) hio

/-- the hypotheses are met: five interleaved calls through handles 0 and 2 of `exH` -/
example : outs exH [.hWrite 0 [9], .hRead 2 4, .hTrunc 0 2, .hRead 2 1, .hSeek 2 0 2] =
    [.file (.n 1 none), .file (.bytes [1, 2, 9, 4] none), .file .ok, .file (.bytes [] (some .ueof)), .file (.pos 2)] := by
  have h := (handle_io_is_flat [.hWrite 0 [9], .hRead 2 4, .hTrunc 0 2, .hRead 2 1, .hSeek 2 0 2] exH 3 (by decide)
    (posOK_run exHops MemFs.init posOK_init)
    (by intro op hop; simp only [List.mem_cons, List.not_mem_nil, or_false] at hop
        rcases hop with rfl | rfl | rfl | rfl | rfl <;> exact ⟨rfl, _, rfl, rfl⟩)).1
  rw [h]; decide

/-- **no call of the model makes a handle's offset negative** (so `OpenRW.hpos` and `PosOK` hold in every
    reachable state) -/
theorem offsets_never_negative (ops : List Op) : PosOK (run MemFs.init ops) :=
  posOK_run ops MemFs.init posOK_init

/-- **5. MemMapFs refines the reference WITH handle writes, call by call.**  The reference state `R` carries the
    view and, for every handle, the name it currently denotes (`none` once unlinked) with its offset and flags
    (`HRel m R.hs`: the model's handle is bound to the object that name leads to).  `refStepH`: an Fs-level call
    does `refStep` to the view, moves the names the handles denote (`mvOf`: `Rename` carries them along, to the
    re-prefixed name below a renamed directory; `Remove`, `RemoveAll` and a `Rename` over their file unlink
    them) and appends the handle an opening call returns; a call through a handle that denotes a regular file is
    ONE STEP OF C02's FLAT SPECIFICATION `stepS` on the bytes the view shows under that name; a call through an
    unlinked handle changes nothing of the view.  In a consistent state with `PosOK`, every call that meets the
    preconditions (`WFopH`: those of `WFop'`, every handle method allowed) leaves the view and the handle
    relation `refStepH` computes. -/
theorem memfs_refines_reference_h_step (m : MemFs) (hc : Consistent m) (hk : KeysNodup m) (ho : ObjsOK m)
    (hp : PosOK m) (R : RefH) (hv : view m = R.v) (hr : HRel m R.hs) (op : Op) (hw : WFopH m op) :
    view (m.step op).1 = (refStepH R op).v ∧ HRel (m.step op).1 (refStepH R op).hs :=
  stepH_refines m hc hk ho hp R hv hr op hw

/-- **… and program by program, from the empty filesystem, the preconditions being checked on the REFERENCE
    alone** (`WFrunV`, `WFopV`: parents exist as directories; `Create` does not name a directory; `Remove` names a
    regular file or nothing; `RemoveAll` not the root; `Rename` moves a regular file to a free name or over
    another regular file, or a directory with its subtree to a free name; any call through any handle): the tree
    MemMapFs exposes after the program is the one the reference interpreter with handles computes, and the
    handles are bound as it says. -/
theorem memfs_refines_reference_h (ops : List Op) (hw : WFrunV refInitH ops) :
    view (run MemFs.init ops) = (ops.foldl refStepH refInitH).v ∧
      HRel (run MemFs.init ops) (ops.foldl refStepH refInitH).hs :=
  ⟨(runV_refines_init ops hw).1, (runV_refines_init ops hw).2.1⟩

/-- on the Fs-level calls the reference with handles does to the view what `refStep` does -/
theorem reference_h_extends (R : RefH) (op : Op) (h : op.handle? = none) : (refStepH R op).v = refStep R.v op := by
  simp only [refStepH, h]

/-- the hypotheses are met by a program that writes through a handle, renames the directory above the file,
    writes again (the bytes show under the new name), opens a second handle, removes the file, writes through the
    now unlinked handle (nothing shows), creates the name again and writes through the new handle -/
def exProgH : List Op := [.mkdir "/a".toList 0o755, .create "/a/f".toList, .hWrite 0 [1, 2, 3],
  .rename "/a".toList "/z".toList, .hWrite 0 [4, 5], .open_ "/z/f".toList, .remove "/z/f".toList,
  .hWrite 0 [6], .create "/z/f".toList, .hWriteAt 2 [9] 2, .hReadAt 1 9 0]

theorem exProgH_wf : WFrunV refInitH exProgH :=
  ⟨Or.inr (by decide), Or.inr ⟨by decide, by decide⟩, trivial,
    Or.inr (Or.inr (Or.inr ⟨by decide, by decide, by decide, by decide, by decide, by decide⟩)),
    trivial, trivial, Or.inr ⟨by decide, by decide⟩, trivial,
    Or.inr ⟨by decide, by decide⟩, trivial, trivial, trivial⟩

example : view (run MemFs.init exProgH) = (exProgH.foldl refStepH refInitH).v ∧
    view (run MemFs.init exProgH) (keyOfStr "/z/f".toList) = some (.file [0, 0, 9] modeTemporary) ∧
    view (run MemFs.init exProgH) (keyOfStr "/a/f".toList) = none ∧
    (exProgH.foldl refStepH refInitH).hs.map (·.1) = [none, none, some (keyOfStr "/z/f".toList)] ∧
    ((exProgH.take 5).foldl refStepH refInitH).v (keyOfStr "/z/f".toList) =
      some (.file [1, 2, 3, 4, 5] modeTemporary) := by
  have R := (memfs_refines_reference_h exProgH exProgH_wf).1
  refine ⟨R, ?_, ?_, by decide, by decide⟩ <;> (rw [R]; decide)

end AferoVerif.C01
