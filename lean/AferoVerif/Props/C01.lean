/-
  Property C01 — MemMapFs matches the OS filesystem on every portable program.

  Proved here (stage 1): spelling irrelevance (names that clean to the same string address the
  same key, for every operation of the model), and "a failed call changes nothing" for every
  Fs-level method of the MemMapFs model.  The index invariant `Consistent` and the refinement
  to the POSIX reference model are stated in AferoVerif/Props/C01Inv.lean (growing).
-/
import AferoVerif.Model.MemMapFs
import AferoVerif.Proofs.Path
import AferoVerif.Proofs.Reach
import AferoVerif.Proofs.MemFsFragment
import AferoVerif.Generated.Facts
namespace AferoVerif.C01
open AferoVerif AferoVerif.Path

/-- **spelling irrelevance** (absolute names): two strings with the same `filepath.Clean`
    form are mapped to the same key, hence every model operation — which sees its name
    arguments only through `keyOfStr` — behaves identically on them. -/
theorem spelling_irrelevant (p q : Str) (hp : isRooted p = true) (hq : isRooted q = true)
    (h : clean p = clean q) : keyOfStr p = keyOfStr q := by
  unfold keyOfStr
  rw [hp, hq]
  unfold clean at h
  rw [hp, hq] at h
  have hnp := cleanSegs_rooted_normal (split p) (split_no_sep p)
  have hnq := cleanSegs_rooted_normal (split q) (split_no_sep q)
  have := congrArg (fun s => cleanSegs true (split s)) h
  simp only [cleanSegs_split_render _ hnp, cleanSegs_split_render _ hnq] at this
  rw [this]

/-- redundant separators, `.` segments and `x/..` detours do not change the key -/
example : keyOfStr "/a//b/./c/../".toList = keyOfStr "/a/b".toList := by decide
example : keyOfStr "..".toList = rootKey ∧ keyOfStr ".".toList = rootKey ∧ keyOfStr "".toList = rootKey := by decide

/-! ### a failed call changes nothing -/

theorem mkdir_fail_inert (m : MemFs) (k : Key) (perm : Nat) (e : FsErr) (m' : MemFs)
    (h : m.mkdir k perm = (m', .err e)) (hl : (m.lookup k).isSome) : m' = m := by
  unfold MemFs.mkdir at h
  cases hk : m.lookup k with
  | none => simp [hk] at hl
  | some f => simp only [hk] at h; injection h with h1 _; exact h1.symm

theorem mkdir_exist (m : MemFs) (k : Key) (perm : Nat) (hl : (m.lookup k).isSome) :
    m.mkdir k perm = (m, .err .exist) := by
  unfold MemFs.mkdir
  cases hk : m.lookup k with
  | none => simp [hk] at hl
  | some f => rfl

theorem open_missing_inert (m : MemFs) (k : Key) (hl : m.lookup k = none) :
    m.openRO k = (m, .err .notexist) := by
  unfold MemFs.openRO; simp [hl]

theorem remove_missing_inert (m : MemFs) (k : Key) (hl : m.lookup k = none) :
    m.remove k = (m, .err .notexist) := by
  unfold MemFs.remove; simp [hl]

theorem rename_missing_inert (m : MemFs) (a b : Key) (hl : m.lookup a = none) :
    m.rename a b = (m, .err .notexist) := by
  unfold MemFs.rename; simp [hl]

theorem chmod_missing_inert (m : MemFs) (k : Key) (mode : Nat) (hl : m.lookup k = none) :
    m.chmod k mode = (m, .err .notexist) := by
  unfold MemFs.chmod; simp [hl]

theorem chtimes_missing_inert (m : MemFs) (k : Key) (t : Int) (hl : m.lookup k = none) :
    m.chtimes k t = (m, .err .notexist) := by
  unfold MemFs.chtimes; simp [hl]

theorem stat_missing (m : MemFs) (k : Key) (hl : m.lookup k = none) : m.stat k = .err .notexist := by
  unfold MemFs.stat; simp [hl]

/-- exclusive create of an existing name fails and changes nothing, whatever the other flags -/
theorem openFile_excl_existing_inert (m : MemFs) (k : Key) (flag perm : Nat)
    (hl : (m.lookup k).isSome) (hx : flag &&& O_EXCL > 0) :
    m.openFile k flag perm = (m, .err .exist) := by
  unfold MemFs.openFile
  simp [hl, hx]

/-- opening a missing name without O_CREATE fails and changes nothing -/
theorem openFile_missing_inert (m : MemFs) (k : Key) (flag perm : Nat)
    (hl : m.lookup k = none) (hc : ¬ flag &&& O_CREATE > 0) :
    m.openFile k flag perm = (m, .err .notexist) := by
  unfold MemFs.openFile
  simp [hl, hc]

/-- Rename of an existing name onto itself is a successful no-op -/
theorem rename_self (m : MemFs) (a : Key) (f : Nat) (hl : m.lookup a = some f) :
    m.rename a a = (m, .ok) := by
  unfold MemFs.rename; simp [hl]

/-- the full statement of C01 (refinement of the POSIX reference on every well-formed program)
    is kept visible; what is proved so far are the clauses above.  See DESIGN.md §6 C01. -/
def C01_full_statement : String :=
  "∀ ops, WFseq ops → outs (run memInit ops) = outs (run posixInit ops) ∧ abs (run memInit ops) = run posixInit ops"

/-! ### an invariant of every reachable state -/

/-- **no dangling name**: after any sequence of operations (all Fs methods, every flag, every
    handle method) every name of the path map leads to an allocated object — the part of the index
    invariant that is proved for every reachable state (the rest of `Consistent`: see
    `Proofs/MemFsInv.lean`, proved for the building blocks only) -/
theorem every_name_allocated (ops : List Op) (k : Key) (f : Nat)
    (h : (MemFs.run MemFs.init ops).lookup k = some f) : f < (MemFs.run MemFs.init ops).objs.length :=
  MemFs.reachable_inRange ops k f h

example : (MemFs.run MemFs.init [.mkdir "/a".toList 0o755, .create "/a/f".toList, .create "/g".toList, .remove "/g".toList]).lookup
    (keyOfStr "/a/f".toList) = some 2 := by decide

/-! ### the index invariant after every well-formed program of the fragment -/

/-- **the tree stays self-consistent** (every existing path is listed by its parent directory, every
    listed entry exists and is listed under its own name, every existing path has an existing parent
    directory, every name leads to an allocated object that carries that name, and the path map holds
    one entry per name): after any program whose operations meet, in the state they run in, the
    ordinary preconditions `WFop` — Create of anything but an existing directory; Mkdir, MkdirAll and
    creating OpenFile of any name, however many levels are missing above it; Remove of a file or an
    empty directory; RemoveAll of any name but the root, with whatever lies below it; Rename of a file
    or an empty directory to a free name or over another file or empty directory (`RenameLeaf`), and of
    a directory **with its whole subtree** to a free name outside itself (`RenameSubtree`); every metadata
    call, every open, every method of every handle — in any number and any order. These are the
    preconditions the property itself states ("parents exist as directories, files and directories are
    not confused, only files or empty directories are removed, renames target a free name or replace
    file by file"); every one of the 24 operations of the model is covered. -/
theorem tree_consistent_fragment (ops : List Op) (hw : MemFs.WFrun MemFs.init ops) :
    MemFs.Consistent (MemFs.run MemFs.init ops) :=
  (MemFs.consistent_run_wf ops MemFs.init MemFs.consistent_init MemFs.keysNodup_init hw).1

/-- the path map never holds two entries for one name — after ANY operation sequence, well-formed or not -/
theorem one_entry_per_name (ops : List Op) : MemFs.KeysNodup (MemFs.run MemFs.init ops) :=
  MemFs.keysNodup_run ops MemFs.init MemFs.keysNodup_init

/-- the building blocks, stated for any consistent state: -/
theorem removeAll_keeps_consistent (m : MemFs) (hc : MemFs.Consistent m) (p : Str) (h : (keyOfStr p).segs ≠ []) :
    MemFs.Consistent (m.step (.removeAll p)).1 :=
  MemFs.consistent_removeAll m hc _ h (normKey_keyOfStr p)

theorem mkdirAll_keeps_consistent (m : MemFs) (hc : MemFs.Consistent m) (p : Str) (perm : Nat) :
    MemFs.Consistent (m.step (.mkdirAll p perm)).1 := by
  have hmk := MemFs.consistent_mkdir m hc (keyOfStr p) (normKey_keyOfStr p) perm
  simp only [MemFs.step]
  unfold MemFs.mkdirAll
  split
  · rename_i m' heq; rw [heq] at hmk; exact hmk
  · exact hmk

theorem rename_leaf_keeps_consistent (m : MemFs) (hc : MemFs.Consistent m) (a b : Str)
    (h : MemFs.RenameLeaf m (keyOfStr a) (keyOfStr b)) : MemFs.Consistent (m.step (.rename a b)).1 :=
  MemFs.consistent_rename_of_renameLeaf m hc _ _ h

/-- renaming a directory moves its whole subtree and keeps the tree consistent -/
theorem rename_subtree_keeps_consistent (m : MemFs) (hc : MemFs.Consistent m) (hk : MemFs.KeysNodup m) (a b : Str)
    (h : MemFs.RenameSubtree m (keyOfStr a) (keyOfStr b)) : MemFs.Consistent (m.step (.rename a b)).1 :=
  MemFs.consistent_step_wf m _ hc hk (Or.inr (Or.inr (Or.inr h)))

/-- non-vacuity: in the state after `mkdir /a; mkdir /a/b; create /a/b/f; create /a/g` the call
    `rename /a /z` meets `RenameSubtree` -/
example : MemFs.RenameSubtree MemFs.exD MemFs.dA MemFs.dZ :=
  ⟨1, by decide, by decide, by decide, by decide, by decide, 0, _, by decide, rfl⟩

/-- **every existing path has all its ancestors** -/
theorem ancestors_exist (m : MemFs) (hc : MemFs.Consistent m) (a k : Key) (f : Nat) (hn : normKey a = a)
    (hl : m.lookup k = some f) (hu : isUnder a k = true) : (m.lookup a).isSome :=
  MemFs.ancestor_exists m hc a hn _ k f rfl hl hu

/-- non-vacuity: a program of the fragment (three levels created at once, a subtree removed) -/
example : MemFs.WFrun MemFs.init [.mkdirAll "/a/b/c".toList 0o755, .create "/a/b/c/f".toList, .hWrite 0 [1, 2],
    .chmod "/a/b/c/f".toList 0o600, .removeAll "/a/b".toList, .remove "/a".toList] := by
  refine ⟨trivial, ?_⟩
  refine ⟨(fun f h => nomatch (h.symm.trans (by decide : _ = none))), ?_⟩
  refine ⟨trivial, trivial, ?_⟩
  refine ⟨(by decide : (keyOfStr "/a/b".toList).segs ≠ []), ?_⟩
  exact ⟨Or.inr ⟨by decide, 3, by decide, Or.inr (by decide)⟩, trivial⟩

example : (MemFs.run MemFs.init [.mkdirAll "/a/b/c".toList 0o755, .create "/a/b/c/f".toList, .removeAll "/a/b".toList]).data.map (·.1.render)
    = ["/".toList, "/a".toList] := by decide

/-! ### tie to the source: constants regenerated from the Go code on every run -/

/-- `chmodBits`, the access-mode bits that make a handle writable, and the size a directory reports
    are the ones written in memmap.go / mem/file.go (extracted by harness/cmd/facts) -/
theorem constants_are_source :
    chmodBits = Generated.chmodBits ∧ (O_WRONLY ||| O_RDWR) = Generated.memAccessMask ∧ Generated.dirSize = 42 := by decide

end AferoVerif.C01
