/-
  Property C02 — in-memory file contents equal a flat byte-array model.

  `stepC` transcribes mem/file.go (Go slice bounds explicit: out of range = `panic`);
  `stepS` is the flat byte array with per-handle offsets.  All statements quantify over
  arbitrary handle counts, op sequences, `Int` offsets (negative and beyond EOF included),
  buffer lengths (0 included) and payloads.
-/
import AferoVerif.Proofs.MemFile
namespace AferoVerif.C02

open AferoVerif

/-- handle offsets are never negative -/
def Inv (s : FileSt) : Prop := ∀ h ∈ s.hs, 0 ≤ h.pos

theorem inv_setH (s : FileSt) (i : Nat) (h : Handle) (hs : Inv s) (hh : 0 ≤ h.pos) : Inv (s.setH i h) := by
  intro x hx
  unfold FileSt.setH at hx
  rcases List.mem_or_eq_of_mem_set hx with h1 | h1
  · exact hs x h1
  · subst h1; exact hh

theorem setH_same (s : FileSt) (i : Nat) (h : Handle) (hi : s.hs[i]? = some h) : s.setH i h = s := by
  obtain ⟨hlt, he⟩ := List.getElem?_eq_some_iff.mp hi
  subst he
  simp [FileSt.setH]

theorem inv_data (s : FileSt) (d : Bytes) (hs : Inv s) : Inv { s with data := d } := hs

/-- One call: the code's arithmetic equals the flat specification, on outputs *and* state. -/
theorem step_refines (s : FileSt) (op : FOp) (hs : Inv s) : stepC s op = stepS s op := by
  cases op with
  | size => rfl
  | read i len =>
    simp only [stepC, stepS]
    cases hi : s.hs[i]? with
    | none => rfl
    | some h =>
      have hp := hs h (List.mem_of_getElem? hi)
      have hsame := setH_same s i h hi
      simp only
      by_cases hc : h.closed = true
      · simp [readC, hc, hsame]
      · have hc' : h.closed = false := by simpa using hc
        obtain ⟨cur, hcur⟩ : ∃ cur : Nat, h.pos = cur := ⟨h.pos.toNat, by omega⟩
        by_cases hin : (cur ≥ s.data.length ∧ (len > 0 ∨ cur > s.data.length))
        · simp only [hc', Bool.false_eq_true, if_false]
          unfold readC
          simp only [hc', Bool.false_eq_true, if_false]
          by_cases c1 : len > 0 ∧ h.pos = (s.data.length : Int)
          · have c0 : ¬ (h.pos > (s.data.length : Int)) := by omega
            have c1' : h.pos = (s.data.length : Int) ∧ len > 0 := ⟨c1.2, c1.1⟩
            simp [c1, c0, c1', hsame]
          · have c2 : h.pos > (s.data.length : Int) := by omega
            simp [c1, c2, hsame]
        · have ca : ¬ (h.pos > (s.data.length : Int)) := by omega
          have cb : ¬ (h.pos = (s.data.length : Int) ∧ len > 0) := by omega
          simp only [hc', Bool.false_eq_true, if_false, ca, cb]
          rw [readC_eq s.data h len cur hcur hc' hin]
          have : h.pos.toNat = cur := by omega
          simp [this, hc']
  | readAt i len off =>
    simp only [stepC, stepS]
    cases hi : s.hs[i]? with
    | none => rfl
    | some h =>
      simp only
      have hsame := setH_same s i h hi
      unfold readAtC
      by_cases hc : h.closed = true
      · by_cases ho : off < 0
        · simp [ho, hc, hsame]
        · simp [ho, hc, hsame, readC]
      · have hc' : h.closed = false := by simpa using hc
        by_cases ho : off < 0
        · simp [ho, hc', hsame]
        · simp only [ho, if_false]
          obtain ⟨cur, hcur⟩ : ∃ cur : Nat, off = cur := ⟨off.toNat, by omega⟩
          subst hcur
          have hl := readS_length s.data cur len
          by_cases hin : (cur ≥ s.data.length ∧ (len > 0 ∨ cur > s.data.length))
          · have hr : (readS s.data cur len).length = 0 := by omega
            have hr' : readS s.data cur len = [] := List.eq_nil_of_length_eq_zero hr
            unfold readC
            simp only [hc', Bool.false_eq_true, if_false, Int.toNat_natCast, hr']
            by_cases c1 : len > 0 ∧ (cur : Int) = (s.data.length : Int)
            · have : 0 < len := c1.1
              have c0 : ¬ ((cur : Int) > (s.data.length : Int)) := by omega
              simp [c1, c0, hsame, this]
            · have c2 : (cur : Int) > (s.data.length : Int) := by omega
              simp [c1, c2, hsame]
          · rw [readC_eq s.data { h with pos := (cur : Int) } len cur rfl hc' hin]
            simp only [hsame, Int.toNat_natCast, hc', Bool.false_eq_true, if_false]
            have hnb : ¬ ((cur:Int) > s.data.length) := by omega
            by_cases hshort : (readS s.data cur len).length < len <;> simp [hshort, hsame, hnb]
  | write i b =>
    simp only [stepC, stepS]
    cases hi : s.hs[i]? with
    | none => rfl
    | some h =>
      have hp := hs h (List.mem_of_getElem? hi)
      have hsame := setH_same s i h hi
      simp only
      by_cases hc : h.closed = true
      · simp [writeC, hc, hsame]
      · have hc' : h.closed = false := by simpa using hc
        by_cases hr : h.readOnly = true
        · simp [writeC, hc', hr, hsame]
        · have hr' : h.readOnly = false := by simpa using hr
          by_cases hb : b = []
          · simp [writeC, hc', hr', hb, hsame]
          · obtain ⟨cur, hcur⟩ : ∃ cur : Nat, h.pos = cur := ⟨h.pos.toNat, by omega⟩
            rw [writeC_eq s.data h b cur hcur hc' hr' hb]
            have : h.pos.toNat = cur := by omega
            simp [hc', hr', hb, this]
  | writeAt i b off =>
    simp only [stepC, stepS]
    cases hi : s.hs[i]? with
    | none => rfl
    | some h =>
      have hsame := setH_same s i h hi
      have hsame' : ∀ d, ({ s with data := d } : FileSt).setH i h = { s with data := d } :=
        fun d => setH_same { s with data := d } i h hi
      simp only
      unfold writeAtC
      by_cases hc : h.closed = true
      · by_cases ho : off < 0 <;> simp [writeC, hc, ho, hsame]
      · have hc' : h.closed = false := by simpa using hc
        by_cases hr : h.readOnly = true
        · by_cases ho : off < 0 <;> simp [writeC, hc', hr, ho, hsame]
        · have hr' : h.readOnly = false := by simpa using hr
          by_cases ho : off < 0
          · simp [hc', hr', ho, hsame]
          · obtain ⟨cur, hcur⟩ : ∃ cur : Nat, off = cur := ⟨off.toNat, by omega⟩
            subst hcur
            simp only [ho, if_false]
            by_cases hb : b = []
            · simp [writeC, hc', hr', hb, hsame]
            · rw [writeC_eq s.data { h with pos := (cur : Int) } b cur rfl hc' hr' hb]
              simp [hc', hr', hb, hsame']
  | truncate i size =>
    simp only [stepC, stepS]
    cases hi : s.hs[i]? with
    | none => rfl
    | some h =>
      simp only
      by_cases hc : h.closed = true
      · simp [truncC, hc]
      · have hc' : h.closed = false := by simpa using hc
        by_cases hr : h.readOnly = true
        · simp [truncC, hc', hr]
        · have hr' : h.readOnly = false := by simpa using hr
          by_cases hn : size < 0
          · simp [truncC, hc', hr', hn]
          · obtain ⟨n, hn'⟩ : ∃ n : Nat, size = n := ⟨size.toNat, by omega⟩
            subst hn'
            rw [truncC_eq s.data h n hc' hr']
            simp [hc', hr']
  | seek i off wh =>
    simp only [stepC, stepS]
    cases hi : s.hs[i]? with
    | none => rfl
    | some h =>
      have hsame := setH_same s i h hi
      simp only
      unfold seekC
      by_cases hc : h.closed = true
      · simp [hc, hsame]
      · have hc' : h.closed = false := by simpa using hc
        simp only [hc', Bool.false_eq_true, if_false]
        split <;> simp_all
  | close i =>
    simp only [stepC, stepS]
    cases hi : s.hs[i]? with
    | none => rfl
    | some h => simp [closeC]

/-- the spec keeps offsets non-negative -/
theorem stepS_inv (s : FileSt) (op : FOp) (hs : Inv s) : Inv (stepS s op).1 := by
  cases op with
  | size => exact hs
  | read i len =>
    simp only [stepS]
    cases hi : s.hs[i]? with
    | none => exact hs
    | some h =>
      have hp := hs h (List.mem_of_getElem? hi)
      simp only
      repeat' split
      all_goals first
        | exact hs
        | exact inv_setH _ _ _ hs (by simp only; omega)
  | readAt i len off =>
    simp only [stepS]
    cases hi : s.hs[i]? with
    | none => exact hs
    | some h =>
      simp only
      repeat' split
      all_goals exact hs
  | write i b =>
    simp only [stepS]
    cases hi : s.hs[i]? with
    | none => exact hs
    | some h =>
      have hp := hs h (List.mem_of_getElem? hi)
      simp only
      repeat' split
      all_goals first
        | exact hs
        | exact inv_setH _ _ _ (inv_data s _ hs) (by simp only; omega)
  | writeAt i b off =>
    simp only [stepS]
    cases hi : s.hs[i]? with
    | none => exact hs
    | some h =>
      simp only
      repeat' split
      all_goals exact hs
  | truncate i size =>
    simp only [stepS]
    cases hi : s.hs[i]? with
    | none => exact hs
    | some h =>
      simp only
      repeat' split
      all_goals exact hs
  | seek i off wh =>
    simp only [stepS]
    cases hi : s.hs[i]? with
    | none => exact hs
    | some h =>
      simp only
      repeat' split
      all_goals first
        | exact hs
        | (apply inv_setH _ _ _ hs; simp only; omega)
  | close i =>
    simp only [stepS]
    cases hi : s.hs[i]? with
    | none => exact hs
    | some h =>
      have hp := hs h (List.mem_of_getElem? hi)
      exact inv_setH _ _ _ hs hp

/-- **C02, main theorem.** Every sequence of calls through any number of handles, with any
    offsets and payloads, gives exactly the results and the bytes of the flat array model. -/
theorem refines_flat (s : FileSt) (ops : List FOp) (hs : Inv s) :
    runWith stepC s ops = runWith stepS s ops := by
  induction ops generalizing s with
  | nil => rfl
  | cons op ops ih =>
    simp only [runWith]
    rw [step_refines s op hs]
    rw [ih (stepS s op).1 (stepS_inv s op hs)]

/-- the spec never panics (by inspection of every branch) … -/
theorem stepS_no_panic (s : FileSt) (op : FOp) : (stepS s op).2 ≠ .panic := by
  cases op <;> simp only [stepS] <;> (repeat' split) <;> simp

/-- … hence no call sequence makes the code's slice arithmetic go out of bounds. -/
theorem no_panic (s : FileSt) (ops : List FOp) (hs : Inv s) : FOut.panic ∉ (runWith stepC s ops).2 := by
  rw [refines_flat s ops hs]
  induction ops generalizing s with
  | nil => simp [runWith]
  | cons op ops ih =>
    simp only [runWith, List.mem_cons, not_or]
    exact ⟨fun h => stepS_no_panic s op h.symm, ih _ (stepS_inv s op hs)⟩

/-- freshly opened handles (offset 0) satisfy the invariant -/
theorem inv_fresh (d : Bytes) (ros : List Bool) :
    Inv { data := d, hs := ros.map fun r => { readOnly := r } } := by
  intro h hh
  simp only [List.mem_map] at hh
  obtain ⟨r, _, rfl⟩ := hh
  simp

/-! ### pointwise reading of the spec (what "flat byte array" means) -/

theorem writeS_get_before (d : Bytes) (off : Nat) (b : Bytes) (i : Nat) (hi : i < off) :
    (writeS d off b)[i]? = if i < d.length then d[i]? else some 0 := by
  unfold writeS
  simp only
  rw [List.append_assoc, List.getElem?_append_left (by simp; omega), List.getElem?_take_of_lt hi]
  by_cases h : i < d.length
  · simp [h, List.getElem?_append_left h]
  · simp only [h, if_false]
    rw [List.getElem?_append_right (by omega), List.getElem?_replicate]
    simp; omega

theorem writeS_get_inside (d : Bytes) (off : Nat) (b : Bytes) (i : Nat) (h1 : off ≤ i) (h2 : i < off + b.length) :
    (writeS d off b)[i]? = b[i - off]? := by
  unfold writeS
  simp only
  have hl : (List.take off (d ++ List.replicate (off - d.length) 0)).length = off := by simp; omega
  rw [List.append_assoc, List.getElem?_append_right (by omega), hl,
    List.getElem?_append_left (by omega)]

theorem writeS_get_after (d : Bytes) (off : Nat) (b : Bytes) (i : Nat) (h2 : off + b.length ≤ i) :
    (writeS d off b)[i]? = d[i]? := by
  unfold writeS
  simp only
  have hl : (List.take off (d ++ List.replicate (off - d.length) 0)).length = off := by simp; omega
  rw [List.getElem?_append_right (by simp; omega)]
  simp only [List.length_append, hl, List.getElem?_drop]
  rw [show off + b.length + (i - (off + b.length)) = i by omega]
  by_cases h : i < d.length
  · rw [List.getElem?_append_left h]
  · rw [List.getElem?_append_right (by omega), List.getElem?_replicate]
    have : ¬ (i - d.length < off - d.length) := by omega
    simp only [this, if_false]
    rw [List.getElem?_eq_none (by omega)]

theorem truncS_get (d : Bytes) (n i : Nat) :
    (truncS d n)[i]? = if i < n then (if i < d.length then d[i]? else some 0) else none := by
  unfold truncS
  by_cases h : i < n
  · by_cases h' : i < d.length
    · simp only [h, h', if_true]
      rw [List.getElem?_append_left (by simp; omega), List.getElem?_take_of_lt h]
    · simp only [h, h', if_true, if_false]
      rw [List.getElem?_append_right (by simp; omega), List.getElem?_replicate]
      simp; omega
  · simp only [h, if_false]
    rw [List.getElem?_eq_none (by simp; omega)]

/-- reported size equals the array length (both sides) -/
theorem size_eq_len (s : FileSt) : (stepC s .size).2 = .size s.data.length := rfl

/-! ### named clauses of the property, stated on the code model -/

/-- positional reads and writes do not move any handle offset -/
theorem positional_keeps_offset (s : FileSt) (i len : Nat) (b : Bytes) (off : Int) (hs : Inv s) :
    (stepC s (.readAt i len off)).1.hs = s.hs ∧ (stepC s (.writeAt i b off)).1.hs = s.hs := by
  rw [step_refines _ _ hs, step_refines _ _ hs]
  constructor
  · simp only [stepS]; cases s.hs[i]? with
    | none => rfl
    | some h =>
      simp only
      repeat' split
      all_goals rfl
  · simp only [stepS]; cases s.hs[i]? with
    | none => rfl
    | some h =>
      simp only
      repeat' split
      all_goals rfl

/-- a short positional read reports end of file (io.EOF, or io.ErrUnexpectedEOF when the offset
    lies strictly beyond the end) -/
theorem short_readAt_reports_eof (s : FileSt) (i len : Nat) (off : Int) (h : Handle) (hs : Inv s)
    (hi : s.hs[i]? = some h) (hc : h.closed = false) (ho : 0 ≤ off) (r : Bytes) (e : Option FErr)
    (hr : (stepC s (.readAt i len off)).2 = .bytes r e) (hshort : r.length < len) :
    e = some .eof ∨ e = some .ueof := by
  rw [step_refines _ _ hs] at hr
  simp only [stepS, hi, hc, Bool.false_eq_true, if_false, show ¬ off < 0 by omega] at hr
  injection hr with h1 h2
  subst h1
  simp only [hshort, if_true] at h2
  rw [← h2]
  split
  · right; rfl
  · left; rfl

/-- a read-only or closed handle never changes the data -/
theorem ro_or_closed_inert (s : FileSt) (op : FOp) (i : Nat) (h : Handle) (hs : Inv s)
    (hi : s.hs[i]? = some h) (hrc : h.readOnly = true ∨ h.closed = true)
    (hop : op = .read i n ∨ op = .readAt i n off ∨ op = .write i b ∨ op = .writeAt i b off ∨
           op = .truncate i sz ∨ op = .seek i off wh ∨ op = .close i) :
    (stepC s op).1.data = s.data := by
  rw [step_refines _ _ hs]
  rcases hop with rfl | rfl | rfl | rfl | rfl | rfl | rfl <;> simp only [stepS, hi]
  · repeat' split
    all_goals rfl
  · repeat' split
    all_goals rfl
  · rcases hrc with h1 | h1 <;> simp only [h1, if_true] <;> (repeat' split) <;> rfl
  · rcases hrc with h1 | h1 <;> simp only [h1, if_true] <;> (repeat' split) <;> rfl
  · rcases hrc with h1 | h1 <;> simp only [h1, if_true] <;> (repeat' split) <;> rfl
  · repeat' split
    all_goals rfl
  · rfl

/-! ### non-vacuity: concrete runs that exercise gap fill, tail keep, truncation, EOF -/

def ex0 : FileSt := { data := [], hs := [{}, { readOnly := true }] }

example : Inv ex0 := inv_fresh [] [false, true]

example : (runWith stepC ex0
    [.write 0 [1,2,3,4,5], .writeAt 0 [9] 1, .seek 0 8 0, .write 0 [7], .truncate 0 3,
     .readAt 1 4 1, .read 1 2, .write 1 [1], .seek 0 (-1) 0, .size]).2 =
    [.n 5 none, .n 1 none, .pos 8, .n 1 none, .ok,
     .bytes [9,3] (some .eof), .bytes [1,9] none, .n 0 (some .rohandle), .err .inval, .size 3] := by
  decide

end AferoVerif.C02
