/-
  Property C05 — CopyOnWriteFs never modifies its base layer
  (base and overlay: MemMapFs models; every Fs method, every `Nat` flag, every method of every
  handle the union returns, including UnionFile handles on directories).
-/
import AferoVerif.Model.Cow
import AferoVerif.Proofs.ReadOnly
import AferoVerif.Generated.Facts
namespace AferoVerif.C05
open AferoVerif AferoVerif.RO

/-- the union's write mask is the read-only wrapper's mask -/
theorem mask_eq : cowWriteMask = roWriteMask := rfl

/-- invariant: every handle open on the base is a read-only handle -/
def BaseRO (c : Cow) : Prop := AllRO c.s.b

/-- what must never change -/
def baseTree (c : Cow) := tree c.s.b

/-! the overlay-side helpers do not touch the base -/
theorem liftL_b (c : Cow) (r : MemFs × MRes) : (c.liftL r).1.s.b = c.s.b := rfl
theorem copyUp_b (c : Cow) (p : Str) : (c.copyUpIfBase p).1.s.b = c.s.b := by
  unfold Cow.copyUpIfBase; split <;> rfl
theorem layerOpenFile_b (c : Cow) (k : Key) (f p : Nat) : (c.layerOpenFile k f p).1.s.b = c.s.b := by
  unfold Cow.layerOpenFile Cow.addH; simp only; split <;> rfl

theorem baseOpenFile_frozen (c : Cow) (k : Key) (flag perm : Nat) (hf : flag &&& cowWriteMask = 0)
    (h : BaseRO c) : baseTree (c.baseOpenFile k flag perm).1 = baseTree c ∧ BaseRO (c.baseOpenFile k flag perm).1 := by
  have := openFile_nowrite_frozen c.s.b k flag perm (by rw [← mask_eq]; exact hf) h
  unfold Cow.baseOpenFile Cow.addH baseTree BaseRO
  simp only
  split <;> exact this

theorem open_frozen (c : Cow) (name : Str) (h : BaseRO c) :
    baseTree (c.open_ name).1 = baseTree c ∧ BaseRO (c.open_ name).1 := by
  unfold Cow.open_
  simp only
  have hb := openRO_frozen c.s.b (keyOfStr name) h
  unfold baseTree BaseRO Cow.addH
  split
  · split <;> exact hb
  · split
    · exact ⟨rfl, h⟩
    · split
      · split
        · exact hb
        · exact ⟨rfl, h⟩
      · split <;> exact ⟨rfl, h⟩

theorem openFile_frozen (c : Cow) (name : Str) (flag perm : Nat) (h : BaseRO c) :
    baseTree (c.openFile name flag perm).1 = baseTree c ∧ BaseRO (c.openFile name flag perm).1 := by
  unfold Cow.openFile
  simp only
  by_cases hm : flag &&& cowWriteMask ≠ 0
  · rw [if_pos hm]
    split
    · -- copy up, then open in the overlay
      have hb := copyUp_b c name
      cases hcu : c.copyUpIfBase name with
      | mk c' e =>
        rw [hcu] at hb
        simp only at hb
        cases e with
        | some e => simp only; unfold baseTree BaseRO; rw [hb]; exact ⟨rfl, h⟩
        | none => simp only; unfold baseTree BaseRO; rw [layerOpenFile_b, hb]; exact ⟨rfl, h⟩
    · split
      · split
        · unfold baseTree BaseRO; rw [layerOpenFile_b]; exact ⟨rfl, h⟩
        · exact ⟨rfl, h⟩
      · split
        · exact ⟨rfl, h⟩
        · unfold baseTree BaseRO; rw [layerOpenFile_b]; exact ⟨rfl, h⟩
        · exact ⟨rfl, h⟩
  · rw [if_neg hm]
    have hm' : flag &&& cowWriteMask = 0 := by simpa using hm
    split
    · exact baseOpenFile_frozen c _ flag perm hm' h
    · split
      · exact open_frozen c name h
      · unfold baseTree BaseRO; rw [layerOpenFile_b]; exact ⟨rfl, h⟩

/-- the base component after a union listing is the base itself or the base after its own Readdir -/
theorem ureaddir_b (s : Layers) (u : UFile) (c : Int) :
    (u.readdir s c).1.b = s.b ∨ (u.readdir s c).1.b = (s.b.readdir u.bi (-1)).1 := by
  unfold UFile.readdir
  simp only
  by_cases h0 : u.off = 0
  · simp only [h0, if_true]
    cases (s.l.readdir u.li (-1)).2.1 with
    | none => left; simp only; repeat' split
              all_goals rfl
    | some lfs =>
      cases (s.b.readdir u.bi (-1)).2.1 with
      | none => right; simp only; repeat' split
                all_goals rfl
      | some bfs => right; simp only; repeat' split
                    all_goals rfl
  · left; simp only [h0, if_false]; repeat' split
    all_goals rfl

/-- handle ops re-indexed to the underlying handle are still handle ops -/
theorem reindex_handle (op : Op) (i : Nat) (h : op.handle?.isSome) : (Cow.reindex op i).handle?.isSome := by
  cases op <;> simp [Op.handle?] at h <;> simp [Cow.reindex, Op.handle?]

/-- every method of every handle the union ever returned -/
theorem handleOp_frozen (c : Cow) (hi : Nat) (op : Op) (hop : op.handle?.isSome) (h : BaseRO c) :
    baseTree (c.handleOp hi op).1 = baseTree c ∧ BaseRO (c.handleOp hi op).1 := by
  unfold Cow.handleOp
  cases hh : c.hs[hi]? with
  | none => exact ⟨rfl, h⟩
  | some ch =>
    cases ch with
    | base i =>
      simp only
      exact handle_step_frozen c.s.b _ (reindex_handle op i hop) h
    | layer i => exact ⟨rfl, h⟩
    | union u =>
      have hseek : ∀ o w, tree (c.s.b.hSeek u.bi o w).1 = tree c.s.b ∧ AllRO (c.s.b.hSeek u.bi o w).1 :=
        fun o w => handle_step_frozen c.s.b (.hSeek u.bi o w) rfl h
      have hwrite : ∀ bs, tree (c.s.b.hWrite u.bi bs).1 = tree c.s.b ∧ AllRO (c.s.b.hWrite u.bi bs).1 :=
        fun bs => handle_step_frozen c.s.b (.hWrite u.bi bs) rfl h
      have hwriteAt : ∀ bs o, tree (c.s.b.hWriteAt u.bi bs o).1 = tree c.s.b ∧ AllRO (c.s.b.hWriteAt u.bi bs o).1 :=
        fun bs o => handle_step_frozen c.s.b (.hWriteAt u.bi bs o) rfl h
      have htrunc : ∀ n, tree (c.s.b.hTruncate u.bi n).1 = tree c.s.b ∧ AllRO (c.s.b.hTruncate u.bi n).1 :=
        fun n => handle_step_frozen c.s.b (.hTrunc u.bi n) rfl h
      have hclose : tree (c.s.b.hClose u.bi).1 = tree c.s.b ∧ AllRO (c.s.b.hClose u.bi).1 :=
        handle_step_frozen c.s.b (.hClose u.bi) rfl h
      have hrd : ∀ n, tree (c.s.b.readdir u.bi n).1 = tree c.s.b ∧ AllRO (c.s.b.readdir u.bi n).1 := by
        intro n
        have := handle_step_frozen c.s.b (.hReaddir u.bi n) rfl h
        simpa [MemFs.step] using this
      cases op <;> simp [Op.handle?] at hop <;> simp only [baseTree, BaseRO]
      · -- read
        unfold UFile.read; simp only; split
        · split <;> exact hseek _ _
        · exact ⟨rfl, h⟩
      · exact ⟨rfl, h⟩          -- readAt: layer only
      · unfold UFile.write; simp only; split
        · exact hwrite _
        · exact ⟨rfl, h⟩
      · unfold UFile.writeAt; simp only; split
        · exact hwriteAt _ _
        · exact ⟨rfl, h⟩
      · unfold UFile.truncate; simp only; split
        · exact htrunc _
        · exact ⟨rfl, h⟩
      · unfold UFile.seek; simp only; split
        · split <;> exact hseek _ _
        · exact ⟨rfl, h⟩
      · unfold UFile.close; simp only; exact hclose
      · first | exact ⟨rfl, h⟩ | exact ⟨trivial, h⟩ | exact h
      · first | exact ⟨rfl, h⟩ | exact ⟨trivial, h⟩ | exact h
      · first | exact ⟨rfl, h⟩ | exact ⟨trivial, h⟩ | exact h
      · rename_i hh' n
        simp only [Cow.setH]
        rcases ureaddir_b c.s u n with e | e
        · rw [e]; exact ⟨rfl, h⟩
        · rw [e]; exact hrd _
      · rename_i hh' n
        simp only [Cow.setH]
        rcases ureaddir_b c.s u n with e | e
        · rw [e]; exact ⟨rfl, h⟩
        · rw [e]; exact hrd _

/-- metadata changes copy up first and then act on the overlay only -/
theorem meta_frozen (c : Cow) (p : Str) (f : Cow → Cow × MRes) (hf : ∀ c', (f c').1.s.b = c'.s.b) (h : BaseRO c) :
    baseTree (match c.copyUpIfBase p with
      | (c, some e) => (c, MRes.err e)
      | (c, none) => f c).1 = baseTree c ∧
    BaseRO (match c.copyUpIfBase p with
      | (c, some e) => (c, MRes.err e)
      | (c, none) => f c).1 := by
  have hb := copyUp_b c p
  cases hcu : c.copyUpIfBase p with
  | mk c' e =>
    rw [hcu] at hb; simp only at hb
    cases e with
    | some e => simp only; unfold baseTree BaseRO; rw [hb]; exact ⟨rfl, h⟩
    | none => simp only; unfold baseTree BaseRO; rw [hf, hb]; exact ⟨rfl, h⟩

/-- one call through the union: the base is unchanged and all its handles stay read-only -/
theorem cow_step_frozen (c : Cow) (op : Op) (h : BaseRO c) :
    baseTree (c.step op).1 = baseTree c ∧ BaseRO (c.step op).1 := by
  cases op with
  | chtimes p t => exact meta_frozen c p _ (fun _ => rfl) h
  | chmod p m => exact meta_frozen c p _ (fun _ => rfl) h
  | chown p u g => exact meta_frozen c p _ (fun _ => rfl) h
  | stat p => simp only [Cow.step]; split <;> exact ⟨rfl, h⟩
  | rename a b => simp only [Cow.step]; split <;> exact ⟨rfl, h⟩
  | remove p => exact ⟨rfl, h⟩
  | removeAll p => exact ⟨rfl, h⟩
  | openFile p flag perm => exact openFile_frozen c p flag perm h
  | open_ p => exact open_frozen c p h
  | create p => exact openFile_frozen c p _ _ h
  | mkdir p perm => simp only [Cow.step]; split <;> exact ⟨rfl, h⟩
  | mkdirAll p perm => simp only [Cow.step]; split <;> exact ⟨rfl, h⟩
  | hRead hi n => exact handleOp_frozen c hi _ rfl h
  | hReadAt hi n o => exact handleOp_frozen c hi _ rfl h
  | hWrite hi b => exact handleOp_frozen c hi _ rfl h
  | hWriteAt hi b o => exact handleOp_frozen c hi _ rfl h
  | hTrunc hi n => exact handleOp_frozen c hi _ rfl h
  | hSeek hi o w => exact handleOp_frozen c hi _ rfl h
  | hClose hi => exact handleOp_frozen c hi _ rfl h
  | hName hi => exact handleOp_frozen c hi _ rfl h
  | hStat hi => exact handleOp_frozen c hi _ rfl h
  | hSync hi => exact handleOp_frozen c hi _ rfl h
  | hReaddir hi n => exact handleOp_frozen c hi _ rfl h
  | hReaddirnames hi n => exact handleOp_frozen c hi _ rfl h

def cowRun (c : Cow) : List Op → Cow × List MRes
  | [] => (c, [])
  | op :: ops => let (c1, r) := c.step op; let (c2, rs) := cowRun c1 ops; (c2, r :: rs)

/-- **C05.** No sequence of calls through the copy-on-write filesystem — all Fs methods, every
    `Nat` flag value (including opens that request no write access), every method of every
    handle it returns — changes the base: same objects (names, bytes, modes, mtimes, directory
    indexes) and same path map, although the base itself is writable. -/
theorem cow_base_frozen (c : Cow) (ops : List Op) (h : BaseRO c) : baseTree (cowRun c ops).1 = baseTree c := by
  induction ops generalizing c with
  | nil => rfl
  | cons op ops ih =>
    simp only [cowRun]
    obtain ⟨h1, h2⟩ := cow_step_frozen c op h
    rw [ih _ h2, h1]

/-- a union freshly built over any base tree and any overlay tree satisfies the invariant -/
theorem baseRO_fresh (b l : MemFs) (hb : b.handles = []) : BaseRO { s := { b := b, l := l }, hs := [] } :=
  allRO_init b hb

/-! non-vacuity: a base file opened with O_SYNC (no write access: routed to the base), written
    to, then properly opened for writing (copy-up) — the base keeps its bytes -/
def base0 : MemFs :=
  let m := (MemFs.init.step (.create "/f".toList)).1
  let m := (m.step (.hWrite 0 [1, 2, 3])).1
  { m with handles := [] }
def cow0 : Cow := { s := { b := base0, l := MemFs.init }, hs := [] }

example : BaseRO cow0 := baseRO_fresh _ _ rfl
example : (cowRun cow0 [.openFile "/f".toList O_SYNC 0, .hWrite 0 [9], .openFile "/f".toList O_RDWR 0,
      .hWrite 1 [7], .hClose 1, .open_ "/f".toList, .hRead 2 8]).2 =
    [.handle 0 none, .file (.n 0 (some .rohandle)), .handle 1 none, .file (.n 1 none), .ok,
     .handle 2 none, .file (.bytes [7, 2, 3] none)] := by decide
example : ((cowRun cow0 [.openFile "/f".toList O_RDWR 0, .hWrite 0 [7], .hClose 0]).1.s.b.stat (keyOfStr "/f".toList)) =
    .info "f".toList 3 false modeTemporary := by decide

/-! ### tie to the source: constants regenerated from the Go code on every run -/

/-- the model's write mask is the one written in `CopyOnWriteFs.OpenFile` (extracted from
    copyOnWriteFs.go by harness/cmd/facts) -/
theorem cowWriteMask_is_source : cowWriteMask = Generated.cowWriteMask := by decide

/-- per exported method of `CopyOnWriteFs`: number of calls of `copyToLayer` and of `isBaseFile`, as
    extracted from the current copyOnWriteFs.go — the methods that copy up (and only those) are the
    ones the model copies up in: Chmod, Chown, Chtimes, OpenFile -/
theorem cow_methods_are_source : Generated.cowCalls =
    [("Chmod", [1, 1]), ("Chown", [1, 1]), ("Chtimes", [1, 1]), ("Create", [0, 0]), ("LstatIfPossible", [0, 0]),
     ("Mkdir", [0, 0]), ("MkdirAll", [0, 0]), ("Name", [0, 0]), ("Open", [0, 1]), ("OpenFile", [1, 1]),
     ("ReadlinkIfPossible", [0, 0]), ("Remove", [0, 0]), ("RemoveAll", [0, 0]), ("Rename", [0, 1]), ("Stat", [0, 0]),
     ("SymlinkIfPossible", [0, 0])] := by decide

/-- **in the current copyOnWriteFs.go no exported method of `CopyOnWriteFs` calls anything on the base but `Open`,
    `OpenFile` (whose flags are masked: `cowWriteMask_is_source`) and `Stat`** — every call into a layer, in source
    order, is extracted by harness/cmd/facts on every run; a new `u.base.Remove(…)`, `u.base.Chmod(…)`, … breaks
    this obligation -/
theorem cow_source_only_reads_base :
    (Generated.cowOrder.all fun r => r.2.all fun c => c.1 ≠ "base" ∨ c.2 = "Open" ∨ c.2 = "OpenFile" ∨ c.2 = "Stat") = true := by
  decide

end AferoVerif.C05
