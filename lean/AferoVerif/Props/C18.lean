/-
  Property C18 — TempFile and TempDir always create fresh, distinct entries.

  Model: Model/TempFile.lean (ioutil.go's `nextRandom`, `TempFile`, `TempDir`, transcribed) over the
  MemMapFs model (Model/MemMapFs.lean).  All theorems hold for every file-system state, every
  generator state and every stream of reseed values, every directory string, every pattern.
  Nothing here depends on which digits the generator produces: freshness and distinctness come
  from the exclusive create alone, so they also hold when candidates collide with existing names.

  * `temp_fresh_file` / `temp_fresh_dir` / `temp_fresh` — a successful call returns a name that was
    absent before, is bound to a brand-new object afterwards, lies directly in the cleaned
    requested directory, has the shape prefix ++ nine digits ++ suffix, and leaves every
    existing entry bound to the same object with the same content (`Ext`);
  * `temp_fail_inert` — a call that does not succeed changes nothing;
  * `temps_distinct` — any number of sequential calls return pairwise distinct names;
  * `never_opens_existing` — tries on taken names are refused without effect, and the handle
    returned is on an object that no existing name or handle refers to;
  * `conc_distinct` — the same for any number of concurrent callers under every interleaving of the
    atomic steps {nextRandom, exclusive create, reseed}.
-/
import AferoVerif.Proofs.TempFile
import AferoVerif.Generated.Facts
namespace AferoVerif.C18
open AferoVerif AferoVerif.Path AferoVerif.Temp

/-- the directory actually used: `os.TempDir()` for "" -/
def dirOf (tmp dir : Str) : Str := if dir = [] then tmp else dir

/-- What a successful temp call in directory `d` with the given prefix and suffix has done. -/
structure Fresh (m : MemFs) (o : Out) (d pre suf rnd : Str) : Prop where
  /-- the random part `rnd`: nine decimal digits -/
  isRand : IsRand rnd
  name_eq : o.name = join2 d (pre ++ rnd ++ suf)
  /-- the name did not exist before the call -/
  absent : m.lookup (keyOfStr o.name) = none
  /-- it is bound to a brand-new object afterwards -/
  present : o.m.lookup (keyOfStr o.name) = some m.objs.length
  /-- it lies directly in the (cleaned) requested directory -/
  parent : parentKey (keyOfStr o.name) = keyOfStr d
  base : baseName (keyOfStr o.name) = pre ++ rnd ++ suf
  /-- every entry that existed before is bound to the same object, whose content is unchanged -/
  ext : Ext m o.m

/-! ### the retry loops -/

theorem tempFileLoop_spec (fuel : Nat) (m : MemFs) (g : Rng) (dir pre suf : Str) (nc : Nat) :
    ((tempFileLoop fuel m g dir pre suf nc).res = .err .exist ∧ (tempFileLoop fuel m g dir pre suf nc).m = m) ∨
    (∃ rnd, IsRand rnd ∧ (tempFileLoop fuel m g dir pre suf nc).name = join2 dir (pre ++ rnd ++ suf) ∧
      m.lookup (keyOfStr (tempFileLoop fuel m g dir pre suf nc).name) = none ∧
      (tempFileLoop fuel m g dir pre suf nc).m = (m.openFile (keyOfStr (tempFileLoop fuel m g dir pre suf nc).name) tempFlags 0o600).1 ∧
      (tempFileLoop fuel m g dir pre suf nc).res = (m.openFile (keyOfStr (tempFileLoop fuel m g dir pre suf nc).name) tempFlags 0o600).2) := by
  induction fuel generalizing g nc with
  | zero => left; simp [tempFileLoop]
  | succ n ih =>
    rw [tempFileLoop]
    cases hl : m.lookup (keyOfStr (join2 dir (pre ++ (nextRandom g).1 ++ suf))) with
    | some f =>
      have ht := openFile_temp_taken m (keyOfStr (join2 dir (pre ++ (nextRandom g).1 ++ suf))) 0o600 (by rw [hl]; rfl)
      simp only []
      rw [if_pos (by rw [ht]), ht]
      exact ih _ _
    | none =>
      have hf := openFile_temp_free m _ 0o600 hl
      have hne : ¬ (m.openFile (keyOfStr (join2 dir (pre ++ (nextRandom g).1 ++ suf))) tempFlags 0o600).2 = .err .exist := by
        rw [hf.1]; intro h; cases h
      simp only []
      rw [if_neg hne]
      right
      exact ⟨(nextRandom g).1, nextRandom_isRand g, rfl, hl, rfl, rfl⟩

theorem tempDirLoop_spec (fuel : Nat) (m : MemFs) (g : Rng) (dir pre : Str) (nc : Nat) :
    ((tempDirLoop fuel m g dir pre nc).res = .err .exist ∧ (tempDirLoop fuel m g dir pre nc).m = m) ∨
    (∃ rnd, IsRand rnd ∧ (tempDirLoop fuel m g dir pre nc).name = join2 dir (pre ++ rnd) ∧
      m.lookup (keyOfStr (tempDirLoop fuel m g dir pre nc).name) = none ∧
      (tempDirLoop fuel m g dir pre nc).m = (m.mkdir (keyOfStr (tempDirLoop fuel m g dir pre nc).name) 0o700).1 ∧
      (tempDirLoop fuel m g dir pre nc).res = (m.mkdir (keyOfStr (tempDirLoop fuel m g dir pre nc).name) 0o700).2) := by
  induction fuel generalizing g nc with
  | zero => left; simp [tempDirLoop]
  | succ n ih =>
    rw [tempDirLoop]
    cases hl : m.lookup (keyOfStr (join2 dir (pre ++ (nextRandom g).1))) with
    | some f =>
      have ht := mkdir_taken m (keyOfStr (join2 dir (pre ++ (nextRandom g).1))) 0o700 (by rw [hl]; rfl)
      simp only []
      rw [if_pos (by rw [ht]), ht]
      exact ih _ _
    | none =>
      have hf := mkdir_free m _ 0o700 hl
      have hne : ¬ (m.mkdir (keyOfStr (join2 dir (pre ++ (nextRandom g).1))) 0o700).2 = .err .exist := by
        rw [hf.1]; intro h; cases h
      simp only []
      rw [if_neg hne]
      right
      exact ⟨(nextRandom g).1, nextRandom_isRand g, rfl, hl, rfl, rfl⟩

/-! ### temp_fresh -/

theorem dirOf_ne (tmp dir : Str) (h : tmp ≠ []) : dirOf tmp dir ≠ [] := by
  unfold dirOf; by_cases hd : dir = [] <;> simp [hd, h]

/-- **TempFile is fresh.**  A successful `TempFile(fs, dir, pattern)` has created a new entry. -/
theorem temp_fresh_file (tmp : Str) (htmp : tmp ≠ []) (m : MemFs) (g : Rng) (dir pattern : Str)
    (hok : (tempFile tmp m g dir pattern).fileOk = true) :
    (∃ rnd, Fresh m (tempFile tmp m g dir pattern) (dirOf tmp dir) (prefixSuffix pattern).1 (prefixSuffix pattern).2 rnd) ∧
    hasSep pattern = false ∧
    (tempFile tmp m g dir pattern).res = .handle m.handles.length none ∧
    (tempFile tmp m g dir pattern).m.handles[m.handles.length]? =
      some { obj := m.objs.length, h := { readOnly := false, pos := 0 } } := by
  unfold tempFile at hok ⊢
  by_cases hs : hasSep pattern = true
  · simp [hs, Out.fileOk] at hok
  · have hs' : hasSep pattern = false := by simpa using hs
    simp only [hs', Bool.false_eq_true, if_false] at hok ⊢
    have hps := prefixSuffix_no_sep pattern hs'
    have hd := dirOf_ne tmp dir htmp
    change (tempFileLoop maxTries m g (dirOf tmp dir) (prefixSuffix pattern).1 (prefixSuffix pattern).2 0).fileOk = true at hok
    change (∃ rnd, Fresh m (tempFileLoop maxTries m g (dirOf tmp dir) (prefixSuffix pattern).1 (prefixSuffix pattern).2 0) _ _ _ rnd) ∧ _ ∧
      (tempFileLoop maxTries m g (dirOf tmp dir) (prefixSuffix pattern).1 (prefixSuffix pattern).2 0).res = _ ∧
      (tempFileLoop maxTries m g (dirOf tmp dir) (prefixSuffix pattern).1 (prefixSuffix pattern).2 0).m.handles[m.handles.length]? = _
    rcases tempFileLoop_spec maxTries m g (dirOf tmp dir) (prefixSuffix pattern).1 (prefixSuffix pattern).2 0 with h | ⟨rnd, hr, hn, habs, hm, hres⟩
    · rw [Out.fileOk, h.1] at hok; cases hok
    · have hf := openFile_temp_free m _ 0o600 habs
      have hnb := normal_base _ _ _ hps.1 hps.2 hr
      refine ⟨⟨rnd, hr, hn, habs, by rw [hm]; exact hf.2.2.1, ?_, ?_, by rw [hm]; exact hf.2.1⟩, trivial, by rw [hres]; exact hf.1, by rw [hm]; exact hf.2.2.2.1⟩
      · rw [hn]; exact parentKey_join _ _ hd hnb
      · rw [hn]; exact baseName_join _ _ hd hnb

/-- **TempDir is fresh.**  A successful `TempDir(fs, dir, prefix)` has created a new directory. -/
theorem temp_fresh_dir (tmp : Str) (htmp : tmp ≠ []) (m : MemFs) (g : Rng) (dir pre : Str)
    (hok : (tempDir tmp m g dir pre).dirOk = true) :
    (∃ rnd, Fresh m (tempDir tmp m g dir pre) (dirOf tmp dir) pre [] rnd) ∧ hasSep pre = false ∧
    (tempDir tmp m g dir pre).m.handles = m.handles := by
  unfold tempDir at hok ⊢
  by_cases hs : hasSep pre = true
  · simp [hs, Out.dirOk] at hok
  · have hs' : hasSep pre = false := by simpa using hs
    simp only [hs', Bool.false_eq_true, if_false] at hok ⊢
    have hp : sep ∉ pre := by simpa [hasSep] using hs'
    have hd := dirOf_ne tmp dir htmp
    change (tempDirLoop maxTries m g (dirOf tmp dir) pre 0).dirOk = true at hok
    change (∃ rnd, Fresh m (tempDirLoop maxTries m g (dirOf tmp dir) pre 0) _ _ _ rnd) ∧ _ ∧
      (tempDirLoop maxTries m g (dirOf tmp dir) pre 0).m.handles = _
    rcases tempDirLoop_spec maxTries m g (dirOf tmp dir) pre 0 with h | ⟨rnd, hr, hn, habs, hm, hres⟩
    · simp [Out.dirOk, h.1] at hok
    · have hf := mkdir_free m _ 0o700 habs
      have hnb := normal_base pre rnd [] hp (by simp) hr
      have hn' : (tempDirLoop maxTries m g (dirOf tmp dir) pre 0).name = join2 (dirOf tmp dir) (pre ++ rnd ++ []) := by simpa using hn
      refine ⟨⟨rnd, hr, hn', habs, by rw [hm]; exact hf.2.2.1, ?_, ?_, by rw [hm]; exact hf.2.1⟩, trivial, by rw [hm]; exact hf.2.2.2.1⟩
      · rw [hn']; exact parentKey_join _ _ hd hnb
      · rw [hn']; exact baseName_join _ _ hd hnb

/-- prefix and suffix as the caller gave them: the base name starts with the text before the last
    '*' and ends with the text after it; without a '*' the whole pattern is the prefix. -/
theorem fresh_prefix_suffix {m : MemFs} {o : Out} {d rnd : Str} (pattern : Str)
    (h : Fresh m o d (prefixSuffix pattern).1 (prefixSuffix pattern).2 rnd) :
    (prefixSuffix pattern).1 <+: baseName (keyOfStr o.name) ∧
    (prefixSuffix pattern).2 <:+ baseName (keyOfStr o.name) ∧
    ('*' ∈ pattern → pattern = (prefixSuffix pattern).1 ++ '*' :: (prefixSuffix pattern).2 ∧ '*' ∉ (prefixSuffix pattern).2) ∧
    ('*' ∉ pattern → (prefixSuffix pattern).1 = pattern ∧ (prefixSuffix pattern).2 = []) := by
  refine ⟨?_, ?_, prefixSuffix_star pattern, fun hn => by rw [prefixSuffix_nostar pattern hn]; exact ⟨rfl, rfl⟩⟩
  · rw [h.base, List.append_assoc]; exact List.prefix_append _ _
  · rw [h.base]; exact List.suffix_append _ _

/-- what `Ext` means for one entry of a well-formed state: same object, same bytes, same name,
    mode and times; a directory stays a directory -/
theorem ext_entry {m m' : MemFs} (he : Ext m m') (hwf : WF m) (k : Key) (o : Nat) (hl : m.lookup k = some o) :
    m'.lookup k = some o ∧ (m'.obj o).data = (m.obj o).data ∧ (m'.obj o).name = (m.obj o).name ∧
    (m'.obj o).mode = (m.obj o).mode ∧ (m'.obj o).mtime = (m.obj o).mtime ∧
    ((m.obj o).memDir.isSome → (m'.obj o).dir = (m.obj o).dir) := by
  have h := he.obj o (hwf k o hl)
  exact ⟨he.look k o hl, h.1, h.2.1, h.2.2.1, h.2.2.2.1, fun hd => (h.2.2.2.2.2.2 hd).2⟩

/-- **temp_fresh**, both calls in one statement, in the words of the property: the returned name
    was absent before, exists afterwards, lies directly inside the cleaned requested directory,
    starts with the prefix and ends with the suffix, and every entry that existed before is
    unchanged (same object, same bytes). -/
theorem temp_fresh (tmp : Str) (htmp : tmp ≠ []) (m : MemFs) (hwf : WF m) (g : Rng) (c : Call)
    (hok : (call tmp m g c).ok c = true) :
    m.lookup (keyOfStr (call tmp m g c).name) = none ∧
    ((call tmp m g c).m.lookup (keyOfStr (call tmp m g c).name)).isSome ∧
    (match c with
      | .file dir pattern =>
        parentKey (keyOfStr (call tmp m g c).name) = keyOfStr (dirOf tmp dir) ∧
        (prefixSuffix pattern).1 <+: baseName (keyOfStr (call tmp m g c).name) ∧
        (prefixSuffix pattern).2 <:+ baseName (keyOfStr (call tmp m g c).name)
      | .dir dir pre =>
        parentKey (keyOfStr (call tmp m g c).name) = keyOfStr (dirOf tmp dir) ∧
        pre <+: baseName (keyOfStr (call tmp m g c).name)) ∧
    (∀ k o, m.lookup k = some o →
      (call tmp m g c).m.lookup k = some o ∧ ((call tmp m g c).m.obj o).data = (m.obj o).data) := by
  cases c with
  | file dir pattern =>
    obtain ⟨rnd, h⟩ := (temp_fresh_file tmp htmp m g dir pattern hok).1
    have hp := fresh_prefix_suffix pattern h
    refine ⟨h.absent, by rw [show (call tmp m g (.file dir pattern)) = tempFile tmp m g dir pattern from rfl, h.present]; rfl,
      ⟨h.parent, hp.1, hp.2.1⟩, fun k o hl => ?_⟩
    have := ext_entry h.ext hwf k o hl
    exact ⟨this.1, this.2.1⟩
  | dir dir pre =>
    obtain ⟨rnd, h⟩ := (temp_fresh_dir tmp htmp m g dir pre hok).1
    refine ⟨h.absent, by rw [show (call tmp m g (.dir dir pre)) = tempDir tmp m g dir pre from rfl, h.present]; rfl,
      ⟨h.parent, ?_⟩, fun k o hl => ?_⟩
    · show pre <+: baseName (keyOfStr (tempDir tmp m g dir pre).name)
      rw [h.base, List.append_assoc]; exact List.prefix_append _ _
    · have := ext_entry h.ext hwf k o hl
      exact ⟨this.1, this.2.1⟩

/-- a temp call extends the state, whether it succeeds or not; when it does not succeed, nothing
    at all has changed -/
theorem call_ext (tmp : Str) (htmp : tmp ≠ []) (m : MemFs) (g : Rng) (c : Call) :
    Ext m (call tmp m g c).m ∧ ((call tmp m g c).ok c = false → (call tmp m g c).m = m) := by
  cases c with
  | file dir pattern =>
    show Ext m (tempFile tmp m g dir pattern).m ∧ ((tempFile tmp m g dir pattern).fileOk = false → (tempFile tmp m g dir pattern).m = m)
    cases hok : (tempFile tmp m g dir pattern).fileOk with
    | true => exact ⟨(temp_fresh_file tmp htmp m g dir pattern hok).1.elim (fun _ h => h.ext), fun h => by cases h⟩
    | false =>
      have : (tempFile tmp m g dir pattern).m = m := by
        unfold tempFile at hok ⊢
        by_cases hs : hasSep pattern = true
        · simp [hs]
        · have hs' : hasSep pattern = false := by simpa using hs
          simp only [hs', Bool.false_eq_true, if_false] at hok ⊢
          rcases tempFileLoop_spec maxTries m g (if dir = [] then tmp else dir) (prefixSuffix pattern).1 (prefixSuffix pattern).2 0 with h | ⟨rnd, hr, hn, habs, hm, hres⟩
          · exact h.2
          · have hf := openFile_temp_free m _ 0o600 habs
            rw [Out.fileOk, hres, hf.1] at hok; cases hok
      exact ⟨by rw [this]; exact Ext.refl m, fun _ => this⟩
  | dir dir pre =>
    show Ext m (tempDir tmp m g dir pre).m ∧ ((tempDir tmp m g dir pre).dirOk = false → (tempDir tmp m g dir pre).m = m)
    cases hok : (tempDir tmp m g dir pre).dirOk with
    | true => exact ⟨(temp_fresh_dir tmp htmp m g dir pre hok).1.elim (fun _ h => h.ext), fun h => by cases h⟩
    | false =>
      have : (tempDir tmp m g dir pre).m = m := by
        unfold tempDir at hok ⊢
        by_cases hs : hasSep pre = true
        · simp [hs]
        · have hs' : hasSep pre = false := by simpa using hs
          simp only [hs', Bool.false_eq_true, if_false] at hok ⊢
          rcases tempDirLoop_spec maxTries m g (if dir = [] then tmp else dir) pre 0 with h | ⟨rnd, hr, hn, habs, hm, hres⟩
          · exact h.2
          · have hf := mkdir_free m _ 0o700 habs
            simp [Out.dirOk, hres, hf.1] at hok
      exact ⟨by rw [this]; exact Ext.refl m, fun _ => this⟩

/-- **a failing call is inert** (pattern refused, or every try met an existing name) -/
theorem temp_fail_inert (tmp : Str) (htmp : tmp ≠ []) (m : MemFs) (g : Rng) (c : Call)
    (h : (call tmp m g c).ok c = false) : (call tmp m g c).m = m := (call_ext tmp htmp m g c).2 h

/-- the repaired source refuses a pattern / prefix with a path separator, and does nothing -/
theorem separator_refused (tmp : Str) (m : MemFs) (g : Rng) (dir p : Str) (h : sep ∈ p) :
    (tempFile tmp m g dir p).res = .err .other ∧ (tempFile tmp m g dir p).m = m ∧
    (tempDir tmp m g dir p).res = .err .other ∧ (tempDir tmp m g dir p).m = m := by
  have : hasSep p = true := by simpa [hasSep] using h
  simp [tempFile, tempDir, this]

/-! ### temps_distinct -/

theorem nodup_of_map {α β : Type} (f : α → β) (l : List α) (h : (l.map f).Nodup) : l.Nodup :=
  List.Pairwise.of_map f (fun _ _ hab e => hab (congrArg f e)) h

/-- what one successful call contributes, whichever kind it is -/
theorem call_fresh_key (tmp : Str) (htmp : tmp ≠ []) (m : MemFs) (g : Rng) (c : Call)
    (hok : (call tmp m g c).ok c = true) :
    m.lookup (keyOfStr (call tmp m g c).name) = none ∧
    ((call tmp m g c).m.lookup (keyOfStr (call tmp m g c).name)).isSome := by
  cases c with
  | file dir pattern =>
    obtain ⟨rnd, h⟩ := (temp_fresh_file tmp htmp m g dir pattern hok).1
    exact ⟨h.absent, by rw [show (call tmp m g (.file dir pattern)) = tempFile tmp m g dir pattern from rfl, h.present]; rfl⟩
  | dir dir pre =>
    obtain ⟨rnd, h⟩ := (temp_fresh_dir tmp htmp m g dir pre hok).1
    exact ⟨h.absent, by rw [show (call tmp m g (.dir dir pre)) = tempDir tmp m g dir pre from rfl, h.present]; rfl⟩

/-- **temps_distinct.**  Any number of sequential TempFile / TempDir calls, in any mix, from any
    state: the names returned by the successful ones denote pairwise distinct entries (so the
    name strings are pairwise distinct too), none of them existed at the start, all of them exist
    at the end, and every entry that existed at the start is unchanged. -/
theorem temps_distinct (tmp : Str) (htmp : tmp ≠ []) (m : MemFs) (g : Rng) (cs : List Call) :
    ((runCalls tmp m g cs).2.2.map keyOfStr).Nodup ∧
    (runCalls tmp m g cs).2.2.Nodup ∧
    (∀ n ∈ (runCalls tmp m g cs).2.2, m.lookup (keyOfStr n) = none ∧ ((runCalls tmp m g cs).1.lookup (keyOfStr n)).isSome) ∧
    Ext m (runCalls tmp m g cs).1 := by
  suffices h : ((runCalls tmp m g cs).2.2.map keyOfStr).Nodup ∧
      (∀ n ∈ (runCalls tmp m g cs).2.2, m.lookup (keyOfStr n) = none ∧ ((runCalls tmp m g cs).1.lookup (keyOfStr n)).isSome) ∧
      Ext m (runCalls tmp m g cs).1 from ⟨h.1, nodup_of_map _ _ h.1, h.2.1, h.2.2⟩
  induction cs generalizing m g with
  | nil => simp [runCalls, Ext.refl]
  | cons c cs ih =>
    rw [runCalls]
    have hext := (call_ext tmp htmp m g c).1
    obtain ⟨ihd, ihn, ihe⟩ := ih (call tmp m g c).m (call tmp m g c).g
    have absent_of (k : Key) (h : (call tmp m g c).m.lookup k = none) : m.lookup k = none := by
      cases hm : m.lookup k with
      | none => rfl
      | some o => rw [hext.look k o hm] at h; cases h
    cases hok : (call tmp m g c).ok c with
    | false =>
      simp only [Bool.false_eq_true, if_false]
      exact ⟨ihd, fun n hn => ⟨absent_of _ (ihn n hn).1, (ihn n hn).2⟩, hext.trans ihe⟩
    | true =>
      simp only [if_true]
      have hf := call_fresh_key tmp htmp m g c hok
      refine ⟨?_, ?_, hext.trans ihe⟩
      · rw [List.map_cons, List.nodup_cons]
        refine ⟨?_, ihd⟩
        intro hmem
        obtain ⟨n, hn, hk⟩ := List.mem_map.mp hmem
        have := (ihn n hn).1
        rw [hk] at this
        rw [this] at hf; exact absurd hf.2 (by simp)
      · intro n hn
        rcases List.mem_cons.mp hn with rfl | hn
        · refine ⟨hf.1, ?_⟩
          cases hq : (call tmp m g c).m.lookup (keyOfStr (call tmp m g c).name) with
          | none => rw [hq] at hf; exact absurd hf.2 (by simp)
          | some o => rw [ihe.look _ o hq]; rfl
        · exact ⟨absent_of _ (ihn n hn).1, (ihn n hn).2⟩

/-! ### never_opens_existing -/

/-- **never opens or alters an existing file.**
    (1) Whatever candidate name the loop tries: if the name is taken, the exclusive create and
        Mkdir are refused with "exists" and the state is unchanged.
    (2) When TempFile succeeds, the handle it returns is a new handle, on a new empty object that
        no name and no handle of the old state refers to; all old handles are unchanged. -/
theorem never_opens_existing (tmp : Str) (htmp : tmp ≠ []) (m : MemFs) (hwf : WF m) (g : Rng) (dir pattern : Str) :
    (∀ k, (m.lookup k).isSome →
      m.openFile k tempFlags 0o600 = (m, .err .exist) ∧ m.mkdir k 0o700 = (m, .err .exist)) ∧
    ((tempFile tmp m g dir pattern).fileOk = true →
      (tempFile tmp m g dir pattern).res = .handle m.handles.length none ∧
      (tempFile tmp m g dir pattern).m.handles[m.handles.length]? = some { obj := m.objs.length, h := { readOnly := false, pos := 0 } } ∧
      (∀ k o, m.lookup k = some o → o ≠ m.objs.length) ∧
      (∀ i, i < m.handles.length → (tempFile tmp m g dir pattern).m.handles[i]? = m.handles[i]?) ∧
      (∀ o, o < m.objs.length → ((tempFile tmp m g dir pattern).m.obj o).data = (m.obj o).data)) := by
  refine ⟨fun k hk => ⟨openFile_temp_taken m k _ hk, mkdir_taken m k _ hk⟩, fun hok => ?_⟩
  have h := temp_fresh_file tmp htmp m g dir pattern hok
  obtain ⟨rnd, hfr⟩ := h.1
  exact ⟨h.2.2.1, h.2.2.2, fun k o hl he => Nat.lt_irrefl _ (he ▸ hwf k o hl), hfr.ext.hand, fun o ho => (hfr.ext.obj o ho).1⟩

/-! ### concurrent callers -/

theorem exclCreate_taken (sp : Spec) (m : MemFs) (name : Str) (h : (m.lookup (keyOfStr name)).isSome) :
    exclCreate sp m name = (m, .err .exist) := by
  unfold exclCreate
  cases sp.isDir with
  | true => simpa using mkdir_taken m _ _ h
  | false => simpa using openFile_temp_taken m _ _ h

theorem exclCreate_free (sp : Spec) (m : MemFs) (name : Str) (h : m.lookup (keyOfStr name) = none) :
    created sp (exclCreate sp m name).2 = true ∧ (exclCreate sp m name).2 ≠ .err .exist ∧
    Ext m (exclCreate sp m name).1 ∧ ((exclCreate sp m name).1.lookup (keyOfStr name)).isSome := by
  unfold exclCreate created
  cases sp.isDir with
  | true =>
    have hf := mkdir_free m _ 0o700 h
    simp only [if_true]
    rw [hf.1]
    refine ⟨?_, ?_, hf.2.1, ?_⟩
    · simp
    · intro h; cases h
    · rw [hf.2.2.1]; rfl
  | false =>
    have hf := openFile_temp_free m _ 0o600 h
    simp only [Bool.false_eq_true, if_false]
    rw [hf.1]
    refine ⟨?_, ?_, hf.2.1, ?_⟩
    · rfl
    · intro h; cases h
    · rw [hf.2.2.1]; rfl

/-- **an exclusive create succeeds at most once per name**: once a name exists, in every later
    state (every extension), each caller's exclusive create of that name is refused and inert -/
theorem excl_once (sp sp' : Spec) (m m' : MemFs) (name : Str) (h : m.lookup (keyOfStr name) = none)
    (he : Ext (exclCreate sp m name).1 m') : exclCreate sp' m' name = (m', .err .exist) := by
  have hp := (exclCreate_free sp m name h).2.2.2
  cases hq : (exclCreate sp m name).1.lookup (keyOfStr name) with
  | none => rw [hq] at hp; cases hp
  | some o => exact exclCreate_taken sp' m' name (by rw [he.look _ o hq]; rfl)

/-- invariant of the interleaved execution, relative to the initial file system `m0` -/
structure ConcInv (m0 : MemFs) (s : Conc) : Prop where
  ext : Ext m0 s.m
  nodup : (s.log.map fun e => keyOfStr e.2).Nodup
  fresh : ∀ e ∈ s.log, m0.lookup (keyOfStr e.2) = none ∧ (s.m.lookup (keyOfStr e.2)).isSome

theorem concStep_idle (spec : Nat → Spec) (s : Conc) (i : Nat) (h : s.phase i = .idle) :
    concStep spec s i = { s with g := (nextRandom s.g).2, phase := upd s.phase i (.try_ (join2 (spec i).dir ((spec i).pre ++ (nextRandom s.g).1 ++ (spec i).suf))) } := by
  unfold concStep; rw [h]

theorem concStep_reseed (spec : Nat → Spec) (s : Conc) (i : Nat) (h : s.phase i = .reseed) :
    concStep spec s i = { s with g := forceReseed s.g, phase := upd s.phase i .idle } := by
  unfold concStep; rw [h]

theorem concStep_try_taken (spec : Nat → Spec) (s : Conc) (i : Nat) (name : Str) (h : s.phase i = .try_ name)
    (hr : (exclCreate (spec i) s.m name).2 = .err .exist) :
    concStep spec s i = { s with m := (exclCreate (spec i) s.m name).1, nconflict := upd s.nconflict i (s.nconflict i + 1), phase := upd s.phase i (if s.nconflict i + 1 > 10 then .reseed else .idle) } := by
  unfold concStep; rw [h]; simp only []; rw [if_pos hr]

theorem concStep_try_done (spec : Nat → Spec) (s : Conc) (i : Nat) (name : Str) (h : s.phase i = .try_ name)
    (hr : ¬ (exclCreate (spec i) s.m name).2 = .err .exist) :
    concStep spec s i = { s with m := (exclCreate (spec i) s.m name).1, nconflict := upd s.nconflict i 0, phase := upd s.phase i .idle, log := if created (spec i) (exclCreate (spec i) s.m name).2 then (i, name) :: s.log else s.log } := by
  unfold concStep; rw [h]; simp only []; rw [if_neg hr]

theorem concStep_inv (spec : Nat → Spec) (m0 : MemFs) (s : Conc) (i : Nat) (h : ConcInv m0 s) :
    ConcInv m0 (concStep spec s i) := by
  cases hp : s.phase i with
  | idle => rw [concStep_idle spec s i hp]; exact ⟨h.ext, h.nodup, h.fresh⟩
  | reseed => rw [concStep_reseed spec s i hp]; exact ⟨h.ext, h.nodup, h.fresh⟩
  | try_ name =>
    cases hl : s.m.lookup (keyOfStr name) with
    | some o =>
      have ht := exclCreate_taken (spec i) s.m name (by rw [hl]; rfl)
      have hr : (exclCreate (spec i) s.m name).2 = .err .exist := by rw [ht]
      rw [concStep_try_taken spec s i name hp hr, ht]
      exact ⟨h.ext, h.nodup, h.fresh⟩
    | none =>
      have hf := exclCreate_free (spec i) s.m name hl
      rw [concStep_try_done spec s i name hp hf.2.1, if_pos hf.1]
      have absent0 : m0.lookup (keyOfStr name) = none := by
        cases hm : m0.lookup (keyOfStr name) with
        | none => rfl
        | some o => rw [h.ext.look _ o hm] at hl; cases hl
      refine ⟨h.ext.trans hf.2.2.1, ?_, ?_⟩
      · show (((i, name) :: s.log).map fun e => keyOfStr e.2).Nodup
        rw [List.map_cons, List.nodup_cons]
        refine ⟨?_, h.nodup⟩
        intro hmem
        obtain ⟨e, he, hk⟩ := List.mem_map.mp hmem
        have := (h.fresh e he).2
        rw [hk, hl] at this; cases this
      · intro e he
        rcases List.mem_cons.mp he with rfl | he
        · exact ⟨absent0, hf.2.2.2⟩
        · refine ⟨(h.fresh e he).1, ?_⟩
          cases hq : s.m.lookup (keyOfStr e.2) with
          | none => have := (h.fresh e he).2; rw [hq] at this; cases this
          | some o => exact (by rw [hf.2.2.1.look _ o hq]; rfl)

theorem concRun_inv (spec : Nat → Spec) (m0 : MemFs) (s : Conc) (sched : List Nat) (h : ConcInv m0 s) :
    ConcInv m0 (concRun spec s sched) := by
  unfold concRun
  induction sched generalizing s with
  | nil => exact h
  | cons i is ih => exact ih _ (concStep_inv spec m0 s i h)

/-- **concurrent callers.**  Any number of callers (each with its own directory, prefix, suffix,
    TempFile or TempDir), any schedule of their atomic steps, any generator behaviour: all names
    returned, by whichever callers, denote pairwise distinct entries, none of which existed at the
    start and all of which exist at the end; every entry that existed at the start is unchanged. -/
theorem conc_distinct (spec : Nat → Spec) (m0 : MemFs) (g0 : Rng) (sched : List Nat) :
    ((concRun spec { m := m0, g := g0 } sched).log.map fun e => keyOfStr e.2).Nodup ∧
    ((concRun spec { m := m0, g := g0 } sched).log.map fun e => e.2).Nodup ∧
    (∀ e ∈ (concRun spec { m := m0, g := g0 } sched).log,
      m0.lookup (keyOfStr e.2) = none ∧ ((concRun spec { m := m0, g := g0 } sched).m.lookup (keyOfStr e.2)).isSome) ∧
    Ext m0 (concRun spec { m := m0, g := g0 } sched).m := by
  have h := concRun_inv spec m0 { m := m0, g := g0 } sched ⟨Ext.refl m0, by simp, by simp⟩
  refine ⟨h.nodup, ?_, h.fresh, h.ext⟩
  have : ((concRun spec { m := m0, g := g0 } sched).log.map fun e => keyOfStr e.2) =
      ((concRun spec { m := m0, g := g0 } sched).log.map fun e => e.2).map keyOfStr := by simp
  exact nodup_of_map keyOfStr _ (this ▸ h.nodup)

/-! ### well-formedness is kept (so the hypotheses above are met by every reachable state) -/

theorem call_wf (tmp : Str) (m : MemFs) (g : Rng) (c : Call) (hwf : WF m) : WF (call tmp m g c).m := by
  cases c with
  | file dir pattern =>
    show WF (tempFile tmp m g dir pattern).m
    unfold tempFile
    by_cases hs : hasSep pattern = true
    · simpa [hs] using hwf
    · have hs' : hasSep pattern = false := by simpa using hs
      simp only [hs', Bool.false_eq_true, if_false]
      rcases tempFileLoop_spec maxTries m g (if dir = [] then tmp else dir) (prefixSuffix pattern).1 (prefixSuffix pattern).2 0 with h | ⟨rnd, hr, hn, habs, hm, hres⟩
      · rw [h.2]; exact hwf
      · rw [hm]; exact (openFile_temp_free m _ 0o600 habs).2.2.2.2 hwf
  | dir dir pre =>
    show WF (tempDir tmp m g dir pre).m
    unfold tempDir
    by_cases hs : hasSep pre = true
    · simpa [hs] using hwf
    · have hs' : hasSep pre = false := by simpa using hs
      simp only [hs', Bool.false_eq_true, if_false]
      rcases tempDirLoop_spec maxTries m g (if dir = [] then tmp else dir) pre 0 with h | ⟨rnd, hr, hn, habs, hm, hres⟩
      · rw [h.2]; exact hwf
      · rw [hm]; exact (mkdir_free m _ 0o700 habs).2.2.2.2 hwf

theorem runCalls_wf (tmp : Str) (m : MemFs) (g : Rng) (cs : List Call) (hwf : WF m) : WF (runCalls tmp m g cs).1 := by
  induction cs generalizing m g with
  | nil => exact hwf
  | cons c cs ih => rw [runCalls]; exact ih _ _ (call_wf tmp m g c hwf)

theorem exclCreate_wf (sp : Spec) (m : MemFs) (name : Str) (hwf : WF m) : WF (exclCreate sp m name).1 := by
  cases hl : m.lookup (keyOfStr name) with
  | some o => rw [exclCreate_taken sp m name (by rw [hl]; rfl)]; exact hwf
  | none =>
    unfold exclCreate
    cases sp.isDir with
    | true => exact (mkdir_free m _ 0o700 hl).2.2.2.2 hwf
    | false => exact (openFile_temp_free m _ 0o600 hl).2.2.2.2 hwf

theorem concStep_wf (spec : Nat → Spec) (s : Conc) (i : Nat) (hwf : WF s.m) : WF (concStep spec s i).m := by
  cases hp : s.phase i with
  | idle => rw [concStep_idle spec s i hp]; exact hwf
  | reseed => rw [concStep_reseed spec s i hp]; exact hwf
  | try_ name =>
    by_cases hr : (exclCreate (spec i) s.m name).2 = .err .exist
    · rw [concStep_try_taken spec s i name hp hr]; exact exclCreate_wf _ _ _ hwf
    · rw [concStep_try_done spec s i name hp hr]; exact exclCreate_wf _ _ _ hwf

/-- every state reachable from the initial file system by Fs-level temp calls, sequential or
    interleaved, is well-formed: the hypothesis `WF` of `temp_fresh`, `never_opens_existing`,
    `temps_preserve`, `conc_preserve` is met along every run -/
theorem concRun_wf (spec : Nat → Spec) (s : Conc) (sched : List Nat) (hwf : WF s.m) : WF (concRun spec s sched).m := by
  unfold concRun
  induction sched generalizing s with
  | nil => exact hwf
  | cons i is ih => exact ih _ (concStep_wf spec s i hwf)

theorem wf_init : WF MemFs.init := by
  intro k o h
  simp only [MemFs.init, MemFs.lookup, alLookup, List.find?] at h
  by_cases hk : rootKey = k
  · simp [hk] at h; subst h; simp [MemFs.init]
  · simp [hk] at h

/-- from a well-formed state, any sequence of temp calls leaves every entry that existed at the
    start bound to the same object with the same bytes, name, mode and time -/
theorem temps_preserve (tmp : Str) (htmp : tmp ≠ []) (m : MemFs) (hwf : WF m) (g : Rng) (cs : List Call)
    (k : Key) (o : Nat) (hl : m.lookup k = some o) :
    (runCalls tmp m g cs).1.lookup k = some o ∧ ((runCalls tmp m g cs).1.obj o).data = (m.obj o).data ∧
    ((runCalls tmp m g cs).1.obj o).mode = (m.obj o).mode ∧ ((runCalls tmp m g cs).1.obj o).mtime = (m.obj o).mtime := by
  have := ext_entry (temps_distinct tmp htmp m g cs).2.2.2 hwf k o hl
  exact ⟨this.1, this.2.1, this.2.2.2.1, this.2.2.2.2.1⟩

/-- the same under every interleaving of concurrent callers -/
theorem conc_preserve (spec : Nat → Spec) (m0 : MemFs) (hwf : WF m0) (g0 : Rng) (sched : List Nat)
    (k : Key) (o : Nat) (hl : m0.lookup k = some o) :
    (concRun spec { m := m0, g := g0 } sched).m.lookup k = some o ∧
    ((concRun spec { m := m0, g := g0 } sched).m.obj o).data = (m0.obj o).data := by
  have := ext_entry (conc_distinct spec m0 g0 sched).2.2.2 hwf k o hl
  exact ⟨this.1, this.2.1⟩

/-! ### the generator, as the source has it -/

/-- `nextRandom`: a non-zero state is advanced by the LCG and no reseed happens; a zero state is
    first replaced by the next reseed value; the string is the nine digits of the new state mod 10^9 -/
theorem nextRandom_spec (g : Rng) :
    (g.randNum ≠ 0 → (nextRandom g).2.randNum = lcg g.randNum ∧ (nextRandom g).2.reseeds = g.reseeds ∧
        (nextRandom g).2.seeds = g.seeds) ∧
    (g.randNum = 0 → (nextRandom g).2.randNum = lcg (g.seeds.headD g.fallback) ∧ (nextRandom g).2.reseeds = g.reseeds + 1 ∧
        (nextRandom g).2.seeds = g.seeds.tail) ∧
    (nextRandom g).1 = randStr (nextRandom g).2.randNum := by
  refine ⟨fun h => ?_, fun h => ?_, rfl⟩
  · simp only [nextRandom, if_neg h]; exact ⟨trivial, trivial, trivial⟩
  · simp only [nextRandom, if_pos h, Rng.reseed]; exact ⟨trivial, trivial, trivial⟩

/-- conflict bookkeeping: the first ten conflicts leave the generator alone, every later one reseeds -/
theorem afterConflict_spec (g : Rng) (nc : Nat) :
    (afterConflict g nc).2 = nc + 1 ∧
    (nc < 10 → (afterConflict g nc).1 = g) ∧
    (10 ≤ nc → (afterConflict g nc).1 = forceReseed g) := by
  unfold afterConflict
  refine ⟨rfl, fun h => ?_, fun h => ?_⟩
  · have : ¬ nc + 1 > 10 := by omega
    simp [this]
  · have : nc + 1 > 10 := by omega
    simp [this]

/-! ### non-vacuity: concrete runs of the model (the probe on the real code gave the same strings) -/

def s (x : String) : Str := x.toList

/-- seed 7 ↦ "025555898", as the real `nextRandom` -/
example : randStr (lcg 7) = s "025555898" := by decide
example : (nextRandom { randNum := 7 }).1 = s "025555898" ∧ (nextRandom { randNum := 7 }).2.randNum = 1025555898 := by decide

/-- a successful call on the initial file system (hypotheses of `temp_fresh` are met: `wf_init`) -/
example : (tempFile (s "/tmp") MemFs.init { randNum := 7 } (s "/d") (s "x*y")).fileOk = true ∧
    (tempFile (s "/tmp") MemFs.init { randNum := 7 } (s "/d") (s "x*y")).name = s "/d/x025555898y" := by decide
example : (tempDir (s "/tmp") MemFs.init { randNum := 7 } [] (s "q")).dirOk = true ∧
    (tempDir (s "/tmp") MemFs.init { randNum := 7 } [] (s "q")).name = s "/tmp/q025555898" := by decide
example : (tempFile (s "/tmp") MemFs.init { randNum := 7 } (s "/d") (s "../esc")).res = .err .other := by decide

/-- a forced collision: the first candidate exists already, the call returns the second one -/
def m1 : MemFs := (tempFile (s "/tmp") MemFs.init { randNum := 7 } (s "/d") (s "x*y")).m
example : (tempFile (s "/tmp") m1 { randNum := 7 } (s "/d") (s "x*y")).conflicts = 1 ∧
    (tempFile (s "/tmp") m1 { randNum := 7 } (s "/d") (s "x*y")).name = s "/d/x923423697y" := by decide

/-- eleven forced collisions: the call crosses the reseed branch and still returns a fresh name -/
def m11 : MemFs := (runCalls (s "/tmp") MemFs.init { randNum := 7 } (List.replicate 11 (.file (s "/d") (s "x*y")))).1
set_option maxRecDepth 100000 in
example : (tempFile (s "/tmp") m11 { randNum := 7, seeds := [123] } (s "/d") (s "x*y")).conflicts = 11 ∧
    (tempFile (s "/tmp") m11 { randNum := 7, seeds := [123] } (s "/d") (s "x*y")).g.reseeds = 1 ∧
    (tempFile (s "/tmp") m11 { randNum := 7, seeds := [123] } (s "/d") (s "x*y")).fileOk = true ∧
    (tempFile (s "/tmp") m11 { randNum := 7, seeds := [123] } (s "/d") (s "x*y")).name = s "/d/x" ++ randStr (lcg 123) ++ s "y" := by decide

/-- two concurrent callers with interleaved steps: 0 draws, 1 draws, 1 creates, 0 creates -/
def spec2 : Nat → Spec := fun _ => { dir := s "/d", pre := s "t" }
set_option maxRecDepth 100000 in
example : ((concRun spec2 { m := MemFs.init, g := { randNum := 7 } } [0, 1, 1, 0]).log.map (·.2)) =
    [s "/d/t025555898", s "/d/t923423697"] := by decide

/-! ### tie to the source: constants regenerated from the Go code on every run -/

/-- the generator, the digit count, the number of tries and the reseed threshold of the model are the
    ones written in ioutil.go (extracted by harness/cmd/facts from `nextRandom`, `TempFile`, `TempDir`) -/
theorem generator_is_source :
    (∀ r : UInt32, lcg r = r * UInt32.ofNat Generated.lcgMul + UInt32.ofNat Generated.lcgAdd) ∧
    (∀ r : UInt32, randStr r = digitsAux 9 (r.toNat % Generated.randModulus)) ∧
    maxTries = Generated.maxTriesTempFile ∧ maxTries = Generated.maxTriesTempDir ∧
    Generated.reseedAfterTempFile = 10 ∧ Generated.reseedAfterTempDir = 10 :=
  ⟨fun _ => rfl, fun _ => rfl, rfl, rfl, rfl, rfl⟩

end AferoVerif.C18
