/-
  Property C10, further clauses: the read-only `OpenFile` path of CacheOnReadFs (which has its own routing in
  cacheOnReadFs.go — a seeded change broke exactly it while `Open` stayed right), and what is read on a hit
  (Proofs/ViewReads.lean).  Props/C10.lean has the freshness decision and the `Open` path.

  PARTIAL — still decided by the read-through oracle and the correspondence only: the Chmod/Chown/Chtimes/Rename
  paths of the same rule for uncached names, and directory listings through the cache.
-/
import AferoVerif.Proofs.ViewReads
namespace AferoVerif.C10
open AferoVerif

/-- **OpenFile(O_RDONLY) of an uncached or outdated file serves the base and refreshes the cache**: the call
    succeeds; the cache layer then holds under the name an object with exactly the base's bytes and the base's
    modification time; no object and no name of the base changes; the returned handle is a fresh read-only handle
    on that copy, and reading through it returns the base's bytes -/
theorem openFile_rdonly_serves_base (c : Cow) (dur : Int) (p : Str) (bf perm : Nat)
    (hst : Cache.cacheStatus c dur (keyOfStr p) = .miss ∨ Cache.cacheStatus c dur (keyOfStr p) = .stale)
    (hb : c.s.b.lookup (keyOfStr p) = some bf) (hfile : (c.s.b.obj bf).dir = false) (hr : MemFs.InRange c.s.l) :
    ∃ lf i, (Cache.step dur c (.openFile p 0 perm)).2 = .handle c.hs.length none ∧
      RO.tree (Cache.step dur c (.openFile p 0 perm)).1.s.b = RO.tree c.s.b ∧
      (Cache.step dur c (.openFile p 0 perm)).1.hs = c.hs ++ [.layer i] ∧
      (Cache.step dur c (.openFile p 0 perm)).1.s.l.handles[i]? = some { obj := lf, h := { readOnly := true } } ∧
      (Cache.step dur c (.openFile p 0 perm)).1.s.l.lookup (keyOfStr p) = some lf ∧
      ((Cache.step dur c (.openFile p 0 perm)).1.s.l.obj lf).data = (c.s.b.obj bf).data ∧
      ((Cache.step dur c (.openFile p 0 perm)).1.s.l.obj lf).mtime = (c.s.b.obj bf).mtime ∧
      ∀ n, (Cache.step dur (Cache.step dur c (.openFile p 0 perm)).1 (.hRead c.hs.length n)).2 =
        .file (.bytes ((c.s.b.obj bf).data.take n)
          (if 0 < n ∧ (c.s.b.obj bf).data = [] then some .eof else none)) :=
  openFile_rdonly_miss_or_stale_serves_base c dur p bf perm hst hb hfile hr

/-- **a hit is read from the cache**: Open answers a fresh handle, the base is not touched, no object or name of
    the cache layer changes, and reading returns the CACHE layer's bytes — the base does not occur in the answer -/
theorem hit_is_read_from_cache (c : Cow) (dur : Int) (p : Str) (lf n : Nat)
    (hst : Cache.cacheStatus c dur (keyOfStr p) = .hit) (hl : c.s.l.lookup (keyOfStr p) = some lf)
    (hfile : (c.s.l.obj lf).dir = false) :
    (Cache.step dur c (.open_ p)).2 = .handle c.hs.length none ∧
    (Cache.step dur c (.open_ p)).1.s.b = c.s.b ∧
    RO.tree (Cache.step dur c (.open_ p)).1.s.l = RO.tree c.s.l ∧
    (Cache.step dur (Cache.step dur c (.open_ p)).1 (.hRead c.hs.length n)).2 =
      .file (.bytes ((c.s.l.obj lf).data.take n)
        (if 0 < n ∧ (c.s.l.obj lf).data = [] then some .eof else none)) :=
  hit_reads_cache c dur p lf n hst hl hfile

/-- **with cache duration zero a cached file is served from the cache for ever, whatever later happens to the
    base**: the bytes read do not depend on the base at all -/
theorem dur0_served_for_ever (c : Cow) (p : Str) (lf n : Nat) (b' : MemFs)
    (hl : c.s.l.lookup (keyOfStr p) = some lf) (hfile : (c.s.l.obj lf).dir = false) :
    (Cache.step 0 (Cache.step 0 (Cache.setB c b') (.open_ p)).1 (.hRead c.hs.length n)).2 =
      .file (.bytes ((c.s.l.obj lf).data.take n)
        (if 0 < n ∧ (c.s.l.obj lf).data = [] then some .eof else none)) :=
  dur0_reads_cache_whatever_base c p lf n b' hl hfile

end AferoVerif.C10
