/-
  Property C09 for EVERY root — relative ones ("rel", "./rel/", "a/b", "..", "../up") and the working directory
  ("." and "") included. Props/C09.lean states the theorems for absolute roots; Proofs/BasePathRel.lean lifts them.
  `prependAll D n` is what `filepath.Join(D, n)` denotes: `D` for the empty name, `D/n` otherwise, with the empty
  root read as "." (for an absolute D it is Props/C09's `prepend`: `prependAll_rooted`).
-/
import AferoVerif.Proofs.BasePathRel
namespace AferoVerif.C09
open AferoVerif AferoVerif.Path

/-- **what an accepted name resolves to, for every root**: the key of `Join(D, name)` -/
theorem realPath_resolves_to_joined (D n p : Str) (h : realPath D n = some p) :
    keyOfStr p = keyOfStr (prependAll D n) :=
  realPath_key_all D n p h

/-- **the commuting diagram, for every root**: for every Fs method whose name arguments `RealPath` accepts, the call
    through BasePathFs is the same call on the source with D prepended — same result, same state -/
theorem bp_commutes_every_root (m : MemFs) (D : Str) (op op' : Op) (hop : isNameOp op = true)
    (h : bpMapOp D op = some op') :
    bpStep MemFs.step D m op = m.step (prependOpAll D op) :=
  bp_commutes_all m D op op' hop h

/-- **stacking is one base-path filesystem on the joined roots**, for every outer root D1 and every inner root D2
    (an absolute inner root must not climb above itself: `innerOK`, the condition `nested_key` already has; a relative
    inner root needs nothing): a name accepted by both layers resolves to the key of `Join(Join(D1, D2), name)` -/
theorem nested_resolves_to_joined (D1 D2 n p2 p1 : Str) (hd : innerOK D2 n)
    (hp2 : realPath D2 n = some p2) (hp1 : realPath D1 p2 = some p1) :
    keyOfStr p1 = keyOfStr (prependAll (join2 (rootOf D1) D2) n) :=
  nested_key_prepend D1 D2 n p2 p1 hd hp2 hp1

/-- **the full-path helper returns that joined path** (two levels, non-empty roots) -/
theorem fullBaseFsPath_is_joined (D1 D2 n : Str) (h1 : D1 ≠ []) (h2 : D2 ≠ []) (hd : innerOK D2 n) :
    keyOfStr (fullBasePath2 D1 D2 n) = keyOfStr (prependAll (join2 D1 D2) n) :=
  fullBasePath2_key D1 D2 n h1 h2 hd

/-- **files report their names relative to a relative root** — over a source that reports the names it was given
    (`clean D ++ rel`) and over one that reports rooted names (another BasePathFs: `/` ++ `clean D ++ rel`) -/
theorem file_name_below_relative_root (D rel : Str) (hD : isRooted D = false) (hd : clean D ≠ dot) :
    bpFileName D (clean D ++ rel) = rel ∧ bpFileName D (sep :: (clean D ++ rel)) = rel :=
  ⟨bp_file_name_rel D rel hD hd, bp_file_name_rel_rooted D rel hD hd⟩

end AferoVerif.C09
