/-
  Property C10, further clauses (Proofs/CacheRule.lean): the freshness rule END TO END over two accesses (the cached
  copy is served; the base is rewritten behind the cache and the copy outlives its duration; the next access returns
  the base's new content and refreshes the cache — and with duration 0 it never does), the metadata calls on a file
  the cache has not seen or has an outdated copy of (copy first, then act on both sides), and directories through
  the cache (nothing is copied; the listing is the union of both layers, each name once, the cache layer's entry
  winning).

  PARTIAL — still decided by the oracles and the correspondence only: a name that is a directory in one layer and a
  regular file in the other; Rename of an uncached name; metadata calls on an uncached directory.
-/
import AferoVerif.Proofs.CacheRule
namespace AferoVerif.C10
open AferoVerif AferoVerif.Cache AferoVerif.MemFs

/-- **"… at which point the next access returns the base's new content and refreshes the cache"**: the name is a
    hit now and reads as d0; then the base file is rewritten directly (bytes d1, a newer modification time) and the
    clock passes the copy's time plus the duration. The status is stale, the next Open succeeds, reading through it
    returns d1, the cache layer holds d1 with the base's new modification time, and the name is a hit again. -/
theorem stale_access_returns_new_content (c : Cow) (dur : Int) (p : Str) (lf bf' n : Nat)
    (b' : MemFs) (now' : Int) (d0 d1 : Bytes)
    (hd : dur ≠ 0)
    (hhit : cacheStatus c dur (keyOfStr p) = .hit)
    (hl : c.s.l.lookup (keyOfStr p) = some lf) (hlfile : (c.s.l.obj lf).dir = false)
    (hd0 : (c.s.l.obj lf).data = d0) (hr : InRange c.s.l)
    (hb' : b'.lookup (keyOfStr p) = some bf') (hfile' : (b'.obj bf').dir = false)
    (hd1 : (b'.obj bf').data = d1)
    (hnewer : (b'.obj bf').mtime > (c.s.l.obj lf).mtime)
    (hexp : (c.s.l.obj lf).mtime + dur < now') :
    (Cache.step dur (Cache.step dur c (.open_ p)).1 (.hRead c.hs.length n)).2 =
      .file (.bytes (d0.take n) (if 0 < n ∧ d0 = [] then some .eof else none)) ∧
    cacheStatus (laterWithBase c b' now') dur (keyOfStr p) = .stale ∧
    ∃ lf' c'', Cache.step dur (laterWithBase c b' now') (.open_ p) = (c'', .handle c.hs.length none) ∧
      c''.s.b = b' ∧
      (Cache.step dur c'' (.hRead c.hs.length n)).2 =
        .file (.bytes (d1.take n) (if 0 < n ∧ d1 = [] then some .eof else none)) ∧
      c''.s.l.lookup (keyOfStr p) = some lf' ∧ (c''.s.l.obj lf').data = d1 ∧
      (c''.s.l.obj lf').mtime = (b'.obj bf').mtime ∧
      cacheStatus c'' dur (keyOfStr p) = .hit :=
  Cache.stale_access_returns_new_content c dur p lf bf' n b' now' d0 d1 hd hhit hl hlfile hd0 hr hb' hfile' hd1 hnewer hexp

/-- **"with cache duration zero a cached file is served from the cache for ever, whatever later happens to the
    base"**: whatever base b' and whatever time now', the name stays a hit, the read returns the cached d0, and the
    cache layer still holds d0 -/
theorem dur0_never_refreshes (c : Cow) (p : Str) (lf n : Nat) (b' : MemFs) (now' : Int) (d0 : Bytes)
    (hl : c.s.l.lookup (keyOfStr p) = some lf) (hlfile : (c.s.l.obj lf).dir = false)
    (hd0 : (c.s.l.obj lf).data = d0) :
    cacheStatus (laterWithBase c b' now') 0 (keyOfStr p) = .hit ∧
    (Cache.step 0 (laterWithBase c b' now') (.open_ p)).2 = .handle c.hs.length none ∧
    (Cache.step 0 (Cache.step 0 (laterWithBase c b' now') (.open_ p)).1 (.hRead c.hs.length n)).2 =
      .file (.bytes (d0.take n) (if 0 < n ∧ d0 = [] then some .eof else none)) ∧
    (Cache.step 0 (laterWithBase c b' now') (.open_ p)).1.s.l.lookup (keyOfStr p) = some lf ∧
    ((Cache.step 0 (laterWithBase c b' now') (.open_ p)).1.s.l.obj lf).data = d0 :=
  Cache.dur0_never_refreshes c p lf n b' now' d0 hl hlfile hd0

/-- **Chtimes on a file the cache has not seen (or holds an outdated copy of)**: the file is copied first — the cache
    layer gets exactly the base's bytes —, then the time is set on the base AND on the copy; the name is a hit
    afterwards (`chmod_…` and `chown_…` in Proofs/CacheRule.lean say the same for mode and owner; there the copy keeps
    the base's modification time) -/
theorem chtimes_copies_then_acts_on_both (c : Cow) (dur : Int) (p : Str) (t : Int) (bf : Nat)
    (hst : cacheStatus c dur (keyOfStr p) = .miss ∨ cacheStatus c dur (keyOfStr p) = .stale)
    (hb : c.s.b.lookup (keyOfStr p) = some bf) (hfile : (c.s.b.obj bf).dir = false)
    (hrb : InRange c.s.b) (hr : InRange c.s.l) :
    ∃ lf c', Cache.step dur c (.chtimes p t) = (c', .ok) ∧
      c'.s.b.lookup (keyOfStr p) = some bf ∧ c'.s.l.lookup (keyOfStr p) = some lf ∧
      (c'.s.l.obj lf).data = (c.s.b.obj bf).data ∧ (c'.s.b.obj bf).data = (c.s.b.obj bf).data ∧
      (c'.s.l.obj lf).mtime = t ∧ (c'.s.b.obj bf).mtime = t ∧
      cacheStatus c' dur (keyOfStr p) = .hit := by
  obtain ⟨lf, c', _, _, _, h4, _, _, _, h8, _, h10, _, h12, h13, h14, h15, h16⟩ :=
    chtimes_miss_or_stale_refreshes c dur p t bf hst hb hfile hrb hr
  exact ⟨lf, c', h4, h8, h10, h12, h15, h13, h14, h16⟩

theorem chmod_copies_then_acts_on_both (c : Cow) (dur : Int) (p : Str) (mode bf : Nat)
    (hst : cacheStatus c dur (keyOfStr p) = .miss ∨ cacheStatus c dur (keyOfStr p) = .stale)
    (hb : c.s.b.lookup (keyOfStr p) = some bf) (hfile : (c.s.b.obj bf).dir = false)
    (hrb : InRange c.s.b) (hr : InRange c.s.l) :
    ∃ lf c', Cache.step dur c (.chmod p mode) = (c', .ok) ∧
      c'.s.b.lookup (keyOfStr p) = some bf ∧ c'.s.l.lookup (keyOfStr p) = some lf ∧
      (c'.s.l.obj lf).data = (c.s.b.obj bf).data ∧ (c'.s.l.obj lf).mtime = (c.s.b.obj bf).mtime ∧
      (c'.s.l.obj lf).mode &&& chmodBits = mode &&& chmodBits ∧ (c'.s.b.obj bf).mode &&& chmodBits = mode &&& chmodBits ∧
      cacheStatus c' dur (keyOfStr p) = .hit := by
  obtain ⟨lf, c', _, _, _, h4, _, _, _, h8, _, h10, _, h12, h13, _, _, h16, h17, h18⟩ :=
    chmod_miss_or_stale_refreshes c dur p mode bf hst hb hfile hrb hr
  exact ⟨lf, c', h4, h8, h10, h12, h13, h16, h17, h18⟩

/-- **a directory both layers have, through the cache**: Open answers a handle, copies nothing (no object and no
    name of either layer changes), and Readdir / Readdirnames (-1) list the union of the two layers' entries, each
    name once, the cache layer's entry winning -/
theorem cached_dir_lists_union (c : Cow) (dur : Int) (p : Str) (lf bf : Nat)
    (hl : c.s.l.lookup (keyOfStr p) = some lf) (hldir : (c.s.l.obj lf).dir = true)
    (hb : c.s.b.lookup (keyOfStr p) = some bf) (hdir : (c.s.b.obj bf).dir = true) :
    ∃ c' es, Cache.step dur c (.open_ p) = (c', .handle c.hs.length none) ∧
      RO.tree c'.s.l = RO.tree c.s.l ∧ RO.tree c'.s.b = RO.tree c.s.b ∧
      (Cache.step dur c' (.hReaddir c.hs.length (-1))).2 = .infos es none ∧
      (Cache.step dur c' (.hReaddirnames c.hs.length (-1))).2 = .names (es.map (·.1)) none ∧
      (es.map (·.1)).Nodup ∧
      (∀ n, n ∈ es.map (·.1) ↔ n ∈ (listing c.s.l lf).map (·.1) ∨ n ∈ (listing c.s.b bf).map (·.1)) ∧
      (((listing c.s.l lf).map (·.1)).Nodup → ∀ x ∈ listing c.s.l lf, x ∈ es) :=
  dir_listing_is_union c dur p lf bf hl hldir hb hdir

/-- **a directory only the base has**: Open answers a handle on the base's directory, the cache layer is left as it
    is ("directories are never copied"), and the listing is the base's -/
theorem uncached_dir_lists_base (c : Cow) (dur : Int) (p : Str) (bf : Nat)
    (hl : c.s.l.lookup (keyOfStr p) = none) (hb : c.s.b.lookup (keyOfStr p) = some bf)
    (hdir : (c.s.b.obj bf).dir = true) :
    ∃ c', Cache.step dur c (.open_ p) = (c', .handle c.hs.length none) ∧
      c'.s.l = c.s.l ∧ RO.tree c'.s.b = RO.tree c.s.b ∧
      (Cache.step dur c' (.hReaddir c.hs.length (-1))).2 = .infos (listing c.s.b bf) none ∧
      (Cache.step dur c' (.hReaddirnames c.hs.length (-1))).2 = .names ((listing c.s.b bf).map (·.1)) none :=
  dir_miss_lists_base c dur p bf hl hb hdir

end AferoVerif.C10
