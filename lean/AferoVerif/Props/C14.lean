/-
  Property C14 — zipfs and tarfs expose archive contents faithfully and immutably.

  Model: Model/Archive.lean (transcription of zipfs/{fs,file}.go and tarfs/{fs,file}.go with
  the defects S7, S8, S9, S22 repaired).  All statements quantify over arbitrary archives
  (entry lists), arbitrary path spellings, arbitrary op sequences over arbitrarily many
  handles, arbitrary buffer lengths and arbitrary offsets ≥ 0 (`Nat`, however large).
  Negative `ReadAt` offsets are outside the domain (undefined for io.ReaderAt); `Seek` takes
  any `Int`.
-/
import AferoVerif.Proofs.Archive
namespace AferoVerif.C14

open AferoVerif AferoVerif.Archive

/-! ## 1. reads are slices of the entry -/

/-- what `Open` establishes for a regular entry and every data call keeps: the handle is on
    entry `e`, open; for zipfs the offset is inside the entry and `buf` is a prefix of its bytes
    (the part of the decompressor's output consumed so far) -/
structure HInv (k : Kind) (e : Entry) (h : H) : Prop where
  ent : h.ent = some e
  opened : h.closed = false
  file : k = .tar → e.isDir = false
  zip : k = .zip → h.isdir = false ∧ h.off ≤ e.data.length ∧ ∃ m, m ≤ e.data.length ∧ h.buf = e.data.take m

/-- the shape of a zipfs handle under the invariant -/
theorem HInv.zip_form {e : Entry} {h : H} (hi : HInv .zip e h) :
    ∃ p m, p ≤ e.data.length ∧ m ≤ e.data.length ∧
      h = { ent := some e, isdir := false, closed := false, off := p, buf := e.data.take m } := by
  obtain ⟨hd, ho, m, hm, hb⟩ := hi.zip rfl
  refine ⟨h.off, m, ho, hm, ?_⟩
  cases h
  simp_all [hi.ent, hi.opened]
  exact ⟨hi.ent, hi.opened⟩

theorem HInv.zip_mk (e : Entry) (p m : Nat) (hp : p ≤ e.data.length) (hm : m ≤ e.data.length) :
    HInv .zip e { ent := some e, isdir := false, closed := false, off := p, buf := e.data.take m } :=
  ⟨rfl, rfl, (fun hk => by cases hk), fun _ => ⟨rfl, hp, m, hm, rfl⟩⟩

theorem zipRead_flat (e : Entry) (h : H) (n : Nat) (hi : HInv .zip e h) :
    (zipRead h n).2 = (flatStep .zip e.data h.off (.read n)).2 ∧
    (zipRead h n).1.off = (flatStep .zip e.data h.off (.read n)).1 ∧ HInv .zip e (zipRead h n).1 := by
  obtain ⟨p, m, hp, hm, rfl⟩ := hi.zip_form
  have hlen : (e.data.take (max m (min (p + n) e.data.length))).length = max m (min (p + n) e.data.length) := by
    simp [List.length_take]; omega
  have hnp : ¬ (p > (e.data.take (max m (min (p + n) e.data.length))).length) := by
    rw [hlen]; omega
  simp only [zipRead, Bool.false_eq_true, if_false, fillBuffer_take e.data m (p + n) hm, hnp,
    slice_take e.data _ p n (show min (p + n) e.data.length ≤ max m (min (p + n) e.data.length) by omega)]
  refine ⟨by simp [flatStep], by simp [flatStep], ?_⟩
  apply HInv.zip_mk e _ _
  · simp only [slice_length]; omega
  · omega

theorem zipReadAt_flat (e : Entry) (h : H) (n off : Nat) (hi : HInv .zip e h) :
    (zipReadAt h n off).2 = (flatStep .zip e.data h.off (.readAt n off)).2 ∧
    (zipReadAt h n off).1.off = (flatStep .zip e.data h.off (.readAt n off)).1 ∧
    HInv .zip e (zipReadAt h n off).1 := by
  obtain ⟨p, m, hp, hm, rfl⟩ := hi.zip_form
  have hlen : (e.data.take (max m (min (off + n) e.data.length))).length = max m (min (off + n) e.data.length) := by
    simp [List.length_take]; omega
  have hinv : HInv .zip e ({ ent := some e, isdir := false, closed := false, off := p, buf := e.data.take (max m (min (off + n) e.data.length)) } : H) :=
    HInv.zip_mk e _ _ hp (by omega)
  simp only [zipReadAt, Bool.false_eq_true, if_false, fillBuffer_take e.data m (off + n) hm]
  by_cases hgt : off > (e.data.take (max m (min (off + n) e.data.length))).length
  · simp only [hgt, if_true]
    rw [hlen] at hgt
    have hs : slice e.data off n = [] := by
      unfold slice
      have : e.data.drop off = [] := List.drop_eq_nil_of_le (by omega)
      simp [this]
    exact ⟨by simp [flatStep, hs], by simp [flatStep], hinv⟩
  · simp only [hgt, if_false]
    rw [slice_take e.data _ off n (by omega)]
    exact ⟨by simp [flatStep], by simp [flatStep], hinv⟩

theorem zipSeek_flat (e : Entry) (h : H) (off : Int) (wh : Nat) (hi : HInv .zip e h) :
    (zipSeek h off wh).2 = (flatStep .zip e.data h.off (.seek off wh)).2 ∧
    (zipSeek h off wh).1.off = (flatStep .zip e.data h.off (.seek off wh)).1 ∧
    HInv .zip e (zipSeek h off wh).1 := by
  obtain ⟨p, m, hp, hm, rfl⟩ := hi.zip_form
  have key : ∀ t : Int,
      ((if t < 0 ∨ t > (e.data.length : Int) then
          (({ ent := some e, isdir := false, closed := false, off := p, buf := e.data.take m } : H), Res.err Err.range)
        else (({ ent := some e, isdir := false, closed := false, off := t.toNat, buf := e.data.take m } : H), Res.pos t.toNat)) : H × Res).2 =
        ((if t < 0 ∨ t > (e.data.length : Int) then (p, Res.err Err.range)
          else (t.toNat, Res.pos t.toNat)) : Nat × Res).2 ∧
      ((if t < 0 ∨ t > (e.data.length : Int) then
          (({ ent := some e, isdir := false, closed := false, off := p, buf := e.data.take m } : H), Res.err Err.range)
        else (({ ent := some e, isdir := false, closed := false, off := t.toNat, buf := e.data.take m } : H), Res.pos t.toNat)) : H × Res).1.off =
        ((if t < 0 ∨ t > (e.data.length : Int) then (p, Res.err Err.range)
          else (t.toNat, Res.pos t.toNat)) : Nat × Res).1 ∧
      HInv .zip e ((if t < 0 ∨ t > (e.data.length : Int) then
          (({ ent := some e, isdir := false, closed := false, off := p, buf := e.data.take m } : H), Res.err Err.range)
        else (({ ent := some e, isdir := false, closed := false, off := t.toNat, buf := e.data.take m } : H), Res.pos t.toNat)) : H × Res).1 := by
    intro t
    by_cases ht : t < 0 ∨ t > (e.data.length : Int)
    · simp only [ht, if_true]; exact ⟨trivial, trivial, hi⟩
    · simp only [ht, if_false]
      exact ⟨trivial, trivial, HInv.zip_mk e _ _ (by omega) hm⟩
  rcases wh with _ | _ | _ | w
  · simpa [zipSeek, flatStep] using key off
  · simpa [zipSeek, flatStep] using key (off + p)
  · simpa [zipSeek, flatStep] using key (off + e.data.length)
  · simp only [zipSeek, flatStep, Bool.false_eq_true, if_false]
    exact ⟨trivial, trivial, hi⟩

/-- the shape of a tarfs handle under the invariant -/
theorem HInv.tar_form {e : Entry} {h : H} (hi : HInv .tar e h) :
    ∃ d p b, h = { ent := some e, isdir := d, closed := false, off := p, buf := b } := by
  refine ⟨h.isdir, h.off, h.buf, ?_⟩
  have h1 := hi.ent
  have h2 := hi.opened
  cases h
  simp_all

theorem HInv.tar_mk (e : Entry) (d : Bool) (p : Nat) (b : Bytes) (hf : e.isDir = false) :
    HInv .tar e { ent := some e, isdir := d, closed := false, off := p, buf := b } :=
  ⟨rfl, rfl, fun _ => hf, fun hk => by cases hk⟩

theorem slice_nil_of_ge (d : Bytes) (off n : Nat) (h : off ≥ d.length) : slice d off n = [] := by
  unfold slice
  have : d.drop off = [] := List.drop_eq_nil_of_le h
  simp [this]

theorem tarRead_flat (e : Entry) (h : H) (n : Nat) (hi : HInv .tar e h) :
    (tarRead h n).2 = (flatStep .tar e.data h.off (.read n)).2 ∧
    (tarRead h n).1.off = (flatStep .tar e.data h.off (.read n)).1 ∧ HInv .tar e (tarRead h n).1 := by
  obtain ⟨d, p, b, rfl⟩ := hi.tar_form
  simp only [tarRead, hi.file rfl, Bool.false_eq_true, if_false, flatStep]
  by_cases hge : p ≥ e.data.length
  · simp [hge, slice_nil_of_ge e.data p n hge, hi]
  · simp only [hge, if_false]
    exact ⟨rfl, rfl, HInv.tar_mk e _ _ _ (hi.file rfl)⟩

theorem tarReadAt_flat (e : Entry) (h : H) (n off : Nat) (hi : HInv .tar e h) :
    (tarReadAt h n off).2 = (flatStep .tar e.data h.off (.readAt n off)).2 ∧
    (tarReadAt h n off).1.off = (flatStep .tar e.data h.off (.readAt n off)).1 ∧
    HInv .tar e (tarReadAt h n off).1 := by
  obtain ⟨d, p, b, rfl⟩ := hi.tar_form
  simp only [tarReadAt, hi.file rfl, Bool.false_eq_true, if_false, flatStep]
  by_cases hge : off ≥ e.data.length
  · simp [hge, slice_nil_of_ge e.data off n hge, hi]
  · simp only [hge, if_false, false_or]
    exact ⟨rfl, trivial, hi⟩

theorem tarSeek_flat (e : Entry) (h : H) (off : Int) (wh : Nat) (hi : HInv .tar e h) :
    (tarSeek h off wh).2 = (flatStep .tar e.data h.off (.seek off wh)).2 ∧
    (tarSeek h off wh).1.off = (flatStep .tar e.data h.off (.seek off wh)).1 ∧
    HInv .tar e (tarSeek h off wh).1 := by
  obtain ⟨d, p, b, rfl⟩ := hi.tar_form
  have key : ∀ t : Int,
      ((if t < 0 then (({ ent := some e, isdir := d, closed := false, off := p, buf := b } : H), Res.err Err.inval)
        else (({ ent := some e, isdir := d, closed := false, off := t.toNat, buf := b } : H), Res.pos t.toNat)) : H × Res).2 =
        ((if t < 0 then (p, Res.err Err.inval) else (t.toNat, Res.pos t.toNat)) : Nat × Res).2 ∧
      ((if t < 0 then (({ ent := some e, isdir := d, closed := false, off := p, buf := b } : H), Res.err Err.inval)
        else (({ ent := some e, isdir := d, closed := false, off := t.toNat, buf := b } : H), Res.pos t.toNat)) : H × Res).1.off =
        ((if t < 0 then (p, Res.err Err.inval) else (t.toNat, Res.pos t.toNat)) : Nat × Res).1 ∧
      HInv .tar e ((if t < 0 then (({ ent := some e, isdir := d, closed := false, off := p, buf := b } : H), Res.err Err.inval)
        else (({ ent := some e, isdir := d, closed := false, off := t.toNat, buf := b } : H), Res.pos t.toNat)) : H × Res).1 := by
    intro t
    by_cases ht : t < 0
    · simp only [ht, if_true]; exact ⟨trivial, trivial, hi⟩
    · simp only [ht, if_false]; exact ⟨trivial, trivial, HInv.tar_mk e _ _ _ (hi.file rfl)⟩
  rcases wh with _ | _ | _ | w
  · simpa [tarSeek, flatStep, hi.file rfl] using key off
  · simpa [tarSeek, flatStep, hi.file rfl, Int.add_comm] using key (off + p)
  · simpa [tarSeek, flatStep, hi.file rfl, Int.add_comm] using key (off + e.data.length)
  · simp only [tarSeek, flatStep, hi.file rfl, Bool.false_eq_true, if_false]
    exact ⟨trivial, trivial, hi⟩

/-- One data call on a handle of a regular entry: the transcribed code (`fillBuffer` and the
    buffer slices of zipfs, `bytes.Reader` of tarfs) returns what the flat specification returns
    at the handle's position, moves the position as the specification does, keeps the invariant. -/
theorem hstep_flat (k : Kind) (fs : Files) (e : Entry) (h : H) (op : HOp) (hi : HInv k e h)
    (hio : op.isIO = true) :
    (hstep k fs h op).2 = (flatStep k e.data h.off op).2 ∧
    (hstep k fs h op).1.off = (flatStep k e.data h.off op).1 ∧ HInv k e (hstep k fs h op).1 := by
  cases op with
  | read n => cases k with
    | zip => exact zipRead_flat e h n hi
    | tar => exact tarRead_flat e h n hi
  | readAt n off => cases k with
    | zip => exact zipReadAt_flat e h n off hi
    | tar => exact tarReadAt_flat e h n off hi
  | seek off wh => cases k with
    | zip => exact zipSeek_flat e h off wh hi
    | tar => exact tarSeek_flat e h off wh hi
  | sync => exact ⟨rfl, rfl, hi⟩
  | write b => exact ⟨rfl, rfl, hi⟩
  | writeAt b off => exact ⟨rfl, rfl, hi⟩
  | writeString b => exact ⟨rfl, rfl, hi⟩
  | truncate n => exact ⟨rfl, rfl, hi⟩
  | close => simp [HOp.isIO] at hio
  | readdir c => simp [HOp.isIO] at hio
  | readdirnames c => simp [HOp.isIO] at hio
  | stat => simp [HOp.isIO] at hio
  | name => simp [HOp.isIO] at hio

/-- `Open` on a regular entry establishes the invariant at position 0 -/
theorem fresh_inv (k : Kind) (e : Entry) (hf : e.isDir = false) : HInv k e (fresh k e) ∧ (fresh k e).off = 0 := by
  cases k with
  | zip => exact ⟨⟨rfl, rfl, fun _ => hf, fun _ => ⟨hf, Nat.zero_le _, 0, Nat.zero_le _, rfl⟩⟩, rfl⟩
  | tar => exact ⟨⟨rfl, rfl, fun _ => hf, fun hk => by cases hk⟩, rfl⟩

theorem runH_flat (k : Kind) (fs : Files) (e : Entry) (ops : List HOp) (h : H) (hi : HInv k e h)
    (hio : ∀ op ∈ ops, op.isIO = true) :
    (runH k fs h ops).2 = (runFlat k e.data h.off ops).2 := by
  induction ops generalizing h with
  | nil => rfl
  | cons op r ih =>
    obtain ⟨h1, h2, h3⟩ := hstep_flat k fs e h op hi (hio op List.mem_cons_self)
    simp only [runH, runFlat]
    rw [h1, ih _ h3 (fun o ho => hio o (List.mem_cons_of_mem _ ho)), h2]

/-- **reads_are_slices.**  Any mix of `Read`, `ReadAt`, `Seek` (and of the refused write calls)
    on a handle freshly opened on a regular entry returns, call by call, what the flat
    specification returns: every read is `slice e.data pos n` with `pos` the specification's
    position — for every buffer length and every offset, however far beyond the end. -/
theorem reads_are_slices (k : Kind) (fs : Files) (e : Entry) (ops : List HOp)
    (hf : e.isDir = false) (hio : ∀ op ∈ ops, op.isIO = true) :
    (runH k fs (fresh k e) ops).2 = (runFlat k e.data 0 ops).2 := by
  have := runH_flat k fs e ops (fresh k e) (fresh_inv k e hf).1 hio
  rwa [(fresh_inv k e hf).2] at this

/-! ## 2. no panic, for every program and every offset -/

/-- what every handle of a reachable state satisfies -/
def HOk (k : Kind) (h : H) : Prop :=
  match k with
  | .zip => (h.ent = none → h.isdir = true ∨ h.closed = true) ∧
      (∀ e, h.ent = some e → h.isdir = false → h.closed = false →
        h.off ≤ e.data.length ∧ ∃ m, m ≤ e.data.length ∧ h.buf = e.data.take m)
  | .tar => h.ent = none → h.closed = true

theorem flatStep_ne_panic (k : Kind) (d : Bytes) (p : Nat) (op : HOp) : (flatStep k d p op).2 ≠ .panic := by
  cases op <;> cases k <;> simp only [flatStep] <;> (try split) <;> (try split) <;> simp

theorem HOk.of_zip_inv {e : Entry} {h : H} (hi : HInv .zip e h) : HOk .zip h := by
  refine ⟨fun hn => ?_, fun e' he' _ _ => ?_⟩
  · rw [hi.ent] at hn; cases hn
  · rw [hi.ent] at he'; cases he'
    exact (hi.zip rfl).2

theorem HOk.zip_inv {h : H} (hk : HOk .zip h) (hd : h.isdir = false) (hc : h.closed = false) :
    ∃ e, HInv .zip e h := by
  cases he : h.ent with
  | none => rcases hk.1 he with h1 | h1 <;> simp_all
  | some e =>
    exact ⟨e, he, hc, (fun hk' => by cases hk'), fun _ => ⟨hd, hk.2 e he hd hc⟩⟩

theorem zip_data_ok (h : H) (hk : HOk .zip h) (op : HOp)
    (hop : (hstep .zip fs h op) = zipRead h n ∨ (hstep .zip fs h op) = zipReadAt h n off ∨
      (hstep .zip fs h op) = zipSeek h ioff wh)
    (hflat : ∀ e, HInv .zip e h → (hstep .zip fs h op).2 = (flatStep .zip e.data h.off op).2 ∧
      HInv .zip e (hstep .zip fs h op).1) :
    (hstep .zip fs h op).2 ≠ .panic ∧ HOk .zip (hstep .zip fs h op).1 := by
  by_cases hd : h.isdir = true
  · have : (hstep .zip fs h op).1 = h ∧ (hstep .zip fs h op).2 ≠ .panic := by
      rcases hop with hop | hop | hop <;> rw [hop] <;> simp [zipRead, zipReadAt, zipSeek, hd]
    rw [this.1]; exact ⟨this.2, hk⟩
  · have hd' : h.isdir = false := by simpa using hd
    by_cases hc : h.closed = true
    · have : (hstep .zip fs h op).1 = h ∧ (hstep .zip fs h op).2 ≠ .panic := by
        rcases hop with hop | hop | hop <;> rw [hop] <;> simp [zipRead, zipReadAt, zipSeek, hd', hc]
      rw [this.1]; exact ⟨this.2, hk⟩
    · have hc' : h.closed = false := by simpa using hc
      obtain ⟨e, hi⟩ := hk.zip_inv hd' hc'
      obtain ⟨h1, h2⟩ := hflat e hi
      exact ⟨by rw [h1]; exact flatStep_ne_panic _ _ _ _, HOk.of_zip_inv h2⟩

theorem tar_data_ok (h : H) (hk : HOk .tar h) (op : HOp)
    (hop : (hstep .tar fs h op) = tarRead h n ∨ (hstep .tar fs h op) = tarReadAt h n off ∨
      (hstep .tar fs h op) = tarSeek h ioff wh)
    (hflat : ∀ e, HInv .tar e h → (hstep .tar fs h op).2 = (flatStep .tar e.data h.off op).2 ∧
      HInv .tar e (hstep .tar fs h op).1) :
    (hstep .tar fs h op).2 ≠ .panic ∧ HOk .tar (hstep .tar fs h op).1 := by
  by_cases hc : h.closed = true
  · have : (hstep .tar fs h op).1 = h ∧ (hstep .tar fs h op).2 ≠ .panic := by
      rcases hop with hop | hop | hop <;> rw [hop] <;> simp [tarRead, tarReadAt, tarSeek, hc]
    rw [this.1]; exact ⟨this.2, hk⟩
  · have hc' : h.closed = false := by simpa using hc
    cases he : h.ent with
    | none => exact absurd (hk he) hc
    | some e =>
      by_cases hdir : e.isDir = true
      · have : (hstep .tar fs h op).1 = h ∧ (hstep .tar fs h op).2 ≠ .panic := by
          rcases hop with hop | hop | hop <;> rw [hop] <;> simp [tarRead, tarReadAt, tarSeek, hc', he, hdir]
        rw [this.1]; exact ⟨this.2, hk⟩
      · have hi : HInv .tar e h := ⟨he, hc', fun _ => by simpa using hdir, fun hk' => by cases hk'⟩
        obtain ⟨h1, h2⟩ := hflat e hi
        refine ⟨by rw [h1]; exact flatStep_ne_panic _ _ _ _, ?_⟩
        intro hn; rw [h2.ent] at hn; cases hn

theorem hReaddir_ne_panic (k : Kind) (fs : Files) (h : H) (c : Int) : hReaddir k fs h c ≠ .panic := by
  unfold hReaddir
  cases hDirName k h with
  | error e => simp
  | ok name => simp only; split <;> simp

theorem hReaddirnames_ne_panic (k : Kind) (fs : Files) (h : H) (c : Int) : hReaddirnames k fs h c ≠ .panic := by
  unfold hReaddirnames
  cases hDirName k h with
  | error e => simp
  | ok name => simp only; split <;> cases k <;> simp

/-- one call on a handle never panics and keeps the handle invariant -/
theorem hstep_ok (k : Kind) (fs : Files) (h : H) (op : HOp) (hk : HOk k h) :
    (hstep k fs h op).2 ≠ .panic ∧ HOk k (hstep k fs h op).1 := by
  cases op with
  | read n => cases k with
    | zip => exact zip_data_ok (n := n) (off := 0) (ioff := 0) (wh := 0) h hk (.read n) (Or.inl rfl)
                (fun e hi => ⟨(zipRead_flat e h n hi).1, (zipRead_flat e h n hi).2.2⟩)
    | tar => exact tar_data_ok (n := n) (off := 0) (ioff := 0) (wh := 0) h hk (.read n) (Or.inl rfl)
                (fun e hi => ⟨(tarRead_flat e h n hi).1, (tarRead_flat e h n hi).2.2⟩)
  | readAt n off => cases k with
    | zip => exact zip_data_ok (n := n) (off := off) (ioff := 0) (wh := 0) h hk (.readAt n off) (Or.inr (Or.inl rfl))
                (fun e hi => ⟨(zipReadAt_flat e h n off hi).1, (zipReadAt_flat e h n off hi).2.2⟩)
    | tar => exact tar_data_ok (n := n) (off := off) (ioff := 0) (wh := 0) h hk (.readAt n off) (Or.inr (Or.inl rfl))
                (fun e hi => ⟨(tarReadAt_flat e h n off hi).1, (tarReadAt_flat e h n off hi).2.2⟩)
  | seek o wh => cases k with
    | zip => exact zip_data_ok (n := 0) (off := 0) (ioff := o) (wh := wh) h hk (.seek o wh) (Or.inr (Or.inr rfl))
                (fun e hi => ⟨(zipSeek_flat e h o wh hi).1, (zipSeek_flat e h o wh hi).2.2⟩)
    | tar => exact tar_data_ok (n := 0) (off := 0) (ioff := o) (wh := wh) h hk (.seek o wh) (Or.inr (Or.inr rfl))
                (fun e hi => ⟨(tarSeek_flat e h o wh hi).1, (tarSeek_flat e h o wh hi).2.2⟩)
  | close =>
    cases k with
    | zip => exact ⟨by simp [hstep], ⟨fun _ => Or.inr rfl, fun e he => by cases he⟩⟩
    | tar =>
      simp only [hstep]
      by_cases hc : h.closed = true
      · simp only [hc, if_true]; exact ⟨by simp, hk⟩
      · simp only [hc, if_false]; exact ⟨by simp, fun _ => rfl⟩
  | readdir c =>
    simp only [hstep]
    by_cases hc : h.closed = true
    · simp only [hc, if_true]; exact ⟨by simp, hk⟩
    · simp only [hc, if_false]
      refine ⟨?_, hk⟩
      exact hReaddir_ne_panic k fs h c
  | readdirnames c =>
    simp only [hstep]
    by_cases hc : h.closed = true
    · simp only [hc, if_true]; exact ⟨by simp, hk⟩
    · simp only [hc, if_false]
      refine ⟨?_, hk⟩
      exact hReaddirnames_ne_panic k fs h c
  | stat =>
    simp only [hstep]
    by_cases hc : h.closed = true
    · simp only [hc, if_true]; exact ⟨by simp, hk⟩
    · simp only [hc, if_false]
      refine ⟨?_, hk⟩
      unfold hStat
      cases he : h.ent with
      | none => cases k with
        | zip => simp
        | tar => exact absurd (hk he) hc
      | some e => simp [infoOf]
  | name =>
    simp only [hstep]
    by_cases hc : h.closed = true
    · simp only [hc, if_true]; exact ⟨by simp, hk⟩
    · simp only [hc, if_false]
      refine ⟨?_, hk⟩
      unfold hName
      cases he : h.ent with
      | none => cases k with
        | zip => simp
        | tar => exact absurd (hk he) hc
      | some e => simp
  | sync => exact ⟨by simp [hstep], hk⟩
  | write b => exact ⟨by simp [hstep], hk⟩
  | writeAt b off => exact ⟨by simp [hstep], hk⟩
  | writeString b => exact ⟨by simp [hstep], hk⟩
  | truncate n => exact ⟨by simp [hstep], hk⟩

def StOk (s : St) : Prop := ∀ h ∈ s.hs, HOk s.kind h

theorem fresh_ok (k : Kind) (e : Entry) : HOk k (fresh k e) := by
  cases k with
  | zip =>
    refine ⟨fun hn => ?_, fun e' he' _ _ => ?_⟩
    · cases hn
    · cases he'
      exact ⟨Nat.zero_le _, 0, Nat.zero_le _, rfl⟩
  | tar =>
    intro hn
    cases hn

theorem openH_ok (k : Kind) (fs : Files) (p : Str) (h : H) (ho : openH k fs p = some h) : HOk k h := by
  cases k with
  | zip =>
    simp only [openH] at ho
    by_cases hr : (splitpath p).2 = []
    · simp only [hr, if_true, Option.some.injEq] at ho
      subst ho
      exact ⟨fun _ => Or.inl rfl, fun e he => by cases he⟩
    · simp only [hr, if_false] at ho
      cases hg : get2 fs (splitpath p).1 (splitpath p).2 with
      | none => simp [hg] at ho
      | some e => simp [hg] at ho; subst ho; exact fresh_ok .zip e
  | tar =>
    simp only [openH] at ho
    cases hg : get2 fs (splitpath p).1 (splitpath p).2 with
    | none => simp [hg] at ho
    | some e => simp [hg] at ho; subst ho; exact fresh_ok .tar e

theorem openFs_ok (s : St) (p : Str) (hs : StOk s) :
    (openFs s p).2 ≠ .panic ∧ StOk (openFs s p).1 ∧ (openFs s p).1.kind = s.kind ∧ (openFs s p).1.files = s.files := by
  unfold openFs
  cases ho : openH s.kind s.files p with
  | none => exact ⟨by simp, hs, rfl, rfl⟩
  | some h =>
    refine ⟨by simp, ?_, rfl, rfl⟩
    intro x hx
    rcases List.mem_append.mp hx with h1 | h1
    · exact hs x h1
    · have : x = h := by simpa using h1
      subst this
      exact openH_ok _ _ _ _ ho

theorem statFs_ne_panic (k : Kind) (fs : Files) (p : Str) : statFs k fs p ≠ .panic := by
  unfold statFs
  cases k with
  | zip => simp only; split; · simp
           split <;> simp [infoOf]
  | tar => simp only; split <;> simp [infoOf]

/-- one call never panics, keeps the invariant, never touches the archive -/
theorem step_ok (s : St) (op : Op) (hs : StOk s) :
    (step s op).2 ≠ .panic ∧ StOk (step s op).1 ∧ (step s op).1.kind = s.kind ∧ (step s op).1.files = s.files := by
  cases op with
  | stat p => exact ⟨statFs_ne_panic _ _ _, hs, rfl, rfl⟩
  | «open» p => exact openFs_ok s p hs
  | openFile p flag =>
    simp only [step]
    by_cases hf : flag ≠ 0
    · rw [if_pos hf]; exact ⟨by simp, hs, rfl, rfl⟩
    · rw [if_neg hf]; exact openFs_ok s p hs
  | fsMut m p q => exact ⟨by simp [step], hs, rfl, rfl⟩
  | h i op =>
    simp only [step]
    cases hi : s.hs[i]? with
    | none => exact ⟨by simp, hs, rfl, rfl⟩
    | some h =>
      have hk := hs h (List.mem_of_getElem? hi)
      obtain ⟨h1, h2⟩ := hstep_ok s.kind s.files h op hk
      refine ⟨h1, ?_, rfl, rfl⟩
      intro x hx
      rcases List.mem_or_eq_of_mem_set hx with h3 | h3
      · exact hs x h3
      · subst h3; exact h2

theorem run_no_panic (s : St) (ops : List Op) (hs : StOk s) : Res.panic ∉ (run s ops).2 := by
  induction ops generalizing s with
  | nil => simp [run]
  | cons op r ih =>
    obtain ⟨h1, h2, _, _⟩ := step_ok s op hs
    simp only [run, List.mem_cons, not_or]
    exact ⟨fun h => h1 h.symm, ih _ h2⟩

/-- **no_panic.**  No program over any archive panics: any number of handles, any interleaving,
    any buffer length, any `ReadAt` offset ≥ 0 however far beyond the end, any `Seek`. -/
theorem no_panic (k : Kind) (arch : List Entry) (ops : List Op) :
    Res.panic ∉ (run (init k arch) ops).2 :=
  run_no_panic _ ops (fun h hh => by cases hh)

/-- **immutability of the view.**  No program changes the archive the filesystem serves. -/
theorem files_frozen (s : St) (ops : List Op) (hs : StOk s) :
    (run s ops).1.files = s.files ∧ (run s ops).1.kind = s.kind := by
  induction ops generalizing s with
  | nil => exact ⟨rfl, rfl⟩
  | cons op r ih =>
    obtain ⟨_, h2, h3, h4⟩ := step_ok s op hs
    simp only [run]
    rw [(ih _ h2).1, (ih _ h2).2, h3, h4]
    exact ⟨rfl, rfl⟩

/-! ## 3. handles are independent -/

/-- the calls of a program that go to handle `j` -/
def proj (j : Nat) : List Op → List HOp
  | [] => []
  | .h i op :: r => if i = j then op :: proj j r else proj j r
  | _ :: r => proj j r

/-- the results of those calls -/
def pick (j : Nat) : List Op → List Res → List Res
  | .h i _ :: ops, r :: rs => if i = j then r :: pick j ops rs else pick j ops rs
  | _ :: ops, _ :: rs => pick j ops rs
  | _, _ => []

/-- a call that is not a call on handle `j` leaves handle `j` alone (`Open` included: a new
    handle never disturbs an existing one) -/
theorem other_handle_untouched (s : St) (op : Op) (j : Nat) (h : H) (hj : s.hs[j]? = some h)
    (hop : ∀ o, op ≠ .h j o) : (step s op).1.hs[j]? = some h := by
  have hlt : j < s.hs.length := (List.getElem?_eq_some_iff.mp hj).1
  have happ : ∀ p, (openFs s p).1.hs[j]? = some h := by
    intro p
    unfold openFs
    cases openH s.kind s.files p with
    | none => exact hj
    | some x => simp only; rw [List.getElem?_append_left hlt]; exact hj
  cases op with
  | stat p => exact hj
  | «open» p => exact happ p
  | openFile p flag =>
    simp only [step]
    by_cases hf : flag ≠ 0
    · rw [if_pos hf]; exact hj
    · rw [if_neg hf]; exact happ p
  | fsMut m p q => exact hj
  | h i o =>
    have hne : i ≠ j := fun e => hop o (e ▸ rfl)
    simp only [step]
    cases s.hs[i]? with
    | none => exact hj
    | some x => simp only; rw [List.getElem?_set_ne hne]; exact hj

/-- **handles_independent.**  In any program — Fs-level calls, opens of further handles and
    calls on any number of other handles interleaved in any order — the results of the calls on
    handle `j` are exactly the results of running those calls alone on that handle. -/
theorem handles_independent (s : St) (ops : List Op) (j : Nat) (h : H) (hj : s.hs[j]? = some h)
    (hs : StOk s) :
    pick j ops (run s ops).2 = (runH s.kind s.files h (proj j ops)).2 := by
  induction ops generalizing s h with
  | nil => rfl
  | cons op r ih =>
    obtain ⟨_, hok, hkind, hfiles⟩ := step_ok s op hs
    by_cases hop : ∃ o, op = .h j o
    · obtain ⟨o, rfl⟩ := hop
      have hst : step s (.h j o) = ({ s with hs := s.hs.set j (hstep s.kind s.files h o).1 }, (hstep s.kind s.files h o).2) := by
        simp [step, hj]
      have hj' : (step s (.h j o)).1.hs[j]? = some (hstep s.kind s.files h o).1 := by
        rw [hst]
        have hlt : j < s.hs.length := (List.getElem?_eq_some_iff.mp hj).1
        simp [hlt]
      have := ih (step s (.h j o)).1 (hstep s.kind s.files h o).1 hj' hok
      simp only [run, pick, proj, if_true, runH]
      rw [this, hkind, hfiles, hst]
    · have hop' : ∀ o, op ≠ .h j o := fun o e => hop ⟨o, e⟩
      have hj' := other_handle_untouched s op j h hj hop'
      have := ih (step s op).1 h hj' hok
      rw [hkind, hfiles] at this
      cases op with
      | h i o =>
        have hne : i ≠ j := fun e => hop' o (e ▸ rfl)
        simp only [run, pick, proj, hne, if_false]
        exact this
      | stat p => simpa only [run, pick, proj] using this
      | «open» p => simpa only [run, pick, proj] using this
      | openFile p f => simpa only [run, pick, proj] using this
      | fsMut m p q => simpa only [run, pick, proj] using this

/-- together: whatever else the program does, the reads on a handle freshly opened on a regular
    entry return exactly the entry's slices -/
theorem interleaved_reads_are_slices (s : St) (ops : List Op) (j : Nat) (e : Entry)
    (hj : s.hs[j]? = some (fresh s.kind e)) (hs : StOk s) (hf : e.isDir = false)
    (hio : ∀ op ∈ proj j ops, op.isIO = true) :
    pick j ops (run s ops).2 = (runFlat s.kind e.data 0 (proj j ops)).2 := by
  rw [handles_independent s ops j _ hj hs]
  exact reads_are_slices s.kind s.files e _ hf hio

/-! ## 4. every mutating call fails and changes nothing -/

theorem set_self (s : St) (i : Nat) (h : H) (hi : s.hs[i]? = some h) : { s with hs := s.hs.set i h } = s := by
  obtain ⟨hlt, he⟩ := List.getElem?_eq_some_iff.mp hi
  subst he
  simp

/-- **mutators_fail_and_inert.**  `Create, Mkdir, MkdirAll, Remove, RemoveAll, Rename, Chmod,
    Chown, Chtimes`, `OpenFile` with any flag other than `O_RDONLY`, and `Write, WriteAt,
    WriteString, Truncate` on any handle (open or closed, file or directory): the call reports
    a permission error and the whole state — archive and every handle — is unchanged. -/
theorem mutators_fail_and_inert (s : St) (op : Op) (hm : op.isMutator = true)
    (hvalid : ∀ i o, op = .h i o → (s.hs[i]?).isSome = true) :
    (step s op).1 = s ∧ ((step s op).2 = .err .perm ∨ (step s op).2 = .n 0 (some .perm)) := by
  cases op with
  | stat p => simp [Op.isMutator] at hm
  | «open» p => simp [Op.isMutator] at hm
  | openFile p flag =>
    have hf : flag ≠ 0 := by simpa [Op.isMutator] using hm
    simp only [step]
    rw [if_pos hf]
    exact ⟨rfl, Or.inl rfl⟩
  | fsMut m p q => exact ⟨rfl, Or.inl rfl⟩
  | h i o =>
    have hv := hvalid i o rfl
    cases hi : s.hs[i]? with
    | none => simp [hi] at hv
    | some x =>
      cases o with
      | write b => simp only [step, hi, hstep]; exact ⟨set_self s i x hi, Or.inr trivial⟩
      | writeAt b off => simp only [step, hi, hstep]; exact ⟨set_self s i x hi, Or.inr trivial⟩
      | writeString b => simp only [step, hi, hstep]; exact ⟨set_self s i x hi, Or.inr trivial⟩
      | truncate n => simp only [step, hi, hstep]; exact ⟨set_self s i x hi, Or.inl trivial⟩
      | read n => simp [Op.isMutator, HOp.isMutator] at hm
      | readAt n off => simp [Op.isMutator, HOp.isMutator] at hm
      | seek off wh => simp [Op.isMutator, HOp.isMutator] at hm
      | close => simp [Op.isMutator, HOp.isMutator] at hm
      | readdir c => simp [Op.isMutator, HOp.isMutator] at hm
      | readdirnames c => simp [Op.isMutator, HOp.isMutator] at hm
      | stat => simp [Op.isMutator, HOp.isMutator] at hm
      | name => simp [Op.isMutator, HOp.isMutator] at hm
      | sync => simp [Op.isMutator, HOp.isMutator] at hm

/-! ## 5. every entry is found by Stat and Open under every spelling of its cleaned path -/

theorem get2_build (k : Kind) (arch : List Entry) (hu : Unique arch) (d f : Str) (hf : f ≠ []) (e : Entry) :
    get2 (build k arch) d f = some e ↔ (e ∈ arch ∧ splitpath e.name = (d, f)) := by
  cases k with
  | zip => exact get2_zipBuild arch hu d f e
  | tar => exact get2_tarBuild arch hu d f hf e

/-- **stat_open_find_entry.**  In an archive whose entries clean to pairwise distinct paths,
    every entry `e` (not cleaning to the root) is found under every spelling `p` of its path
    (`splitpath p = splitpath e.name`: leading `/` or `./`, doubled separators, dot segments):
    `Stat` reports its base name, its size and its directory flag, `Open` returns a fresh handle
    on it — whatever handles are already open. -/
theorem stat_open_find_entry (k : Kind) (arch : List Entry) (hu : Unique arch) (e : Entry)
    (he : e ∈ arch) (hr : (splitpath e.name).2 ≠ []) (p : Str) (hp : splitpath p = splitpath e.name)
    (s : St) (hk : s.kind = k) (hfs : s.files = build k arch) :
    (step s (.stat p)).2 = .info (Path.base e.name) e.data.length e.isDir ∧
    step s (.open p) = ({ s with hs := s.hs ++ [fresh k e] }, .handle s.hs.length) ∧
    step s (.openFile p 0) = ({ s with hs := s.hs ++ [fresh k e] }, .handle s.hs.length) := by
  have hg : get2 (build k arch) (splitpath p).1 (splitpath p).2 = some e := by
    rw [hp]
    exact (get2_build k arch hu _ _ hr e).mpr ⟨he, rfl⟩
  have hr' : (splitpath p).2 ≠ [] := by rw [hp]; exact hr
  have hopen : openFs s p = ({ s with hs := s.hs ++ [fresh k e] }, .handle s.hs.length) := by
    unfold openFs
    rw [hk, hfs]
    cases k <;> simp [openH, hg, hr']
  refine ⟨?_, hopen, ?_⟩
  · simp only [step, hk, hfs]
    cases k <;> simp [statFs, hg, hr', infoOf]
  · simp only [step]
    rw [if_neg (by simp)]
    exact hopen

/-- a path that no entry cleans to is reported missing (implicit directories included: they
    are not entries) -/
theorem missing_is_notexist (k : Kind) (arch : List Entry) (hu : Unique arch) (p : Str)
    (hr : (splitpath p).2 ≠ []) (hno : ∀ e ∈ arch, splitpath e.name ≠ splitpath p)
    (s : St) (hk : s.kind = k) (hfs : s.files = build k arch) :
    (step s (.stat p)).2 = .err .notexist ∧ step s (.open p) = (s, .err .notexist) := by
  have hg : get2 (build k arch) (splitpath p).1 (splitpath p).2 = none := by
    cases h : get2 (build k arch) (splitpath p).1 (splitpath p).2 with
    | none => rfl
    | some e =>
      have := (get2_build k arch hu _ _ hr e).mp h
      exact absurd this.2 (hno e this.1)
  constructor
  · simp only [step, hk, hfs]
    cases k <;> simp [statFs, hg, hr]
  · simp only [step, openFs, hk, hfs]
    cases k <;> simp [openH, hg, hr]

/-- the root is always there -/
theorem stat_root (k : Kind) (arch : List Entry) (p : Str) (hp : splitpath p = (root, []))
    (s : St) (hk : s.kind = k) (hfs : s.files = build k arch) :
    (step s (.stat p)).2 = .info root 0 true := by
  simp only [step, hk, hfs]
  cases k with
  | zip => simp [statFs, hp]
  | tar =>
    simp only [statFs, hp, build]
    rw [get2_tarBuild_root]
    decide

/-! ## 6. listings are exact -/

/-- **listing_exact.**  If directory `d` can be listed, its listing holds pairwise distinct
    names and exactly the entries stored under `d`: `(f, e)` is listed iff `e` is an entry of the
    archive whose cleaned path is `d/f`. -/
theorem listing_exact (k : Kind) (arch : List Entry) (hu : Unique arch) (d : Str) (l : Dir)
    (h : listDir (build k arch) d = some l) :
    (akeys l).Nodup ∧ ∀ f e, (f, e) ∈ l ↔ (f ≠ [] ∧ e ∈ arch ∧ splitpath e.name = (d, f)) := by
  obtain ⟨h1, h2⟩ := listDir_spec (build k arch) (keysNodup_build k arch) d l h
  refine ⟨h1, fun f e => ?_⟩
  rw [h2]
  constructor
  · rintro ⟨hf, hg⟩
    exact ⟨hf, (get2_build k arch hu d f hf e).mp hg⟩
  · rintro ⟨hf, hg⟩
    exact ⟨hf, (get2_build k arch hu d f hf e).mpr hg⟩

/-- which directories can be listed: the root, always; every directory that holds an entry;
    every explicit directory entry, empty or not -/
theorem listable (k : Kind) (arch : List Entry) (d : Str) :
    (listDir (build k arch) d).isSome = true ↔
      (d = root ∨ ∃ e ∈ arch, d = (splitpath e.name).1 ∨ (e.isDir = true ∧ d = joinSplit e.name)) := by
  rw [listDir_isSome, hasDir_build]

/-- `Readdir(count)` with `count ≤ 0` on an open directory handle returns the whole listing -/
theorem readdir_all (k : Kind) (fs : Files) (h : H) (c : Int) (hc : c ≤ 0) (ho : h.closed = false)
    (d : Str) (hd : hDirName k h = .ok d) (l : Dir) (hl : listDir fs d = some l) :
    hstep k fs h (.readdir c) = (h, .infos (l.map baseInfo)) := by
  have : ¬ c > 0 := by omega
  simp [hstep, ho, hReaddir, hd, hl, takeCount, this]

/-- an explicit directory entry can be opened and listed, empty or not (S9), and so can the
    root of any archive, empty or not (S22) -/
theorem explicit_dir_listable (k : Kind) (arch : List Entry) (e : Entry) (he : e ∈ arch) (hd : e.isDir = true) :
    hDirName k (fresh k e) = .ok (joinSplit e.name) ∧ (listDir (build k arch) (joinSplit e.name)).isSome = true := by
  constructor
  · cases k <;> simp [hDirName, fresh, hd]
  · exact (listable k arch _).mpr (Or.inr ⟨e, he, Or.inr ⟨hd, rfl⟩⟩)

theorem root_listable (k : Kind) (arch : List Entry) : (listDir (build k arch) root).isSome = true :=
  (listable k arch root).mpr (Or.inl rfl)

/-! ## 7. reading through: sequential chunks concatenate to the entry -/

def bytesOf : Res → Bytes
  | .bytes b _ => b
  | _ => []

theorem slice_append (d : Bytes) (pos n m : Nat) :
    slice d pos n ++ slice d (pos + (slice d pos n).length) m = slice d pos (n + m) := by
  unfold slice
  rw [← List.drop_drop]
  generalize d.drop pos = t
  by_cases h : n ≤ t.length
  · have : (t.take n).length = n := by simp [List.length_take]; omega
    rw [this, List.take_add]
  · have h1 : t.take n = t := List.take_of_length_le (by omega)
    have h2 : t.take (n + m) = t := List.take_of_length_le (by omega)
    rw [h1, h2, List.drop_eq_nil_of_le (Nat.le_refl _)]
    simp

/-- successive `Read` calls with any chunk sizes return, concatenated, the entry's bytes from
    the current position on: nothing lost, nothing repeated, nothing invented -/
theorem flat_reads_concat (k : Kind) (d : Bytes) (ns : List Nat) (pos : Nat) :
    ((runFlat k d pos (ns.map HOp.read)).2.map bytesOf).flatten = slice d pos ns.sum := by
  induction ns generalizing pos with
  | nil => simp [runFlat, slice]
  | cons n r ih =>
    simp only [List.map_cons, runFlat, flatStep, List.flatten_cons, List.sum_cons, bytesOf]
    rw [ih, slice_append]

theorem sequential_reads_concat (k : Kind) (fs : Files) (e : Entry) (hf : e.isDir = false) (ns : List Nat) :
    ((runH k fs (fresh k e) (ns.map HOp.read)).2.map bytesOf).flatten = e.data.take ns.sum := by
  rw [reads_are_slices k fs e _ hf (by intro op hop; obtain ⟨n, _, rfl⟩ := List.mem_map.mp hop; rfl),
    flat_reads_concat]
  simp [slice]

/-- one positional read of the whole size returns the whole entry -/
theorem readAt_whole (k : Kind) (fs : Files) (e : Entry) (hf : e.isDir = false) :
    ((runH k fs (fresh k e) [.readAt e.data.length 0]).2.map bytesOf) = [e.data] := by
  rw [reads_are_slices k fs e _ hf (by intro op hop; simp at hop; subst hop; rfl)]
  simp [runFlat, flatStep, bytesOf, slice]

/-! ## 8. the hypotheses are satisfiable: a concrete archive -/

def str (x : String) : Str := x.toList

/-- `a.txt`, an explicit empty directory `d/`, a nested file under an implicit directory `sub`,
    and a `./`-prefixed name -/
def exArch : List Entry :=
  [ { name := str "a.txt", isDir := false, data := [104, 101, 108, 108, 111] },
    { name := str "d/", isDir := true, data := [] },
    { name := str "sub/x", isDir := false, data := [1, 2, 3] },
    { name := str "./b", isDir := false, data := [] } ]

example : splitpath (str "sub/x") = (str "/sub", str "x") := by decide
example : splitpath (str "./sub//x") = splitpath (str "sub/x") := by decide
example : splitpath (str "/") = (root, []) := by decide
example : splitpath (str "") = (root, []) := by decide
example : joinSplit (str "d/") = str "/d" := by decide

theorem exArch_unique : Unique exArch := by
  intro a ha b hb
  simp only [exArch, List.mem_cons, List.not_mem_nil, or_false] at ha hb
  rcases ha with rfl | rfl | rfl | rfl <;> rcases hb with rfl | rfl | rfl | rfl <;> decide

/-- the entry is found under another spelling, opened, and read back whole through two
    interleaved handles — in both back-ends -/
example : (run (init .tar exArch)
    [.stat (str "./sub//x"), .open (str "sub/x"), .open (str "/sub/x"),
     .h 0 (.read 2), .h 1 (.read 3), .h 0 (.read 2), .h 1 (.readAt 2 7), .h 0 (.seek (-1) 2), .h 0 (.read 5)]).2 =
    [.info (str "x") 3 false, .handle 0, .handle 1,
     .bytes [1, 2] none, .bytes [1, 2, 3] none, .bytes [3] none, .bytes [] (some .eof), .pos 2, .bytes [3] none] := by
  decide

example : (run (init .zip exArch)
    [.open (str "a.txt"), .open (str "a.txt"), .h 0 (.read 2), .h 1 (.readAt 9 1), .h 0 (.readAt 1 1000000),
     .h 0 (.read 9), .h 1 (.read 1), .h 0 (.write [1]), .fsMut .remove (str "a.txt") [], .stat (str "a.txt")]).2 =
    [.handle 0, .handle 1, .bytes [104, 101] none, .bytes [101, 108, 108, 111] (some .eof), .bytes [] (some .eof),
     .bytes [108, 108, 111] (some .eof), .bytes [104] none, .n 0 (some .perm), .err .perm, .info (str "a.txt") 5 false] := by
  decide

/-- the explicit empty directory and the root list (S9, S22), the implicit directory is absent -/
example : (run (init .tar exArch)
    [.open (str "d"), .h 0 (.readdir (-1)), .open (str "/"), .h 1 (.readdir 0), .stat (str "sub")]).2 =
    [.handle 0, .infos [], .handle 1, .infos [(str "a.txt", false), (str "b", false), (str "d", true)], .err .notexist] := by
  decide

example : (run (init .zip [{ name := str "sub/x", isDir := false, data := [7] }])
    [.open (str "/"), .h 0 (.readdir (-1)), .h 0 (.readdirnames 0)]).2 = [.handle 0, .infos [], .names []] := by
  decide

/-- `HInv` holds for the handle `Open` returns (so `reads_are_slices` applies to it) -/
example : HInv .zip exArch[0] (fresh .zip exArch[0]) := (fresh_inv .zip _ rfl).1

end AferoVerif.C14
