/-
  Property C16 — Walk and Glob agree with path/filepath on the same tree.
  Walk: for every tree, every root and every (history-dependent) callback, afero's walk visits
  exactly the paths the standard library's walk visits, in the same order with the same directory
  flags, and returns the same result.
-/
import AferoVerif.Model.Walk
import AferoVerif.Model.Glob
namespace AferoVerif.C16
open AferoVerif AferoVerif.Walk

/-- the relation between the two inner walks on one node: same visits; same outcome, except that
    for a skipped *directory* afero has already swallowed the SkipDir its caller would swallow -/
def Rel (isDir : Bool) (a s : R) : Prop :=
  a.visits = s.visits ∧ (a.out = s.out ∨ (isDir = true ∧ a.out = .ok ∧ s.out = .skipDir))

mutual
theorem walk_rel (cb : Callback) (path : Str) (vs : List Visit) : (t : Tree) →
    Rel t.isDir (walkA cb path vs t) (walkS cb path vs t)
  | .file n => by
    simp only [walkA, walkS, Tree.isDir]
    cases h : cb vs path false <;> exact ⟨rfl, Or.inl rfl⟩
  | .dir n kids => by
    simp only [walkA, walkS, Tree.isDir]
    cases h : cb vs path true with
    | continue_ =>
      have := walkF_eq cb path (vs ++ [(path, true)]) kids
      exact ⟨by rw [this], Or.inl (by rw [this])⟩
    | skipDir => exact ⟨rfl, Or.inr ⟨rfl, rfl, rfl⟩⟩
    | error c => exact ⟨rfl, Or.inl rfl⟩
theorem walkF_eq (cb : Callback) (dir : Str) (vs : List Visit) : (f : Forest) →
    walkAF cb dir vs f = walkSF cb dir vs f
  | .nil => by simp [walkAF, walkSF]
  | .cons t rest => by
    have hr := walk_rel cb (joinPath dir t.name) vs t
    obtain ⟨hv, ho⟩ := hr
    simp only [walkAF, walkSF]
    rcases ho with ho | ⟨hd, ha, hs⟩
    · rw [ho, hv]
      cases hso : (walkS cb (joinPath dir t.name) vs t).out with
      | ok => simp only; exact walkF_eq cb dir _ rest
      | skipDir =>
        simp only
        by_cases hdd : t.isDir = true
        · simp only [hdd, if_true]; exact walkF_eq cb dir _ rest
        · simp [hdd]
      | error c => rfl
    · rw [ha, hs, hv]
      simp only [hd, if_true]
      exact walkF_eq cb dir _ rest
end

/-- **C16 (Walk).** For every tree (or missing root), every root path and every callback —
    returning SkipDir or an error on any entry, depending on anything it has seen so far —
    afero.Walk and filepath.Walk produce the same sequence of visits (paths, in order, with
    directory flags) and the same result. -/
theorem walk_eq (cb : Callback) (root : Str) (t : Option Tree) : 
    (WalkA cb root t).visits = (WalkS cb root t).visits ∧ (WalkA cb root t).out = (WalkS cb root t).out := by
  cases t with
  | none => exact ⟨rfl, rfl⟩
  | some t =>
    simp only [WalkA, WalkS, top]
    obtain ⟨hv, ho⟩ := walk_rel cb root [] t
    refine ⟨hv, ?_⟩
    rcases ho with ho | ⟨_, ha, hs⟩
    · rw [ho]
    · rw [ha, hs]; rfl

/-! non-vacuity: SkipDir returned for a *file* in the root directory skips its siblings and does
    not leak out of Walk (the case the unrepaired source got wrong) -/
def t0 : Tree := .dir "r".toList (.cons (.file "a".toList) (.cons (.dir "b".toList (.cons (.file "x".toList) .nil)) .nil))
def cbSkipA : Callback := fun _ p _ => if p = "/r/a".toList then .skipDir else .continue_

example : (WalkA cbSkipA "/r".toList (some t0)).out = .ok ∧
    (WalkA cbSkipA "/r".toList (some t0)).visits = [("/r".toList, true), ("/r/a".toList, false)] := by decide
example : (WalkS cbSkipA "/r".toList (some t0)).out = .ok := by decide

/-! ### Glob -/

open AferoVerif.Glob in
/-- a pattern in the property's domain: well-formed (Match accepts it syntactically, and so does
    every directory part Glob recurses on) and without escapes -/
def WFPat (m : Glob.MatchFn) : Nat → Str → Prop
  | 0, _ => True
  | fuel + 1, pat =>
    '\\' ∉ pat ∧ (m pat []).isSome ∧ Glob.dirOf pat ≠ pat ∧ WFPat m fuel (Glob.dirOf pat)

theorem hasMeta_eq (p : Str) (h : '\\' ∉ p) : Glob.hasMetaS p = Glob.hasMetaA p := by
  unfold Glob.hasMetaS Glob.hasMetaA
  induction p with
  | nil => rfl
  | cons c cs ih =>
    have hc : c ≠ '\\' := fun e => h (by simp [e])
    have hcs : '\\' ∉ cs := fun e => h (by simp [e])
    simp only [List.any_cons, ih hcs]
    simp [hc]

theorem dirOf_no_backslash (p : Str) (h : '\\' ∉ p) : '\\' ∉ Glob.dirOf p := by
  unfold Glob.dirOf Path.splitDirFile
  simp only
  have htake : ∀ k, '\\' ∉ p.take k := fun k hk => h (List.mem_of_mem_take hk)
  cases Path.lastSlash p with
  | none => simp [Path.dot]
  | some i =>
    simp only
    split
    · simp [Path.dot]
    · split
      · exact htake _
      · intro hk; exact htake _ (List.dropLast_subset _ hk)

/-- **C16 (Glob).** For every filesystem view, every `Match`, and every well-formed escape-free
    pattern, afero.Glob and filepath.Glob return the same list (same matches, same order). -/
theorem glob_eq (v : Glob.FsView) (m : Glob.MatchFn) (fuel : Nat) (pat : Str) (h : WFPat m fuel pat) :
    Glob.globS v m fuel pat = Glob.globA v m fuel pat := by
  induction fuel generalizing pat with
  | zero => rfl
  | succ n ih =>
    obtain ⟨hb, hwf, hne, hrec⟩ := h
    simp only [Glob.globS, Glob.globA]
    have h1 : (m pat []).isNone = false := by
      cases hm : m pat [] with
      | none => simp [hm] at hwf
      | some _ => rfl
    rw [h1, hasMeta_eq pat hb, hasMeta_eq _ (dirOf_no_backslash pat hb)]
    simp only [Bool.false_eq_true, if_false, hne]
    rw [ih _ hrec]

/-! non-vacuity on the concrete matcher -/
example : WFPat Glob.matchFn 3 "/a/*/x[a-c]?".toList := by
  refine ⟨by decide, by decide, by decide, by decide, by decide, by decide, ?_⟩
  exact ⟨by decide, by decide, by decide, trivial⟩
example : Glob.matchFn "x[a-c]?".toList "xbz".toList = some true ∧ Glob.matchFn "*.t?t".toList "a.txt".toList = some true ∧
    Glob.matchFn "[^a]*".toList "abc".toList = some false := by decide

end AferoVerif.C16
