/-
  Property C06, the clause "writes go to the overlay (copying the file up first when it exists only in the base)
  and the base never changes" — for WRITE-OPENS through the union that truncate or append (Proofs/CowWriteOpen.lean).

  `cowView c k` is what the union shows under a name (the overlay's entry if the overlay has one, else the base's:
  kind, bytes, mode bits).  The write mask is O_WRONLY|O_RDWR|O_APPEND|O_CREATE|O_TRUNC (`cowWriteMask` = 1603).

  What the model does, and is proved here:
  * `OpenFile(name, flag)` with any flag of the write mask and without O_EXCL, of a regular file only the base
    holds, succeeds, leaves the base literally as it was, and the overlay then holds a regular file under the name:
    the base's bytes, or none if the flags TRUNCATE.  The flags truncate when O_TRUNC comes together with O_WRONLY or
    O_RDWR (`truncates`); O_TRUNC alone (access mode O_RDONLY) copies the file up and does NOT empty it
    (memmap.go:293).  The copy carries the mode of a fresh overlay file, not the base's mode bits.
    Three situations of the overlay: it holds the file's directory (`write_open_copies_up`), it lacks that one
    level (`…_making_dir`), it lacks any number of levels (`…_making_dirs`).  In the last two the directories made
    by `MkdirAll(dir, 0777)` show the bits 0777 afterwards whatever bits the base's directories have: "every other
    name is unchanged" is FALSE for the mode bits of exactly those names, true for every other name.
  * the first `Write(d)` through the returned handle leaves `firstWrite flag old d`: with O_APPEND (no truncation)
    `old ++ d`; with neither, the handle starts at 0 and `d` OVERWRITES the first bytes; truncation without O_APPEND
    leaves `d`; truncation WITH O_APPEND leaves `len(old)` zero bytes and then `d` (the handle was moved to the old end
    before the file was emptied).  Without O_WRONLY/O_RDWR the handle is read-only and the write is refused.
  * the same opens on a regular file of the overlay act on the overlay alone; its mode bits are kept.
  * a failing write-open with several overlay levels missing: state unchanged when the base has no directory there
    either; when the base has it, the missing overlay directories have been made (bits 0777) before the call fails.
-/
import AferoVerif.Proofs.CowWriteOpen
namespace AferoVerif.C06
open AferoVerif AferoVerif.MemFs

/-! ### the concrete states of the examples -/

/-- base: /f = "hello" (mode 0600), /d (0750) with /d/g = [7,8], /a/b/c (0755 each) with /a/b/c/f = [1,2,3] -/
def baseX : MemFs := MemFs.run MemFs.init
  [.create "/f".toList, .hWrite 0 [104, 101, 108, 108, 111], .chmod "/f".toList 0o600,
   .mkdir "/d".toList 0o750, .create "/d/g".toList, .hWrite 1 [7, 8],
   .mkdirAll "/a/b/c".toList 0o755, .create "/a/b/c/f".toList, .hWrite 2 [1, 2, 3]]

/-- that base under an empty overlay -/
def cowX : Cow := { s := { b := baseX, l := MemFs.init }, hs := [] }

/-- that base under an overlay holding /n = "ABC" with mode 0640 -/
def cowY : Cow :=
  { s := { b := baseX, l := MemFs.run MemFs.init [.create "/n".toList, .hWrite 0 [65, 66, 67], .chmod "/n".toList 0o640] },
    hs := [] }

theorem baseOnlyFile_cowX : BaseOnlyFile cowX "/f".toList 1 :=
  ⟨consistent_init, by decide, by decide, by decide, by decide, ⟨0, [], by decide, by decide⟩⟩

theorem baseOnlyFileFresh_cowX : BaseOnlyFileFresh cowX "/d/g".toList 3 :=
  ⟨consistent_init, by decide, by decide, by decide, by decide, by decide, ⟨0, [], by decide, by decide⟩⟩

theorem baseOnlyFileDeep_cowX : BaseOnlyFileDeep cowX "/a/b/c/f".toList 7 :=
  ⟨consistent_init, by decide, by decide, by decide, by decide, by decide, by decide⟩

theorem overlayFile_cowY : OverlayFile cowY "/n".toList 1 :=
  ⟨C01.tree_consistent_fragment _
      ⟨fun f hf => (by rw [show MemFs.init.lookup (keyOfStr "/n".toList) = none from by decide] at hf; cases hf),
        trivial, trivial, trivial⟩,
    by decide, by decide, ⟨0, by decide, by decide⟩⟩

/-! ### (1) write-open of a regular file only the base holds -/

/-- **(1a) the overlay holds the file's directory.**  `OpenFile(name, flag, perm)` with a flag of the write mask and
    without O_EXCL answers a fresh handle; the base is literally what it was (objects, names, handles); the name
    now shows a regular file with the base's bytes — no bytes if the flags truncate (`openBytes`) — and the mode of
    a fresh overlay file; every other name shows what it did. -/
theorem write_open_copies_up (c : Cow) (p : Str) (flag perm bo : Nat) (h : BaseOnlyFile c p bo)
    (hm : flag &&& cowWriteMask ≠ 0) (hx : flag &&& O_EXCL = 0) :
    (c.step (.openFile p flag perm)).2 = .handle c.hs.length none ∧
    (c.step (.openFile p flag perm)).1.s.b = c.s.b ∧
    (∀ k', cowView (c.step (.openFile p flag perm)).1 k' =
      if k' = keyOfStr p then some (.file (openBytes flag (c.s.b.obj bo).data) modeTemporary) else cowView c k') ∧
    cowView c (keyOfStr p) = some (.file (c.s.b.obj bo).data (c.s.b.obj bo).mode) :=
  cow_writeOpen_base_file c p flag perm bo h hm hx

/-- `openBytes`: empty exactly when O_TRUNC comes with O_WRONLY or O_RDWR -/
theorem open_bytes (flag : Nat) (d : Bytes) :
    openBytes flag d = if flag &&& O_TRUNC > 0 ∧ flag &&& (O_RDWR ||| O_WRONLY) > 0 then [] else d := rfl

example := write_open_copies_up cowX "/f".toList (O_WRONLY ||| O_TRUNC) 0 1 baseOnlyFile_cowX (by decide) (by decide)
/-- the five flags of the mask, one at a time, on /f = "hello": only O_WRONLY|O_TRUNC and O_RDWR|O_TRUNC empty it;
    O_TRUNC alone does not -/
example :
    cowView cowX (keyOfStr "/f".toList) = some (.file [104, 101, 108, 108, 111] (modeTemporary ||| 0o600)) ∧
    cowView (cowX.step (.openFile "/f".toList O_WRONLY 0)).1 (keyOfStr "/f".toList) =
      some (.file [104, 101, 108, 108, 111] modeTemporary) ∧
    cowView (cowX.step (.openFile "/f".toList O_APPEND 0)).1 (keyOfStr "/f".toList) =
      some (.file [104, 101, 108, 108, 111] modeTemporary) ∧
    cowView (cowX.step (.openFile "/f".toList O_CREATE 0)).1 (keyOfStr "/f".toList) =
      some (.file [104, 101, 108, 108, 111] modeTemporary) ∧
    cowView (cowX.step (.openFile "/f".toList O_TRUNC 0)).1 (keyOfStr "/f".toList) =
      some (.file [104, 101, 108, 108, 111] modeTemporary) ∧
    cowView (cowX.step (.openFile "/f".toList (O_WRONLY ||| O_TRUNC) 0)).1 (keyOfStr "/f".toList) =
      some (.file [] modeTemporary) ∧
    cowView (cowX.step (.openFile "/f".toList (O_RDWR ||| O_TRUNC) 0)).1 (keyOfStr "/f".toList) =
      some (.file [] modeTemporary) ∧
    (cowX.step (.openFile "/f".toList (O_RDWR ||| O_TRUNC) 0)).2 = .handle 0 none := by decide
example : (cowX.step (.openFile "/f".toList (O_RDWR ||| O_TRUNC) 0)).1.s.b = cowX.s.b := rfl

/-- **(1b) the overlay lacks the directory the file lies in** (and holds the one above): the same, and the
    directory `copyFile` has made with `MkdirAll(dir, 0777)` now shows the bits 0777 instead of the base's. -/
theorem write_open_copies_up_making_dir (c : Cow) (p : Str) (flag perm bo : Nat) (h : BaseOnlyFileFresh c p bo)
    (hm : flag &&& cowWriteMask ≠ 0) (hx : flag &&& O_EXCL = 0) :
    (c.step (.openFile p flag perm)).2 = .handle c.hs.length none ∧
    (c.step (.openFile p flag perm)).1.s.b = c.s.b ∧
    (∀ k', cowView (c.step (.openFile p flag perm)).1 k' =
      if k' = keyOfStr p then some (.file (openBytes flag (c.s.b.obj bo).data) modeTemporary)
      else if k' = keyOfStr (Path.dir p) then some (.dir ((0o777 &&& chmodBits) ||| modeDir))
      else cowView c k') ∧
    cowView c (keyOfStr p) = some (.file (c.s.b.obj bo).data (c.s.b.obj bo).mode) :=
  cow_writeOpen_base_file_fresh c p flag perm bo h hm hx

example := write_open_copies_up_making_dir cowX "/d/g".toList (O_RDWR ||| O_APPEND) 0 3 baseOnlyFileFresh_cowX
  (by decide) (by decide)
example :
    cowView (cowX.step (.openFile "/d/g".toList (O_RDWR ||| O_APPEND) 0)).1 (keyOfStr "/d/g".toList) =
      some (.file [7, 8] modeTemporary) ∧
    cowView cowX (keyOfStr "/d".toList) = some (.dir (0o750 ||| modeDir)) ∧
    cowView (cowX.step (.openFile "/d/g".toList (O_RDWR ||| O_APPEND) 0)).1 (keyOfStr "/d".toList) =
      some (.dir (0o777 ||| modeDir)) := by decide

/-- **(1c) the overlay lacks any number of directory levels above the file** (the nearest ancestor it does hold is
    a directory, `aboveIsDir`): the same; every level `MkdirAll(dir, 0777)` has made — `filepath.Dir(name)` and its
    missing ancestors `missingDirs` — now shows a directory with the bits 0777; every name other than these and
    the file's shows what it did. -/
theorem write_open_copies_up_making_dirs (c : Cow) (p : Str) (flag perm bo : Nat) (h : BaseOnlyFileDeep c p bo)
    (hm : flag &&& cowWriteMask ≠ 0) (hx : flag &&& O_EXCL = 0) :
    (c.step (.openFile p flag perm)).2 = .handle c.hs.length none ∧
    (c.step (.openFile p flag perm)).1.s.b = c.s.b ∧
    (∀ k', cowView (c.step (.openFile p flag perm)).1 k' =
      if k' = keyOfStr p then some (.file (openBytes flag (c.s.b.obj bo).data) modeTemporary)
      else if k' = keyOfStr (Path.dir p) ∨ k' ∈ missingDirs c.s.l (keyOfStr (Path.dir p))
        then some (.dir ((0o777 &&& chmodBits) ||| modeDir))
      else cowView c k') ∧
    cowView c (keyOfStr p) = some (.file (c.s.b.obj bo).data (c.s.b.obj bo).mode) :=
  cow_writeOpen_base_file_deep c p flag perm bo h hm hx

example := write_open_copies_up_making_dirs cowX "/a/b/c/f".toList (O_WRONLY ||| O_TRUNC) 0 7 baseOnlyFileDeep_cowX
  (by decide) (by decide)
/-- three levels are missing in the overlay: /a/b/c and `missingDirs` = [/a/b, /a] -/
example :
    missingDirs cowX.s.l (keyOfStr "/a/b/c".toList) = [keyOfStr "/a/b".toList, keyOfStr "/a".toList] ∧
    cowView (cowX.step (.openFile "/a/b/c/f".toList (O_WRONLY ||| O_TRUNC) 0)).1 (keyOfStr "/a/b/c/f".toList) =
      some (.file [] modeTemporary) ∧
    cowView cowX (keyOfStr "/a/b".toList) = some (.dir (0o755 ||| modeDir)) ∧
    cowView (cowX.step (.openFile "/a/b/c/f".toList (O_WRONLY ||| O_TRUNC) 0)).1 (keyOfStr "/a/b".toList) =
      some (.dir (0o777 ||| modeDir)) ∧
    cowView (cowX.step (.openFile "/a/b/c/f".toList (O_WRONLY ||| O_TRUNC) 0)).1 (keyOfStr "/f".toList) =
      cowView cowX (keyOfStr "/f".toList) := by decide

/-! ### (2) the first write through the returned handle -/

/-- the three situations above are instances of the one the theorems on writes are stated for -/
theorem base_file_situations (c : Cow) (p : Str) (bo : Nat)
    (h : BaseOnlyFile c p bo ∨ BaseOnlyFileFresh c p bo ∨ BaseOnlyFileDeep c p bo) : BaseFileW c p bo := by
  rcases h with h | h | h
  · exact h.toW
  · exact h.toW
  · exact h.view_withDirOf.1

/-- **(2) O_APPEND, with O_WRONLY or O_RDWR and without O_TRUNC, on a regular file only the base holds; then
    `Write(d)` through the returned handle, for ANY payload `d`.**  The model's handle stands at the end of the copied
    bytes: the write answers `len(d)`, the union's content of the name is `old ++ d` (`old` = the base's bytes, which
    the base keeps — the base is literally unchanged); every other name shows what it showed after the open. -/
theorem append_open_then_write (c : Cow) (p : Str) (flag perm bo : Nat) (d : Bytes) (h : BaseFileW c p bo)
    (hm : flag &&& cowWriteMask ≠ 0) (hx : flag &&& O_EXCL = 0)
    (hacc : flag &&& (O_WRONLY ||| O_RDWR) ≠ 0) (ha : flag &&& O_APPEND > 0) (ht : flag &&& O_TRUNC = 0) :
    ((c.step (.openFile p flag perm)).1.step (.hWrite c.hs.length d)).2 = .file (.n d.length none) ∧
    ((c.step (.openFile p flag perm)).1.step (.hWrite c.hs.length d)).1.s.b = c.s.b ∧
    cowView ((c.step (.openFile p flag perm)).1.step (.hWrite c.hs.length d)).1 (keyOfStr p) =
      some (.file ((c.s.b.obj bo).data ++ d) modeTemporary) ∧
    ∀ k', k' ≠ keyOfStr p →
      cowView ((c.step (.openFile p flag perm)).1.step (.hWrite c.hs.length d)).1 k' =
        cowView (c.step (.openFile p flag perm)).1 k' :=
  cow_appendOpen_base_then_write c p flag perm bo d h hm hx hacc ha ht

example := append_open_then_write cowX "/f".toList (O_WRONLY ||| O_APPEND) 0 1 [33, 33]
  (base_file_situations _ _ _ (Or.inl baseOnlyFile_cowX)) (by decide) (by decide) (by decide) (by decide) (by decide)
example := append_open_then_write cowX "/a/b/c/f".toList (O_RDWR ||| O_APPEND) 0 7 [4]
  (base_file_situations _ _ _ (Or.inr (Or.inr baseOnlyFileDeep_cowX))) (by decide) (by decide) (by decide) (by decide)
  (by decide)
example :
    cowView ((cowX.step (.openFile "/f".toList (O_WRONLY ||| O_APPEND) 0)).1.step (.hWrite 0 [33, 33])).1
      (keyOfStr "/f".toList) = some (.file [104, 101, 108, 108, 111, 33, 33] modeTemporary) ∧
    cowView ((cowX.step (.openFile "/a/b/c/f".toList (O_RDWR ||| O_APPEND) 0)).1.step (.hWrite 0 [4])).1
      (keyOfStr "/a/b/c/f".toList) = some (.file [1, 2, 3, 4] modeTemporary) := by decide

/-- **(2, every flag combination) the first non-empty `Write(d)` through the handle of a write-open with O_WRONLY or
    O_RDWR**: the name shows `firstWrite flag old d` — what that is for the four combinations of O_APPEND and
    truncation is stated by `first_write_*` below. -/
theorem write_open_then_write (c : Cow) (p : Str) (flag perm bo : Nat) (d : Bytes) (h : BaseFileW c p bo)
    (hm : flag &&& cowWriteMask ≠ 0) (hx : flag &&& O_EXCL = 0)
    (hacc : flag &&& (O_WRONLY ||| O_RDWR) ≠ 0) (hd : d ≠ []) :
    ((c.step (.openFile p flag perm)).1.step (.hWrite c.hs.length d)).2 = .file (.n d.length none) ∧
    ((c.step (.openFile p flag perm)).1.step (.hWrite c.hs.length d)).1.s.b = c.s.b ∧
    cowView ((c.step (.openFile p flag perm)).1.step (.hWrite c.hs.length d)).1 (keyOfStr p) =
      some (.file (firstWrite flag (c.s.b.obj bo).data d) modeTemporary) ∧
    ∀ k', k' ≠ keyOfStr p →
      cowView ((c.step (.openFile p flag perm)).1.step (.hWrite c.hs.length d)).1 k' =
        cowView (c.step (.openFile p flag perm)).1 k' :=
  cow_writeOpen_base_then_write c p flag perm bo d h hm hx hacc hd

/-- O_APPEND, no truncation: appended -/
theorem first_write_append (flag : Nat) (old d : Bytes) (ha : flag &&& O_APPEND > 0) (ht : ¬ truncates flag) :
    firstWrite flag old d = old ++ d := firstWrite_append flag old d ha ht
/-- neither O_APPEND nor truncation: the handle starts at offset 0, the payload OVERWRITES the first bytes -/
theorem first_write_plain (flag : Nat) (old d : Bytes) (ha : ¬ flag &&& O_APPEND > 0) (ht : ¬ truncates flag) :
    firstWrite flag old d = d ++ old.drop d.length := firstWrite_plain flag old d ha ht
/-- truncation, no O_APPEND: the file holds the payload -/
theorem first_write_trunc (flag : Nat) (old d : Bytes) (ha : ¬ flag &&& O_APPEND > 0) (ht : truncates flag) :
    firstWrite flag old d = d := firstWrite_trunc flag old d ha ht
/-- truncation WITH O_APPEND: `len(old)` zero bytes, then the payload — `OpenFile` seeks to the end before it
    truncates (memmap.go:286-294) and `Truncate` does not move the handle -/
theorem first_write_append_trunc (flag : Nat) (old d : Bytes) (ha : flag &&& O_APPEND > 0) (ht : truncates flag) :
    firstWrite flag old d = List.replicate old.length 0 ++ d := firstWrite_append_trunc flag old d ha ht

example := write_open_then_write cowX "/f".toList (O_WRONLY ||| O_APPEND ||| O_TRUNC) 0 1 [33]
  (base_file_situations _ _ _ (Or.inl baseOnlyFile_cowX)) (by decide) (by decide) (by decide) (by decide)
example :
    cowView ((cowX.step (.openFile "/f".toList O_WRONLY 0)).1.step (.hWrite 0 [33])).1 (keyOfStr "/f".toList) =
      some (.file [33, 101, 108, 108, 111] modeTemporary) ∧
    cowView ((cowX.step (.openFile "/f".toList (O_WRONLY ||| O_TRUNC) 0)).1.step (.hWrite 0 [33])).1
      (keyOfStr "/f".toList) = some (.file [33] modeTemporary) ∧
    cowView ((cowX.step (.openFile "/f".toList (O_WRONLY ||| O_APPEND ||| O_TRUNC) 0)).1.step (.hWrite 0 [33])).1
      (keyOfStr "/f".toList) = some (.file [0, 0, 0, 0, 0, 33] modeTemporary) := by decide

/-- … and WITHOUT a write access mode (O_APPEND, O_CREATE, O_TRUNC alone or together): the file has been copied up
    all the same, but the handle is read-only: the write is refused, every name shows what it showed after the open -/
theorem readonly_write_open_then_write (c : Cow) (p : Str) (flag perm bo : Nat) (d : Bytes) (h : BaseFileW c p bo)
    (hm : flag &&& cowWriteMask ≠ 0) (hx : flag &&& O_EXCL = 0) (hacc : flag &&& (O_WRONLY ||| O_RDWR) = 0) :
    ((c.step (.openFile p flag perm)).1.step (.hWrite c.hs.length d)).2 = .file (.n 0 (some .rohandle)) ∧
    ((c.step (.openFile p flag perm)).1.step (.hWrite c.hs.length d)).1.s.b = c.s.b ∧
    ∀ k', cowView ((c.step (.openFile p flag perm)).1.step (.hWrite c.hs.length d)).1 k' =
        cowView (c.step (.openFile p flag perm)).1 k' :=
  cow_writeOpen_base_then_write_ro c p flag perm bo d h hm hx hacc

example := readonly_write_open_then_write cowX "/f".toList O_APPEND 0 1 [33]
  (base_file_situations _ _ _ (Or.inl baseOnlyFile_cowX)) (by decide) (by decide) (by decide)
example : ((cowX.step (.openFile "/f".toList O_APPEND 0)).1.step (.hWrite 0 [33])).2 = .file (.n 0 (some .rohandle)) := by
  decide

/-! ### (3) a regular file the overlay holds already -/

/-- **(3) the same opens on a regular file of the overlay act on the overlay alone**: a fresh handle; the base is
    literally what it was; the name shows the overlay's file — emptied if the flags truncate, its bytes otherwise —
    with its mode bits kept; every other name shows what it did. -/
theorem write_open_overlay_file (c : Cow) (p : Str) (flag perm lf : Nat) (h : OverlayFile c p lf)
    (hm : flag &&& cowWriteMask ≠ 0) (hx : flag &&& O_EXCL = 0) :
    (c.step (.openFile p flag perm)).2 = .handle c.hs.length none ∧
    (c.step (.openFile p flag perm)).1.s.b = c.s.b ∧
    (∀ k', cowView (c.step (.openFile p flag perm)).1 k' =
      if k' = keyOfStr p then some (.file (openBytes flag (c.s.l.obj lf).data) (c.s.l.obj lf).mode)
      else cowView c k') ∧
    cowView c (keyOfStr p) = some (.file (c.s.l.obj lf).data (c.s.l.obj lf).mode) :=
  cow_writeOpen_overlay_file c p flag perm lf h hm hx

example := write_open_overlay_file cowY "/n".toList (O_RDWR ||| O_TRUNC) 0 1 overlayFile_cowY (by decide) (by decide)
example :
    cowView cowY (keyOfStr "/n".toList) = some (.file [65, 66, 67] (modeTemporary ||| 0o640)) ∧
    cowView (cowY.step (.openFile "/n".toList (O_RDWR ||| O_TRUNC) 0)).1 (keyOfStr "/n".toList) =
      some (.file [] (modeTemporary ||| 0o640)) ∧
    cowView (cowY.step (.openFile "/n".toList O_TRUNC 0)).1 (keyOfStr "/n".toList) =
      some (.file [65, 66, 67] (modeTemporary ||| 0o640)) := by decide
example : (cowY.step (.openFile "/n".toList (O_RDWR ||| O_TRUNC) 0)).1.s.b = cowY.s.b := rfl

/-- … then `Write(d)` with O_APPEND (O_WRONLY or O_RDWR, no O_TRUNC), any payload: the name shows `old ++ d`, `old` the
    overlay's bytes before the open; the base is what it was; every other name shows what it did -/
theorem append_open_overlay_then_write (c : Cow) (p : Str) (flag perm lf : Nat) (d : Bytes) (h : OverlayFile c p lf)
    (hm : flag &&& cowWriteMask ≠ 0) (hx : flag &&& O_EXCL = 0)
    (hacc : flag &&& (O_WRONLY ||| O_RDWR) ≠ 0) (ha : flag &&& O_APPEND > 0) (ht : flag &&& O_TRUNC = 0) :
    ((c.step (.openFile p flag perm)).1.step (.hWrite c.hs.length d)).2 = .file (.n d.length none) ∧
    ((c.step (.openFile p flag perm)).1.step (.hWrite c.hs.length d)).1.s.b = c.s.b ∧
    cowView ((c.step (.openFile p flag perm)).1.step (.hWrite c.hs.length d)).1 (keyOfStr p) =
      some (.file ((c.s.l.obj lf).data ++ d) (c.s.l.obj lf).mode) ∧
    ∀ k', k' ≠ keyOfStr p →
      cowView ((c.step (.openFile p flag perm)).1.step (.hWrite c.hs.length d)).1 k' = cowView c k' :=
  cow_appendOpen_overlay_then_write c p flag perm lf d h hm hx hacc ha ht

/-- … and for every flag combination with O_WRONLY or O_RDWR, a non-empty payload: `firstWrite` -/
theorem write_open_overlay_then_write (c : Cow) (p : Str) (flag perm lf : Nat) (d : Bytes) (h : OverlayFile c p lf)
    (hm : flag &&& cowWriteMask ≠ 0) (hx : flag &&& O_EXCL = 0)
    (hacc : flag &&& (O_WRONLY ||| O_RDWR) ≠ 0) (hd : d ≠ []) :
    ((c.step (.openFile p flag perm)).1.step (.hWrite c.hs.length d)).2 = .file (.n d.length none) ∧
    ((c.step (.openFile p flag perm)).1.step (.hWrite c.hs.length d)).1.s.b = c.s.b ∧
    cowView ((c.step (.openFile p flag perm)).1.step (.hWrite c.hs.length d)).1 (keyOfStr p) =
      some (.file (firstWrite flag (c.s.l.obj lf).data d) (c.s.l.obj lf).mode) ∧
    ∀ k', k' ≠ keyOfStr p →
      cowView ((c.step (.openFile p flag perm)).1.step (.hWrite c.hs.length d)).1 k' = cowView c k' :=
  cow_writeOpen_overlay_then_write c p flag perm lf d h hm hx hacc hd

example := append_open_overlay_then_write cowY "/n".toList (O_WRONLY ||| O_APPEND) 0 1 [68] overlayFile_cowY
  (by decide) (by decide) (by decide) (by decide) (by decide)
example :
    cowView ((cowY.step (.openFile "/n".toList (O_WRONLY ||| O_APPEND) 0)).1.step (.hWrite 0 [68])).1
      (keyOfStr "/n".toList) = some (.file [65, 66, 67, 68] (modeTemporary ||| 0o640)) := by decide

/-! ### (4) a failing write-open when several overlay directory levels are missing -/

/-- **(4a) neither layer has a directory under `filepath.Dir(name)`**, however many levels are missing: a write-open
    (O_CREATE or not) of a name the base lacks answers not-exist and leaves both layers and the handle table
    literally as they were — every name shows what it did. -/
theorem failed_write_open_no_dir_keeps_view (c : Cow) (p : Str) (flag perm : Nat)
    (hb : c.s.b.lookup (keyOfStr p) = none) (hm : flag &&& cowWriteMask ≠ 0)
    (hd : c.s.l.lookup (keyOfStr (Path.dir p)) = none)
    (hbd : (fsIsDir c.s.b (keyOfStr (Path.dir p))).1 = false) :
    (c.step (.openFile p flag perm)).2 = .err .notexist ∧ (c.step (.openFile p flag perm)).1 = c ∧
    ∀ k, cowView (c.step (.openFile p flag perm)).1 k = cowView c k :=
  cow_writeOpen_fails_no_dir c p flag perm hb hm hd hbd

/-- /x/y/z/f: absent from both layers with all three directory levels -/
example := failed_write_open_no_dir_keeps_view cowX "/x/y/z/f".toList O_WRONLY 0 (by decide) (by decide) (by decide)
  (by decide)

/-- **(4b) the base holds `filepath.Dir(name)` as a directory, the overlay lacks it and any number of levels above
    it** (the name itself absent from both layers, no O_CREATE): the call answers not-exist, the base is what it
    was — but `layer.MkdirAll(dir, 0777)` has run before the overlay's open fails: that directory and each missing
    ancestor (`missingDirs`) now shows a directory with the bits 0777 instead of the base's; every other name shows
    what it did.  So with the mode bits counted in, "a failed call leaves `cowView` unchanged" is FALSE here; it
    holds for every name but those directories. -/
theorem failed_write_open_makes_dirs_0777 (c : Cow) (p : Str) (flag perm bd : Nat) (hcl : Consistent c.s.l)
    (hl : c.s.l.lookup (keyOfStr p) = none) (hb : c.s.b.lookup (keyOfStr p) = none)
    (hc : ¬ flag &&& O_CREATE > 0) (hm : flag &&& cowWriteMask ≠ 0)
    (hdl : c.s.l.lookup (keyOfStr (Path.dir p)) = none)
    (hbd : c.s.b.lookup (keyOfStr (Path.dir p)) = some bd) (hbdd : (c.s.b.obj bd).dir = true)
    (hpk : parentKey (keyOfStr p) = keyOfStr (Path.dir p))
    (habove : aboveIsDir c.s.l (keyOfStr (Path.dir p)) = true) :
    (c.step (.openFile p flag perm)).2 = .err .notexist ∧ (c.step (.openFile p flag perm)).1.s.b = c.s.b ∧
    ∀ k, cowView (c.step (.openFile p flag perm)).1 k =
      if k = keyOfStr (Path.dir p) ∨ k ∈ missingDirs c.s.l (keyOfStr (Path.dir p))
      then some (.dir ((0o777 &&& chmodBits) ||| modeDir)) else cowView c k :=
  openFile_absent_write_residue_deep c p flag perm bd hcl hl hb hc hm hdl hbd hbdd hpk habove

/-- /a/b/c/x: absent from both layers; the base has /a/b/c (0755), the overlay none of /a, /a/b, /a/b/c -/
example := failed_write_open_makes_dirs_0777 cowX "/a/b/c/x".toList O_WRONLY 0 4 consistent_init (by decide) (by decide)
  (by decide) (by decide) (by decide) (by decide) (by decide) (by decide) (by decide)
example :
    (cowX.step (.openFile "/a/b/c/x".toList O_WRONLY 0)).2 = .err .notexist ∧
    cowView cowX (keyOfStr "/a".toList) = some (.dir (0o755 ||| modeDir)) ∧
    cowView (cowX.step (.openFile "/a/b/c/x".toList O_WRONLY 0)).1 (keyOfStr "/a".toList) =
      some (.dir (0o777 ||| modeDir)) ∧
    cowView (cowX.step (.openFile "/a/b/c/x".toList O_WRONLY 0)).1 (keyOfStr "/a/b/c/f".toList) =
      cowView cowX (keyOfStr "/a/b/c/f".toList) := by decide

end AferoVerif.C06
