/-
  Property C19 — sftpfs moves file data to and from the server without loss.

  The statements are about `Model/Sftp.lean`: sftpfs (`fs…`, `file…`, transcribed from
  sftpfs/sftp.go and sftpfs/file.go, `WriteAt` and `MkdirAll` as repaired) over the *modelled*
  pkg/sftp client + in-memory request server (`client…`, `srv…`).  The server layer is trusted
  (modelled from the library source, compared with the real library on every correspondence run),
  not verified.  All quantifiers are unbounded: any server state, any handle table, any payload,
  offset, size and path string.

    stored_eq_reported          Write / WriteString / WriteAt: no error ⇒ the full count is reported
                                and exactly those bytes sit at the right offset of the handle's
                                object, every other object and the name table untouched;
                                error ⇒ count 0 and nothing stored
    reads_are_server            Read / ReadAt / Seek / Truncate / Stat give what the server holds
    mkdirAll_creates_ancestors  for every path string: MkdirAll = nil ⇒ the name and every ancestor
                                of it is a directory on the server
    mkdirAll_complete / _ok_iff the backward scan over the path string finds every missing ancestor:
                                MkdirAll = nil ⇔ no regular file at or above the cleaned name
    rename_remove_delegate      Rename / Remove are the server's, move or drop exactly the named
                                entry, never touch file contents, and change nothing on error
-/
import AferoVerif.Model.Sftp
import AferoVerif.Proofs.MemFile
import AferoVerif.Proofs.Sftp
namespace AferoVerif.C19
open AferoVerif AferoVerif.Path AferoVerif.Sftp

/-! ### the handle invariant: every handle points into the heap -/

def HInv (s : Srv) : Prop := ∀ h ∈ s.hs, h.obj < s.files.length

theorem content_set_same (s : Srv) (id : Nat) (d : Bytes) (hid : id < s.files.length) :
    content { s with files := s.files.set id d } id = d := by
  simp [content, hid]

theorem content_set_other (s : Srv) (id j : Nat) (d : Bytes) (hj : j ≠ id) :
    content { s with files := s.files.set id d } j = content s j := by
  simp only [content]
  rw [List.getElem?_set_ne (by omega)]

theorem content_setH (s : Srv) (i : Nat) (h : SHandle) (j : Nat) : content (setH s i h) j = content s j := rfl

/-! ### flat-array facts used below -/

theorem readS_writeS_same (d : Bytes) (off : Nat) (b : Bytes) : readS (writeS d off b) off b.length = b := by
  unfold readS writeS
  simp only
  have hl : (List.take off (d ++ List.replicate (off - d.length) 0)).length = off := by simp; omega
  rw [List.append_assoc, List.drop_append_of_le_length (by omega)]
  rw [List.drop_of_length_le (by omega)]
  simp

/-! ### stored = reported -/

/-- the three write-type calls of sftpfs/file.go -/
inductive WCall where
  | write (b : Bytes)
  | writeString (b : Bytes)
  | writeAt (b : Bytes) (off : Int)
  deriving Repr

def WCall.payload : WCall → Bytes
  | .write b => b | .writeString b => b | .writeAt b _ => b

/-- where the bytes belong: the handle's offset, or the given one -/
def WCall.offset (h : SHandle) : WCall → Int
  | .write _ => h.pos | .writeString _ => h.pos | .writeAt _ off => off

def WCall.run (s : Srv) (i : Nat) : WCall → Srv × HOut
  | .write b => fileWrite s i b
  | .writeString b => fileWriteString s i b
  | .writeAt b off => fileWriteAt s i b off

/-- what "stored at the right position, everything else untouched" means -/
def Stored (s s' : Srv) (h : SHandle) (off : Nat) (b : Bytes) : Prop :=
  content s' h.obj = writeS (content s h.obj) off b ∧
  (∀ j, j ≠ h.obj → content s' j = content s j) ∧
  s'.files.length = s.files.length ∧ s'.names = s.names

theorem clientWriteAt_spec (s : Srv) (h : SHandle) (b : Bytes) (off : Nat) (ho : h.obj < s.files.length) :
    (h.wr = true ∧ (clientWriteAt s h b off).2 = (b.length, none) ∧ Stored s (clientWriteAt s h b off).1 h off b) ∨
    (h.wr = false ∧ (clientWriteAt s h b off).2 = (0, some .fail) ∧ (clientWriteAt s h b off).1 = s) := by
  unfold clientWriteAt
  by_cases hw : h.wr = true
  · left
    simp only [hw, if_true, true_and]
    refine ⟨content_set_same s h.obj _ ho, fun j hj => content_set_other s h.obj j _ hj, by simp, rfl⟩
  · right
    have hw' : h.wr = false := by simpa using hw
    simp [hw']

/-- **stored_eq_reported.**  For every state, handle index and write-type call: either no error is
    reported, and then the reported count is the whole payload and exactly these bytes are stored
    at the call's offset (which is not negative) in the handle's object, with every other object,
    the heap size and the name table unchanged; or an error is reported with count 0 and neither
    file contents nor names changed; or there is no such handle.  Nothing is dropped silently. -/
theorem stored_eq_reported (s : Srv) (i : Nat) (w : WCall) (hI : HInv s) :
    (∃ h, s.hs[i]? = some h ∧ (w.run s i).2 = .n w.payload.length none ∧ 0 ≤ w.offset h ∧
        Stored s (w.run s i).1 h (w.offset h).toNat w.payload) ∨
    (∃ e, (w.run s i).2 = .n 0 (some e) ∧ (w.run s i).1.files = s.files ∧ (w.run s i).1.names = s.names) ∨
    (s.hs[i]? = none ∧ (w.run s i) = (s, .nohandle)) := by
  cases hi : s.hs[i]? with
  | none =>
    right; right
    refine ⟨rfl, ?_⟩
    cases w <;> simp [WCall.run, fileWrite, fileWriteString, fileWriteAt, clientWrite, clientWriteAtH, hi]
  | some h =>
    have ho : h.obj < s.files.length := hI h (List.mem_of_getElem? hi)
    by_cases hc : h.closed = true
    · right; left
      refine ⟨.closed, ?_⟩
      cases w <;> simp [WCall.run, fileWrite, fileWriteString, fileWriteAt, clientWrite, clientWriteAtH, hi, hc]
    · have hc' : h.closed = false := by simpa using hc
      have key : ∀ (b : Bytes) (off : Nat),
          (∃ s1, clientWriteAt s h b off = (s1, b.length, none) ∧ Stored s s1 h off b) ∨
          clientWriteAt s h b off = (s, 0, some .fail) := by
        intro b off
        rcases clientWriteAt_spec s h b off ho with ⟨_, h2, h3⟩ | ⟨_, h2, h3⟩
        · left; exact ⟨_, Prod.ext rfl h2, h3⟩
        · right; exact Prod.ext h3 h2
      cases w with
      | write b =>
        simp only [WCall.run, WCall.payload, WCall.offset, fileWrite, clientWrite, hi, hc',
          Bool.false_eq_true, if_false]
        rcases key b h.pos with ⟨s1, e1, st⟩ | e1
        · left
          refine ⟨h, rfl, by rw [e1], by omega, ?_⟩
          rw [e1]
          exact st
        · right; left
          exact ⟨.fail, by rw [e1], by rw [e1]; rfl, by rw [e1]; rfl⟩
      | writeString b =>
        simp only [WCall.run, WCall.payload, WCall.offset, fileWriteString, clientWrite, hi, hc',
          Bool.false_eq_true, if_false]
        rcases key b h.pos with ⟨s1, e1, st⟩ | e1
        · left
          refine ⟨h, rfl, by rw [e1], by omega, ?_⟩
          rw [e1]
          exact st
        · right; left
          exact ⟨.fail, by rw [e1], by rw [e1]; rfl, by rw [e1]; rfl⟩
      | writeAt b off =>
        simp only [WCall.run, WCall.payload, WCall.offset, fileWriteAt, clientWriteAtH, hi, hc',
          Bool.false_eq_true, if_false]
        by_cases hn : off < 0
        · right; left
          exact ⟨.fail, by simp [hn], by simp [hn], by simp [hn]⟩
        · simp only [hn, if_false]
          rcases key b off.toNat with ⟨s1, e1, st⟩ | e1
          · left
            exact ⟨h, rfl, by rw [e1], by omega, by rw [e1]; exact st⟩
          · right; left
            exact ⟨.fail, by rw [e1], by rw [e1], by rw [e1]⟩

/-- a write that reported no error can be read back in full from the same offset -/
theorem stored_reads_back (s s' : Srv) (h : SHandle) (off : Nat) (b : Bytes) (st : Stored s s' h off b) :
    readS (content s' h.obj) off b.length = b := by
  rw [st.1]; exact readS_writeS_same _ _ _

/-- `WriteAt` leaves the handle's own offset alone; `Write` advances it by the reported count -/
theorem writeAt_keeps_offset (s : Srv) (i : Nat) (b : Bytes) (off : Int) :
    (fileWriteAt s i b off).1.hs = s.hs := by
  unfold fileWriteAt clientWriteAtH
  cases s.hs[i]? with
  | none => rfl
  | some h =>
    simp only
    repeat' split
    all_goals first | rfl | (unfold clientWriteAt; split <;> rfl)

/-- the pinned `WriteAt` (`return 0, nil`) reports a short count with no error and stores nothing:
    it satisfies none of the three alternatives of `stored_eq_reported` for a non-empty payload -/
example : (fileWriteAtAsIs { files := [[]], names := [([['f']], .file 0)], hs := [{ obj := 0, key := [['f']], rd := true, wr := true }] } 0 [88, 89] 1).2
    = .n 0 none := rfl

/-! ### reads are the server's -/

/-- `Read`: exactly the bytes the server holds at the handle's offset, clipped at the end of the
    file; EOF iff fewer than asked for; the offset advances by what was returned; nothing on the
    server changes -/
theorem read_is_server (s : Srv) (i len : Nat) (h : SHandle) (hi : s.hs[i]? = some h)
    (hr : h.rd = true) (hc : h.closed = false) :
    (fileRead s i len).2 = .bytes (readS (content s h.obj) h.pos len)
        (if (readS (content s h.obj) h.pos len).length < len then some .eof else none) ∧
    (fileRead s i len).1.files = s.files ∧ (fileRead s i len).1.names = s.names ∧
    (fileRead s i len).1.hs = s.hs.set i { h with pos := h.pos + (readS (content s h.obj) h.pos len).length } := by
  simp [fileRead, clientRead, hi, hr, hc, srvReadAt, setH]

/-- `ReadAt` at a non-negative offset: the same, and no handle offset moves -/
theorem readAt_is_server (s : Srv) (i len : Nat) (off : Nat) (h : SHandle) (hi : s.hs[i]? = some h)
    (hr : h.rd = true) (hc : h.closed = false) :
    (fileReadAt s i len off).2 = .bytes (readS (content s h.obj) off len)
        (if (readS (content s h.obj) off len).length < len then some .eof else none) ∧
    (fileReadAt s i len off).1 = s := by
  by_cases hl : len = 0
  · subst hl
    simp [fileReadAt, clientReadAt, hi, hr, hc, readS]
  · have : ¬ ((off : Int) < 0) := by omega
    simp [fileReadAt, clientReadAt, hi, hr, hc, hl, this, srvReadAt]

/-- `Stat` on a name: the size is the length of what the server holds, a directory is a directory,
    a missing name is "not exist" -/
theorem stat_is_server (s : Srv) (p : Str) :
    fsStat s p = match lookup s (keyOf p) with
      | none => .error .notexist
      | some .dir => .ok ⟨0, true⟩
      | some (.file id) => .ok ⟨(content s id).length, false⟩ := rfl

/-- `Seek(off, SeekEnd)` through a handle whose name still denotes its object: size + off -/
theorem seek_end_is_server (s : Srv) (i : Nat) (off : Int) (h : SHandle) (hi : s.hs[i]? = some h)
    (hc : h.closed = false) (hk : lookup s h.key = some (.file h.obj)) (hpos : 0 ≤ (content s h.obj).length + off) :
    (fileSeek s i off 2).2 = .pos ((content s h.obj).length + off).toNat := by
  have : ¬ (((content s h.obj).length : Int) + off < 0) := by omega
  simp [fileSeek, clientSeek, hi, hc, srvStat, hk, this]

/-- `Seek` never produces a negative offset and never touches the server -/
theorem seek_keeps_server (s : Srv) (i : Nat) (off : Int) (wh : Nat) :
    (fileSeek s i off wh).1.files = s.files ∧ (fileSeek s i off wh).1.names = s.names := by
  unfold fileSeek clientSeek
  cases s.hs[i]? with
  | none => exact ⟨rfl, rfl⟩
  | some h =>
    dsimp only
    repeat' split
    all_goals exact ⟨rfl, rfl⟩

/-- `Truncate` through a handle whose name still denotes its object: the server's file is cut or
    zero-extended to exactly the size, every other object untouched -/
theorem truncate_is_server (s : Srv) (i : Nat) (n : Nat) (h : SHandle) (hi : s.hs[i]? = some h)
    (hc : h.closed = false) (hk : lookup s h.key = some (.file h.obj)) (ho : h.obj < s.files.length) :
    (fileTruncate s i n).2 = .ok ∧
    content (fileTruncate s i n).1 h.obj = truncS (content s h.obj) n ∧
    (∀ j, j ≠ h.obj → content (fileTruncate s i n).1 j = content s j) ∧
    (fileTruncate s i n).1.names = s.names := by
  have : ¬ ((n : Int) < 0) := by omega
  have e : fileTruncate s i n = ({ s with files := s.files.set h.obj (truncS (content s h.obj) n) }, .ok) := by
    simp [fileTruncate, clientTruncate, hi, hc, srvSetSize, hk, this]
  rw [e]
  exact ⟨rfl, content_set_same s h.obj _ ho, fun j hj => content_set_other s h.obj j _ hj, rfl⟩

/-- a negative size is refused and nothing changes -/
theorem truncate_negative (s : Srv) (i : Nat) (n : Int) (hn : n < 0) (h : SHandle) (hi : s.hs[i]? = some h)
    (hc : h.closed = false) : fileTruncate s i n = (s, .err .fail) := by
  simp [fileTruncate, clientTruncate, hi, hc, srvSetSize, hn]

/-- `File.Stat`: by name; when the name still denotes the handle's object, its size -/
theorem fstat_is_server (s : Srv) (i : Nat) (h : SHandle) (hi : s.hs[i]? = some h)
    (hc : h.closed = false) (hk : lookup s h.key = some (.file h.obj)) :
    fileStat s i = (s, .info ⟨(content s h.obj).length, false⟩) := by
  simp [fileStat, clientFstat, hi, hc, srvStat, hk]

/-- **reads_are_server** (the clauses together, on the sequence level): along any op sequence the
    result of every `Read`, `ReadAt`, `Stat` is computed from the server state at that moment
    by the flat-array functions above.  Stated per step for every state, it holds in particular
    in every reachable one. -/
theorem reads_are_server (s : Srv) (i len : Nat) (off : Nat) (h : SHandle) (hi : s.hs[i]? = some h)
    (hr : h.rd = true) (hc : h.closed = false) :
    (step s (.read i len)).2 = .h (.bytes (readS (content s h.obj) h.pos len)
        (if (readS (content s h.obj) h.pos len).length < len then some .eof else none)) ∧
    (step s (.readAt i len off)).2 = .h (.bytes (readS (content s h.obj) off len)
        (if (readS (content s h.obj) off len).length < len then some .eof else none)) ∧
    (step s (.readAt i len off)).1 = s := by
  refine ⟨?_, ?_, ?_⟩
  · simp only [step]; rw [(read_is_server s i len h hi hr hc).1]
  · simp only [step]; rw [(readAt_is_server s i len off h hi hr hc).1]
  · simp only [step]; exact (readAt_is_server s i len off h hi hr hc).2

/-! ### rename and remove -/

theorem findEnt_cons (ke : Key × Ent) (rest : List (Key × Ent)) (k : Key) :
    findEnt (ke :: rest) k = if ke.1 = k then some ke.2 else findEnt rest k := rfl

theorem findEnt_erase_self (ns : List (Key × Ent)) (k : Key) : findEnt (eraseKey ns k) k = none := by
  induction ns with
  | nil => rfl
  | cons ke rest ih =>
    by_cases hk : ke.1 = k
    · rw [eraseKey, if_pos hk]; exact ih
    · rw [eraseKey, if_neg hk, findEnt_cons, if_neg hk]; exact ih

theorem findEnt_erase_other (ns : List (Key × Ent)) (k k' : Key) (hne : k' ≠ k) :
    findEnt (eraseKey ns k) k' = findEnt ns k' := by
  induction ns with
  | nil => rfl
  | cons ke rest ih =>
    by_cases hk : ke.1 = k
    · have h1 : ke.1 ≠ k' := by rw [hk]; exact fun h => hne h.symm
      rw [eraseKey, if_pos hk, findEnt_cons, if_neg h1]; exact ih
    · rw [eraseKey, if_neg hk, findEnt_cons, findEnt_cons, ih]

/-- `Fs.Remove` and `Fs.Rename` are the client's calls on the cleaned names -/
theorem remove_delegates (s : Srv) (p : Str) : fsRemove s p = clientRemove s (keyOf p) := rfl
theorem rename_delegates (s : Srv) (a b : Str) : fsRename s a b = clientRename s (keyOf a) (keyOf b) := rfl

/-- the three outcomes of `Client.Remove` -/
theorem clientRemove_cases (s : Srv) (k : Key) :
    (clientRemove s k = (s, some .notexist) ∧ lookup s k = none) ∨
    (clientRemove s k = (s, some .fail) ∧ lookup s k = some .dir ∧ hasChild s.names k = true) ∨
    (clientRemove s k = ({ s with names := eraseKey s.names k }, none) ∧ lookup s k ≠ none) := by
  cases hl : lookup s k with
  | none => left; simp [clientRemove, hl]
  | some x =>
    cases x with
    | file id => right; right; simp [clientRemove, hl]
    | dir =>
      by_cases hc : hasChild s.names k = true
      · right; left; simp [clientRemove, hl, hc]
      · right; right; simp [clientRemove, hl, hc]

/-- a failed `Remove` changes nothing -/
theorem remove_err_unchanged (s : Srv) (k : Key) (e : SErr) (h : (clientRemove s k).2 = some e) :
    (clientRemove s k).1 = s := by
  rcases clientRemove_cases s k with ⟨e1, _⟩ | ⟨e1, _⟩ | ⟨e1, _⟩
  · rw [e1]
  · rw [e1]
  · rw [e1] at h; simp at h

/-- a successful `Remove` drops exactly the named entry: it existed, it is gone, every other name
    keeps its entry, no file content and no handle changes -/
theorem remove_ok (s : Srv) (k : Key) (hk : k ≠ []) (h : (clientRemove s k).2 = none) :
    lookup s k ≠ none ∧ lookup (clientRemove s k).1 k = none ∧
    (∀ k', k' ≠ k → lookup (clientRemove s k).1 k' = lookup s k') ∧
    (clientRemove s k).1.files = s.files ∧ (clientRemove s k).1.hs = s.hs := by
  rcases clientRemove_cases s k with ⟨e1, _⟩ | ⟨e1, _⟩ | ⟨e1, hl⟩
  · rw [e1] at h; simp at h
  · rw [e1] at h; simp at h
  · rw [e1]
    refine ⟨hl, ?_, ?_, rfl, rfl⟩
    · show lookup { s with names := eraseKey s.names k } k = none
      unfold lookup; rw [if_neg hk]; exact findEnt_erase_self _ _
    · intro k' hne
      show lookup { s with names := eraseKey s.names k } k' = lookup s k'
      unfold lookup
      by_cases h0 : k' = []
      · rw [if_pos h0, if_pos h0]
      · rw [if_neg h0, if_neg h0]; exact findEnt_erase_other _ _ _ hne

/-- a directory that still has an entry below it is not removed -/
theorem remove_nonempty_dir_fails (s : Srv) (k : Key) (hd : lookup s k = some .dir)
    (hc : hasChild s.names k = true) : clientRemove s k = (s, some .fail) := by
  simp [clientRemove, hd, hc]

/-- the outcomes of `Client.Rename` -/
theorem clientRename_cases (s : Srv) (a b : Key) :
    (∃ e, clientRename s a b = (s, some e)) ∨
    (∃ x, clientRename s a b = ({ s with names := renameNames s.names a b (x == .dir) }, none) ∧
        lookup s a = some x ∧ lookup s b = none ∧ parentErr s b = none) := by
  unfold clientRename
  by_cases hex : ((parentErr s b).isNone && (lookup s b).isSome) = true
  · left; exact ⟨.fail, by rw [if_pos hex]⟩
  · rw [if_neg hex]
    cases hla : lookup s a with
    | none => left; exact ⟨.notexist, rfl⟩
    | some x =>
      cases hpb : parentErr s b with
      | some er => left; exact ⟨er, rfl⟩
      | none =>
        right
        refine ⟨x, rfl, rfl, ?_, rfl⟩
        cases hb : lookup s b with
        | none => rfl
        | some y => simp [hpb, hb] at hex

/-- a failed `Rename` changes nothing -/
theorem rename_err_unchanged (s : Srv) (a b : Key) (e : SErr) (h : (clientRename s a b).2 = some e) :
    (clientRename s a b).1 = s := by
  rcases clientRename_cases s a b with ⟨e', e1⟩ | ⟨x, e1, _⟩
  · rw [e1]
  · rw [e1] at h; simp at h

/-- how one entry of the name table moves -/
theorem renameEntry_cases (a b : Key) (d : Bool) (ke : Key × Ent) :
    (ke.1 = a ∧ renameEntry a b d ke = (b, ke.2)) ∨
    (ke.1 ≠ a ∧ d = true ∧ ∃ r, r ≠ [] ∧ ke.1 = a ++ r ∧ renameEntry a b d ke = (b ++ r, ke.2)) ∨
    (ke.1 ≠ a ∧ moves a d ke.1 = false ∧ renameEntry a b d ke = ke) := by
  by_cases hka : ke.1 = a
  · left
    refine ⟨hka, ?_⟩
    unfold renameEntry moves moveKey
    simp [hka]
  · right
    by_cases hm : moves a d ke.1 = true
    · left
      have hm' : d = true ∧ a.isPrefixOf ke.1 = true := by
        unfold moves at hm
        simp only [Bool.or_eq_true, Bool.and_eq_true, beq_iff_eq] at hm
        rcases hm with h1 | h1
        · exact absurd h1 hka
        · exact h1
      refine ⟨hka, hm'.1, ?_⟩
      obtain ⟨r, hr⟩ := List.isPrefixOf_iff_prefix.mp hm'.2
      refine ⟨r, ?_, hr.symm, ?_⟩
      · intro h0; subst h0; simp at hr; exact hka hr.symm
      · unfold renameEntry moveKey
        rw [if_pos hm, ← hr]
        simp
    · right
      have hm' : moves a d ke.1 = false := by simpa using hm
      refine ⟨hka, hm', ?_⟩
      unfold renameEntry
      rw [if_neg hm]

theorem findEnt_rename_target (ns : List (Key × Ent)) (a b : Key) (d : Bool)
    (hb : findEnt ns b = none) : findEnt (renameNames ns a b d) b = findEnt ns a := by
  induction ns with
  | nil => rfl
  | cons ke rest ih =>
    rw [findEnt_cons] at hb
    by_cases hkb : ke.1 = b
    · rw [if_pos hkb] at hb; simp at hb
    · rw [if_neg hkb] at hb
      have ih' := ih hb
      show findEnt (renameEntry a b d ke :: renameNames rest a b d) b = findEnt (ke :: rest) a
      rw [findEnt_cons, findEnt_cons]
      rcases renameEntry_cases a b d ke with ⟨h1, h2⟩ | ⟨h1, _, r, hr, _, h2⟩ | ⟨h1, _, h2⟩
      · rw [h2, if_pos rfl, if_pos h1]
      · have hne : b ++ r ≠ b := by
          intro h3
          have := congrArg List.length h3
          simp at this
          exact hr this
        rw [h2, if_neg hne, if_neg h1]; exact ih'
      · rw [h2, if_neg hkb, if_neg h1]; exact ih'

theorem findEnt_rename_source (ns : List (Key × Ent)) (a b : Key) (d : Bool) (hab : a ≠ b)
    (hnp : ∀ r, r ≠ [] → b ++ r ≠ a) : findEnt (renameNames ns a b d) a = none := by
  induction ns with
  | nil => rfl
  | cons ke rest ih =>
    show findEnt (renameEntry a b d ke :: renameNames rest a b d) a = none
    rw [findEnt_cons]
    rcases renameEntry_cases a b d ke with ⟨h1, h2⟩ | ⟨h1, _, r, hr, _, h2⟩ | ⟨h1, _, h2⟩
    · rw [h2, if_neg (fun h => hab h.symm)]; exact ih
    · rw [h2, if_neg (hnp r hr)]; exact ih
    · rw [h2, if_neg h1]; exact ih

/-- a successful `Rename`: the source existed, the target did not; afterwards the target holds the
    source's entry (for a regular file: the *same object*, so the same bytes), no file content and
    no handle changed -/
theorem rename_ok (s : Srv) (a b : Key) (ha : a ≠ []) (h : (clientRename s a b).2 = none) :
    lookup s a ≠ none ∧ lookup s b = none ∧
    lookup (clientRename s a b).1 b = lookup s a ∧
    (clientRename s a b).1.files = s.files ∧ (clientRename s a b).1.hs = s.hs := by
  rcases clientRename_cases s a b with ⟨e', e1⟩ | ⟨x, e1, hla, hlb, _⟩
  · rw [e1] at h; simp at h
  · rw [e1]
    have hbne : b ≠ [] := by
      intro h0; subst h0; simp [lookup] at hlb
    have hfb : findEnt s.names b = none := by simpa [lookup, hbne] using hlb
    refine ⟨by simp [hla], hlb, ?_, rfl, rfl⟩
    show lookup { s with names := renameNames s.names a b (x == .dir) } b = lookup s a
    unfold lookup
    rw [if_neg hbne, if_neg ha]
    exact findEnt_rename_target s.names a b _ hfb

/-- … and the source name is gone, provided the target is not an ancestor of the source (which a
    well-formed name table rules out: an ancestor of an existing name exists) -/
theorem rename_source_gone' (s : Srv) (a b : Key) (ha : a ≠ []) (hab : a ≠ b)
    (hnp : ∀ r, r ≠ [] → b ++ r ≠ a) (h : (clientRename s a b).2 = none) :
    lookup (clientRename s a b).1 a = none := by
  rcases clientRename_cases s a b with ⟨e', e1⟩ | ⟨x, e1, _⟩
  · rw [e1] at h; simp at h
  · rw [e1]
    show lookup { s with names := renameNames s.names a b (x == .dir) } a = none
    unfold lookup
    rw [if_neg ha]
    exact findEnt_rename_source s.names a b _ hab hnp

/-! ### the name table is a tree: every entry's parent is a directory -/

/-- well-formedness of the server's flat name table (what `putfile`'s `canonName` check maintains):
    the root is never an entry, and the parent of every entry is a directory -/
def WF (s : Srv) : Prop := ∀ k e, findEnt s.names k = some e → k ≠ [] ∧ lookup s k.dropLast = some .dir

theorem WF_of_names (s s' : Srv) (h : s'.names = s.names) (w : WF s) : WF s' := by
  intro k e hk
  have := w k e (h ▸ hk)
  refine ⟨this.1, ?_⟩
  unfold lookup at *
  rw [h]; exact this.2

theorem lookup_of_names (s s' : Srv) (h : s'.names = s.names) (k : Key) : lookup s' k = lookup s k := by
  unfold lookup; rw [h]

theorem WF_init : WF {} := by
  intro k e h; simp [findEnt] at h

/-- in a well-formed table every proper ancestor of an existing name is a directory -/
theorem anc_dir (s : Srv) (w : WF s) : ∀ (m : Nat) (k : Key), k.length = m → lookup s k ≠ none →
    ∀ n, n < m → lookup s (k.take n) = some .dir := by
  intro m
  induction m with
  | zero => intro k _ _ n hn; omega
  | succ m ih =>
    intro k hlen hex n hn
    have hk : k ≠ [] := by intro h0; subst h0; simp at hlen
    have hfe : ∃ e, findEnt s.names k = some e := by
      unfold lookup at hex
      rw [if_neg hk] at hex
      cases hf : findEnt s.names k with
      | none => exact absurd hf hex
      | some e => exact ⟨e, rfl⟩
    obtain ⟨e, he⟩ := hfe
    have hp := (w k e he).2
    have hdl : k.dropLast.length = m := by simp [hlen]
    by_cases hnm : n = m
    · subst hnm
      have : k.take n = k.dropLast := by
        rw [List.dropLast_eq_take]; congr 1; omega
      rw [this]
      exact hp
    · have : k.take n = k.dropLast.take n := by
        rw [List.dropLast_eq_take, List.take_take]
        congr 1; omega
      rw [this]
      exact ih k.dropLast hdl (by rw [hp]; simp) n (by omega)

theorem prefix_dir (s : Srv) (w : WF s) (k r : Key) (hr : r ≠ []) (hex : lookup s (k ++ r) ≠ none) :
    lookup s k = some .dir := by
  have := anc_dir s w (k ++ r).length (k ++ r) rfl hex k.length (by
    have : 0 < r.length := List.length_pos_iff.mpr hr
    simp; omega)
  simpa using this

theorem findEnt_mem (ns : List (Key × Ent)) (k : Key) (e : Ent) (h : findEnt ns k = some e) : (k, e) ∈ ns := by
  induction ns with
  | nil => simp [findEnt] at h
  | cons ke rest ih =>
    rw [findEnt_cons] at h
    by_cases hk : ke.1 = k
    · rw [if_pos hk] at h
      have : ke = (k, e) := by
        cases ke; simp at hk h; simp [hk, h]
      rw [this]; exact List.mem_cons_self
    · rw [if_neg hk] at h
      exact List.mem_cons_of_mem _ (ih h)

theorem mem_findEnt (ns : List (Key × Ent)) (ke : Key × Ent) (h : ke ∈ ns) : ∃ e, findEnt ns ke.1 = some e := by
  induction ns with
  | nil => simp at h
  | cons x rest ih =>
    rw [findEnt_cons]
    by_cases hk : x.1 = ke.1
    · exact ⟨x.2, by rw [if_pos hk]⟩
    · rw [if_neg hk]
      rcases List.mem_cons.mp h with h1 | h1
      · exact absurd (by rw [h1]) hk
      · exact ih h1

/-- adding an entry under an existing directory keeps the table well-formed -/
theorem WF_cons (s s' : Srv) (k : Key) (e : Ent) (w : WF s) (hp : parentErr s k = none)
    (hn : lookup s k = none) (hs' : s'.names = (k, e) :: s.names) : WF s' := by
  have hk : k ≠ [] := by intro h0; subst h0; simp [lookup] at hn
  have hpd : lookup s k.dropLast = some .dir := by
    unfold parentErr at hp
    cases hl : lookup s k.dropLast with
    | none => simp [hl] at hp
    | some x => cases x with
      | dir => rfl
      | file id => simp [hl] at hp
  -- a name that was a directory before still is
  have keep : ∀ x, lookup s x = some .dir → lookup s' x = some .dir := by
    intro x hx
    unfold lookup at *
    by_cases h0 : x = []
    · rw [if_pos h0]
    · rw [if_neg h0] at hx ⊢
      rw [hs', findEnt_cons]
      by_cases hkx : k = x
      · subst hkx; rw [if_neg hk] at hn; rw [hn] at hx; simp at hx
      · rw [if_neg hkx]; exact hx
  intro k' e' hf
  rw [hs', findEnt_cons] at hf
  by_cases hkk : k = k'
  · subst hkk
    exact ⟨hk, keep _ hpd⟩
  · rw [if_neg hkk] at hf
    have := w k' e' hf
    exact ⟨this.1, keep _ this.2⟩

theorem findEnt_erase_some (ns : List (Key × Ent)) (k k' : Key) (e : Ent)
    (h : findEnt (eraseKey ns k) k' = some e) : k' ≠ k ∧ findEnt ns k' = some e := by
  have hne : k' ≠ k := by
    intro h0; subst h0; rw [findEnt_erase_self] at h; simp at h
  exact ⟨hne, by rw [← findEnt_erase_other ns k k' hne]; exact h⟩

/-- removing a regular file, or a directory without entries below it, keeps the table well-formed -/
theorem WF_erase (s s' : Srv) (k : Key) (w : WF s)
    (hleaf : (∃ id, lookup s k = some (.file id)) ∨ hasChild s.names k = false)
    (hs' : s'.names = eraseKey s.names k) : WF s' := by
  intro k' e' hf
  rw [hs'] at hf
  obtain ⟨hne, hf'⟩ := findEnt_erase_some _ _ _ _ hf
  have := w k' e' hf'
  refine ⟨this.1, ?_⟩
  have hp := this.2
  unfold lookup at hp ⊢
  by_cases h0 : k'.dropLast = []
  · rw [if_pos h0]
  · rw [if_neg h0] at hp ⊢
    rw [hs']
    by_cases hpk : k'.dropLast = k
    · -- the removed entry would be the parent of a remaining one
      exfalso
      rcases hleaf with ⟨id, hid⟩ | hnc
      · unfold lookup at hid
        rw [← hpk, if_neg h0, hp] at hid
        simp at hid
      · have hmem := findEnt_mem _ _ _ hf'
        have : hasChild s.names k = true := by
          unfold hasChild
          rw [List.any_eq_true]
          exact ⟨(k', e'), hmem, by simp [this.1, hpk]⟩
        rw [this] at hnc; simp at hnc
    · rw [findEnt_erase_other _ _ _ hpk]; exact hp

/-! ### Mkdir and MkdirAll -/

theorem srvChmod_names (s : Srv) (k : Key) (perm : Nat) :
    (srvChmod s k perm).1.names = s.names ∧ (srvChmod s k perm).1.files = s.files ∧ (srvChmod s k perm).1.hs = s.hs := by
  unfold srvChmod
  split <;> exact ⟨rfl, rfl, rfl⟩

/-- the outcomes of `Fs.Mkdir`: an error and nothing changed, or the directory was created below
    an existing directory and the permission request was accepted -/
theorem fsMkdir_cases (s : Srv) (p : Str) (perm : Nat) :
    (∃ e, fsMkdir s p perm = (s, some e)) ∨
    ((fsMkdir s p perm).2 = none ∧ (fsMkdir s p perm).1.names = (keyOf p, .dir) :: s.names ∧
      (fsMkdir s p perm).1.files = s.files ∧ (fsMkdir s p perm).1.hs = s.hs ∧
      parentErr s (keyOf p) = none ∧ lookup s (keyOf p) = none) := by
  unfold fsMkdir srvMkdir
  cases hp : parentErr s (keyOf p) with
  | some e => left; exact ⟨e, rfl⟩
  | none =>
    cases hl : lookup s (keyOf p) with
    | some x => left; exact ⟨.fail, rfl⟩
    | none =>
      right
      have hk : keyOf p ≠ [] := by intro h0; rw [h0] at hl; simp [lookup] at hl
      have hl' : lookup { s with names := (keyOf p, Ent.dir) :: s.names } (keyOf p) = some .dir := by
        unfold lookup; rw [if_neg hk, findEnt_cons, if_pos rfl]
      simp [srvChmod, hl']

theorem fsMkdir_WF (s : Srv) (p : Str) (perm : Nat) (w : WF s) : WF (fsMkdir s p perm).1 := by
  rcases fsMkdir_cases s p perm with ⟨e, h⟩ | ⟨_, hn, _, _, hp, hl⟩
  · rw [h]; exact w
  · exact WF_cons s _ (keyOf p) .dir w hp hl hn

theorem fsMkdir_ok_dir (s : Srv) (p : Str) (perm : Nat) (h : (fsMkdir s p perm).2 = none) :
    lookup (fsMkdir s p perm).1 (keyOf p) = some .dir := by
  rcases fsMkdir_cases s p perm with ⟨e, h1⟩ | ⟨_, hn, _, _, _, hl⟩
  · rw [h1] at h; simp at h
  · have hk : keyOf p ≠ [] := by intro h0; rw [h0] at hl; simp [lookup] at hl
    unfold lookup; rw [if_neg hk, hn, findEnt_cons, if_pos rfl]

theorem fsStat_dir (s : Srv) (p : Str) (inf : Info) (h : fsStat s p = .ok inf) (hd : inf.dir = true) :
    lookup s (keyOf p) = some .dir := by
  unfold fsStat srvStat at h
  cases hl : lookup s (keyOf p) with
  | none => simp [hl] at h
  | some x =>
    cases x with
    | dir => rfl
    | file id => simp [hl] at h; rw [← h] at hd; simp at hd

/-- what the induction over `MkdirAll`'s recursion carries -/
def MkSpec (s : Srv) (path : Str) (r : Srv × Option SErr) : Prop :=
  WF r.1 ∧ r.1.files = s.files ∧ r.1.hs = s.hs ∧ (r.2 = none → lookup r.1 (keyOf path) = some .dir) ∧
  (∀ ke ∈ r.1.names, ke ∈ s.names ∨ ke.2 = .dir) ∧
  (∀ k e, findEnt s.names k = some e → findEnt r.1.names k = some e)

theorem MkSpec.intro (s : Srv) (path : Str) (r : Srv × Option SErr) (h1 : WF r.1) (h2 : r.1.files = s.files)
    (h3 : r.1.hs = s.hs) (h4 : r.2 = none → lookup r.1 (keyOf path) = some .dir)
    (h5 : ∀ ke ∈ r.1.names, ke ∈ s.names ∨ ke.2 = .dir)
    (h6 : ∀ k e, findEnt s.names k = some e → findEnt r.1.names k = some e) : MkSpec s path r :=
  ⟨h1, h2, h3, h4, h5, h6⟩

/-- `Mkdir` never hides an existing entry -/
theorem fsMkdir_keeps_entries (s : Srv) (p : Str) (perm : Nat) :
    ∀ k e, findEnt s.names k = some e → findEnt (fsMkdir s p perm).1.names k = some e := by
  intro k e hke
  rcases fsMkdir_cases s p perm with ⟨e', h⟩ | ⟨_, hn, _, _, _, hl⟩
  · rw [h]; exact hke
  · rw [hn, findEnt_cons]
    by_cases hk : keyOf p = k
    · exfalso
      have hne : keyOf p ≠ [] := by intro h0; rw [h0] at hl; simp [lookup] at hl
      unfold lookup at hl; rw [if_neg hne, hk, hke] at hl; simp at hl
    · rw [if_neg hk]; exact hke

theorem fsMkdir_only_dirs (s : Srv) (p : Str) (perm : Nat) :
    ∀ ke ∈ (fsMkdir s p perm).1.names, ke ∈ s.names ∨ ke.2 = .dir := by
  intro ke hke
  rcases fsMkdir_cases s p perm with ⟨e, h⟩ | ⟨_, hn, _⟩
  · rw [h] at hke; exact Or.inl hke
  · rw [hn] at hke
    rcases List.mem_cons.mp hke with h1 | h1
    · right; rw [h1]
    · exact Or.inl h1

/-- `MkdirAll` keeps the table well-formed, never touches file contents or handles, and when it
    returns nil the name is a directory (all by the same induction on the recursion) -/
theorem mkdirAllAux_spec (perm : Nat) : ∀ (fuel : Nat) (s : Srv) (path : Str), WF s →
    MkSpec s path (mkdirAllAux perm fuel s path) := by
  intro fuel
  induction fuel with
  | zero => intro s path w; exact MkSpec.intro _ _ _ w rfl rfl (by simp [mkdirAllAux]) (fun ke h => Or.inl h) (fun k e h => h)
  | succ fuel ih =>
    intro s path w
    unfold mkdirAllAux
    cases hst : fsStat s path with
    | ok inf =>
      by_cases hd : inf.dir = true
      · simp only [hd, if_true]
        exact MkSpec.intro _ _ _ w rfl rfl (fun _ => fsStat_dir s path inf hst hd) (fun ke h => Or.inl h) (fun k e h => h)
      · simp only [hd]
        exact MkSpec.intro _ _ _ w rfl rfl (by simp) (fun ke h => Or.inl h) (fun k e h => h)
    | error e0 =>
      simp only
      -- the parent step
      have hrp : ∀ rp : Srv × Option SErr,
          rp = (if scanJ path > 1 then mkdirAllAux perm fuel s (path.take (scanJ path - 1)) else (s, none)) →
          WF rp.1 ∧ rp.1.files = s.files ∧ rp.1.hs = s.hs ∧ (∀ ke ∈ rp.1.names, ke ∈ s.names ∨ ke.2 = .dir) ∧
          (∀ k e, findEnt s.names k = some e → findEnt rp.1.names k = some e) := by
        intro rp hrp
        by_cases hj : scanJ path > 1
        · rw [if_pos hj] at hrp
          have := ih s (path.take (scanJ path - 1)) w
          rw [hrp]; exact ⟨this.1, this.2.1, this.2.2.1, this.2.2.2.2.1, this.2.2.2.2.2⟩
        · rw [if_neg hj] at hrp
          rw [hrp]; exact ⟨w, rfl, rfl, fun ke h => Or.inl h, fun k e h => h⟩
      generalize hrpe : (if scanJ path > 1 then mkdirAllAux perm fuel s (path.take (scanJ path - 1)) else (s, none)) = rp
      obtain ⟨w1, f1, h1, d1, k1⟩ := hrp rp hrpe.symm
      cases hr2 : rp.2 with
      | some e => exact MkSpec.intro _ _ _ w1 f1 h1 (by simp) d1 k1
      | none =>
        simp only
        have wm := fsMkdir_WF rp.1 path perm w1
        have fm : (fsMkdir rp.1 path perm).1.files = s.files ∧ (fsMkdir rp.1 path perm).1.hs = s.hs := by
          rcases fsMkdir_cases rp.1 path perm with ⟨e, h⟩ | ⟨_, _, hf, hh, _, _⟩
          · rw [h]; exact ⟨f1, h1⟩
          · exact ⟨hf.trans f1, hh.trans h1⟩
        have dm : ∀ ke ∈ (fsMkdir rp.1 path perm).1.names, ke ∈ s.names ∨ ke.2 = .dir := by
          intro ke hke
          rcases fsMkdir_only_dirs rp.1 path perm ke hke with h | h
          · exact d1 ke h
          · exact Or.inr h
        have km : ∀ k e, findEnt s.names k = some e → findEnt (fsMkdir rp.1 path perm).1.names k = some e :=
          fun k e h => fsMkdir_keeps_entries rp.1 path perm k e (k1 k e h)
        cases hm2 : (fsMkdir rp.1 path perm).2 with
        | none =>
          exact MkSpec.intro _ _ _ wm fm.1 fm.2 (fun _ => fsMkdir_ok_dir rp.1 path perm hm2) dm km
        | some e =>
          simp only
          cases hst2 : fsStat (fsMkdir rp.1 path perm).1 path with
          | error e1 => exact MkSpec.intro _ _ _ wm fm.1 fm.2 (by simp) dm km
          | ok inf =>
            by_cases hd : inf.dir = true
            · simp only [hd, if_true]
              exact MkSpec.intro _ _ _ wm fm.1 fm.2 (fun _ => fsStat_dir _ path inf hst2 hd) dm km
            · simp only [hd]
              exact MkSpec.intro _ _ _ wm fm.1 fm.2 (by simp) dm km

/-- **mkdirAll_creates_ancestors.**  For every path string (relative, doubled or trailing
    separators, dot and dot-dot segments included) and every well-formed server state: when
    `MkdirAll` returns nil, the cleaned name and every ancestor of it is a directory on the
    server.  (`take n` of the key for `n ≤ length` enumerates the name and all its ancestors.) -/
theorem mkdirAll_creates_ancestors (s : Srv) (p : Str) (perm : Nat) (w : WF s)
    (h : (fsMkdirAll s p perm).2 = none) :
    ∀ n, n ≤ (keyOf p).length → lookup (fsMkdirAll s p perm).1 ((keyOf p).take n) = some .dir := by
  intro n hn
  obtain ⟨w', _, _, hd, _, _⟩ := mkdirAllAux_spec perm (p.length + 1) s p w
  have hdir := hd h
  by_cases hnl : n = (keyOf p).length
  · rw [hnl, List.take_length]; exact hdir
  · exact anc_dir _ w' (keyOf p).length (keyOf p) rfl (by rw [hdir]; simp) n (by omega)

/-- `MkdirAll` over an existing regular file is an error (the pinned source returned nil here) and
    changes nothing -/
theorem mkdirAll_over_file_fails (s : Srv) (p : Str) (perm : Nat) (id : Nat)
    (h : lookup s (keyOf p) = some (.file id)) : fsMkdirAll s p perm = (s, some .fail) := by
  unfold fsMkdirAll mkdirAllAux
  simp [fsStat, srvStat, h]

/-- `MkdirAll` never loses data: file contents and handles are untouched, the table stays a tree -/
theorem mkdirAll_keeps_data (s : Srv) (p : Str) (perm : Nat) (w : WF s) :
    WF (fsMkdirAll s p perm).1 ∧ (fsMkdirAll s p perm).1.files = s.files ∧ (fsMkdirAll s p perm).1.hs = s.hs := by
  obtain ⟨w', hf, hh, _, _, _⟩ := mkdirAllAux_spec perm (p.length + 1) s p w
  exact ⟨w', hf, hh⟩

/-! ### Rename keeps the name table a tree -/

theorem append_ne_dropLast (b r : Key) (hb : b ≠ []) : b ++ r ≠ b.dropLast := by
  intro h
  have := congrArg List.length h
  have hl : 0 < b.length := List.length_pos_iff.mpr hb
  simp at this
  omega

theorem findEnt_rename_other (ns : List (Key × Ent)) (a b : Key) (d : Bool) (y : Key)
    (h1 : ¬ a <+: y) (h2 : ∀ r, b ++ r ≠ y) : findEnt (renameNames ns a b d) y = findEnt ns y := by
  induction ns with
  | nil => rfl
  | cons ke rest ih =>
    show findEnt (renameEntry a b d ke :: renameNames rest a b d) y = findEnt (ke :: rest) y
    rw [findEnt_cons, findEnt_cons]
    rcases renameEntry_cases a b d ke with ⟨hk, he⟩ | ⟨hk, _, r, hr, hkr, he⟩ | ⟨hk, _, he⟩
    · have n1 : b ≠ y := by have := h2 []; simpa using this
      have n2 : ke.1 ≠ y := by rw [hk]; intro h0; exact h1 (h0 ▸ List.prefix_refl a)
      rw [he, if_neg n1, if_neg n2]; exact ih
    · have n2 : ke.1 ≠ y := by rw [hkr]; intro h0; exact h1 (h0 ▸ List.prefix_append a r)
      rw [he, if_neg (h2 r), if_neg n2]; exact ih
    · rw [he, ih]

theorem findEnt_rename_moved (ns : List (Key × Ent)) (a b : Key) (r : Key) (hr : r ≠ [])
    (hb : ∀ r2, r2 ≠ [] → findEnt ns (b ++ r2) = none) :
    findEnt (renameNames ns a b true) (b ++ r) = findEnt ns (a ++ r) := by
  induction ns with
  | nil => rfl
  | cons ke rest ih =>
    have hb1 : ke.1 ≠ b ++ r := by
      intro h0
      have := hb r hr
      rw [findEnt_cons, if_pos h0] at this
      simp at this
    have hbrest : ∀ r2, r2 ≠ [] → findEnt rest (b ++ r2) = none := by
      intro r2 hr2
      have := hb r2 hr2
      rw [findEnt_cons] at this
      by_cases h0 : ke.1 = b ++ r2
      · rw [if_pos h0] at this; simp at this
      · rw [if_neg h0] at this; exact this
    show findEnt (renameEntry a b true ke :: renameNames rest a b true) (b ++ r) = findEnt (ke :: rest) (a ++ r)
    rw [findEnt_cons, findEnt_cons]
    rcases renameEntry_cases a b true ke with ⟨hk, he⟩ | ⟨hk, _, r2, hr2, hkr, he⟩ | ⟨hk, hm, he⟩
    · have n1 : b ≠ b ++ r := by
        intro h0; exact hr (List.self_eq_append_right.mp h0)
      have n2 : ke.1 ≠ a ++ r := by
        rw [hk]; intro h0; exact hr (List.self_eq_append_right.mp h0)
      rw [he, if_neg n1, if_neg n2]; exact ih hbrest
    · by_cases hrr : r2 = r
      · subst hrr
        rw [he, if_pos rfl, if_pos hkr]
      · have n1 : b ++ r2 ≠ b ++ r := fun h0 => hrr (List.append_cancel_left h0)
        have n2 : ke.1 ≠ a ++ r := by rw [hkr]; exact fun h0 => hrr (List.append_cancel_left h0)
        rw [he, if_neg n1, if_neg n2]; exact ih hbrest
    · have n2 : ke.1 ≠ a ++ r := by
        intro h0
        unfold moves at hm
        rw [h0] at hm
        have : a.isPrefixOf (a ++ r) = true := List.isPrefixOf_iff_prefix.mpr (List.prefix_append a r)
        simp [this] at hm
      rw [he, if_neg hb1, if_neg n2]; exact ih hbrest

theorem findEnt_rename_some (ns : List (Key × Ent)) (a b : Key) (d : Bool) (k' : Key) (e' : Ent)
    (h : findEnt (renameNames ns a b d) k' = some e') : ∃ ke, ke ∈ ns ∧ renameEntry a b d ke = (k', e') := by
  induction ns with
  | nil => simp [renameNames, findEnt] at h
  | cons ke rest ih =>
    have h' : findEnt (renameEntry a b d ke :: renameNames rest a b d) k' = some e' := h
    rw [findEnt_cons] at h'
    by_cases hk : (renameEntry a b d ke).1 = k'
    · rw [if_pos hk] at h'
      refine ⟨ke, List.mem_cons_self, ?_⟩
      have h2 : (renameEntry a b d ke).2 = e' := by simpa using h'
      exact Prod.ext hk h2
    · rw [if_neg hk] at h'
      obtain ⟨x, hx, hre⟩ := ih h'
      exact ⟨x, List.mem_cons_of_mem _ hx, hre⟩

/-- `Rename` of anything but the root to a name that is not below the source keeps the table a
    tree (moving a directory below itself is outside the driven domain: the backend iterates a
    map it is changing) -/
theorem WF_rename (s s' : Srv) (a b : Key) (x : Ent) (w : WF s) (ha : a ≠ [])
    (hla : lookup s a = some x) (hlb : lookup s b = none) (hpb : parentErr s b = none)
    (hns : ∀ r, r ≠ [] → a ++ r ≠ b)
    (hs' : s'.names = renameNames s.names a b (x == .dir)) : WF s' := by
  have hbne : b ≠ [] := by intro h0; subst h0; simp [lookup] at hlb
  have hfb : findEnt s.names b = none := by simpa [lookup, hbne] using hlb
  have hfa : findEnt s.names a = some x := by simpa [lookup, ha] using hla
  have hab : a ≠ b := by intro h0; rw [h0, hlb] at hla; simp at hla
  have hnpre : ¬ a <+: b := by
    rintro ⟨r, hr⟩
    by_cases h0 : r = []
    · subst h0; simp at hr; exact hab hr
    · exact hns r h0 hr
  have hbelowb : ∀ r, r ≠ [] → findEnt s.names (b ++ r) = none := by
    intro r hr
    cases hf : findEnt s.names (b ++ r) with
    | none => rfl
    | some e =>
      exfalso
      have hne : b ++ r ≠ [] := by simp [hbne]
      have : lookup s (b ++ r) ≠ none := by unfold lookup; rw [if_neg hne, hf]; simp
      have := prefix_dir s w b r hr this
      rw [hlb] at this; simp at this
  have hbelowa : (x == Ent.dir) = false → ∀ r, r ≠ [] → findEnt s.names (a ++ r) = none := by
    intro hx r hr
    cases hf : findEnt s.names (a ++ r) with
    | none => rfl
    | some e =>
      exfalso
      have hne : a ++ r ≠ [] := by simp [ha]
      have : lookup s (a ++ r) ≠ none := by unfold lookup; rw [if_neg hne, hf]; simp
      have := prefix_dir s w a r hr this
      rw [hla] at this
      have : x = .dir := by simpa using this
      rw [this] at hx; simp at hx
  have hpd : lookup s b.dropLast = some .dir := by
    unfold parentErr at hpb
    cases hl : lookup s b.dropLast with
    | none => simp [hl] at hpb
    | some z => cases z with
      | dir => rfl
      | file id => simp [hl] at hpb
  -- a directory that is neither below the source nor at/below the target stays where it is
  have other : ∀ y, lookup s y = some .dir → ¬ a <+: y → (∀ r, b ++ r ≠ y) → lookup s' y = some .dir := by
    intro y hy h1 h2
    unfold lookup at hy ⊢
    by_cases h0 : y = []
    · rw [if_pos h0]
    · rw [if_neg h0] at hy ⊢
      rw [hs', findEnt_rename_other _ _ _ _ _ h1 h2]; exact hy
  intro k' e' hf
  rw [hs'] at hf
  obtain ⟨ke, hmem, hre⟩ := findEnt_rename_some _ _ _ _ _ _ hf
  obtain ⟨e0, he0⟩ := mem_findEnt _ _ hmem
  have wk := w ke.1 e0 he0
  rcases renameEntry_cases a b (x == .dir) ke with ⟨hk, he⟩ | ⟨hk, hd, r, hr, hkr, he⟩ | ⟨hk, hm, he⟩
  · -- the renamed entry itself
    have hk' : k' = b := by rw [he] at hre; exact (congrArg Prod.fst hre).symm
    subst hk'
    refine ⟨hbne, other _ hpd ?_ (fun r => append_ne_dropLast k' r hbne)⟩
    rintro ⟨r, hr⟩
    have hbl := List.dropLast_concat_getLast hbne
    rw [← hr, List.append_assoc] at hbl
    exact hns (r ++ [k'.getLast hbne]) (by simp) hbl
  · -- an entry below the renamed directory
    have hk' : k' = b ++ r := by rw [he] at hre; exact (congrArg Prod.fst hre).symm
    subst hk'
    refine ⟨by simp [hbne], ?_⟩
    rw [List.dropLast_append_of_ne_nil hr]
    have hpar := wk.2
    rw [hkr, List.dropLast_append_of_ne_nil hr] at hpar
    by_cases hr0 : r.dropLast = []
    · rw [hr0, List.append_nil]
      unfold lookup
      rw [if_neg hbne, hs', findEnt_rename_target _ _ _ _ hfb, hfa]
      have : x = .dir := by simpa using hd
      rw [this]
    · have hne : b ++ r.dropLast ≠ [] := by simp [hbne]
      have hne' : a ++ r.dropLast ≠ [] := by simp [ha]
      unfold lookup at hpar ⊢
      rw [if_neg hne, hs', hd, findEnt_rename_moved _ _ _ _ hr0 hbelowb]
      rw [if_neg hne'] at hpar
      exact hpar
  · -- an entry that does not move
    have hk' : k' = ke.1 := by rw [he] at hre; exact (congrArg Prod.fst hre).symm
    subst hk'
    refine ⟨wk.1, other _ wk.2 ?_ ?_⟩
    · rintro ⟨r, hr⟩
      obtain ⟨l, hkl⟩ : ∃ l, ke.1 = ke.1.dropLast ++ [l] := ⟨_, (List.dropLast_concat_getLast wk.1).symm⟩
      rw [← hr, List.append_assoc] at hkl
      cases hdx : (x == Ent.dir) with
      | true =>
        rw [hdx] at hm
        unfold moves at hm
        have : a.isPrefixOf ke.1 = true := List.isPrefixOf_iff_prefix.mpr ⟨_, hkl.symm⟩
        simp [this] at hm
      | false =>
        have := hbelowa hdx (r ++ [l]) (by simp)
        rw [← hkl, he0] at this; simp at this
    · intro r hr
      by_cases hr0 : r = []
      · subst hr0
        rw [List.append_nil] at hr
        rw [← hr, hlb] at wk; simp at wk
      · have hne : b ++ r ≠ [] := by simp [hbne]
        have h1 := wk.2
        rw [← hr] at h1
        unfold lookup at h1
        rw [if_neg hne, hbelowb r hr0] at h1
        simp at h1

/-- with a well-formed table the renamed name itself is gone afterwards -/
theorem rename_source_gone (s : Srv) (a b : Key) (w : WF s) (ha : a ≠ [])
    (h : (clientRename s a b).2 = none) : lookup (clientRename s a b).1 a = none := by
  obtain ⟨hla, hlb, _⟩ := rename_ok s a b ha h
  have hab : a ≠ b := by intro h0; rw [h0] at hla; exact hla hlb
  refine rename_source_gone' s a b ha hab ?_ h
  intro r hr h0
  have := prefix_dir s w b r hr (by rw [h0]; exact hla)
  rw [hlb] at this; simp at this

/-! ### the invariants hold in every reachable state -/

/-- file entries of the name table point into the heap -/
def NInv (s : Srv) : Prop := ∀ ke ∈ s.names, ∀ id, ke.2 = .file id → id < s.files.length

def Inv (s : Srv) : Prop := HInv s ∧ WF s ∧ NInv s

/-- a call that keeps the heap size and the name table, and invents no object ids for handles -/
def Frame (s s' : Srv) : Prop :=
  s'.files.length = s.files.length ∧ s'.names = s.names ∧ ∀ h ∈ s'.hs, ∃ h0 ∈ s.hs, h.obj = h0.obj

theorem Inv_of_frame (s s' : Srv) (f : Frame s s') (h : Inv s) : Inv s' := by
  obtain ⟨hl, hn, hh⟩ := f
  refine ⟨?_, WF_of_names s s' hn h.2.1, ?_⟩
  · intro x hx
    obtain ⟨h0, hm, ho⟩ := hh x hx
    rw [ho, hl]; exact h.1 h0 hm
  · intro ke hke id hid
    rw [hn] at hke; rw [hl]; exact h.2.2 ke hke id hid

theorem Frame.refl (s : Srv) : Frame s s := ⟨rfl, rfl, fun h hm => ⟨h, hm, rfl⟩⟩

theorem frame_setH (s : Srv) (i : Nat) (h h' : SHandle) (hi : s.hs[i]? = some h) (ho : h'.obj = h.obj) :
    Frame s (setH s i h') := by
  refine ⟨rfl, rfl, ?_⟩
  intro x hx
  rcases List.mem_or_eq_of_mem_set hx with h1 | h1
  · exact ⟨x, h1, rfl⟩
  · exact ⟨h, List.mem_of_getElem? hi, by rw [h1, ho]⟩

theorem frame_files_set (s : Srv) (id : Nat) (d : Bytes) : Frame s { s with files := s.files.set id d } :=
  ⟨by simp, rfl, fun h hm => ⟨h, hm, rfl⟩⟩

theorem Frame.trans {s s1 s2 : Srv} (a : Frame s s1) (b : Frame s1 s2) : Frame s s2 := by
  refine ⟨b.1.trans a.1, b.2.1.trans a.2.1, ?_⟩
  intro h hm
  obtain ⟨h1, hm1, e1⟩ := b.2.2 h hm
  obtain ⟨h0, hm0, e0⟩ := a.2.2 h1 hm1
  exact ⟨h0, hm0, e1.trans e0⟩

theorem frame_clientWriteAt (s : Srv) (h : SHandle) (b : Bytes) (off : Nat) : Frame s (clientWriteAt s h b off).1 := by
  unfold clientWriteAt
  split
  · exact frame_files_set s _ _
  · exact Frame.refl s

theorem frame_write (s : Srv) (i : Nat) (b : Bytes) : Frame s (clientWrite s i b).1 := by
  unfold clientWrite
  cases hi : s.hs[i]? with
  | none => exact Frame.refl s
  | some h =>
    dsimp only
    split
    · exact Frame.refl s
    · refine Frame.trans (frame_clientWriteAt s h b h.pos) ?_
      refine frame_setH _ i h _ ?_ rfl
      have : (clientWriteAt s h b h.pos).1.hs = s.hs := by unfold clientWriteAt; split <;> rfl
      rw [this]; exact hi

theorem frame_writeAt (s : Srv) (i : Nat) (b : Bytes) (off : Int) : Frame s (clientWriteAtH s i b off).1 := by
  unfold clientWriteAtH
  cases s.hs[i]? with
  | none => exact Frame.refl s
  | some h =>
    dsimp only
    split
    · exact Frame.refl s
    · split
      · exact Frame.refl s
      · exact frame_clientWriteAt s h b off.toNat

theorem frame_read (s : Srv) (i len : Nat) : Frame s (clientRead s i len).1 := by
  unfold clientRead
  cases hi : s.hs[i]? with
  | none => exact Frame.refl s
  | some h =>
    dsimp only
    split
    · exact Frame.refl s
    · split
      · exact Frame.refl s
      · exact frame_setH s i h _ hi rfl

theorem frame_readAt (s : Srv) (i len : Nat) (off : Int) : Frame s (clientReadAt s i len off).1 := by
  unfold clientReadAt
  cases s.hs[i]? with
  | none => exact Frame.refl s
  | some h =>
    dsimp only
    repeat' split
    all_goals exact Frame.refl s

theorem frame_seek (s : Srv) (i : Nat) (off : Int) (wh : Nat) : Frame s (clientSeek s i off wh).1 := by
  unfold clientSeek
  cases hi : s.hs[i]? with
  | none => exact Frame.refl s
  | some h =>
    dsimp only
    repeat' split
    all_goals first
      | exact Frame.refl s
      | exact frame_setH s i h _ hi rfl

theorem frame_setSize (s : Srv) (k : Key) (n : Int) : Frame s (srvSetSize s k n).1 := by
  unfold srvSetSize
  repeat' split
  all_goals first
    | exact Frame.refl s
    | exact frame_files_set s _ _

theorem frame_truncate (s : Srv) (i : Nat) (n : Int) : Frame s (clientTruncate s i n).1 := by
  unfold clientTruncate
  cases s.hs[i]? with
  | none => exact Frame.refl s
  | some h =>
    dsimp only
    split
    · exact Frame.refl s
    · split <;> exact frame_setSize s h.key n

theorem frame_fstat (s : Srv) (i : Nat) : Frame s (clientFstat s i).1 := by
  unfold clientFstat
  cases s.hs[i]? with
  | none => exact Frame.refl s
  | some h =>
    dsimp only
    repeat' split
    all_goals exact Frame.refl s

theorem frame_close (s : Srv) (i : Nat) : Frame s (clientClose s i).1 := by
  unfold clientClose
  cases hi : s.hs[i]? with
  | none => exact Frame.refl s
  | some h =>
    dsimp only
    split
    · exact Frame.refl s
    · exact frame_setH s i h _ hi rfl

theorem frame_chmod (s : Srv) (k : Key) (perm : Nat) : Frame s (srvChmod s k perm).1 := by
  unfold srvChmod
  split
  · exact Frame.refl s
  · exact ⟨rfl, rfl, fun h hm => ⟨h, hm, rfl⟩⟩

/-- `Client.open` keeps the invariants: a new object gets a fresh id, an existing one is in range -/
theorem Inv_clientOpen (s : Srv) (k : Key) (f : PFlags) (h : Inv s) : Inv (clientOpen s k f).1 := by
  obtain ⟨hh, hw, hn⟩ := h
  unfold clientOpen srvOpenfile
  cases hl : lookup s k with
  | none =>
    by_cases hc : f.creat = true
    · simp only [hc, Bool.not_true, Bool.false_eq_true, if_false]
      cases hp : parentErr s k with
      | some e => exact ⟨hh, hw, hn⟩
      | none =>
        dsimp only
        refine ⟨?_, ?_, ?_⟩
        · intro x hx
          simp only [List.mem_append, List.mem_singleton] at hx
          rcases hx with h1 | h1
          · have := hh x h1; simp; omega
          · rw [h1]; simp
        · exact WF_cons s _ k (.file s.files.length) hw hp hl rfl
        · intro ke hke id hid
          rcases List.mem_cons.mp hke with h1 | h1
          · rw [h1] at hid; simp at hid; simp; omega
          · have := hn ke h1 id hid; simp; omega
    · have hc' : f.creat = false := by simpa using hc
      simp only [hc', Bool.not_false, if_true]
      exact ⟨hh, hw, hn⟩
  | some x =>
    cases x with
    | dir => exact ⟨hh, hw, hn⟩
    | file id =>
      have hk : k ≠ [] := by intro h0; subst h0; simp [lookup] at hl
      have hid : id < s.files.length := by
        unfold lookup at hl; rw [if_neg hk] at hl
        exact hn _ (findEnt_mem _ _ _ hl) id rfl
      dsimp only
      by_cases hx : (f.creat && f.excl) = true
      · rw [if_pos hx]; exact ⟨hh, hw, hn⟩
      · rw [if_neg hx]
        by_cases ht : f.trunc = true
        · rw [if_pos ht]
          dsimp only
          refine ⟨?_, WF_of_names s _ rfl hw, ?_⟩
          · intro y hy
            simp only [List.mem_append, List.mem_singleton] at hy
            rcases hy with h1 | h1
            · have := hh y h1; simp; omega
            · rw [h1]; simp; exact hid
          · intro ke hke i2 hi2
            have := hn ke hke i2 hi2; simp; omega
        · rw [if_neg ht]
          dsimp only
          refine ⟨?_, WF_of_names s _ rfl hw, ?_⟩
          · intro y hy
            simp only [List.mem_append, List.mem_singleton] at hy
            rcases hy with h1 | h1
            · exact hh y h1
            · rw [h1]; exact hid
          · exact hn

theorem mem_eraseKey (ns : List (Key × Ent)) (k : Key) (ke : Key × Ent) (h : ke ∈ eraseKey ns k) : ke ∈ ns := by
  induction ns with
  | nil => simp [eraseKey] at h
  | cons x rest ih =>
    unfold eraseKey at h
    by_cases hk : x.1 = k
    · rw [if_pos hk] at h; exact List.mem_cons_of_mem _ (ih h)
    · rw [if_neg hk] at h
      rcases List.mem_cons.mp h with h1 | h1
      · rw [h1]; exact List.mem_cons_self
      · exact List.mem_cons_of_mem _ (ih h1)

theorem Inv_remove (s : Srv) (k : Key) (h : Inv s) : Inv (clientRemove s k).1 := by
  obtain ⟨hh, hw, hn⟩ := h
  cases hl : lookup s k with
  | none => simp only [clientRemove, hl]; exact ⟨hh, hw, hn⟩
  | some x =>
    have sub : ∀ s' : Srv, s'.files = s.files → s'.hs = s.hs → s'.names = eraseKey s.names k →
        ((∃ id, lookup s k = some (.file id)) ∨ hasChild s.names k = false) → Inv s' := by
      intro s' hf hhs hnm hleaf
      refine ⟨?_, WF_erase s s' k hw hleaf hnm, ?_⟩
      · intro y hy; rw [hhs] at hy; rw [hf]; exact hh y hy
      · intro ke hke id hid
        rw [hnm] at hke; rw [hf]
        exact hn ke (mem_eraseKey _ _ _ hke) id hid
    cases x with
    | file id =>
      simp only [clientRemove, hl]
      exact sub _ rfl rfl rfl (Or.inl ⟨id, hl⟩)
    | dir =>
      by_cases hc : hasChild s.names k = true
      · simp only [clientRemove, hl, hc, if_true]; exact ⟨hh, hw, hn⟩
      · have hc' : hasChild s.names k = false := by simpa using hc
        simp only [clientRemove, hl, hc', Bool.false_eq_true, if_false]
        exact sub _ rfl rfl rfl (Or.inr hc')

theorem renameEntry_snd (a b : Key) (d : Bool) (ke : Key × Ent) : (renameEntry a b d ke).2 = ke.2 := by
  unfold renameEntry; split <;> rfl

theorem Inv_rename (s : Srv) (a b : Key) (hdom : ∀ r, r ≠ [] → a ++ r ≠ b) (h : Inv s) :
    Inv (clientRename s a b).1 := by
  rcases clientRename_cases s a b with ⟨e, e1⟩ | ⟨x, e1, hla, hlb, hpb⟩
  · rw [e1]; exact h
  · obtain ⟨hh, hw, hn⟩ := h
    have ha : a ≠ [] := by
      intro h0; subst h0
      by_cases hb0 : b = []
      · subst hb0; simp [lookup] at hlb
      · exact hdom b hb0 (by simp)
    rw [e1]
    refine ⟨hh, WF_rename s _ a b x hw ha hla hlb hpb hdom rfl, ?_⟩
    intro ke hke id hid
    change ke ∈ renameNames s.names a b (x == .dir) at hke
    unfold renameNames at hke
    obtain ⟨k0, hk0, hre⟩ := List.mem_map.mp hke
    have : k0.2 = .file id := by rw [← renameEntry_snd a b (x == .dir) k0, hre]; exact hid
    exact hn k0 hk0 id this

/-- operations inside the driven domain: a rename never moves a name below itself -/
def InDomain : SOp → Prop
  | .rename a b => ∀ r, r ≠ [] → keyOf a ++ r ≠ keyOf b
  | _ => True

theorem Inv_step (s : Srv) (op : SOp) (hd : InDomain op) (h : Inv s) : Inv (step s op).1 := by
  cases op with
  | create p => exact Inv_clientOpen s _ _ h
  | open_ p => exact Inv_clientOpen s _ _ h
  | openFile p f perm =>
    simp only [step, fsOpenFile]
    have h1 := Inv_clientOpen s (keyOf p) (pflagsOf f) h
    cases hr : (clientOpen s (keyOf p) (pflagsOf f)).2 with
    | some e => exact h1
    | none => exact Inv_of_frame _ _ (frame_chmod _ _ _) h1
  | mkdir p perm =>
    simp only [step]
    rcases fsMkdir_cases s p perm with ⟨e, h1⟩ | ⟨_, hn, hf, hh, _, _⟩
    · rw [h1]; exact h
    · refine ⟨?_, fsMkdir_WF s p perm h.2.1, ?_⟩
      · intro y hy; rw [hh] at hy; rw [hf]; exact h.1 y hy
      · intro ke hke id hid
        rw [hf]
        rcases fsMkdir_only_dirs s p perm ke hke with h1 | h1
        · exact h.2.2 ke h1 id hid
        · rw [h1] at hid; simp at hid
  | mkdirAll p perm =>
    simp only [step]
    obtain ⟨w', hf, hh, _, hd5, _⟩ := mkdirAllAux_spec perm (p.length + 1) s p h.2.1
    refine ⟨?_, w', ?_⟩
    · intro y hy
      change y ∈ (mkdirAllAux perm (p.length + 1) s p).1.hs at hy
      rw [hh] at hy
      change y.obj < (mkdirAllAux perm (p.length + 1) s p).1.files.length
      rw [hf]; exact h.1 y hy
    · intro ke hke id hid
      change id < (mkdirAllAux perm (p.length + 1) s p).1.files.length
      rw [hf]
      rcases hd5 ke hke with h1 | h1
      · exact h.2.2 ke h1 id hid
      · rw [h1] at hid; simp at hid
  | remove p => exact Inv_remove s _ h
  | rename a b => exact Inv_rename s _ _ hd h
  | stat p => exact h
  | write i b => exact Inv_of_frame _ _ (frame_write s i b) h
  | writeString i b => exact Inv_of_frame _ _ (frame_write s i b) h
  | writeAt i b off => exact Inv_of_frame _ _ (frame_writeAt s i b off) h
  | read i n => exact Inv_of_frame _ _ (frame_read s i n) h
  | readAt i n off => exact Inv_of_frame _ _ (frame_readAt s i n off) h
  | seek i off wh => exact Inv_of_frame _ _ (frame_seek s i off wh) h
  | trunc i n => exact Inv_of_frame _ _ (frame_truncate s i n) h
  | hstat i => exact Inv_of_frame _ _ (frame_fstat s i) h
  | close i => exact Inv_of_frame _ _ (frame_close s i) h

theorem Inv_init : Inv {} :=
  ⟨fun h hm => by simp at hm, WF_init, fun ke hm => by simp at hm⟩

/-- every state reached from the empty server by operations of the driven domain satisfies the
    invariants -/
theorem Inv_run (ops : List SOp) (s : Srv) (h : Inv s) (hd : ∀ op ∈ ops, InDomain op) : Inv (run s ops) := by
  induction ops generalizing s with
  | nil => exact h
  | cons op ops ih =>
    simp only [run]
    exact ih _ (Inv_step s op (hd op (by simp)) h) (fun o ho => hd o (by simp [ho]))

/-! ### the property on whole op sequences -/

/-- **C19 on sequences, writes.**  After any sequence of operations (offsets, lengths, payloads,
    path strings arbitrary), every write-type call through any handle either stores the whole
    payload at the right offset and reports its length, or reports an error (count 0, nothing
    stored), or names no handle. -/
theorem stored_eq_reported_reachable (ops : List SOp) (hd : ∀ op ∈ ops, InDomain op) (i : Nat) (w : WCall) :
    let s := run {} ops
    (∃ h, s.hs[i]? = some h ∧ (w.run s i).2 = .n w.payload.length none ∧ 0 ≤ w.offset h ∧
        Stored s (w.run s i).1 h (w.offset h).toNat w.payload) ∨
    (∃ e, (w.run s i).2 = .n 0 (some e) ∧ (w.run s i).1.files = s.files ∧ (w.run s i).1.names = s.names) ∨
    (s.hs[i]? = none ∧ (w.run s i) = (s, .nohandle)) :=
  stored_eq_reported _ i w (Inv_run ops {} Inv_init hd).1

/-- **C19 on sequences, directory creation.**  After any sequence of operations, for every path
    string: `MkdirAll` = nil ⇒ the name and all its ancestors are directories on the server. -/
theorem mkdirAll_creates_ancestors_reachable (ops : List SOp) (hd : ∀ op ∈ ops, InDomain op) (p : Str) (perm : Nat)
    (h : (fsMkdirAll (run {} ops) p perm).2 = none) :
    ∀ n, n ≤ (keyOf p).length → lookup (fsMkdirAll (run {} ops) p perm).1 ((keyOf p).take n) = some .dir :=
  mkdirAll_creates_ancestors _ p perm (Inv_run ops {} Inv_init hd).2.1 h

/-- **C19 on sequences, rename.**  After any sequence of operations a successful `Rename` of a
    name other than the root moves the entry: the old name is gone, the new name holds the same
    entry (same object, same bytes), no content changes. -/
theorem rename_moves_reachable (ops : List SOp) (hd : ∀ op ∈ ops, InDomain op) (a b : Str) (ha : keyOf a ≠ [])
    (h : (fsRename (run {} ops) a b).2 = none) :
    lookup (fsRename (run {} ops) a b).1 (keyOf a) = none ∧
    lookup (fsRename (run {} ops) a b).1 (keyOf b) = lookup (run {} ops) (keyOf a) ∧
    (fsRename (run {} ops) a b).1.files = (run {} ops).files :=
  ⟨rename_source_gone _ _ _ (Inv_run ops {} Inv_init hd).2.1 ha h,
   (rename_ok _ _ _ ha h).2.2.1, (rename_ok _ _ _ ha h).2.2.2.1⟩

/-! ### completeness of `MkdirAll`'s backward scan -/

/-- no regular file at the name or at any of its ancestors -/
def NoFile (s : Srv) (K : Key) : Prop := ∀ n, n ≤ K.length → ∀ id, lookup s (K.take n) ≠ some (.file id)

theorem fsStat_file (s : Srv) (p : Str) (inf : Info) (h : fsStat s p = .ok inf) (hd : ¬ inf.dir = true) :
    ∃ id, lookup s (keyOf p) = some (.file id) := by
  unfold fsStat srvStat at h
  cases hl : lookup s (keyOf p) with
  | none => simp [hl] at h
  | some x =>
    cases x with
    | dir => simp [hl] at h; rw [← h] at hd; simp at hd
    | file id => exact ⟨id, rfl⟩

theorem fsStat_err (s : Srv) (p : Str) (e : SErr) (h : fsStat s p = .error e) : lookup s (keyOf p) = none := by
  unfold fsStat srvStat at h
  cases hl : lookup s (keyOf p) with
  | none => rfl
  | some x => cases x <;> simp [hl] at h

theorem fsStat_of_dir (s : Srv) (p : Str) (h : lookup s (keyOf p) = some .dir) : fsStat s p = .ok ⟨0, true⟩ := by
  simp [fsStat, srvStat, h]

theorem fsMkdir_ok_of (s : Srv) (p : Str) (perm : Nat) (hp : parentErr s (keyOf p) = none)
    (hl : lookup s (keyOf p) = none) : (fsMkdir s p perm).2 = none := by
  have hk : keyOf p ≠ [] := by intro h0; rw [h0] at hl; simp [lookup] at hl
  have hl' : lookup { s with names := (keyOf p, Ent.dir) :: s.names } (keyOf p) = some .dir := by
    unfold lookup; rw [if_neg hk, findEnt_cons, if_pos rfl]
  simp [fsMkdir, srvMkdir, hp, hl, srvChmod, hl']

theorem parentErr_of_dir (s : Srv) (k : Key) (h : lookup s k.dropLast = some .dir) : parentErr s k = none := by
  simp [parentErr, h]

theorem take_dropLast (K : Key) (n : Nat) (hn : n ≤ K.dropLast.length) : K.dropLast.take n = K.take n := by
  rw [List.dropLast_eq_take, List.take_take]
  congr 1
  simp at hn; omega

/-- **Completeness of the scan.**  In a well-formed server state, for every path string whose
    cleaned name has no regular file at or above it, `MkdirAll` returns nil: the backward scan over
    the string (trailing separators, last element, recursion on the prefix before it) reaches an
    existing directory and creates everything below it. -/
theorem mkdirAllAux_complete (perm : Nat) : ∀ (fuel : Nat) (s : Srv) (path : Str), path.length < fuel → WF s →
    NoFile s (keyOf path) → (mkdirAllAux perm fuel s path).2 = none := by
  intro fuel
  induction fuel with
  | zero => intro s path h; omega
  | succ fuel ih =>
    intro s path hlen w hnf
    unfold mkdirAllAux
    cases hst : fsStat s path with
    | ok inf =>
      by_cases hd : inf.dir = true
      · simp only [hd, if_true]
      · exfalso
        obtain ⟨id, hid⟩ := fsStat_file s path inf hst hd
        have := hnf (keyOf path).length (Nat.le_refl _) id
        rw [List.take_length] at this
        exact this hid
    | error e0 =>
      simp only
      have hK : lookup s (keyOf path) = none := fsStat_err s path e0 hst
      obtain ⟨P, hP1, hP2, hk⟩ := key_scan_cases path
      -- the parent step succeeds and leaves the parent's name a directory
      have hparent : ∀ rp : Srv × Option SErr,
          rp = (if scanJ path > 1 then mkdirAllAux perm fuel s (path.take (scanJ path - 1)) else (s, none)) →
          rp.2 = none ∧ WF rp.1 ∧ lookup rp.1 (keyOf P) = some .dir ∧
          (∀ ke ∈ rp.1.names, ke ∈ s.names ∨ ke.2 = .dir) := by
        intro rp hrp
        by_cases hj : scanJ path > 1
        · rw [if_pos hj] at hrp
          obtain ⟨hPe, hPl⟩ := hP1 hj
          rw [← hPe] at hrp
          -- no regular file at or above the parent's name either
          have hnfP : NoFile s (keyOf P) := by
            rcases hk with h | h | ⟨e, h⟩
            · rw [← h]; exact hnf
            · intro n hn id
              by_cases hn' : n ≤ (keyOf path).length
              · have := hnf n hn' id
                rw [h, take_dropLast _ _ (by rw [← h]; exact hn')] at this
                exact this
              · -- n = length of the parent's name, which cannot exist: its own parent does not
                have hne : keyOf P ≠ [] := by
                  intro h0; rw [h0] at h; simp at h
                  rw [h] at hK; simp [lookup] at hK
                have hnl : n = (keyOf P).length := by
                  rw [h] at hn'; simp at hn'; omega
                rw [hnl, List.take_length]
                intro hfile
                have hf : findEnt s.names (keyOf P) = some (.file id) := by
                  simpa [lookup, hne] using hfile
                have := (w _ _ hf).2
                rw [← h, hK] at this; simp at this
            · intro n hn id
              have := hnf n (by rw [h]; simp; omega) id
              rw [h, List.take_append_of_le_length hn] at this
              exact this
          have hres := ih s P (by omega) w hnfP
          obtain ⟨w1, _, _, hd1, hn1, _⟩ := mkdirAllAux_spec perm fuel s P w
          rw [hrp]
          exact ⟨hres, w1, hd1 hres, hn1⟩
        · rw [if_neg hj] at hrp
          have : P = [] := hP2 (by omega)
          rw [hrp, this, keyOf_nil]
          exact ⟨rfl, w, by simp [lookup], fun ke h => Or.inl h⟩
      generalize hrpe : (if scanJ path > 1 then mkdirAllAux perm fuel s (path.take (scanJ path - 1)) else (s, none)) = rp
      obtain ⟨hr2, w1, hdP, hn1⟩ := hparent rp hrpe.symm
      rw [hr2]
      simp only
      cases hm2 : (fsMkdir rp.1 path perm).2 with
      | none => rfl
      | some e =>
        simp only
        -- Mkdir failed: the name must already be a directory
        have hsame : (fsMkdir rp.1 path perm).1 = rp.1 := by
          rcases fsMkdir_cases rp.1 path perm with ⟨e', h⟩ | ⟨h, _⟩
          · rw [h]
          · rw [h] at hm2; simp at hm2
        have hdir : lookup rp.1 (keyOf path) = some .dir := by
          rcases hk with h | h | ⟨el, h⟩
          · rw [h]; exact hdP
          · rw [h]
            by_cases hne : keyOf P = []
            · rw [hne]; simp [lookup]
            · have hf : findEnt rp.1.names (keyOf P) = some .dir := by simpa [lookup, hne] using hdP
              exact (w1 _ _ hf).2
          · -- a child of the parent's name: Mkdir fails only if the name exists
            have hpe : parentErr rp.1 (keyOf path) = none := by
              apply parentErr_of_dir
              rw [h, List.dropLast_concat]; exact hdP
            cases hl : lookup rp.1 (keyOf path) with
            | none =>
              have := fsMkdir_ok_of rp.1 path perm hpe hl
              rw [this] at hm2; simp at hm2
            | some x =>
              cases x with
              | dir => rfl
              | file id =>
                exfalso
                have hne : keyOf path ≠ [] := by rw [h]; simp
                have hf : findEnt rp.1.names (keyOf path) = some (.file id) := by simpa [lookup, hne] using hl
                rcases hn1 _ (findEnt_mem _ _ _ hf) with h1 | h1
                · obtain ⟨e2, he2⟩ := mem_findEnt _ _ h1
                  have : lookup s (keyOf path) = some e2 := by
                    unfold lookup; rw [if_neg hne]; exact he2
                  rw [hK] at this; simp at this
                · simp at h1
        rw [hsame, fsStat_of_dir rp.1 path hdir]
        rfl

theorem mkdirAll_complete (s : Srv) (p : Str) (perm : Nat) (w : WF s) (hnf : NoFile s (keyOf p)) :
    (fsMkdirAll s p perm).2 = none :=
  mkdirAllAux_complete perm (p.length + 1) s p (by omega) w hnf

/-- `MkdirAll` succeeds **iff** no regular file is in the way (soundness and completeness
    together), for every path string and every well-formed server state -/
theorem mkdirAll_ok_iff (s : Srv) (p : Str) (perm : Nat) (w : WF s) :
    (fsMkdirAll s p perm).2 = none ↔ NoFile s (keyOf p) := by
  constructor
  · intro h n hn id hfile
    -- a regular file at or above the name survives MkdirAll, but must be a directory afterwards
    have hd := mkdirAll_creates_ancestors s p perm w h n hn
    obtain ⟨_, _, _, _, _, hkeep⟩ := mkdirAllAux_spec perm (p.length + 1) s p w
    have hne : (keyOf p).take n ≠ [] := by intro h0; rw [h0] at hfile; simp [lookup] at hfile
    have hf : findEnt s.names ((keyOf p).take n) = some (.file id) := by simpa [lookup, hne] using hfile
    -- MkdirAll never hides an existing entry: the file is still there afterwards
    have hf' := hkeep _ _ hf
    have hd' : findEnt (fsMkdirAll s p perm).1.names ((keyOf p).take n) = some .dir := by
      simpa [lookup, hne] using hd
    have : findEnt (mkdirAllAux perm (p.length + 1) s p).1.names ((keyOf p).take n) = some .dir := hd'
    rw [hf'] at this; simp at this
  · exact mkdirAll_complete s p perm w

/-- **C19 on sequences, directory creation, both directions.**  After any sequence of operations,
    for every path string, `MkdirAll` returns nil exactly when no regular file sits at the cleaned
    name or above it. -/
theorem mkdirAll_ok_iff_reachable (ops : List SOp) (hd : ∀ op ∈ ops, InDomain op) (p : Str) (perm : Nat) :
    (fsMkdirAll (run {} ops) p perm).2 = none ↔ NoFile (run {} ops) (keyOf p) :=
  mkdirAll_ok_iff _ p perm (Inv_run ops {} Inv_init hd).2.1

/-! ### non-vacuity: a concrete reachable state exercises the hypotheses -/

def pA : Str := ['/', 'a', '/', 'b']
def pF : Str := ['/', 'a', '/', 'b', '/', 'f']
def pG : Str := ['a', '/', '/', 'g', '/']                 -- relative, doubled and trailing separator
def pDots : Str := ['/', 'm', '/', '.', '/', 'n', '/', '.', '.', '/', 'o']

/-- nested MkdirAll, Create, Write, WriteAt at a non-zero offset, Seek -/
def exOps : List SOp :=
  [.mkdirAll pA 493, .create pF, .write 0 [1, 2, 3, 4, 5], .writeAt 0 [9, 9] 3, .seek 0 1 0]
def ex1 : Srv := run {} exOps

example : ∀ op ∈ exOps, InDomain op := by
  intro op h
  simp only [exOps, List.mem_cons, List.mem_nil_iff, or_false] at h
  rcases h with rfl | rfl | rfl | rfl | rfl <;> trivial
example : Inv ex1 := Inv_run _ {} Inv_init (by
  intro op h
  simp only [exOps, List.mem_cons, List.mem_nil_iff, or_false] at h
  rcases h with rfl | rfl | rfl | rfl | rfl <;> trivial)
example : lookup ex1 (keyOf pA) = some .dir ∧ lookup ex1 [['a']] = some .dir := by decide
/-- the write at offset 3 is stored there and read back -/
example : content ex1 0 = [1, 2, 3, 9, 9] := by decide
example : (step ex1 (.readAt 0 4 2)).2 matches .h (.bytes [3, 9, 9] (some .eof)) := by decide
example : (step ex1 (.read 0 2)).2 matches .h (.bytes [2, 3] none) := by decide
/-- a write beyond the end zero-fills the gap; the handle's offset is not moved by WriteAt -/
example : content (step ex1 (.writeAt 0 [7] 7)).1 0 = [1, 2, 3, 9, 9, 0, 0, 7] := by decide
example : (step ex1 (.writeAt 0 [7] (-1))).2 matches .h (.n 0 (some .fail)) := by decide
/-- MkdirAll over the regular file fails, on a relative/doubled spelling it creates the chain,
    dot-dot segments are resolved before the server is asked -/
example : (fsMkdirAll ex1 pF 493).2 = some .fail := by decide
example : (fsMkdirAll ex1 pG 493).2 = none ∧ lookup (fsMkdirAll ex1 pG 493).1 [['a'], ['g']] = some .dir := by decide
example : (fsMkdirAll ex1 pDots 493).2 = none ∧ lookup (fsMkdirAll ex1 pDots 493).1 [['m'], ['o']] = some .dir ∧
    lookup (fsMkdirAll ex1 pDots 493).1 [['m'], ['n']] = some .dir := by decide
/-- rename moves the object: the handle keeps writing to it, Stat by the old name fails -/
example : (fsRename ex1 pF ['/', 'z']).2 = none ∧ lookup (fsRename ex1 pF ['/', 'z']).1 [['z']] = some (.file 0) ∧
    lookup (fsRename ex1 pF ['/', 'z']).1 (keyOf pF) = none := by decide
example : (fsRemove ex1 pA).2 = some .fail ∧ (fsRemove ex1 pF).2 = none := by decide

/-- the pinned fast path of `MkdirAll` (`if err == nil { if dir.IsDir() { return nil }; return err }`
    — `err` is nil on that line): any existing name, a regular file included, reports success -/
def mkdirAllFastAsIs (s : Srv) (p : Str) : Option (Option SErr) :=
  match fsStat s p with
  | .ok _ => some none
  | .error _ => none
example : mkdirAllFastAsIs ex1 pF = some none ∧ lookup ex1 (keyOf pF) = some (.file 0) := by decide

end AferoVerif.C19
