/-
  Property C06, further clauses — "Open … show the overlay's entry if the overlay has one and the base's
  otherwise", "a successful write through the union is read back by every later read through the union"
  (Proofs/ViewReads.lean).  Props/C06.lean has Stat, the merged listings, paging and the copy-up.

  PARTIAL — still decided by the oracle on the real code and the correspondence only: "a failed call leaves
  the view unchanged" for the mutating calls of CopyOnWriteFs, and truncating / appending write-opens.
-/
import AferoVerif.Proofs.ViewReads
namespace AferoVerif.C06
open AferoVerif

/-- **Open reads the view, overlay side**: if the overlay holds a regular file under the name, Open answers a
    fresh handle, changes no object and no path map of either layer, and reading through the handle returns the
    OVERLAY's bytes (Read n and ReadAt n 0 give the first n bytes, with EOF exactly where a file ends) -/
theorem open_reads_overlay (c : Cow) (p : Str) (lf n : Nat)
    (hl : c.s.l.lookup (keyOfStr p) = some lf) (hfile : (c.s.l.obj lf).dir = false) :
    (c.step (.open_ p)).2 = .handle c.hs.length none ∧
    (c.step (.open_ p)).1.s.b = c.s.b ∧
    RO.tree (c.step (.open_ p)).1.s.l = RO.tree c.s.l ∧
    ((c.step (.open_ p)).1.step (.hRead c.hs.length n)).2 =
      .file (.bytes ((c.s.l.obj lf).data.take n)
        (if 0 < n ∧ (c.s.l.obj lf).data = [] then some .eof else none)) ∧
    ((c.step (.open_ p)).1.step (.hReadAt c.hs.length n 0)).2 =
      .file (.bytes ((c.s.l.obj lf).data.take n)
        (if (c.s.l.obj lf).data.length < n then some .eof else none)) :=
  cow_open_reads_overlay c p lf n hl hfile

/-- **Open reads the view, base side**: if the overlay has no entry under the name and the base holds a regular
    file, the same with the BASE's bytes -/
theorem open_reads_base (c : Cow) (p : Str) (bf n : Nat)
    (hl : c.s.l.lookup (keyOfStr p) = none) (hb : c.s.b.lookup (keyOfStr p) = some bf)
    (hfile : (c.s.b.obj bf).dir = false) :
    (c.step (.open_ p)).2 = .handle c.hs.length none ∧
    (c.step (.open_ p)).1.s.l = c.s.l ∧
    RO.tree (c.step (.open_ p)).1.s.b = RO.tree c.s.b ∧
    ((c.step (.open_ p)).1.step (.hRead c.hs.length n)).2 =
      .file (.bytes ((c.s.b.obj bf).data.take n)
        (if 0 < n ∧ (c.s.b.obj bf).data = [] then some .eof else none)) ∧
    ((c.step (.open_ p)).1.step (.hReadAt c.hs.length n 0)).2 =
      .file (.bytes ((c.s.b.obj bf).data.take n)
        (if (c.s.b.obj bf).data.length < n then some .eof else none)) :=
  cow_open_reads_base c p bf n hl hb hfile

/-- **a write through the union is read back** — through the same handle, for a file only the base has: a
    write-open (any write flags that neither truncate nor demand exclusivity) copies the file up, `WriteAt b off`
    reports the whole payload, and `ReadAt` of that range returns `b` -/
theorem write_read_back (c : Cow) (name : Str) (flag perm bo : Nat) (b : Bytes) (off : Nat)
    (hbase : c.isBaseFile (keyOfStr name) = true) (hbo : c.s.b.lookup (keyOfStr name) = some bo)
    (hfile : (c.s.b.obj bo).dir = false) (hr : MemFs.InRange c.s.l)
    (hw : flag &&& cowWriteMask ≠ 0) (hx : flag &&& O_EXCL = 0) (ht : flag &&& O_TRUNC = 0)
    (hacc : flag &&& (O_WRONLY ||| O_RDWR) ≠ 0) (hb : b ≠ []) :
    (c.step (.openFile name flag perm)).2 = .handle c.hs.length none ∧
    ((c.step (.openFile name flag perm)).1.step (.hWriteAt c.hs.length b off)).2 = .file (.n b.length none) ∧
    (((c.step (.openFile name flag perm)).1.step (.hWriteAt c.hs.length b off)).1.step
      (.hReadAt c.hs.length b.length off)).2 = .file (.bytes b none) :=
  cow_write_read_back c name flag perm bo b off hbase hbo hfile hr hw hx ht hacc hb

/-- **… and by every later reader**: a handle obtained afterwards with Open of the same name reads `b` at `off`;
    the overlay holds the base's bytes with exactly that range replaced; the base is unchanged -/
theorem write_visible_to_later_open (c : Cow) (name : Str) (flag perm bo : Nat) (b : Bytes) (off : Nat)
    (hbase : c.isBaseFile (keyOfStr name) = true) (hbo : c.s.b.lookup (keyOfStr name) = some bo)
    (hfile : (c.s.b.obj bo).dir = false) (hr : MemFs.InRange c.s.l)
    (hw : flag &&& cowWriteMask ≠ 0) (hx : flag &&& O_EXCL = 0) (ht : flag &&& O_TRUNC = 0)
    (hacc : flag &&& (O_WRONLY ||| O_RDWR) ≠ 0) (hb : b ≠ []) :
    ((((c.step (.openFile name flag perm)).1.step (.hWriteAt c.hs.length b off)).1).step (.open_ name)).2 =
      .handle (c.hs.length + 1) none ∧
    (((((c.step (.openFile name flag perm)).1.step (.hWriteAt c.hs.length b off)).1).step (.open_ name)).1.step
      (.hReadAt (c.hs.length + 1) b.length off)).2 = .file (.bytes b none) ∧
    ∃ lf, ((c.step (.openFile name flag perm)).1.step (.hWriteAt c.hs.length b off)).1.s.l.lookup (keyOfStr name) = some lf ∧
      (((c.step (.openFile name flag perm)).1.step (.hWriteAt c.hs.length b off)).1.s.l.obj lf).data =
        writeS (c.s.b.obj bo).data off b ∧
      ((c.step (.openFile name flag perm)).1.step (.hWriteAt c.hs.length b off)).1.s.b = c.s.b :=
  cow_write_visible_to_later_open c name flag perm bo b off hbase hbo hfile hr hw hx ht hacc hb

/-- the same for a file the overlay already holds (its parent directory being in the overlay) -/
theorem write_read_back_overlay (c : Cow) (name : Str) (flag perm lf ld : Nat) (b : Bytes) (off : Nat)
    (hl : c.s.l.lookup (keyOfStr name) = some lf) (hfile : (c.s.l.obj lf).dir = false)
    (hld : c.s.l.lookup (keyOfStr (Path.dir name)) = some ld) (hdir : (c.s.l.obj ld).dir = true)
    (hr : MemFs.InRange c.s.l)
    (hw : flag &&& cowWriteMask ≠ 0) (hx : flag &&& O_EXCL = 0) (ht : flag &&& O_TRUNC = 0)
    (hacc : flag &&& (O_WRONLY ||| O_RDWR) ≠ 0) (hb : b ≠ []) :
    (((c.step (.openFile name flag perm)).1.step (.hWriteAt c.hs.length b off)).1.step
      (.hReadAt c.hs.length b.length off)).2 = .file (.bytes b none) ∧
    (((c.step (.openFile name flag perm)).1.step (.hWriteAt c.hs.length b off)).1.s.l.obj lf).data =
      writeS (c.s.l.obj lf).data off b ∧
    ((c.step (.openFile name flag perm)).1.step (.hWriteAt c.hs.length b off)).1.s.b = c.s.b := by
  have h := cow_write_read_back_overlay c name flag perm lf ld b off hl hfile hld hdir hr hw hx ht hacc hb
  exact ⟨h.2.2.1, h.2.2.2.2.2.2.1, h.2.2.2.2.2.2.2⟩

end AferoVerif.C06
