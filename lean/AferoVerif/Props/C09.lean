/-
  Property C09 — BasePathFs is a faithful re-rooting of the underlying filesystem.

  For every absolute root D and every name that `RealPath` accepts, the operation through the
  wrapper *is* the same operation of the source on `D/name` (`bp_commutes`, all twelve Fs
  methods, both Rename arguments; handle methods are the source's own).  Nested wrappers and
  `FullBaseFsPath` compose roots by joining them (`nested_key`, `fullBasePath_key`).
-/
import AferoVerif.Model.BasePathFs
import AferoVerif.Proofs.Path
namespace AferoVerif.C09
open AferoVerif AferoVerif.Path

def segsOf (s : Str) : List Seg := cleanSegs true (split s)

theorem segsOf_normal (s : Str) : ∀ x ∈ segsOf s, Normal x :=
  cleanSegs_rooted_normal _ (split_no_sep s)

theorem clean_rooted (s : Str) (h : isRooted s = true) : clean s = render true (segsOf s) := by
  unfold clean segsOf; rw [h]

theorem keyOfStr_rooted (s : Str) (h : isRooted s = true) : keyOfStr s = ⟨true, segsOf s⟩ := by
  unfold keyOfStr segsOf normKey; rw [h]; simp

/-- cleaning first does not change the key -/
theorem keyOfStr_clean (s : Str) (h : isRooted s = true) : keyOfStr (clean s) = keyOfStr s := by
  rw [clean_rooted s h, keyOfStr_rooted _ (isRooted_render _), keyOfStr_rooted s h]
  have := cleanSegs_split_render _ (segsOf_normal s)
  unfold segsOf at *
  rw [this]

/-- Clean is a left fold: cleaning a prefix first changes nothing -/
theorem cleanSegs_prefix_cleaned (a b : List Seg) (ha : ∀ x ∈ a, sep ∉ x) :
    cleanSegs true (cleanSegs true a ++ b) = cleanSegs true (a ++ b) := by
  have hn := cleanSegs_rooted_normal a ha
  unfold cleanSegs at *
  rw [List.foldl_append, List.foldl_append, foldl_cleanStep_normal_append true _ [] hn]
  simp

theorem isRooted_cons_append (a b : Str) (h : isRooted a = true) : isRooted (a ++ b) = true := by
  cases a with
  | nil => simp [isRooted] at h
  | cons c cs => simpa [isRooted] using h

theorem split_render_segs (q : List Seg) (hq : ∀ x ∈ q, Normal x) :
    cleanSegs true (split (render true q) ++ b) = cleanSegs true (q ++ b) := by
  have h1 : cleanSegs true (split (render true q)) = q := cleanSegs_split_render q hq
  rw [← cleanSegs_prefix_cleaned (split (render true q)) b (split_no_sep _), h1]

/-- segments of `Clean(D)/name` are the segments of `D/name` -/
theorem segsOf_join (D n : Str) (hD : isRooted D = true) :
    segsOf (clean D ++ sep :: n) = segsOf (D ++ sep :: n) := by
  unfold segsOf
  rw [split_append_sep, split_append_sep, clean_rooted D hD,
    split_render_segs _ (segsOf_normal D)]
  unfold segsOf
  exact cleanSegs_prefix_cleaned (split D) (split n) (split_no_sep D)

/-- **what an accepted name resolves to**: the key of `D/name` -/
theorem realPath_key (D n p : Str) (hD : isRooted D = true) (hn : n ≠ []) (h : realPath D n = some p) :
    keyOfStr p = keyOfStr (D ++ sep :: n) := by
  have hp : p = clean (join2 (clean D) n) := by
    unfold realPath at h; simp only at h
    split at h
    · injection h with h; exact h.symm
    · exact absurd h (by simp)
  have hcD : clean D ≠ [] := by rw [clean_rooted D hD]; simp [render]
  have hj : join2 (clean D) n = clean (clean D ++ sep :: n) := by
    unfold join2; simp [hcD, hn]
  have hr1 : isRooted (clean D ++ sep :: n) = true :=
    isRooted_cons_append _ _ (by rw [clean_rooted D hD]; exact isRooted_render _)
  have hr2 : isRooted (D ++ sep :: n) = true := isRooted_cons_append _ _ hD
  rw [hp, hj, keyOfStr_clean _ (by rw [clean_rooted _ hr1]; exact isRooted_render _),
    keyOfStr_clean _ hr1, keyOfStr_rooted _ hr1, keyOfStr_rooted _ hr2, segsOf_join D n hD]

/-- the empty name denotes the root itself -/
theorem realPath_key_empty (D p : Str) (hD : isRooted D = true) (h : realPath D [] = some p) :
    keyOfStr p = keyOfStr D := by
  have hp : p = clean (join2 (clean D) []) := by
    unfold realPath at h; simp only at h
    split at h
    · injection h with h; exact h.symm
    · exact absurd h (by simp)
  have hcD : clean D ≠ [] := by rw [clean_rooted D hD]; simp [render]
  have hj : join2 (clean D) [] = clean (clean D) := by unfold join2; simp [hcD]
  have hr : isRooted (clean D) = true := by rw [clean_rooted D hD]; exact isRooted_render _
  rw [hp, hj, keyOfStr_clean _ (by rw [clean_rooted _ hr]; exact isRooted_render _), keyOfStr_clean _ hr,
    keyOfStr_clean _ hD]

/-- `D` prepended to a name the way the property says it ("the same operation on the underlying
    filesystem with D prepended") -/
def prepend (D n : Str) : Str := if n = [] then D else D ++ sep :: n

theorem realPath_prepend (D n p : Str) (hD : isRooted D = true) (h : realPath D n = some p) :
    keyOfStr p = keyOfStr (prepend D n) := by
  unfold prepend
  by_cases hn : n = []
  · subst hn; simp only [if_true]; exact realPath_key_empty D p hD h
  · simp only [hn, if_false]; exact realPath_key D n p hD hn h

/-! ### operations see names only through their keys -/

def sameKeys : Op → Op → Prop
  | .create p, .create q => keyOfStr p = keyOfStr q
  | .mkdir p a, .mkdir q b => keyOfStr p = keyOfStr q ∧ a = b
  | .mkdirAll p a, .mkdirAll q b => keyOfStr p = keyOfStr q ∧ a = b
  | .open_ p, .open_ q => keyOfStr p = keyOfStr q
  | .openFile p a b, .openFile q c d => keyOfStr p = keyOfStr q ∧ a = c ∧ b = d
  | .remove p, .remove q => keyOfStr p = keyOfStr q
  | .removeAll p, .removeAll q => keyOfStr p = keyOfStr q
  | .rename a b, .rename c d => keyOfStr a = keyOfStr c ∧ keyOfStr b = keyOfStr d
  | .stat p, .stat q => keyOfStr p = keyOfStr q
  | .chmod p a, .chmod q b => keyOfStr p = keyOfStr q ∧ a = b
  | .chown p a b, .chown q c d => keyOfStr p = keyOfStr q ∧ a = c ∧ b = d
  | .chtimes p a, .chtimes q b => keyOfStr p = keyOfStr q ∧ a = b
  | _, _ => False

theorem step_key_congr (m : MemFs) (op op' : Op) (h : sameKeys op op') : m.step op = m.step op' := by
  cases op <;> cases op' <;> simp only [sameKeys] at h <;> first
    | exact absurd h id
    | (simp only [MemFs.step]; simp [h])
    | (obtain ⟨h1, h2⟩ := h; subst h2; simp only [MemFs.step]; simp [h1])
    | (obtain ⟨h1, h2, h3⟩ := h; subst h2; subst h3; simp only [MemFs.step]; simp [h1])
    | (obtain ⟨h1, h2⟩ := h; simp only [MemFs.step]; simp [h1, h2])

/-- the op with the root prepended to its name argument(s) -/
def prependOp (D : Str) : Op → Op
  | .create p => .create (prepend D p)
  | .mkdir p a => .mkdir (prepend D p) a
  | .mkdirAll p a => .mkdirAll (prepend D p) a
  | .open_ p => .open_ (prepend D p)
  | .openFile p a b => .openFile (prepend D p) a b
  | .remove p => .remove (prepend D p)
  | .removeAll p => .removeAll (prepend D p)
  | .rename a b => .rename (prepend D a) (prepend D b)
  | .stat p => .stat (prepend D p)
  | .chmod p a => .chmod (prepend D p) a
  | .chown p a b => .chown (prepend D p) a b
  | .chtimes p a => .chtimes (prepend D p) a
  | op => op

def isNameOp : Op → Bool
  | .create _ | .mkdir _ _ | .mkdirAll _ _ | .open_ _ | .openFile _ _ _ | .remove _ | .removeAll _
  | .rename _ _ | .stat _ | .chmod _ _ | .chown _ _ _ | .chtimes _ _ => true
  | _ => false

theorem map_some {f : Str → Op} {D p : Str} {op' : Op} (h : (realPath D p).map f = some op') :
    ∃ p', realPath D p = some p' ∧ op' = f p' := by
  cases hr : realPath D p with
  | none => rw [hr] at h; simp at h
  | some p' => rw [hr] at h; simp at h; exact ⟨p', rfl, h.symm⟩

/-- **C09, main theorem.** For an absolute root D and every Fs-level operation all of whose names
    stay inside D (i.e. are accepted by `RealPath`), the call through BasePathFs has exactly the
    result and the effect of the same call on the underlying filesystem with D prepended. -/
theorem bp_commutes (m : MemFs) (D : Str) (op op' : Op) (hD : isRooted D = true) (hop : isNameOp op = true)
    (h : bpMapOp D op = some op') :
    bpStep MemFs.step D m op = m.step (prependOp D op) := by
  have hstep : bpStep MemFs.step D m op = m.step op' := by
    cases op <;> simp [isNameOp] at hop <;> simp only [bpStep, h]
  rw [hstep]
  apply step_key_congr
  have K := fun n p hr => realPath_prepend D n p hD hr
  cases op with
  | create p => obtain ⟨p', hr, rfl⟩ := map_some h; exact K _ _ hr
  | mkdir p a => obtain ⟨p', hr, rfl⟩ := map_some h; exact ⟨K _ _ hr, rfl⟩
  | mkdirAll p a => obtain ⟨p', hr, rfl⟩ := map_some h; exact ⟨K _ _ hr, rfl⟩
  | open_ p => obtain ⟨p', hr, rfl⟩ := map_some h; exact K _ _ hr
  | openFile p a b => obtain ⟨p', hr, rfl⟩ := map_some h; exact ⟨K _ _ hr, rfl, rfl⟩
  | remove p => obtain ⟨p', hr, rfl⟩ := map_some h; exact K _ _ hr
  | removeAll p => obtain ⟨p', hr, rfl⟩ := map_some h; exact K _ _ hr
  | stat p => obtain ⟨p', hr, rfl⟩ := map_some h; exact K _ _ hr
  | chmod p a => obtain ⟨p', hr, rfl⟩ := map_some h; exact ⟨K _ _ hr, rfl⟩
  | chown p a b => obtain ⟨p', hr, rfl⟩ := map_some h; exact ⟨K _ _ hr, rfl, rfl⟩
  | chtimes p a => obtain ⟨p', hr, rfl⟩ := map_some h; exact ⟨K _ _ hr, rfl⟩
  | rename a b =>
    simp only [bpMapOp] at h
    cases ha : realPath D a with
    | none => rw [ha] at h; simp at h
    | some a' =>
      cases hb : realPath D b with
      | none => rw [ha, hb] at h; simp at h
      | some b' =>
        rw [ha, hb] at h; simp at h; subst h
        exact ⟨K _ _ ha, K _ _ hb⟩
  | _ => simp [isNameOp] at hop

/-- an escaping name is reported as not existing and the source is not consulted -/
theorem bp_escape_notexist (src : StepFn) (m : MemFs) (D : Str) (op : Op) (hop : isNameOp op = true)
    (h : bpMapOp D op = none) : bpStep src D m op = (m, .err .notexist) := by
  cases op <;> simp [isNameOp] at hop <;> simp only [bpStep, h]

/-- handle methods (other than Name) are the source's own -/
theorem bp_handle_transparent (src : StepFn) (m : MemFs) (D : Str) (op : Op) (hop : op.handle?.isSome)
    (hn : ∀ h, op ≠ .hName h) : bpStep src D m op = src m op := by
  cases op <;> simp [Op.handle?] at hop <;> first
    | exact absurd rfl (hn _)
    | rfl

/-! ### nesting and FullBaseFsPath: roots compose by joining -/

/-- a name "stays inside" when, read left to right, it never steps above its starting point:
    `depthOK segs d` with `d` the current depth below the start -/
def depthOK : List Seg → Nat → Bool
  | [], _ => true
  | s :: rest, d =>
    if s = [] ∨ s = dot then depthOK rest d
    else if s = dotdot then (decide (d > 0) && depthOK rest (d - 1))
    else depthOK rest (d + 1)

/-- cleaning such a name on top of any cleaned prefix never pops the prefix -/
theorem foldl_depthOK (segs : List Seg) (own stk : List Seg) (hown : ∀ x ∈ own, Normal x)
    (hs : ∀ x ∈ segs, sep ∉ x) (hd : depthOK segs own.length = true) :
    segs.foldl (cleanStep true) (own ++ stk) = segs.foldl (cleanStep true) own ++ stk := by
  induction segs generalizing own with
  | nil => rfl
  | cons s rest ih =>
    simp only [List.foldl_cons]
    unfold depthOK at hd
    by_cases h1 : s = [] ∨ s = dot
    · simp only [h1, if_true] at hd
      have e : ∀ st, cleanStep true st s = st := fun st => by unfold cleanStep; simp [h1]
      rw [e, e]; exact ih own hown (fun x hx => hs x (by simp [hx])) hd
    · simp only [h1, if_false] at hd
      by_cases h2 : s = dotdot
      · simp only [h2, if_true, Bool.and_eq_true, decide_eq_true_eq] at hd
        subst h2
        have hdd1 : dotdot ≠ ([] : Seg) := by decide
        have hdd2 : dotdot ≠ dot := by decide
        cases own with
        | nil => simp at hd
        | cons t ts =>
          have ht : t ≠ dotdot := (hown t (by simp)).2.2.1
          have e1 : cleanStep true (t :: ts ++ stk) dotdot = ts ++ stk := by
            unfold cleanStep; simp [hdd1, hdd2, ht]
          have e2 : cleanStep true (t :: ts) dotdot = ts := by
            unfold cleanStep; simp [hdd1, hdd2, ht]
          rw [List.cons_append] at *
          rw [e1, e2]
          exact ih ts (fun x hx => hown x (by simp [hx])) (fun x hx => hs x (by simp [hx])) (by simpa using hd.2)
      · simp only [h2, if_false] at hd
        have hn : Normal s := ⟨fun e => h1 (Or.inl e), fun e => h1 (Or.inr e), h2, hs s (by simp)⟩
        rw [cleanStep_push true _ s hn, cleanStep_push true _ s hn, ← List.cons_append]
        exact ih (s :: own) (by intro x hx; rcases List.mem_cons.mp hx with rfl | hx; exact hn; exact hown x hx)
          (fun x hx => hs x (by simp [hx])) (by simpa using hd)

/-- for a name that stays inside, `Clean(A/name) = Clean(A)/Clean(name)` -/
theorem cleanSegs_append_depthOK (a segs : List Seg) (ha : ∀ x ∈ a, sep ∉ x) (hs : ∀ x ∈ segs, sep ∉ x)
    (hd : depthOK segs 0 = true) :
    cleanSegs true (a ++ segs) = cleanSegs true a ++ cleanSegs true segs := by
  unfold cleanSegs
  rw [List.foldl_append]
  have hn : ∀ x ∈ a.foldl (cleanStep true) [], Normal x := by
    have := cleanSegs_rooted_normal a ha
    unfold cleanSegs at this
    intro x hx; exact this x (by simpa using hx)
  have := foldl_depthOK segs [] (a.foldl (cleanStep true) []) (by simp) hs (by simpa using hd)
  simp only [List.nil_append] at this
  rw [this]; simp

/-- a name that stays inside is always accepted, and resolves to root-segments ++ its own -/
theorem segsOf_prepend_inside (D n : Str) (hd : depthOK (split n) 0 = true) :
    segsOf (D ++ sep :: n) = segsOf D ++ cleanSegs true (split n) := by
  unfold segsOf
  rw [split_append_sep]
  exact cleanSegs_append_depthOK _ _ (split_no_sep D) (split_no_sep n) hd

/-- **stacking = joining the roots.** For a name (and an inner root) that stay inside, the path the inner-most source
    finally sees under `BasePathFs(BasePathFs(src, D1), D2)` has the key of `D1/D2/name` — exactly
    the key a single `BasePathFs(src, D1/D2)` resolves it to. -/
theorem nested_key (D1 D2 n p2 p1 p : Str) (h1 : isRooted D1 = true) (h2 : isRooted D2 = true)
    (hn : n ≠ []) (hd : depthOK (split n) 0 = true) (hd2 : depthOK (split D2) 0 = true)
    (hp2 : realPath D2 n = some p2) (hp1 : realPath D1 p2 = some p1)
    (hp : realPath (D1 ++ sep :: D2) n = some p) :
    keyOfStr p1 = keyOfStr p := by
  -- p2 is the cleaned rooted string render (segsOf (D2/n))
  have hp2eq : p2 = clean (join2 (clean D2) n) := by
    unfold realPath at hp2; simp only at hp2
    split at hp2
    · injection hp2 with h; exact h.symm
    · exact absurd hp2 (by simp)
  have hcD : clean D2 ≠ [] := by rw [clean_rooted D2 h2]; simp [render]
  have hj : join2 (clean D2) n = clean (clean D2 ++ sep :: n) := by unfold join2; simp [hcD, hn]
  have hr1 : isRooted (clean D2 ++ sep :: n) = true :=
    isRooted_cons_append _ _ (by rw [clean_rooted D2 h2]; exact isRooted_render _)
  have hcr : isRooted (clean (clean D2 ++ sep :: n)) = true := by rw [clean_rooted _ hr1]; exact isRooted_render _
  have hp2r : p2 = render true (segsOf (D2 ++ sep :: n)) := by
    rw [hp2eq, hj, clean_rooted _ hcr, clean_rooted _ hr1]
    have := cleanSegs_split_render _ (segsOf_normal (clean D2 ++ sep :: n))
    have e := segsOf_join D2 n h2
    unfold segsOf at *
    rw [this, e]
  have hp2ne : p2 ≠ [] := by rw [hp2r]; simp [render]
  rw [realPath_key D1 p2 p1 h1 hp2ne hp1, realPath_key _ n p (isRooted_cons_append _ _ h1) hn hp]
  have hr_a : isRooted (D1 ++ sep :: p2) = true := isRooted_cons_append _ _ h1
  have hr_b : isRooted ((D1 ++ sep :: D2) ++ sep :: n) = true :=
    isRooted_cons_append _ _ (isRooted_cons_append _ _ h1)
  rw [keyOfStr_rooted _ hr_a, keyOfStr_rooted _ hr_b]
  congr 1
  -- left: segs D1 ++ segs (D2/n) ; right: segs (D1/D2) ++ clean n ; and segs(D2/n) = segs D2 ++ clean n
  have hq := segsOf_normal (D2 ++ sep :: n)
  have e_left : segsOf (D1 ++ sep :: p2) = segsOf D1 ++ segsOf (D2 ++ sep :: n) := by
    unfold segsOf
    rw [split_append_sep, hp2r, ← cleanSegs_prefix_cleaned (split D1) _ (split_no_sep D1)]
    have hs : split (render true (segsOf (D2 ++ sep :: n))) =
        [] :: (if segsOf (D2 ++ sep :: n) = [] then [[]] else segsOf (D2 ++ sep :: n)) := by
      unfold render; simp only [if_true]; rw [split_sep_cons]
      by_cases hqe : segsOf (D2 ++ sep :: n) = []
      · simp [hqe, joinSegs, split, splitAux]
      · simp only [hqe, if_false]; rw [split_joinSegs _ (fun x hx => (hq x hx).2.2.2) hqe]
    unfold segsOf at hs hq ⊢
    rw [hs, cleanSegs_append_normal_or_empty true _ _ (by
      intro x hx
      rcases List.mem_cons.mp hx with h1 | h1
      · left; exact h1
      · by_cases hqe : cleanSegs true (split (D2 ++ sep :: n)) = []
        · simp [hqe] at h1; left; exact h1
        · simp only [hqe, if_false] at h1; right; exact hq x h1)]
    rw [cleanSegs_normal_id true _ (cleanSegs_rooted_normal _ (split_no_sep D1))]
    congr 1
    by_cases hqe : cleanSegs true (split (D2 ++ sep :: n)) = []
    · simp [hqe]
    · simp only [hqe, if_false, List.filter_cons]
      have : ∀ l : List Seg, (∀ x ∈ l, Normal x) → l.filter (· ≠ []) = l := by
        intro l hl
        apply List.filter_eq_self.mpr
        intro x hx; simpa using (hl x hx).1
      rw [this _ hq]; simp
  rw [e_left, segsOf_prepend_inside D2 n hd, segsOf_prepend_inside (D1 ++ sep :: D2) n hd]
  have : segsOf (D1 ++ sep :: D2) = segsOf D1 ++ segsOf D2 := segsOf_prepend_inside D1 D2 hd2
  rw [this, List.append_assoc]

/-- files report their names relative to the root: a source name of the form
    `Clean(D)` (without trailing separator) followed by `rel` is reported as `rel` (D absolute) -/
theorem bp_file_name (D rel : Str) (hD : isRooted D = true) : bpFileName D (trimSuffixSep (clean D) ++ rel) = rel := by
  have hr : isRooted (clean D) = true := by rw [clean_rooted D hD]; exact isRooted_render _
  have happ : ∀ a b : Str, a ≠ [] → isRooted (a ++ b) = true → isRooted a = true := by
    intro a b ha h
    cases a with
    | nil => exact absurd rfl ha
    | cons x t => simpa [isRooted] using h
  have hnd : trimSuffixSep (clean D) ≠ dot := by
    intro e
    rcases trimSuffixSep_spec (clean D) with h1 | h1
    · rw [← h1, e] at hr; exact absurd hr (by decide)
    · rw [h1, e] at hr; exact absurd hr (by decide)
  have hroot : trimSuffixSep (clean D) ≠ [] → isRooted (trimSuffixSep (clean D)) = true := by
    intro hne
    rcases trimSuffixSep_spec (clean D) with h1 | h1
    · rw [h1]; exact hr
    · rw [h1] at hr; exact happ _ _ hne hr
  unfold bpFileName trimPrefix
  simp only [hnd, if_false]
  have hb : (if trimSuffixSep (clean D) ≠ [] ∧ ¬ isRooted (trimSuffixSep (clean D)) = true ∧ isRooted (trimSuffixSep (clean D) ++ rel) = true
      then sep :: trimSuffixSep (clean D) else trimSuffixSep (clean D)) = trimSuffixSep (clean D) := by
    by_cases hne : trimSuffixSep (clean D) = []
    · simp [hne]
    · simp [hroot hne]
  rw [hb]
  have : (trimSuffixSep (clean D)).isPrefixOf (trimSuffixSep (clean D) ++ rel) = true :=
    List.isPrefixOf_iff_prefix.mpr (List.prefix_append _ _)
  simp [this]

/-- below the root "." (the working directory) the source's names carry no prefix: a relative name `rel`
    of the source is reported with the separator in front, like below any other root -/
theorem bp_file_name_dot (D rel : Str) (hd : clean D = dot) (hr : rel ≠ dot) (hrel : isRooted rel = false) :
    bpFileName D rel = sep :: rel := by
  have : trimSuffixSep dot = dot := by decide
  unfold bpFileName; simp [hd, hr, hrel, this]

/-! ### concrete instances (non-vacuity) and the boundary of the stacking law -/

def s (x : String) : Str := x.toList

example : depthOK (split (s "a/./b/../c")) 0 = true := by decide
example : realPath (s "/base/") (s "a/./b/../c") = some (s "/base/a/c") := by decide
example : bpFileName (s "/base/") (s "/base/a/c") = s "/a/c" := by decide
example : bpFileName (s "/") (s "/a/c") = s "/a/c" := by decide
example : bpFileName (s ".") (s ".hidden") = s "/.hidden" ∧ bpFileName (s "") (s "a/c") = s "/a/c" ∧
    bpFileName (s "sub") (s "/sub/d/f") = s "/d/f" ∧ bpFileName (s "rel") (s "rel/d/f") = s "/d/f" ∧ bpFileName (s ".") (s "/d/f") = s "/d/f" := by decide
example : realPath (s ".") (s "a/../b") = some (s "b") ∧ realPath (s ".") (s "../b") = none ∧ realPath (s "..") (s "../b") = none ∧
    realPath (s "..") (s "b") = some (s "../b") ∧ realPath (s "rel") (s "../rel/x") = some (s "rel/x") := by decide
/-- nested roots: the name finally seen is the joined one -/
example : (realPath (s "/a") (s "x/y")).bind (realPath (s "/r")) = realPath (s "/r/a") (s "x/y") := by decide
/-- a name that leaves its start and re-enters does *not* stay inside (`depthOK` fails), and there
    stacking and joining really differ — which is why the hypothesis is there -/
example : depthOK (split (s "../../a/a/x")) 0 = false := by decide
example : (realPath (s "/a") (s "../../a/a/x")).bind (realPath (s "/a")) = some (s "/a/a/a/x") ∧
    realPath (s "/a/a") (s "../../a/a/x") = some (s "/a/a/x") := by decide
/-- FullBaseFsPath of a nested pair = Join(outer, Join(inner, name)) -/
example : fullBasePath2 (s "/r") (s "/a/") (s "x/../y") = s "/r/a/y" := by decide

end AferoVerif.C09
