/-
  Property C03 — concurrent use of one MemMapFs never races, crashes or deadlocks.

  Proved here, for any number of goroutines and every interleaving: if every goroutine's lock
  events obey the discipline (`Typed`: `mu` only while holding nothing, one file mutex at a time,
  only held locks are released, nothing held at the end) then
    * no step is a fatal "unlock of unlocked mutex" (`no_fatal`),
    * the discipline is preserved by every step (`step_typed`),
    * whenever some goroutine is unfinished some goroutine can take its next step (`progress`):
      no deadlock.
  That the real code's lock events obey the discipline is the checked tie: every lock call of
  memmap.go and mem/file.go is instrumented mechanically and every observed trace is run through
  `typedB` (harness and Lean driver). Data races are outside what a sequentially consistent model
  can exhibit: they are sampled by a separate race-detector build.
-/
import AferoVerif.Model.Conc
namespace AferoVerif.C03
open AferoVerif.Conc

theorem typedB_iff (h : Held) (es : List Ev) : typedB h es = true ↔ Typed h es := by
  induction es generalizing h with
  | nil => simp [typedB, Typed]
  | cons e es ih =>
    simp only [typedB, Typed]
    cases hs : h.step e with
    | none => simp
    | some h' => simp [ih h']

/-- every goroutine of the pool is well typed -/
def WT (p : Pool) : Prop := ∀ t ∈ p, Typed t.held t.rest

theorem filter_pos_of_mem (p : Pool) (f : Thread → Bool) (t : Thread) (ht : t ∈ p) (hf : f t = true) :
    0 < (p.filter f).length := by
  have : t ∈ p.filter f := List.mem_filter.mpr ⟨ht, hf⟩
  exact List.length_pos_of_mem this

/-- **no fatal error.** A well-typed goroutine's next event is never a release of a lock that
    nobody holds: it holds that lock itself. -/
theorem no_fatal (p : Pool) (t : Thread) (e : Ev) (es : List Ev) (ht : t ∈ p) (hr : t.rest = e :: es)
    (hty : Typed t.held t.rest) : fatal p e = false := by
  rw [hr] at hty
  obtain ⟨h', hs, _⟩ := hty
  cases e with
  | relMuW =>
    simp only [Held.step] at hs
    by_cases hw : t.held.muW = true
    · have h0 : writers p ≠ 0 := by
        have := filter_pos_of_mem p (·.held.muW) t ht hw
        unfold writers; omega
      simp [fatal, h0]
    · simp [hw] at hs
  | relMuR =>
    simp only [Held.step] at hs
    by_cases hw : t.held.muR = true
    · have h0 : readers p ≠ 0 := by
        have := filter_pos_of_mem p (·.held.muR) t ht hw
        unfold readers; omega
      simp [fatal, h0]
    · simp [hw] at hs
  | relF o =>
    simp only [Held.step] at hs
    by_cases hw : t.held.file = some o
    · have h0 : holdsFile p o ≠ 0 := by
        have := filter_pos_of_mem p (fun x => decide (x.held.file = some o)) t ht (by simpa using hw)
        unfold holdsFile; omega
      simp [fatal, h0]
    · simp [hw] at hs
  | acqMuW => rfl
  | acqMuR => rfl
  | acqF o => rfl

/-- taking one step of a well-typed goroutine leaves it well typed -/
theorem step_typed (h h' : Held) (e : Ev) (es : List Ev) (hty : Typed h (e :: es)) (hs : h.step e = some h') :
    Typed h' es := by
  obtain ⟨h'', hs', hr⟩ := hty
  rw [hs] at hs'; injection hs' with hs'; subst hs'; exact hr

/-! ### progress -/

/-- mutual exclusion, as the lock semantics maintains it -/
def Excl (p : Pool) : Prop :=
  writers p ≤ 1 ∧ (writers p = 1 → readers p = 0) ∧ ∀ o, holdsFile p o ≤ 1

theorem held_file_next_is_release (h : Held) (e : Ev) (es : List Ev) (o : Nat) (hf : h.file = some o)
    (hty : Typed h (e :: es)) : e = .relMuW ∨ e = .relMuR ∨ e = .relF o := by
  obtain ⟨h', hs, _⟩ := hty
  cases e with
  | acqMuW =>
    simp only [Held.step] at hs
    split at hs
    · rename_i he; rw [he] at hf; simp [Held.empty] at hf
    · cases hs
  | acqMuR =>
    simp only [Held.step] at hs
    split at hs
    · rename_i he; rw [he] at hf; simp [Held.empty] at hf
    · cases hs
  | acqF o' => simp [Held.step, hf] at hs
  | relMuW => left; rfl
  | relMuR => right; left; rfl
  | relF o' =>
    right; right
    simp only [Held.step] at hs
    by_cases h1 : h.file = some o'
    · rw [hf] at h1; injection h1 with h1; rw [h1]
    · simp [h1] at hs

theorem typed_nonempty_of_held (h : Held) (es : List Ev) (hne : h ≠ Held.empty) (hty : Typed h es) : es ≠ [] := by
  intro he; subst he; exact hne hty

/-- **no deadlock.** In a well-typed pool, as long as some goroutine has events left, some
    goroutine's next event can proceed. -/
theorem progress (p : Pool) (hwt : WT p) (hun : ∃ t ∈ p, t.rest ≠ []) :
    ∃ t ∈ p, ∃ e es, t.rest = e :: es ∧ canProceed p e = true := by
  -- case 1: somebody holds a file mutex: its next event is a release
  by_cases hF : ∃ t ∈ p, ∃ o, t.held.file = some o
  · obtain ⟨t, ht, o, ho⟩ := hF
    have hty := hwt t ht
    have hne : t.rest ≠ [] := typed_nonempty_of_held _ _ (by intro h; rw [h] at ho; simp [Held.empty] at ho) hty
    obtain ⟨e, es, hr⟩ := List.exists_cons_of_ne_nil hne
    rw [hr] at hty
    rcases held_file_next_is_release _ e es o ho hty with rfl | rfl | rfl <;> exact ⟨t, ht, _, es, hr, rfl⟩
  · -- nobody holds a file mutex: every file acquire can proceed
    have hnoF : ∀ o, holdsFile p o = 0 := by
      intro o
      unfold holdsFile
      apply List.length_eq_zero_iff.mpr
      apply List.filter_eq_nil_iff.mpr
      intro t ht hc
      exact hF ⟨t, ht, o, by simpa using hc⟩
    -- case 2: somebody holds mu (write or read): its next event is a file acquire or a release
    by_cases hM : ∃ t ∈ p, t.held.muW = true ∨ t.held.muR = true
    · obtain ⟨t, ht, hm⟩ := hM
      have hty := hwt t ht
      have hne : t.rest ≠ [] := typed_nonempty_of_held _ _ (by
        intro h; rw [h] at hm; simp [Held.empty] at hm) hty
      obtain ⟨e, es, hr⟩ := List.exists_cons_of_ne_nil hne
      rw [hr] at hty
      obtain ⟨h', hs, _⟩ := hty
      refine ⟨t, ht, e, es, hr, ?_⟩
      cases e with
      | acqMuW =>
        simp only [Held.step] at hs
        split at hs
        · rename_i he; rw [he] at hm; simp [Held.empty] at hm
        · cases hs
      | acqMuR =>
        simp only [Held.step] at hs
        split at hs
        · rename_i he; rw [he] at hm; simp [Held.empty] at hm
        · cases hs
      | acqF o => simp [canProceed, hnoF o]
      | relMuW => rfl
      | relMuR => rfl
      | relF o => rfl
    · -- case 3: nobody holds anything: any next event can proceed
      obtain ⟨t, ht, hne⟩ := hun
      obtain ⟨e, es, hr⟩ := List.exists_cons_of_ne_nil hne
      refine ⟨t, ht, e, es, hr, ?_⟩
      have hW : writers p = 0 := by
        unfold writers
        apply List.length_eq_zero_iff.mpr
        apply List.filter_eq_nil_iff.mpr
        intro t' ht' hc
        exact hM ⟨t', ht', Or.inl (by simpa using hc)⟩
      have hR : readers p = 0 := by
        unfold readers
        apply List.length_eq_zero_iff.mpr
        apply List.filter_eq_nil_iff.mpr
        intro t' ht' hc
        exact hM ⟨t', ht', Or.inr (by simpa using hc)⟩
      cases e <;> simp [canProceed, hW, hR, hnoF]

/-! ### the lock skeletons of the (repaired) source obey the discipline -/

/-- `[W: … file sections …]` — Create, Remove, RemoveAll, Rename, OpenFile(O_CREATE) -/
example (fs : List Nat) : True := trivial
example : typedB {} [.acqMuW, .acqF 1, .relF 1, .acqF 2, .relF 2, .relMuW] = true := by decide
/-- Mkdir: `[R] ; [W: file sections]` -/
example : typedB {} [.acqMuR, .relMuR, .acqMuW, .acqF 1, .relF 1, .acqF 2, .relF 2, .relMuW] = true := by decide
/-- Chmod: `[R] ; [file] ; [R] ; [W: file]` -/
example : typedB {} [.acqMuR, .relMuR, .acqF 3, .relF 3, .acqMuR, .relMuR, .acqMuW, .acqF 3, .relF 3, .relMuW] = true := by decide
/-- the unrepaired Rename on its error path: read lock released, write lock taken, then the deferred
    RUnlock — leaves the discipline (and is the fatal error the check found) -/
example : typedB {} [.acqMuR, .relMuR, .acqMuW, .relMuR] = false := by decide

end AferoVerif.C03
