/-
  Property C04 — concurrent MemMapFs operations are atomic (linearizable).

  PARTIAL. Proved here: (1) operations whose whole effect lies in one critical section are
  linearizable — any interleaving of their sections under mutual exclusion *is* a sequential
  execution, in an order that respects every goroutine's program order (`conc_eq_seq`,
  `lin_program_order`); (2) every method of the repaired source has the lock shape that puts it
  in that fragment or makes it a read followed by one re-validating write section
  (`shape_single_effect`, over the table `allowedShapes`, which the harness checks against every
  observed lock trace); (3) check-then-act operations whose write section redoes the check are
  linearizable under every interleaving of their two sections (`two_phase_linearizable`), and Mkdir /
  MkdirAll of the MemMapFs model are such operations (`mkdirTP`, `mkdirAllTP`). The full statement — every call/return history of the real code is
  linearizable — is decided by exhaustive bounded schedule exploration with a linearizability
  search on the implementation (see DESIGN.md), not by a theorem.
-/
import AferoVerif.Model.Conc
import AferoVerif.Model.FsOp
namespace AferoVerif.C04
open AferoVerif.Conc

variable {S R : Type}

/-- the concurrent run: at each step the schedule names the goroutine whose next operation enters
    its critical section (a step naming a finished goroutine is skipped) -/
def runConc (s : S) (ts : List (List (AOp S R))) : List Nat → S × List (Nat × R)
  | [] => (s, [])
  | i :: sched =>
    match ts[i]? with
    | some (op :: rest) =>
      let r := op s
      let out := runConc r.1 (ts.set i rest) sched
      (out.1, (i, r.2) :: out.2)
    | _ => runConc s ts sched

/-- the order in which the critical sections were entered: the linearization -/
def lin (ts : List (List (AOp S R))) : List Nat → List (Nat × AOp S R)
  | [] => []
  | i :: sched =>
    match ts[i]? with
    | some (op :: rest) => (i, op) :: lin (ts.set i rest) sched
    | _ => lin ts sched

/-- **single-effect operations are linearizable**: the concurrent run returns exactly the results
    and the final state of running the operations one at a time in the order `lin` -/
theorem conc_eq_seq (s : S) (ts : List (List (AOp S R))) (sched : List Nat) :
    (runConc s ts sched).1 = (runSeq s ((lin ts sched).map (·.2))).1 ∧
    (runConc s ts sched).2.map (·.2) = (runSeq s ((lin ts sched).map (·.2))).2 ∧
    (runConc s ts sched).2.map (·.1) = (lin ts sched).map (·.1) := by
  induction sched generalizing s ts with
  | nil => simp [runConc, lin, runSeq]
  | cons i sched ih =>
    simp only [runConc, lin]
    cases hi : ts[i]? with
    | none => simpa using ih s ts
    | some l =>
      cases l with
      | nil => simpa using ih s ts
      | cons op rest =>
        simp only [List.map_cons, runSeq]
        obtain ⟨h1, h2, h3⟩ := ih (op s).1 (ts.set i rest)
        exact ⟨h1, by rw [h2], by rw [h3]⟩

/-- the operations of goroutine `i` appear in the linearization in program order -/
theorem lin_program_order (ts : List (List (AOp S R))) (sched : List Nat) (i : Nat) :
    ∃ rest, ((lin ts sched).filter (·.1 = i)).map (·.2) ++ rest = ts.getD i [] := by
  induction sched generalizing ts with
  | nil => exact ⟨ts.getD i [], by simp [lin]⟩
  | cons j sched ih =>
    simp only [lin]
    cases hj : ts[j]? with
    | none => exact ih ts
    | some l =>
      cases l with
      | nil => exact ih ts
      | cons op rest =>
        simp only
        obtain ⟨r, hr⟩ := ih (ts.set j rest)
        have hjlt : j < ts.length := (List.getElem?_eq_some_iff.mp hj).1
        by_cases hij : j = i
        · subst hij
          refine ⟨r, ?_⟩
          simp only [List.filter_cons, decide_true, if_true, List.map_cons, List.cons_append]
          have h1 : (ts.set j rest).getD j [] = rest := by
            simp [List.getD_eq_getElem?_getD, hjlt]
          have h2 : ts.getD j [] = op :: rest := by
            simp [List.getD_eq_getElem?_getD, hj]
          rw [h1] at hr
          rw [h2, hr]
        · refine ⟨r, ?_⟩
          have hne : ¬ (j = i) := hij
          simp only [List.filter_cons, hne, decide_false, Bool.false_eq_true, if_false]
          have h1 : (ts.set j rest).getD i [] = ts.getD i [] := by
            simp [List.getD_eq_getElem?_getD, List.getElem?_set, hij]
          rw [h1] at hr
          exact hr

/-! ### check-then-act operations: a read section that may answer early, then one re-validating
      write section (Mkdir, MkdirAll) -/

/-- an operation in two critical sections: `pre` (under the read lock) either answers at once or
    lets the call go on to `act` (under the write lock), which does the whole job again from
    scratch. `sound`: whenever `pre` answers, `act` in that same state would have given the same
    answer and changed nothing — the early answer is an atomic execution of `act` at that instant. -/
structure TwoPhase (S R : Type) where
  pre : S → Option R
  act : S → S × R
  sound : ∀ s x, pre s = some x → act s = (s, x)

/-- a goroutine: the calls still to make, and whether the first of them is past its read section -/
structure G (S R : Type) where
  ops : List (TwoPhase S R)
  inAct : Bool := false

/-- the concurrent run, one critical section per schedule entry; returns the final state, the
    results in completion order, and the calls in the order of their linearization points (the read
    section for an early answer, the write section otherwise) -/
def run2 (s : S) (gs : List (G S R)) : List Nat → S × List (Nat × R) × List (TwoPhase S R)
  | [] => (s, [], [])
  | i :: sched =>
    match gs[i]? with
    | some ⟨op :: rest, false⟩ =>
      match op.pre s with
      | some x =>                                   -- answered under the read lock
        let out := run2 s (gs.set i ⟨rest, false⟩) sched
        (out.1, (i, x) :: out.2.1, op :: out.2.2)
      | none => run2 s (gs.set i ⟨op :: rest, true⟩) sched
    | some ⟨op :: rest, true⟩ =>
      let r := op.act s                             -- the write section
      let out := run2 r.1 (gs.set i ⟨rest, false⟩) sched
      (out.1, (i, r.2) :: out.2.1, op :: out.2.2)
    | _ => run2 s gs sched

/-- **check-then-act operations are linearizable**: every interleaving of their read and write
    sections gives the final state and the results of executing the calls atomically (`act`), one at
    a time, in the order of their linearization points -/
theorem two_phase_linearizable (s : S) (gs : List (G S R)) (sched : List Nat) :
    (run2 s gs sched).1 = (runSeq s ((run2 s gs sched).2.2.map (·.act))).1 ∧
    (run2 s gs sched).2.1.map (·.2) = (runSeq s ((run2 s gs sched).2.2.map (·.act))).2 := by
  induction sched generalizing s gs with
  | nil => simp [run2, runSeq]
  | cons i sched ih =>
    unfold run2
    split
    · rename_i op rest _
      split
      · rename_i x hx
        simp only [List.map_cons, runSeq]
        rw [op.sound s x hx]
        obtain ⟨h1, h2⟩ := ih s (gs.set i ⟨rest, false⟩)
        exact ⟨h1, by rw [h2]⟩
      · exact ih s _
    · rename_i op rest _
      simp only [List.map_cons, runSeq]
      obtain ⟨h1, h2⟩ := ih (op.act s).1 (gs.set i ⟨rest, false⟩)
      exact ⟨h1, by rw [h2]⟩
    · exact ih s gs

/-- `Mkdir` as it is in memmap.go: existence check under the read lock, then under the write lock
    the check again and the creation (= the whole sequential `mkdir`) -/
def mkdirTP (k : Key) (perm : Nat) : TwoPhase MemFs MRes where
  pre m := if (m.lookup k).isSome then some (.err .exist) else none
  act m := m.mkdir k perm
  sound m x h := by
    cases hl : m.lookup k with
    | none => simp [hl] at h
    | some f =>
      simp [hl] at h
      subst h
      unfold MemFs.mkdir
      simp only [hl]

/-- `MkdirAll`: an existing name is answered (with success) under the read lock -/
def mkdirAllTP (k : Key) (perm : Nat) : TwoPhase MemFs MRes where
  pre m := if (m.lookup k).isSome then some .ok else none
  act m := m.mkdirAll k perm
  sound m x h := by
    cases hl : m.lookup k with
    | none => simp [hl] at h
    | some f =>
      simp [hl] at h
      subst h
      unfold MemFs.mkdirAll MemFs.mkdir
      simp only [hl]

/-- several goroutines calling Mkdir of one name: exactly the first linearized call succeeds -/
example : (run2 MemFs.init [⟨[mkdirTP (keyOfStr "/d".toList) 0o755], false⟩, ⟨[mkdirTP (keyOfStr "/d".toList) 0o755], false⟩]
    [0, 1, 1, 0]).2.1.map (·.2) = [.ok, .err .exist] := by decide

/-! ### the lock shapes of the repaired source -/

/-- mu-level sections of each method, as the instrumented harness observes them:
    "R" = a read-locked section, "W" = a write-locked section (file-mutex sections dropped) -/
def allowedShapes : List (String × List (List String)) :=
  [ ("create",   [["W"]]),
    ("remove",   [["W"]]),
    ("removeall",[["W"]]),
    ("rename",   [["W"]]),
    ("mkdir",    [["R"], ["R", "W"]]),
    ("mkdirall", [["R"], ["R", "W"]]),
    ("openfile", [["R"], ["W"]]),
    ("open",     [["R"]]),
    ("stat",     [["R"]]),
    ("statperm", [["R"]]),
    -- (as repaired: the metadata calls look the file up and change it in ONE write-locked section; the unchanged
    -- code found the file in a read section and changed it later, which a Rename in between made visible)
    ("chmod",    [["W"]]),
    ("chown",    [["W"]]),
    ("chtimes",  [["W"]]) ]

/-- file-mutex sections ("F") of each handle method (handle methods never touch mu): every I/O
    method does its whole read-modify-write of the shared bytes in ONE section of the file's mutex.
    `Seek` takes it only for `SeekEnd`; `Stat`, `Name`, `Sync` return without locking (the
    `FileInfo` accessors are separate calls, read by the harness without preemption). -/
def handleShapes : List (String × List (List String)) :=
  [ ("h.read",    [[], ["F"]]),      -- []: the early returns (closed / read-only handle, empty payload, bad offset)
    ("h.readat",  [[], ["F"]]),
    ("h.write",   [[], ["F"]]),
    ("h.writestring", [[], ["F"]]),
    ("h.writeat", [[], ["F"]]),
    ("h.trunc",   [[], ["F"]]),
    ("h.seek",    [[], ["F"]]),
    ("h.close",   [[], ["F"]]),
    ("h.stat",    [[]]),
    ("h.name",    [[]]),
    ("h.sync",    [[]]) ]

def shapeOK (op : String) (sh : List String) : Bool :=
  match (allowedShapes ++ handleShapes).find? (·.1 = op) with
  | some (_, shs) => shs.contains sh
  | none => false

/-- at most one write section, and nothing after it -/
def singleEffect (sh : List String) : Bool :=
  (sh.filter (· = "W")).length ≤ 1 && (sh.dropWhile (· = "R")).length ≤ 1

/-- every allowed shape has a single effect section, which comes last: reads first, then at most
    one write-locked section in which the method re-validates what it read and acts -/
theorem shape_single_effect : ∀ e ∈ allowedShapes, ∀ sh ∈ e.2, singleEffect sh = true := by decide

/-- every handle method touches the shared file state in at most one critical section: it is an
    atomic operation of the fragment `conc_eq_seq` covers (no check-then-act gap, no half-applied
    write visible between two sections) -/
theorem handle_single_section : ∀ e ∈ handleShapes, ∀ sh ∈ e.2, sh.length ≤ 1 := by decide

/-- what `shapeOK` accepts is in one of the two tables -/
theorem shapeOK_sound (op : String) (sh : List String) (h : shapeOK op sh = true) :
    ∃ e ∈ allowedShapes ++ handleShapes, e.1 = op ∧ sh ∈ e.2 := by
  unfold shapeOK at h
  split at h
  · rename_i e shs hf
    have hm := List.mem_of_find?_eq_some hf
    have he := List.find?_some hf
    exact ⟨_, hm, by simpa using he, by simpa using h⟩
  · cases h

/-! non-vacuity of the fragment theorem: two goroutines appending to a log -/
example : (runConc (S := List Nat) (R := Nat) [] [[fun s => (s ++ [1], s.length)], [fun s => (s ++ [2], s.length)]] [1, 0]).1 = [2, 1] := by decide

end AferoVerif.C04
