/-
  Property C06, the clause "a failed call leaves the view unchanged" (Proofs/CowInert.lean).

  `cowView c k` is what the union shows under a name: the overlay's entry if the overlay has one, else the base's —
  kind, bytes and mode bits (`MemFs.view`). Proved: `Stat` is a function of it; every failing call of the 20
  situations of `FailsWith` (names neither layer has — Remove, Rename, Open, Stat, Chmod, Chown, Chtimes, OpenFile
  without O_CREATE, with and without write flags, with and without the parent directory —, Remove of and Rename from a
  name only the base has, Mkdir of an existing directory, exclusive opens of an overlay name, the metadata calls and
  write-opens on a DIRECTORY only the base has — whose copy-up fails —, handle methods on unknown handles) answers
  the stated error class and leaves `cowView` as it was for every name.

  PARTIAL, and what the proof attempt found: with the MODE BITS counted in, the clause is false in three failing
  situations, stated below as theorems of their own (`failed_open_leaves_parent_dir_0777`,
  `failed_excl_open_copies_up`): the overlay gets the parent directory with mode 0777 (`layer.MkdirAll(dir, 0777)`
  runs before the open fails), or the file has already been copied up (same bytes, the overlay's default mode) when
  the exclusive open is refused. Kind and bytes — the view the implementation-side oracle compares — are unchanged in
  these cases too (`…_keeps_kind_and_bytes`). See DESIGN.md §0.5 "not treated as defects".
-/
import AferoVerif.Proofs.CowInert
namespace AferoVerif.C06
open AferoVerif AferoVerif.MemFs

/-- **Stat reads the view**: existence, kind, size and mode are a function of `cowView` alone, and Stat changes
    nothing -/
theorem stat_reads_cow_view (c : Cow) (hcl : Consistent c.s.l) (hcb : Consistent c.s.b) (p : Str) :
    (c.step (.stat p)).2 =
      (match cowView c (keyOfStr p) with
        | none => .err .notexist
        | some (.file d md) => .info (baseName (keyOfStr p)) d.length false md
        | some (.dir md) => .info (baseName (keyOfStr p)) 42 true md) ∧
    (c.step (.stat p)).1 = c :=
  cowView_stat c hcl hcb p

/-- **a failed call leaves the view unchanged** — for every situation of `FailsWith`: the call answers the stated
    error class and every name shows what it showed before (kind, bytes and mode) -/
theorem failed_calls_keep_view (c : Cow) (op : Op) (h : FailingCall c op) :
    (∃ e, FailsWith c op e ∧ (c.step op).2 = .err e) ∧ ∀ k, cowView (c.step op).1 k = cowView c k :=
  cow_failed_calls_keep_view c op h

/-- … and in all of them but the failed copy-ups both layers and the handle table are literally the same; after a
    failed copy-up the base is the same -/
theorem failed_calls_keep_state (c : Cow) (op : Op) (e : FsErr) (h : FailsWith c op e) :
    (c.step op).1 = c ∨ (e = .io ∧ (c.step op).1.s.b = c.s.b) :=
  cow_fails_with_state c op e h

/-- kind and bytes of an entry (what the implementation-side oracle of C06 compares) -/
def Node.shape : Node → Option Bytes
  | .file d _ => some d
  | .dir _ => none

/-- **where the clause fails for the mode bits (1)**: a write-open without O_CREATE of a name neither layer has, in
    a directory only the base has: the call fails with not-exist, the base is unchanged, and the ONLY change of the
    view is that the directory now shows mode 0777 (the overlay's freshly made copy) instead of the base's mode -/
theorem failed_open_leaves_parent_dir_0777 (c : Cow) (p : Str) (flag perm bd : Nat) (hcl : Consistent c.s.l)
    (hl : c.s.l.lookup (keyOfStr p) = none) (hb : c.s.b.lookup (keyOfStr p) = none)
    (hc : ¬ flag &&& O_CREATE > 0) (hm : flag &&& cowWriteMask ≠ 0)
    (hdl : c.s.l.lookup (keyOfStr (Path.dir p)) = none)
    (hbd : c.s.b.lookup (keyOfStr (Path.dir p)) = some bd) (hbdd : (c.s.b.obj bd).dir = true)
    (hpar : ParentDir c.s.l (keyOfStr (Path.dir p))) :
    (c.step (.openFile p flag perm)).2 = .err .notexist ∧ (c.step (.openFile p flag perm)).1.s.b = c.s.b ∧
    (∀ k, cowView (c.step (.openFile p flag perm)).1 k =
      if k = keyOfStr (Path.dir p) then some (.dir ((0o777 &&& chmodBits) ||| modeDir)) else cowView c k) ∧
    cowView c (keyOfStr (Path.dir p)) = some (.dir (c.s.b.obj bd).mode) :=
  openFile_absent_write_residue c p flag perm bd hcl hl hb hc hm hdl hbd hbdd hpar

theorem failed_open_keeps_kind_and_bytes (c : Cow) (p : Str) (flag perm bd : Nat) (hcl : Consistent c.s.l)
    (hl : c.s.l.lookup (keyOfStr p) = none) (hb : c.s.b.lookup (keyOfStr p) = none)
    (hc : ¬ flag &&& O_CREATE > 0) (hm : flag &&& cowWriteMask ≠ 0)
    (hdl : c.s.l.lookup (keyOfStr (Path.dir p)) = none)
    (hbd : c.s.b.lookup (keyOfStr (Path.dir p)) = some bd) (hbdd : (c.s.b.obj bd).dir = true)
    (hpar : ParentDir c.s.l (keyOfStr (Path.dir p))) (k : Key) :
    (cowView (c.step (.openFile p flag perm)).1 k).map Node.shape = (cowView c k).map Node.shape := by
  obtain ⟨_, _, h3, h4⟩ := openFile_absent_write_residue c p flag perm bd hcl hl hb hc hm hdl hbd hbdd hpar
  rw [h3 k]
  by_cases hk : k = keyOfStr (Path.dir p)
  · rw [if_pos hk, hk, h4]; rfl
  · rw [if_neg hk]

/-- **where the clause fails for the mode bits (2)**: an exclusive write-open of a regular file only the base has is
    refused with already-exists, the base is unchanged — but the file has been copied up before the refusal: the
    name shows the same bytes with the overlay's default mode instead of the base's -/
theorem failed_excl_open_copies_up (c : Cow) (p : Str) (flag perm bo : Nat) (hcl : Consistent c.s.l)
    (hl : c.s.l.lookup (keyOfStr p) = none) (hb : c.s.b.lookup (keyOfStr p) = some bo)
    (hfile : (c.s.b.obj bo).dir = false)
    (hm : flag &&& cowWriteMask ≠ 0) (hx : flag &&& O_EXCL > 0)
    (hdk : (c.s.l.lookup (keyOfStr (Path.dir p))).isSome = true) (hpar : ParentDir c.s.l (keyOfStr p)) :
    (c.step (.openFile p flag perm)).2 = .err .exist ∧ (c.step (.openFile p flag perm)).1.s.b = c.s.b ∧
    (∀ k, cowView (c.step (.openFile p flag perm)).1 k =
      if k = keyOfStr p then some (.file (c.s.b.obj bo).data modeTemporary) else cowView c k) ∧
    cowView c (keyOfStr p) = some (.file (c.s.b.obj bo).data (c.s.b.obj bo).mode) :=
  openFile_excl_base_file c p flag perm bo hcl hl hb hfile hm hx hdk hpar

theorem failed_excl_open_keeps_kind_and_bytes (c : Cow) (p : Str) (flag perm bo : Nat) (hcl : Consistent c.s.l)
    (hl : c.s.l.lookup (keyOfStr p) = none) (hb : c.s.b.lookup (keyOfStr p) = some bo)
    (hfile : (c.s.b.obj bo).dir = false)
    (hm : flag &&& cowWriteMask ≠ 0) (hx : flag &&& O_EXCL > 0)
    (hdk : (c.s.l.lookup (keyOfStr (Path.dir p))).isSome = true) (hpar : ParentDir c.s.l (keyOfStr p)) (k : Key) :
    (cowView (c.step (.openFile p flag perm)).1 k).map Node.shape = (cowView c k).map Node.shape := by
  obtain ⟨_, _, h3, h4⟩ := openFile_excl_base_file c p flag perm bo hcl hl hb hfile hm hx hdk hpar
  rw [h3 k]
  by_cases hk : k = keyOfStr p
  · rw [if_pos hk, hk, h4]; rfl
  · rw [if_neg hk]

end AferoVerif.C06
