/-
  Property C11, the Fs-level clauses — "Creating, writing at any offset, truncating, renaming and removing
  through the union reach the base as well as the cache", "after every call each file present in the cache
  layer exists in the base with identical content".

  Props/C11.lean covers the handle level (a union handle keeps both sides byte-identical) and the opens that
  hand such handles out.  Here: the mutators of CacheOnReadFs (Remove, RemoveAll, Rename, Mkdir, MkdirAll,
  Chmod, Chown, Chtimes) act on the base first and on the cache layer only after the base answered ok, and
  they preserve coherence (Proofs/CacheCoherent.lean).

  PARTIAL — outside `CoveredOp` (decided by the coherence oracle on the real code after every call and by the
  model correspondence): Chmod/Chown/Chtimes of an uncached name that is a directory in the base; Rename of a
  name that is not a cache hit, and of a directory with entries.
-/
import AferoVerif.Proofs.CacheCoherent
import AferoVerif.Generated.Facts
namespace AferoVerif.C11
open AferoVerif AferoVerif.Cache AferoVerif.MemFs

/-- **the mutators reach the base as well as the cache, the base first**: the new base is the base's own
    answer to the call; the cache layer is acted on only after the base answered ok, and then its answer is
    the call's; when the base call fails the cache layer is left as it was and the base's error is returned -/
theorem mutators_reach_base_and_cache (dur : Int) (c : Cow) (op : Op) (h : ReachingOp dur c op) :
    BaseThenLayer c (layerAtCall dur c op) (c.s.b.step op) ((layerAtCall dur c op).step (layerOp op))
      (Cache.step dur c op) :=
  mutators_reach_both dur c op h

/-- **coherence after every covered call**: if every regular file of the cache layer exists in the base with
    identical content, then so it is after Remove, RemoveAll, Chmod, Chown, Chtimes, Mkdir, MkdirAll or a
    Rename of a cached leaf through the caching filesystem — whatever the call answers -/
theorem mutators_keep_coherence (dur : Int) (c : Cow) (op : Op)
    (hco : Coherent c.s) (hb : Consistent c.s.b) (hl : Consistent c.s.l) (h : CoveredOp dur c op) :
    Coherent (Cache.step dur c op).1.s :=
  mutators_preserve_coherence dur c op hco hb hl h

/-- **… and after every call of a sequence** of such calls (`GoodRun`: covered, no copy-up needed, ordinary
    preconditions in both layers): the layers stay coherent, consistent trees -/
theorem coherent_after_every_call (dur : Int) (ops : List Op) (c : Cow) (h : Inv c) (hg : GoodRun dur c ops) :
    Coherent (runC dur c ops).s :=
  coherent_run dur ops c h hg

/-- **removing through the union removes from both layers**: the name is gone from the base AND from the
    cache layer, every other name keeps its object and every object its bytes, in both layers -/
theorem remove_reaches_base_and_cache (dur : Int) (c : Cow) (p : Str) (bf : Nat)
    (hst : cacheStatus c dur (keyOfStr p) ≠ .local_)
    (hcb : Consistent c.s.b) (hcl : Consistent c.s.l) (hb : c.s.b.lookup (keyOfStr p) = some bf) :
    Shrink (fun k' => k' = keyOfStr p) c.s.b (Cache.step dur c (.remove p)).1.s.b ∧
    Shrink (fun k' => k' = keyOfStr p) c.s.l (Cache.step dur c (.remove p)).1.s.l ∧
    (Cache.step dur c (.remove p)).2 = (c.s.l.remove (keyOfStr p)).2 :=
  remove_effect dur c p bf hst hcb hcl hb

/-- **renaming through the union renames in both layers**: the call answers ok; in the base AND in the cache
    layer the old name is gone and the new name leads to the object the old name led to -/
theorem rename_reaches_base_and_cache (dur : Int) (c : Cow) (a b : Str)
    (hst : cacheStatus c dur (keyOfStr a) = .hit) (hcb : Consistent c.s.b) (hcl : Consistent c.s.l)
    (hrb : RenameLeaf c.s.b (keyOfStr a) (keyOfStr b)) (hrl : RenameLeaf c.s.l (keyOfStr a) (keyOfStr b))
    (hne : keyOfStr a ≠ keyOfStr b) :
    ∃ bf lf, c.s.b.lookup (keyOfStr a) = some bf ∧ c.s.l.lookup (keyOfStr a) = some lf ∧
      (Cache.step dur c (.rename a b)).2 = .ok ∧
      Relinked (keyOfStr a) (keyOfStr b) bf c.s.b (Cache.step dur c (.rename a b)).1.s.b ∧
      Relinked (keyOfStr a) (keyOfStr b) lf c.s.l (Cache.step dur c (.rename a b)).1.s.l :=
  rename_effect dur c a b hst hcb hcl hrb hrl hne

end AferoVerif.C11

/-! ### tie to the source: the order of the calls into the two layers, regenerated from cacheOnReadFs.go -/

namespace AferoVerif.C11
open AferoVerif

/-- no call into the cache layer comes before a call into the base -/
def baseFirstOrder : List (String × String) → Bool
  | [] => true
  | (l, _) :: rest => if l = "layer" then rest.all (fun c => c.1 = "layer") else baseFirstOrder rest

/-- **in the current cacheOnReadFs.go every mutating method (and OpenFile, Create) calls into the base before it
    calls into the cache layer, and each of them does call into both** — the order the model (`Cache.both`,
    `bothNoCopy`, `mutators_reach_base_and_cache`) has; extracted from the source by harness/cmd/facts on every
    run (`Open` is the one method that looks at the cache layer first: that is the cache) -/
theorem cache_calls_base_first_in_source :
    ((Generated.cacheOrder.filter fun r => r.1 ≠ "Open" ∧ r.1 ≠ "Name" ∧ r.1 ≠ "Stat").all fun r =>
      baseFirstOrder r.2 && r.2.any (fun c => c.1 = "base") && r.2.any (fun c => c.1 = "layer")) = true ∧
    (Generated.cacheOrder.map (·.1)) = ["Chmod", "Chown", "Chtimes", "Create", "Mkdir", "MkdirAll", "Name", "Open", "OpenFile",
      "Remove", "RemoveAll", "Rename", "Stat"] := by decide

end AferoVerif.C11
