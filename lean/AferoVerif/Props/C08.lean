/-
  Property C08 — BasePathFs and HttpFs.Dir confine every access to their root directory.

  String level, for *all* names: whatever `RealPath` accepts lies, segment-wise, under the
  cleaned root; whatever `httpDir.Open` hands to the source does too.  The model keeps the
  computation at string level exactly as basepath.go / httpFs.go have it
  (`Clean(Join(base, name))`, then a prefix comparison on strings); the theorems are proved on
  segment lists through `Path.prefix_of_string_test`.
-/
import AferoVerif.Proofs.Path
import AferoVerif.Model.BasePathFs
import AferoVerif.Proofs.RealPathRel
import AferoVerif.Generated.Facts
namespace AferoVerif.C08
open AferoVerif AferoVerif.Path

/-- segments of the cleaned form of a rooted string -/
def segsOf (s : Str) : List Seg := cleanSegs true (split s)

theorem segsOf_normal (s : Str) : ∀ x ∈ segsOf s, Normal x :=
  cleanSegs_rooted_normal _ (split_no_sep s)

theorem clean_rooted (s : Str) (h : isRooted s = true) : clean s = render true (segsOf s) := by
  unfold clean segsOf; rw [h]

theorem isRooted_append (a b : Str) (h : isRooted a = true) : isRooted (a ++ b) = true := by
  cases a with
  | nil => simp [isRooted] at h
  | cons c cs => simpa [isRooted] using h

/-- `Join(bpath, name)` of a rooted base is rooted -/
theorem join2_rooted (a b : Str) (h : isRooted a = true) : isRooted (join2 a b) = true := by
  have ha : a ≠ [] := by intro e; simp [e, isRooted] at h
  unfold join2
  simp only [ha, if_false]
  by_cases hb : b = []
  · simp only [hb, if_true]; rw [clean_rooted a h]; exact isRooted_render _
  · simp only [hb, if_false]
    rw [clean_rooted _ (isRooted_append a _ h)]; exact isRooted_render _

/-- for an absolute base path the containment test is the prefix test on a separator boundary -/
theorem within_rooted (bpath path : Str) (hb : isRooted bpath = true) (h : withinBasePath bpath path = true) :
    path = bpath ∨ hasPrefix path (trimSuffixSep bpath ++ [sep]) = true := by
  have hd : bpath ≠ dot := by intro e; rw [e] at hb; exact absurd hb (by decide)
  unfold withinBasePath at h
  simp only [hd, if_false, Bool.decide_or, Bool.or_eq_true, decide_eq_true_eq, Bool.decide_and, Bool.and_eq_true] at h
  rcases h with h | h
  · exact Or.inl h
  · exact Or.inr h.1

/-- **C08, BasePathFs.** For every root that is absolute and *every* name string: if `RealPath`
    accepts the name, the path it hands to the underlying filesystem is a cleaned absolute
    path whose segments start with the segments of the cleaned root — so it denotes the root
    itself or something below it, never a sibling (`/basement` for `/base`) or an ancestor. -/
theorem realPath_confined (base name p : Str) (hb : isRooted base = true)
    (h : realPath base name = some p) :
    p = render true (segsOf p) ∧ (∀ x ∈ segsOf p, Normal x) ∧ segsOf base <+: segsOf p := by
  unfold realPath at h
  simp only at h
  have hbp : clean base = render true (segsOf base) := clean_rooted base hb
  have hjr : isRooted (join2 (clean base) name) = true :=
    join2_rooted _ _ (by rw [hbp]; exact isRooted_render _)
  have hp : clean (join2 (clean base) name) = render true (segsOf (join2 (clean base) name)) :=
    clean_rooted _ hjr
  split at h
  · rename_i htest
    injection h with h
    subst h
    have hq := segsOf_normal (join2 (clean base) name)
    have hd := segsOf_normal base
    have hseg : segsOf (clean (join2 (clean base) name)) = segsOf (join2 (clean base) name) := by
      rw [hp]; exact cleanSegs_split_render _ hq
    refine ⟨by rw [hseg, hp], by rw [hseg]; exact hq, ?_⟩
    rw [hseg]
    apply prefix_of_string_test _ _ hd hq
    have htest := within_rooted _ _ (by rw [hbp]; exact isRooted_render _) htest
    rw [hp] at htest
    rw [hbp] at htest
    rcases htest with h1 | h1
    · left; rw [hbp]; exact h1
    · right; rw [hbp]; exact h1
  · exact absurd h (by simp)

/-- what `RealPath` rejects is reported as not existing (`none` = os.ErrNotExist): restated
    contrapositive — an accepted name never leaves the root. -/
theorem escape_is_notexist (base name : Str) (hb : isRooted base = true)
    (hesc : ¬ segsOf base <+: segsOf (clean (join2 (clean base) name))) :
    realPath base name = none := by
  cases h : realPath base name with
  | none => rfl
  | some p =>
    have hc := realPath_confined base name p hb h
    have hp : p = clean (join2 (clean base) name) := by
      unfold realPath at h; simp only at h
      split at h
      · injection h with h; exact h.symm
      · exact absurd h (by simp)
    rw [← hp] at hesc
    exact absurd hc.2.2 hesc

/-- **C08, HttpFs.Dir.** For every root (absolute or relative) and every name: the path handed
    to the source consists of the root's cleaned segments followed by normal segments only —
    `path.Clean("/"+name)` removes every `..` before the join. -/
theorem httpDir_confined (root name : Str) (hr : root ≠ []) :
    ∃ q, (∀ x ∈ q, Normal x) ∧
      cleanSegs (isRooted root) (split (root ++ sep :: clean (sep :: name))) =
        cleanSegs (isRooted root) (split root) ++ q := by
  have hc : clean (sep :: name) = render true (segsOf (sep :: name)) := clean_rooted _ (by simp [isRooted])
  have hq := segsOf_normal (sep :: name)
  refine ⟨segsOf (sep :: name), hq, ?_⟩
  rw [split_append_sep, hc]
  have hs : split (render true (segsOf (sep :: name))) =
      [] :: (if segsOf (sep :: name) = [] then [[]] else segsOf (sep :: name)) := by
    unfold render; simp only [if_true]; rw [split_sep_cons]
    by_cases hqe : segsOf (sep :: name) = []
    · simp [hqe, joinSegs, split, splitAux]
    · simp only [hqe, if_false]; rw [split_joinSegs _ (fun x hx => (hq x hx).2.2.2) hqe]
  rw [hs]
  rw [cleanSegs_append_normal_or_empty (isRooted root) (split root) _ (by
    intro x hx
    rcases List.mem_cons.mp hx with h1 | h1
    · left; exact h1
    · by_cases hqe : segsOf (sep :: name) = []
      · simp [hqe] at h1; left; exact h1
      · simp only [hqe, if_false] at h1; right; exact hq x h1)]
  congr 1
  by_cases hqe : segsOf (sep :: name) = []
  · simp [hqe]
  · simp only [hqe, if_false, List.filter_cons]
    have : ∀ l : List Seg, (∀ x ∈ l, Normal x) → l.filter (· ≠ []) = l := by
      intro l hl
      apply List.filter_eq_self.mpr
      intro x hx; simpa using (hl x hx).1
    rw [this _ hq]
    simp

/-! ### the sibling case and non-vacuity, on concrete strings -/

def s (x : String) : Str := x.toList

/-- the `/base` vs `/basement` case: rejected -/
example : realPath (s "/base") (s "../basement/secret") = none := by decide
example : realPath (s "/base") (s "a/../../base.txt") = none := by decide
/-- and names that stay inside are accepted with the root prepended -/
example : realPath (s "/base") (s "a/./b/../c") = some (s "/base/a/c") := by decide
example : realPath (s "/base/") (s "/..//../x") = none := by decide
example : realPath (s "/") (s "../x") = some (s "/x") := by decide
example : httpPath (s "/base") (s "../../secret") = s "/base/secret" := by decide

/-- a relative root: names below it are accepted, names that climb out of it are not (see
    `realPath_confined_every_root` below) -/
example : realPath (s "..") (s "x") = some (s "../x") ∧ realPath (s "..") (s "../x") = none := by decide

/-! ### every method of the wrapper: the names that reach the source are confined -/

/-- the name arguments of a call -/
def opNames : Op → List Str
  | .create p | .mkdir p _ | .mkdirAll p _ | .open_ p | .openFile p _ _ | .remove p | .removeAll p
  | .stat p | .chmod p _ | .chown p _ _ | .chtimes p _ => [p]
  | .rename a b => [a, b]
  | _ => []

def Confined (D p : Str) : Prop :=
  p = render true (segsOf p) ∧ (∀ x ∈ segsOf p, Normal x) ∧ segsOf D <+: segsOf p

/-- whatever holds of every path `RealPath` accepts holds of every name the wrapper hands on -/
theorem single_from_realPath (D : Str) (P : Str → Prop) (hP : ∀ n q, realPath D n = some q → P q)
    (mk : Str → Op) (hmk : ∀ q, opNames (mk q) = [q])
    (p0 : Str) (op' : Op) (h : (realPath D p0).map mk = some op') : ∀ p ∈ opNames op', P p := by
  cases hr : realPath D p0 with
  | none => rw [hr] at h; cases h
  | some q =>
    rw [hr] at h
    injection h with h; subst h
    intro p hp
    rw [hmk] at hp
    simp only [List.mem_cons, List.mem_nil_iff, or_false] at hp
    subst hp
    exact hP p0 _ hr

theorem bp_names_from_realPath (D : Str) (P : Str → Prop) (hP : ∀ n q, realPath D n = some q → P q)
    (op op' : Op) (h : bpMapOp D op = some op') (hn : opNames op ≠ []) : ∀ p ∈ opNames op', P p := by
  cases op with
  | create p => exact single_from_realPath D P hP .create (fun _ => rfl) p op' h
  | mkdir p perm => exact single_from_realPath D P hP (.mkdir · perm) (fun _ => rfl) p op' h
  | mkdirAll p perm => exact single_from_realPath D P hP (.mkdirAll · perm) (fun _ => rfl) p op' h
  | open_ p => exact single_from_realPath D P hP .open_ (fun _ => rfl) p op' h
  | openFile p f perm => exact single_from_realPath D P hP (.openFile · f perm) (fun _ => rfl) p op' h
  | remove p => exact single_from_realPath D P hP .remove (fun _ => rfl) p op' h
  | removeAll p => exact single_from_realPath D P hP .removeAll (fun _ => rfl) p op' h
  | stat p => exact single_from_realPath D P hP .stat (fun _ => rfl) p op' h
  | chmod p m => exact single_from_realPath D P hP (.chmod · m) (fun _ => rfl) p op' h
  | chown p u g => exact single_from_realPath D P hP (.chown · u g) (fun _ => rfl) p op' h
  | chtimes p t => exact single_from_realPath D P hP (.chtimes · t) (fun _ => rfl) p op' h
  | rename a b =>
    simp only [bpMapOp] at h
    split at h
    · rename_i a' b' ha hb
      injection h with h; subst h
      intro p hp
      simp only [opNames, List.mem_cons, List.mem_nil_iff, or_false] at hp
      rcases hp with rfl | rfl
      · exact hP a _ ha
      · exact hP b _ hb
    · cases h
  | hRead _ _ | hReadAt _ _ _ | hWrite _ _ | hWriteAt _ _ _ | hTrunc _ _ | hSeek _ _ _ | hClose _ | hName _
  | hStat _ | hSync _ | hReaddir _ _ | hReaddirnames _ _ => exact absurd rfl hn

/-- **C08, every Fs method.** Whatever call is made on a base-path filesystem rooted at an absolute
    `D` — Create, Mkdir, MkdirAll, Open, OpenFile, Remove, RemoveAll, Stat, Chmod, Chown, Chtimes,
    both arguments of Rename — every name that is handed to the underlying filesystem is a cleaned
    absolute path whose segments extend the root's (`Confined`); and if any argument would leave
    the root the underlying filesystem is not called at all, the answer is not-exist and nothing
    changes (`bp_escape_inert`). -/
theorem bp_every_name_confined (D : Str) (hD : isRooted D = true) (op op' : Op) (h : bpMapOp D op = some op')
    (hn : opNames op ≠ []) : ∀ p ∈ opNames op', Confined D p :=
  bp_names_from_realPath D (Confined D) (fun n q hr => realPath_confined D n q hD hr) op op' h hn

/-! ### every root, relative ones included -/

/-- **C08, RealPath, all roots D** ("", ".", "rel", "./rel/", "..", "../..", "../up", "/", "/base/", …):
    a path that `RealPath` accepts is rooted iff the root is, and its cleaned segments are the root's
    cleaned segments followed by normal segments only — no `..` after the root's own (possibly leading
    `..`) elements: it denotes the root or something below it, never a sibling, an ancestor, or — for a
    root like ".." — something further up. (As repaired: the unchanged code accepted `../y` below the
    root "..", see known-findings.json.) -/
theorem realPath_confined_every_root (base name p : Str) (h : realPath base name = some p) :
    isRooted p = isRooted base ∧ ∃ rest, segsR p = segsR base ++ rest ∧ ∀ x ∈ rest, Normal x :=
  realPath_confined_all base name p h

def ConfinedR (D p : Str) : Prop :=
  isRooted p = isRooted D ∧ ∃ rest, segsR p = segsR D ++ rest ∧ ∀ x ∈ rest, Normal x

/-- **C08, every Fs method, all roots.** -/
theorem bp_every_name_confined_every_root (D : Str) (op op' : Op) (h : bpMapOp D op = some op')
    (hn : opNames op ≠ []) : ∀ p ∈ opNames op', ConfinedR D p :=
  bp_names_from_realPath D (ConfinedR D) (fun n q hr => realPath_confined_all D n q hr) op op' h hn

example : realPath (s "..") (s "../b") = none ∧ realPath (s ".") (s "a/../b") = some (s "b") ∧
    realPath (s "../up") (s "../../y") = none ∧ realPath (s "rel") (s "../rel/x") = some (s "rel/x") := by decide

theorem bp_escape_inert (src : StepFn) (D : Str) (m : MemFs) (op : Op) (h : bpMapOp D op = none) (hh : ∀ i, op ≠ .hName i) :
    bpStep src D m op = (m, .err .notexist) := by
  unfold bpStep
  cases op <;> simp_all

/-! ### tie to the source: which methods of basepath.go map which arguments through RealPath -/

/-- the number of `RealPath` calls in every exported method of `BasePathFs`, as extracted from the
    current basepath.go (harness/cmd/facts), is the number of name arguments the model maps through
    `realPath` for that method (`opNames`) — no method of the code forgets an argument that the model
    confines, and vice versa. (`Lstat`/`Readlink`/`Symlink` are not Fs methods of the model; their
    counts are stated as they are: every name argument goes through RealPath.) -/
theorem bp_methods_are_source : Generated.bpCalls =
    [("Chmod", [(opNames (.chmod [] 0)).length]), ("Chown", [(opNames (.chown [] 0 0)).length]),
     ("Chtimes", [(opNames (.chtimes [] 0)).length]), ("Create", [(opNames (.create [])).length]),
     ("LstatIfPossible", [1]), ("Mkdir", [(opNames (.mkdir [] 0)).length]),
     ("MkdirAll", [(opNames (.mkdirAll [] 0)).length]), ("Name", [0]), ("Open", [(opNames (.open_ [])).length]),
     ("OpenFile", [(opNames (.openFile [] 0 0)).length]), ("ReadlinkIfPossible", [1]), ("RealPath", [0]),
     ("Remove", [(opNames (.remove [])).length]), ("RemoveAll", [(opNames (.removeAll [])).length]),
     ("Rename", [(opNames (.rename [] [])).length]), ("Stat", [(opNames (.stat [])).length]),
     ("SymlinkIfPossible", [2])] := by decide

end AferoVerif.C08
