/-
  Property C12 — a failed or short copy to the overlay never leaves a partial file.
  For every file content, every previous layer entry, and every single fault (error, early EOF
  on a read, short write) at every call of the copy: afterwards the layer holds no entry, the
  untouched previous entry, or the complete content; and success is reported only with the
  complete content.
-/
import AferoVerif.Model.CopyFault
namespace AferoVerif.C12
open AferoVerif AferoVerif.CopyFault

/-- what the loop may hand back: the clean-up result (entry removed, failure reported), or a prefix
    of the content -/
def Good (content : Bytes) : (Bytes × Nat × List Call) ⊕ Res → Prop
  | .inr r => r.entry = none ∧ r.ok = false
  | .inl x => x.1 <+: content

theorem good_cleanup (content : Bytes) (calls : List Call) : Good content (.inr (cleanup calls)) := ⟨rfl, rfl⟩

/-- loop invariant: what has been written so far is a prefix of the content -/
theorem copyLoop_prefix (f : Option Fault) (content : Bytes) (fuel : Nat) (rest acc : Bytes) (i : Nat) (calls : List Call)
    (hinv : acc ++ rest = content) : Good content (copyLoop f fuel rest acc i calls) := by
  induction fuel generalizing rest acc i calls with
  | zero => simp only [copyLoop]; exact ⟨rest, hinv⟩
  | succ n ih =>
    simp only [copyLoop]
    have hpre : ∀ k, acc ++ (rest.take chunkSize).take k <+: content := by
      intro k
      rw [← hinv]
      refine ⟨((rest.take chunkSize).drop k) ++ rest.drop chunkSize, ?_⟩
      rw [List.append_assoc, ← List.append_assoc ((rest.take chunkSize).take k), List.take_append_drop, List.take_append_drop]
    have hfull : acc ++ rest.take chunkSize <+: content := by
      have := hpre (rest.take chunkSize).length
      rwa [List.take_length] at this
    have hcont : (acc ++ rest.take chunkSize) ++ rest.drop (rest.take chunkSize).length = content := by
      rw [← hinv, List.append_assoc]
      congr 1
      by_cases hl : rest.length ≤ chunkSize
      · rw [List.take_of_length_le hl, List.drop_length]; simp
      · have : (rest.take chunkSize).length = chunkSize := by simp; omega
        rw [this, List.take_append_drop]
    have hself : Good content (.inl (acc, i + 1, calls ++ [Call.bRead])) := ⟨rest, hinv⟩
    cases hh : hit f i with
    | some k =>
      cases k with
      | error => exact good_cleanup _ _
      | short k =>
        simp only
        split
        · exact hself
        · cases hw : hit f (i + 1) with
          | none => simp only [if_true]; exact hpre k
          | some kw =>
            cases kw with
            | error => exact good_cleanup _ _
            | short kk =>
              simp only [if_true]
              split
              · exact good_cleanup _ _
              · exact hpre k
    | none =>
      simp only
      split
      · exact hself
      · cases hw : hit f (i + 1) with
        | none =>
          simp only
          split
          · exact hfull
          · exact ih _ _ _ _ hcont
        | some kw =>
          cases kw with
          | error => exact good_cleanup _ _
          | short kk =>
            simp only
            split
            · exact good_cleanup _ _
            · split
              · exact hfull
              · exact ih _ _ _ _ hcont

theorem prefix_same_length {α} (a b : List α) (h : a <+: b) (hl : b.length = a.length) : a = b := by
  obtain ⟨r, hr⟩ := h
  have : r = [] := by
    have := congrArg List.length hr
    simp at this
    exact List.eq_nil_of_length_eq_zero (by omega)
  subst this; simpa using hr

/-- the statement of C12 for one result -/
def Safe (content : Bytes) (old : Option Bytes) (r : Res) : Prop :=
  (r.entry = none ∨ r.entry = old ∨ r.entry = some content) ∧ (r.ok = true → r.entry = some content)

theorem safe_stay (content : Bytes) (old : Option Bytes) (calls : List Call) :
    Safe content old { entry := old, ok := false, calls := calls } :=
  ⟨Or.inr (Or.inl rfl), fun h => by cases h⟩

/-- the part of `copyUp` after `layer.Create` succeeded -/
theorem after_create (content : Bytes) (old : Option Bytes) (f : Option Fault) (i : Nat) (calls : List Call) :
    let r : Res :=
      match copyLoop f (content.length / chunkSize + 2) content [] (i + 1) calls with
      | .inr r => r
      | .inl (acc, j, calls) =>
        let calls := calls ++ [.bStat]
        if hit f j = some .error ∨ content.length ≠ acc.length then cleanup calls else
        let calls := calls ++ [.lClose]
        if hit f (j + 1) = some .error then { (cleanup (calls.dropLast)) with calls := calls ++ [.lRemove, .lClose] } else
        let calls := calls ++ [.lChtimes]
        if hit f (j + 2) = some .error then { entry := some acc, ok := false, calls := calls }
        else { entry := some acc, ok := true, calls := calls }
    (r.entry = none ∨ r.entry = old ∨ r.entry = some content) ∧ (r.ok = true → r.entry = some content) := by
  have hL := copyLoop_prefix f content (content.length / chunkSize + 2) content [] (i + 1) calls (by simp)
  cases hloop : copyLoop f (content.length / chunkSize + 2) content [] (i + 1) calls with
  | inr r =>
    rw [hloop] at hL
    simp only
    exact ⟨Or.inl hL.1, fun h => by rw [hL.2] at h; cases h⟩
  | inl x =>
    obtain ⟨acc, j, calls'⟩ := x
    rw [hloop] at hL
    simp only
    have hpre : acc <+: content := hL
    by_cases h1 : hit f j = some .error ∨ content.length ≠ acc.length
    · rw [if_pos h1]; exact ⟨Or.inl rfl, fun h => by cases h⟩
    · rw [if_neg h1]
      have hlen : content.length = acc.length := by
        have := fun e => h1 (Or.inr e); exact Decidable.of_not_not this
      have hacc : acc = content := prefix_same_length acc content hpre hlen
      subst hacc
      by_cases h2 : hit f (j + 1) = some .error
      · rw [if_pos h2]; exact ⟨Or.inl rfl, fun h => by cases h⟩
      · rw [if_neg h2]
        by_cases h3 : hit f (j + 2) = some .error
        · rw [if_pos h3]; exact ⟨Or.inr (Or.inr rfl), fun h => by cases h⟩
        · rw [if_neg h3]; exact ⟨Or.inr (Or.inr rfl), fun _ => rfl⟩

/-- **C12.** Whatever the content, the previous layer entry, and the single injected fault:
    the layer afterwards holds nothing, the previous entry, or the complete content — never a
    truncated or mixed file — and a copy that reports success has left the complete content. -/
theorem copy_fault_safe (content : Bytes) (old : Option Bytes) (dirExists : Bool) (f : Option Fault) :
    let r := copyUp content old dirExists f
    (r.entry = none ∨ r.entry = old ∨ r.entry = some content) ∧ (r.ok = true → r.entry = some content) := by
  simp only
  unfold copyUp
  show Safe content old _
  have stay := safe_stay content old
  by_cases h0 : hit f 0 = some .error
  · rw [if_pos h0]; exact stay _
  · rw [if_neg h0]
    by_cases h1 : hit f 1 = some .error
    · rw [if_pos h1]; exact stay _
    · rw [if_neg h1]
      simp only
      by_cases h2 : (!dirExists) = true ∧ hit f 2 = some .error
      · rw [if_pos h2]; exact stay _
      · rw [if_neg h2]
        by_cases h3 : hit f (if (!dirExists) = true then 3 else 2) = some .error
        · rw [if_pos h3]; exact stay _
        · rw [if_neg h3]
          exact after_create content old f _ _

/-- **an incomplete copy is always an error**: success implies the layer holds the whole content -/
theorem ok_means_complete (content : Bytes) (old : Option Bytes) (d : Bool) (f : Option Fault)
    (h : (copyUp content old d f).ok = true) : (copyUp content old d f).entry = some content :=
  (copy_fault_safe content old d f).2 h

/-- without a fault the copy succeeds and is complete (for contents the fuel covers, i.e. all) -/
example : (copyUp [1, 2, 3] none false none).entry = some [1, 2, 3] ∧ (copyUp [1, 2, 3] none false none).ok = true := by decide
/-- a short write in the middle: the entry is removed and failure reported -/
example : (copyUp [1, 2, 3] (some [9]) true (some ⟨4, .short 1⟩)).entry = none ∧
    (copyUp [1, 2, 3] (some [9]) true (some ⟨4, .short 1⟩)).ok = false := by decide
/-- an early EOF on the read: size check fails, entry removed -/
example : (copyUp [1, 2, 3] none true (some ⟨3, .short 2⟩)).entry = none := by decide
/-- Create fails: the previous complete copy is untouched -/
example : (copyUp [1, 2, 3] (some [9]) true (some ⟨2, .error⟩)).entry = some [9] := by decide
/-- Chtimes fails: the copy is complete, the error is reported -/
example : (copyUp [1, 2, 3] none true (some ⟨8, .error⟩)).entry = some [1, 2, 3] ∧
    (copyUp [1, 2, 3] none true (some ⟨8, .error⟩)).ok = false ∧
    (copyUp [1, 2, 3] none true (some ⟨8, .error⟩)).calls =
      [.bOpen, .lStatDir, .lCreate, .bRead, .lWrite, .bRead, .bStat, .lClose, .lChtimes] := by decide

end AferoVerif.C12
