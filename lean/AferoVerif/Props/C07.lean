/-
  Property C07 — ReadOnlyFs never lets a mutation through and reads transparently
  (source: the MemMapFs model; every `Nat` flag value; every handle method).
-/
import AferoVerif.Proofs.ReadOnly
import AferoVerif.Generated.Facts
namespace AferoVerif.C07
open AferoVerif AferoVerif.RO

/-- run a sequence of calls through the wrapper -/
def roRun (m : MemFs) : List Op → MemFs × List MRes
  | [] => (m, [])
  | op :: ops => let (m1, r) := roStep m op; let (m2, rs) := roRun m1 ops; (m2, r :: rs)

/-- **C07 (frozen).** No sequence of calls through the read-only wrapper — any method, any
    `Nat` flag value, any method of any handle it ever returned — changes the wrapped
    filesystem's paths, bytes, modes or modification times. -/
theorem ro_frozen (m : MemFs) (ops : List Op) (hro : AllRO m) : tree (roRun m ops).1 = tree m := by
  induction ops generalizing m with
  | nil => rfl
  | cons op ops ih =>
    simp only [roRun]
    obtain ⟨h1, h2⟩ := ro_step_frozen m op hro
    rw [ih _ h2, h1]

/-- **C07 (mutators).** Every call that would create, modify, rename or delete fails with a
    permission error; so does every OpenFile whose flags request any kind of write access. -/
theorem ro_mutators_eperm (m : MemFs) (op : Op)
    (h : (∃ p, op = .create p) ∨ (∃ p q, op = .mkdir p q) ∨ (∃ p q, op = .mkdirAll p q) ∨
         (∃ p, op = .remove p) ∨ (∃ p, op = .removeAll p) ∨ (∃ a b, op = .rename a b) ∨
         (∃ p q, op = .chmod p q) ∨ (∃ p u g, op = .chown p u g) ∨ (∃ p t, op = .chtimes p t) ∨
         (∃ p f q, op = .openFile p f q ∧ f &&& roWriteMask ≠ 0)) :
    roStep m op = (m, .err .perm) := by
  rcases h with ⟨_, rfl⟩ | ⟨_, _, rfl⟩ | ⟨_, _, rfl⟩ | ⟨_, rfl⟩ | ⟨_, rfl⟩ | ⟨_, _, rfl⟩ | ⟨_, _, rfl⟩ |
    ⟨_, _, _, rfl⟩ | ⟨_, _, rfl⟩ | ⟨_, f, _, rfl, hf⟩
  all_goals first
    | rfl
    | simp [roStep, hf]

/-- **C07 (reads).** Every read — Stat, Open, a read-only OpenFile, and every handle method —
    returns exactly what the wrapped filesystem returns. -/
theorem ro_reads_transparent (m : MemFs) (op : Op)
    (h : (∃ p, op = .stat p) ∨ (∃ p, op = .open_ p) ∨ op.handle?.isSome ∨
         (∃ p f q, op = .openFile p f q ∧ f &&& roWriteMask = 0)) :
    roStep m op = m.step op := by
  rcases h with ⟨_, rfl⟩ | ⟨_, rfl⟩ | h | ⟨_, f, _, rfl, hf⟩
  · rfl
  · rfl
  · cases op <;> simp [Op.handle?] at h <;> rfl
  · simp [roStep, hf]

/-! non-vacuity: a populated source, a handle obtained with O_SYNC (no write access requested),
    written to and truncated — the source's bytes stay -/
def src0 : MemFs := (MemFs.init.step (.create "/f".toList)).1 |>.step (.hWrite 0 [1, 2, 3]) |>.1
def src1 : MemFs := { src0 with handles := [] }

example : AllRO src1 := allRO_init _ rfl
example : (roRun src1 [.openFile "/f".toList O_SYNC 0, .hWrite 0 [9], .hTrunc 0 0, .hClose 0, .stat "/f".toList]).2 =
    [.handle 0 none, .file (.n 0 (some .rohandle)), .file (.err .rohandle), .ok,
     .info "f".toList 3 false modeTemporary] := by decide

/-! ### tie to the source: constants regenerated from the Go code on every run -/

/-- the write mask of the model is the one written in `ReadOnlyFs.OpenFile` (extracted from
    readonlyfs.go by harness/cmd/facts), and MemMapFs decides "read-only handle" by the access-mode
    bits the model uses -/
theorem masks_are_source : roWriteMask = Generated.roWriteMask ∧ (O_WRONLY ||| O_RDWR) = Generated.memAccessMask := by decide

/-- the methods of readonlyfs.go whose whole body is `return syscall.EPERM` (extracted from the current
    source) are exactly the nine mutators for which `ro_mutators_eperm` is proved -/
theorem eperm_methods_are_source : Generated.roEpermMethods =
    ["Chmod", "Chown", "Chtimes", "Create", "Mkdir", "MkdirAll", "Remove", "RemoveAll", "Rename"] := by decide

end AferoVerif.C07
