/-
  Property C20 — gcsfs stores and returns object data exactly, with virtual folders.

  Model: `AferoVerif/Model/Gcs.lean` (object store with GCS semantics: atomic replacement on
  writer close, range readers, prefix/delimiter listing; `gcsFileResource`, `GcsFile`, the `Fs`
  methods — as repaired by patches 01 and 02).

  Part 1 (data).  `stepF` runs the file calls of one handle on one object (`hWrite`, `hWriteAt`,
  `hRead`, `hReadAt`, `hSeek`, `hTruncate`, `hStat`, `hClose`, and re-opening through `openCtx`, which
  is the function `Fs.OpenFile` of the model uses); `stepS` is a flat byte array (`writeS`, `readS`,
  `truncS` of property C02) with one position that a positional call loses.  `Disc` is the property's
  quantifier: position re-established by `Seek` (whence 0 or 2) after a positional call, offsets inside
  the object, shrinking truncates, a handle is re-opened only after `Close`.
  `gcs_refines_flat`: along every disciplined sequence results are equal and the invariant `Inv` holds,
  whose clauses are the property: what `Close` commits is the flat array (`close_commits`), reads
  return its bytes, sizes match, every other object is untouched (`gcs_frame`).

  Part 2 (folders), on the store: `folder_iff_prefix`, `readdir_children_once`, `remove_nonempty_fails`,
  `removeAll_*`.
-/
import AferoVerif.Proofs.GcsRemoveAll
namespace AferoVerif.C20

open AferoVerif AferoVerif.Gcs

/-! ## Part 1: object data -/

/-- the specification state: a byte array, a position (`none` = lost by a positional call) -/
structure Flat where
  data : Bytes
  pos : Option Nat := some 0
  closed : Bool := false
  flags : Nat := 2
  deriving Repr

inductive FOp where
  | write (b : Bytes)
  | writeAt (b : Bytes) (off : Int)
  | read (n : Nat)
  | readAt (n : Nat) (off : Int)
  | seek (off : Int) (wh : Nat)
  | trunc (n : Int)
  | hstat
  | close
  | reopen (flag : Nat) (fresh : Bool)   -- OpenFile on the (existing) object; `fresh`: not registered in rawGcsObjects
  deriving Repr

/-- the code: file.go / file_resource.go / the OpenFile core of fs.go -/
def stepF (c : Ctx) : FOp → Ctx × Out
  | .write b => hWrite c b
  | .writeAt b off => hWriteAt c b off
  | .read n => hRead c n
  | .readAt n off => hReadAt c n off
  | .seek off wh => hSeek c off wh
  | .trunc n => hTruncate c n
  | .hstat => ((hStat c).1, infoOut (hStat c).2)
  | .close => hClose c
  | .reopen flag fresh =>
    let q := openCtx c.s (if fresh then { name := c.r.name } else c.r) c.r.name flag c.h.rid
    match q.kind with
    | .handle => (q.c, .ok)
    | .fail e => (⟨q.c.s, q.c.r, c.h⟩, .err e)
    | .recreate => (⟨q.c.s, q.c.r, c.h⟩, .badop)

/-- the flat specification -/
def stepS (name : Name) (f : Flat) : FOp → Flat × Out
  | .write b =>
    match f.pos with
    | some p => ({ f with data := writeS f.data p b, pos := some (p + b.length) }, .n b.length none)
    | none => (f, .badop)
  | .writeAt b off => ({ f with data := writeS f.data off.toNat b, pos := none }, .n b.length none)
  | .read n =>
    match f.pos with
    | some p => ({ f with pos := some (p + (readS f.data p n).length) }, .bytes (readS f.data p n) (readErr f.data p n))
    | none => (f, .badop)
  | .readAt n off => ({ f with pos := none }, .bytes (readS f.data off.toNat n) (readErr f.data off.toNat n))
  | .seek off wh =>
    let t : Int :=
      if wh = 0 then off else if wh = 1 then ((f.pos.getD 0 : Nat) : Int) + off else (f.data.length : Int) + off
    ({ f with pos := some t.toNat }, .pos t)
  | .trunc n => ({ f with data := truncS f.data n.toNat }, .ok)
  | .hstat => (f, .info (base name) f.data.length false)
  | .close => if f.closed then (f, .err .closed) else ({ f with closed := true }, .ok)
  | .reopen flag _ =>
    ({ f with closed := false, flags := flag, pos := some (if flag &&& O_APPEND ≠ 0 then f.data.length else 0) }, .ok)

/-- the discipline of the property, evaluated on the specification state -/
def Disc (f : Flat) : FOp → Prop
  | .write _ => f.closed = false ∧ ∃ p, f.pos = some p ∧ p ≤ f.data.length
  | .writeAt _ off => f.closed = false ∧ 0 ≤ off ∧ off ≤ f.data.length
  | .read _ => f.closed = false ∧ ∃ p, f.pos = some p ∧ p ≤ f.data.length
  | .readAt _ off => f.closed = false ∧ 0 ≤ off ∧ off ≤ f.data.length
  | .seek off wh =>
    f.closed = false ∧
    ((wh = 0 ∧ 0 ≤ off ∧ off ≤ f.data.length) ∨
     (wh = 2 ∧ 0 ≤ (f.data.length : Int) + off ∧ off ≤ 0) ∨
     (wh = 1 ∧ ∃ p, f.pos = some p ∧ 0 ≤ (p : Int) + off ∧ (p : Int) + off ≤ f.data.length))
  | .trunc n => f.closed = false ∧ f.flags ≠ 0 ∧ 0 ≤ n ∧ n ≤ f.data.length
  | .hstat => True
  | .close => True
  | .reopen flag _ => f.closed = true ∧ flag &&& O_TRUNC = 0 ∧ flag &&& O_CREATE = 0

def DiscSeq (name : Name) : Flat → List FOp → Prop
  | _, [] => True
  | f, op :: ops => Disc f op ∧ DiscSeq name (stepS name f op).1 ops

def runF : Ctx → List FOp → Ctx × List Out
  | c, [] => (c, [])
  | c, op :: ops => ((runF (stepF c op).1 ops).1, (stepF c op).2 :: (runF (stepF c op).1 ops).2)

def runS (name : Name) : Flat → List FOp → Flat × List Out
  | f, [] => (f, [])
  | f, op :: ops => ((runS name (stepS name f op).1 ops).1, (stepS name f op).2 :: (runS name (stepS name f op).1 ops).2)

/-- the tie between the code's state (bucket, resource, handle) and the flat array -/
structure Inv (name : Name) (c : Ctx) (f : Flat) : Prop where
  rname : c.r.name = name
  hclosed : c.h.closed = f.closed
  hflags : c.h.flags = f.flags
  hpos : ∀ p, f.pos = some p → c.h.pos = (p : Int)
  /-- the bucket holds the object, and with the pending reader/writer taken into account the
      contents are the flat array -/
  obj : ∃ cur, get c.s (pathOf name) = some cur ∧ View c.r cur f.data
  /-- nothing is pending after Close -/
  cw : f.closed = true → c.r.writer = none

section data
variable (name : Name) (hb : bucketOf name = bkt) (hpne : pathOf name ≠ [])
include hb hpne

theorem hWriteAt_refines (c : Ctx) (f : Flat) (b : Bytes) (off : Nat) (newpos : Option Nat) (hi : Inv name c f)
    (hc : f.closed = false) (ho : off ≤ f.data.length)
    (hnp : ∀ p : Nat, newpos = some p → c.h.pos + (b.length : Int) = (p : Int)) :
    (hWriteAt c b off).2 = .n b.length none ∧
    Inv name (hWriteAt c b off).1 { f with data := writeS f.data off b, pos := newpos } ∧
    (∀ m, m ≠ pathOf name → get (hWriteAt c b off).1.s m = get c.s m) := by
  obtain ⟨cur, hg, hv⟩ := hi.obj
  have hcl : c.h.closed = false := by rw [hi.hclosed]; exact hc
  obtain ⟨hn, he, hk⟩ := resWriteAt_view c.s c.r (pathOf name) cur f.data b off (by rw [hi.rname]) hpne hg hv ho
  unfold hWriteAt
  simp only [hcl, Bool.false_eq_true, if_false, hi.rname, attrs_of_get c.s _ cur hpne hg, hn, he]
  refine ⟨trivial, ⟨?_, ?_, ?_, ?_, hk.obj, ?_⟩, hk.frame⟩
  · rw [hk.nm]; exact hi.rname
  · exact hc.symm
  · exact hi.hflags
  · intro p hp; exact hnp p hp
  · intro h; rw [hc] at h; cases h

theorem hReadAt_refines (c : Ctx) (f : Flat) (n off : Nat) (newpos : Option Nat) (hi : Inv name c f)
    (hc : f.closed = false) (ho : off ≤ f.data.length)
    (hnp : ∀ p : Nat, newpos = some p → c.h.pos + ((readS f.data off n).length : Int) = (p : Int)) :
    (hReadAt c n off).2 = .bytes (readS f.data off n) (readErr f.data off n) ∧
    Inv name (hReadAt c n off).1 { f with pos := newpos } ∧
    (∀ m, m ≠ pathOf name → get (hReadAt c n off).1.s m = get c.s m) := by
  obtain ⟨cur, hg, hv⟩ := hi.obj
  have hcl : c.h.closed = false := by rw [hi.hclosed]; exact hc
  obtain ⟨hgot, he, hk⟩ := resReadAt_view c.s c.r (pathOf name) cur f.data off n (by rw [hi.rname]; exact hb)
    (by rw [hi.rname]) hpne hg hv ho
  unfold hReadAt
  simp only [hcl, Bool.false_eq_true, if_false, hgot, he]
  refine ⟨trivial, ⟨?_, ?_, ?_, ?_, hk.obj, ?_⟩, hk.frame⟩
  · rw [hk.nm]; exact hi.rname
  · exact hc.symm
  · exact hi.hflags
  · intro p hp; exact hnp p hp
  · intro h; rw [hc] at h; cases h

/-- `Sync`: everything pending is committed; the bucket then holds the flat array itself -/
theorem sync_refines (c : Ctx) (f : Flat) (hi : Inv name c f) :
    (closeIo c.s c.r).failed = false ∧ get (closeIo c.s c.r).s (pathOf name) = some f.data ∧
    (∀ h' f', h'.closed = f'.closed → h'.flags = f'.flags → (∀ p : Nat, f'.pos = some p → h'.pos = (p : Int)) →
      f'.data = f.data → Inv name ⟨(closeIo c.s c.r).s, (closeIo c.s c.r).r, h'⟩ f') ∧
    (∀ m, m ≠ pathOf name → get (closeIo c.s c.r).s m = get c.s m) := by
  obtain ⟨cur, hg, hv⟩ := hi.obj
  have hcm := closeIo_view c.s c.r (pathOf name) cur f.data (by rw [hi.rname]) hpne hg hv
  refine ⟨hcm.ok, hcm.got, ?_, hcm.frame⟩
  intro h' f' h1 h2 h3 h4
  refine ⟨by rw [hcm.nm]; exact hi.rname, h1, h2, h3, ⟨f.data, hcm.got, ?_⟩, fun _ => hcm.w⟩
  rw [h4]
  exact View.clean hcm.w rfl (fun rem hrem => by rw [hcm.rd] at hrem; cases hrem)

theorem hStat_refines (c : Ctx) (f : Flat) (hi : Inv name c f) :
    (hStat c).2 = .ok { name := name, size := f.data.length, isDir := false } ∧
    Inv name (hStat c).1 f ∧ (∀ m, m ≠ pathOf name → get (hStat c).1.s m = get c.s m) := by
  obtain ⟨h1, h2, h3, h4⟩ := sync_refines name hb hpne c f hi
  unfold hStat
  simp only [h1, Bool.false_eq_true, if_false, hi.rname]
  exact ⟨newFileInfo_file _ name f.data hb hpne h2, h3 c.h f hi.hclosed hi.hflags hi.hpos rfl, h4⟩

omit hb hpne in
theorem hSeek_short (c : Ctx) (off : Int) (wh : Nat) (hcl : c.h.closed = false)
    (h : (wh = 0 ∧ off = c.h.pos) ∨ (wh = 1 ∧ off = 0)) : hSeek c off wh = (c, .pos c.h.pos) := by
  unfold hSeek; simp [hcl, h]

omit hb hpne in
theorem hSeek_long (c : Ctx) (off : Int) (wh : Nat) (i : Info) (hcl : c.h.closed = false)
    (h : ¬ ((wh = 0 ∧ off = c.h.pos) ∨ (wh = 1 ∧ off = 0))) (hf : (closeIo c.s c.r).failed = false)
    (hnf : newFileInfo (closeIo c.s c.r).s c.r.name = .ok i) :
    hSeek c off wh =
      (⟨(closeIo c.s c.r).s, (closeIo c.s c.r).r,
        { c.h with pos := if wh = 0 then off else if wh = 1 then c.h.pos + off else if wh = 2 then i.size + off else c.h.pos }⟩,
       .pos (if wh = 0 then off else if wh = 1 then c.h.pos + off else if wh = 2 then i.size + off else c.h.pos)) := by
  unfold hSeek; simp [hcl, h, hf, hnf]

theorem hSeek_refines (c : Ctx) (f : Flat) (off : Int) (wh : Nat) (hi : Inv name c f) (hd : Disc f (.seek off wh)) :
    (hSeek c off wh).2 = (stepS name f (.seek off wh)).2 ∧
    Inv name (hSeek c off wh).1 (stepS name f (.seek off wh)).1 ∧
    (∀ m, m ≠ pathOf name → get (hSeek c off wh).1.s m = get c.s m) := by
  obtain ⟨hc, hcase⟩ := hd
  have hcl : c.h.closed = false := by rw [hi.hclosed]; exact hc
  obtain ⟨h1, h2, h3, h4⟩ := sync_refines name hb hpne c f hi
  have hnf := newFileInfo_file _ name f.data hb hpne h2
  rw [← hi.rname] at hnf
  simp only [stepS]
  rcases hcase with ⟨hw, h0, hle⟩ | ⟨hw, h0, hle⟩ | ⟨hw, p, hp, h0, hle⟩
  · subst hw
    by_cases hs : off = c.h.pos
    · rw [hSeek_short c off 0 hcl (Or.inl ⟨rfl, hs⟩)]
      refine ⟨by simp [hs], ⟨hi.rname, hi.hclosed, hi.hflags, ?_, hi.obj, hi.cw⟩, fun _ _ => rfl⟩
      intro q hq
      simp at hq
      show c.h.pos = (q : Int)
      omega
    · rw [hSeek_long c off 0 _ hcl (by omega) h1 hnf]
      refine ⟨by simp, h3 _ _ hi.hclosed hi.hflags ?_ rfl, h4⟩
      intro q hq
      simp at hq
      show off = (q : Int)
      omega
  · subst hw
    rw [hSeek_long c off 2 _ hcl (by omega) h1 hnf]
    refine ⟨by simp, h3 _ _ hi.hclosed hi.hflags ?_ rfl, h4⟩
    intro q hq
    simp at hq
    show (f.data.length : Int) + off = (q : Int)
    omega
  · subst hw
    have hpos := hi.hpos p hp
    by_cases hs : off = 0
    · rw [hSeek_short c off 1 hcl (Or.inr ⟨rfl, hs⟩)]
      refine ⟨by simp [hp, hpos, hs], ⟨hi.rname, hi.hclosed, hi.hflags, ?_, hi.obj, hi.cw⟩, fun _ _ => rfl⟩
      intro q hq
      simp [hp] at hq
      show c.h.pos = (q : Int)
      omega
    · rw [hSeek_long c off 1 _ hcl (by omega) h1 hnf]
      refine ⟨by simp [hp, hpos], h3 _ _ hi.hclosed hi.hflags ?_ rfl, h4⟩
      intro q hq
      simp [hp] at hq
      show c.h.pos + off = (q : Int)
      omega

theorem hTruncate_refines (c : Ctx) (f : Flat) (k : Nat) (hi : Inv name c f) (hc : f.closed = false)
    (hfl : f.flags ≠ 0) (hk : k ≤ f.data.length) :
    (hTruncate c k).2 = .ok ∧ Inv name (hTruncate c k).1 { f with data := truncS f.data k } ∧
    (∀ m, m ≠ pathOf name → get (hTruncate c k).1.s m = get c.s m) := by
  obtain ⟨cur, hg, hv⟩ := hi.obj
  have hcm := closeIo_view c.s c.r (pathOf name) cur f.data (by rw [hi.rname]) hpne hg hv
  have hcl : c.h.closed = false := by rw [hi.hclosed]; exact hc
  have hf0 : ¬ (c.h.flags = 0) := by rw [hi.hflags]; exact hfl
  have hk0 : ¬ ((k : Int) < 0) := by omega
  have hpad : spaces (k - (f.data.take k).length) = [] := by
    have : k - (f.data.take k).length = 0 := by simp; omega
    rw [this]; rfl
  unfold hTruncate resTruncate
  simp only [hcl, Bool.false_eq_true, if_false, hf0, hk0, hcm.ok, hi.rname,
    rangeReader_head _ (pathOf name) f.data k hpne hcm.got, Int.toNat_natCast, putObj, hpne, hpad, List.append_nil]
  refine ⟨trivial, ⟨?_, hi.hclosed, hi.hflags, hi.hpos, ⟨f.data.take k, get_put_same _ _ _, ?_⟩, fun _ => hcm.w⟩, ?_⟩
  · show (closeIo c.s c.r).r.name = name
    rw [hcm.nm]; exact hi.rname
  · rw [truncS_inside f.data k hk]
    exact View.clean hcm.w rfl (fun rem hrem => by rw [hcm.rd] at hrem; cases hrem)
  · intro m hm
    show get (put (closeIo c.s c.r).s (pathOf name) (f.data.take k)) m = get c.s m
    rw [get_put_other _ _ _ _ hm]; exact hcm.frame m hm

theorem hClose_refines (c : Ctx) (f : Flat) (hi : Inv name c f) :
    (hClose c).2 = (stepS name f .close).2 ∧ Inv name (hClose c).1 (stepS name f .close).1 ∧
    (∀ m, m ≠ pathOf name → get (hClose c).1.s m = get c.s m) := by
  obtain ⟨h1, h2, h3, h4⟩ := sync_refines name hb hpne c f hi
  unfold hClose
  simp only [stepS]
  by_cases hc : f.closed = true
  · have hcl : c.h.closed = true := by rw [hi.hclosed]; exact hc
    simp only [hcl, hc, if_true]
    exact ⟨trivial, hi, fun _ _ => trivial⟩
  · have hcl : ¬ (c.h.closed = true) := by rw [hi.hclosed]; exact hc
    simp only [hcl, hc, if_false, h1, Bool.false_eq_true]
    exact ⟨trivial, h3 _ _ (by simp) hi.hflags hi.hpos rfl, h4⟩

/-- a new handle on the object: position 0, the (idle or left-over) resource state is a valid view -/
theorem reopen_inv (c : Ctx) (f : Flat) (flag : Nat) (fresh : Bool) (hi : Inv name c f) (hc : f.closed = true) :
    Inv name ⟨c.s, if fresh then { name := c.r.name } else c.r, { flags := flag, rid := c.h.rid }⟩
      { data := f.data, pos := some 0, closed := false, flags := flag } := by
  obtain ⟨cur, hg, hv⟩ := hi.obj
  refine ⟨?_, rfl, rfl, ?_, ⟨cur, hg, ?_⟩, fun h => by cases h⟩
  · cases fresh <;> simp [hi.rname]
  · intro p hp; simp at hp; subst hp; rfl
  · cases fresh with
    | false => exact hv
    | true =>
      simp only [if_true]
      cases hv with
      | clean hw hd hr => exact View.clean rfl hd (fun rem hrem => by cases hrem)
      | writing buf hw hr ho hcs hd => rw [hi.cw hc] at hw; cases hw

omit hb hpne in
theorem openCtx_rdonly (s : Store) (r0 : Res) (nm : Name) (rid : Nat) (i : Info)
    (hq : (hStat ⟨s, r0, { flags := 0, rid := rid }⟩).2 = .ok i) :
    openCtx s r0 nm 0 rid = ⟨(hStat ⟨s, r0, { flags := 0, rid := rid }⟩).1, .handle⟩ := by
  simp [openCtx, hq, O_TRUNC, O_APPEND, O_CREATE]

omit hb hpne in
theorem openCtx_plain (s : Store) (r0 : Res) (nm : Name) (flag rid : Nat) (hz : flag ≠ 0)
    (htr : flag &&& O_TRUNC = 0) (hcr : flag &&& O_CREATE = 0) (happ : flag &&& O_APPEND = 0) :
    openCtx s r0 nm flag rid = ⟨⟨s, r0, { flags := flag, rid := rid }⟩, .handle⟩ := by
  simp [openCtx, hz, htr, hcr, happ]

omit hb hpne in
theorem openCtx_append (s : Store) (r0 : Res) (nm : Name) (flag rid : Nat) (t : Int) (hz : flag ≠ 0)
    (htr : flag &&& O_TRUNC = 0) (hcr : flag &&& O_CREATE = 0) (happ : flag &&& O_APPEND ≠ 0)
    (hq : (hSeek ⟨s, r0, { flags := flag, rid := rid }⟩ 0 2).2 = .pos t) :
    openCtx s r0 nm flag rid = ⟨(hSeek ⟨s, r0, { flags := flag, rid := rid }⟩ 0 2).1, .handle⟩ := by
  simp [openCtx, hz, htr, hcr, happ, hq]

theorem reopen_refines (c : Ctx) (f : Flat) (flag : Nat) (fresh : Bool) (hi : Inv name c f)
    (hd : Disc f (.reopen flag fresh)) :
    (stepF c (.reopen flag fresh)).2 = .ok ∧
    Inv name (stepF c (.reopen flag fresh)).1 (stepS name f (.reopen flag fresh)).1 ∧
    (∀ m, m ≠ pathOf name → get (stepF c (.reopen flag fresh)).1.s m = get c.s m) := by
  obtain ⟨hc, htr, hcr⟩ := hd
  have h0 := reopen_inv name hb hpne c f flag fresh hi hc
  simp only [stepF, stepS]
  by_cases hz : flag = 0
  · subst hz
    obtain ⟨a1, a2, a3⟩ := hStat_refines name hb hpne _ _ h0
    rw [openCtx_rdonly _ _ _ _ _ a1]
    have happ : ¬ (0 &&& O_APPEND ≠ 0) := by simp
    simp only [happ, if_false]
    exact ⟨trivial, a2, a3⟩
  · by_cases happ : flag &&& O_APPEND = 0
    · rw [openCtx_plain _ _ _ _ _ hz htr hcr happ]
      have happ' : ¬ (flag &&& O_APPEND ≠ 0) := by simp [happ]
      simp only [happ', if_false]
      exact ⟨trivial, h0, fun _ _ => trivial⟩
    · have hds : Disc { data := f.data, pos := some 0, closed := false, flags := flag } (.seek 0 2) :=
        ⟨rfl, Or.inr (Or.inl ⟨rfl, by omega, by omega⟩)⟩
      obtain ⟨a1, a2, a3⟩ := hSeek_refines name hb hpne _ _ 0 2 h0 hds
      simp only [stepS] at a1 a2
      rw [openCtx_append _ _ _ _ _ _ hz htr hcr happ a1]
      have happ' : (flag &&& O_APPEND ≠ 0) := happ
      simp only [happ', if_true]
      refine ⟨trivial, ?_, a3⟩
      have e : ((f.data.length : Int) + 0).toNat = f.data.length := by omega
      simpa [e, happ] using a2

/-- one call: the code and the flat array agree on the result, the tie is kept, nothing else moves -/
theorem step_refines (c : Ctx) (f : Flat) (op : FOp) (hi : Inv name c f) (hd : Disc f op) :
    (stepF c op).2 = (stepS name f op).2 ∧ Inv name (stepF c op).1 (stepS name f op).1 ∧
    (∀ m, m ≠ pathOf name → get (stepF c op).1.s m = get c.s m) := by
  cases op with
  | write b =>
    obtain ⟨hc, p, hp, hle⟩ := hd
    have hpos := hi.hpos p hp
    simp only [stepF, stepS, hp, hWrite, hpos]
    exact hWriteAt_refines name hb hpne c f b p (some (p + b.length)) hi hc hle
      (fun q hq => by simp at hq; omega)
  | writeAt b off =>
    obtain ⟨hc, h0, hle⟩ := hd
    obtain ⟨k, rfl⟩ : ∃ k : Nat, off = k := ⟨off.toNat, by omega⟩
    simp only [stepF, stepS, Int.toNat_natCast]
    exact hWriteAt_refines name hb hpne c f b k none hi hc (by omega) (fun q hq => by cases hq)
  | read n =>
    obtain ⟨hc, p, hp, hle⟩ := hd
    have hpos := hi.hpos p hp
    simp only [stepF, stepS, hp, hRead, hpos]
    exact hReadAt_refines name hb hpne c f n p (some (p + (readS f.data p n).length)) hi hc hle
      (fun q hq => by simp at hq; omega)
  | readAt n off =>
    obtain ⟨hc, h0, hle⟩ := hd
    obtain ⟨k, rfl⟩ : ∃ k : Nat, off = k := ⟨off.toNat, by omega⟩
    simp only [stepF, stepS, Int.toNat_natCast]
    exact hReadAt_refines name hb hpne c f n k none hi hc (by omega) (fun q hq => by cases hq)
  | seek off wh => exact hSeek_refines name hb hpne c f off wh hi hd
  | trunc n =>
    obtain ⟨hc, hfl, h0, hle⟩ := hd
    obtain ⟨k, rfl⟩ : ∃ k : Nat, n = k := ⟨n.toNat, by omega⟩
    simp only [stepF, stepS, Int.toNat_natCast]
    exact hTruncate_refines name hb hpne c f k hi hc hfl (by omega)
  | hstat =>
    obtain ⟨a1, a2, a3⟩ := hStat_refines name hb hpne c f hi
    simp only [stepF, stepS, a1, infoOut]
    exact ⟨trivial, a2, a3⟩
  | close => exact hClose_refines name hb hpne c f hi
  | reopen flag fresh =>
    obtain ⟨a1, a2, a3⟩ := reopen_refines name hb hpne c f flag fresh hi hd
    exact ⟨by rw [a1]; rfl, a2, a3⟩

/-- **gcs_refines_flat.**  For every sequence of file calls inside the discipline (sequential
    and positional writes and reads at offsets inside the object, seeks, shrinking truncates, closes
    and re-opens), every result of the code equals the flat array's result, and the tie `Inv` holds
    at the end — in particular (`close_commits`) what the bucket holds after `Close` is the flat array. -/
theorem gcs_refines_flat (ops : List FOp) : ∀ (c : Ctx) (f : Flat), Inv name c f → DiscSeq name f ops →
    (runF c ops).2 = (runS name f ops).2 ∧ Inv name (runF c ops).1 (runS name f ops).1 := by
  induction ops with
  | nil => intro c f hi _; exact ⟨rfl, hi⟩
  | cons op ops ih =>
    intro c f hi hd
    obtain ⟨h1, h2, _⟩ := step_refines name hb hpne c f op hi hd.1
    obtain ⟨i1, i2⟩ := ih _ _ h2 hd.2
    exact ⟨by simp only [runF, runS, h1, i1], i2⟩

/-- every other object of the bucket is untouched by any disciplined sequence -/
theorem gcs_frame (ops : List FOp) : ∀ (c : Ctx) (f : Flat), Inv name c f → DiscSeq name f ops →
    ∀ m, m ≠ pathOf name → get (runF c ops).1.s m = get c.s m := by
  induction ops with
  | nil => intro c f _ _ m _; rfl
  | cons op ops ih =>
    intro c f hi hd m hm
    obtain ⟨_, h2, h3⟩ := step_refines name hb hpne c f op hi hd.1
    simp only [runF]
    rw [ih _ _ h2 hd.2 m hm, h3 m hm]

omit hb hpne in
/-- after `Close` the bucket holds exactly the flat array (nothing pending) -/
theorem close_commits (c : Ctx) (f : Flat) (hi : Inv name c f) (hc : f.closed = true) :
    get c.s (pathOf name) = some f.data := by
  obtain ⟨cur, hg, hv⟩ := hi.obj
  cases hv with
  | clean hw hd hr => rw [hd]; exact hg
  | writing buf hw hr ho hcs hd => rw [hi.cw hc] at hw; cases hw

omit hb hpne in
/-- a handle freshly opened on an existing object (not registered in `rawGcsObjects`) starts tied to
    the object's bytes at position 0 -/
theorem open_inv (s : Store) (cur : Bytes) (flag rid : Nat) (hg : get s (pathOf name) = some cur) :
    Inv name ⟨s, { name := name }, { flags := flag, rid := rid }⟩ { data := cur, pos := some 0, flags := flag } :=
  ⟨rfl, rfl, rfl, fun p hp => by simp at hp; subst hp; rfl,
   ⟨cur, hg, View.clean rfl rfl (fun rem hrem => by cases hrem)⟩, fun h => by cases h⟩

omit hb in
/-- `Fs.Create` commits an empty object and hands out a handle tied to the empty array -/
theorem create_inv (s : Store) (rid : Nat) :
    Inv name ⟨put s (pathOf name) [], { name := name }, { flags := 2 + O_CREATE + O_TRUNC, rid := rid }⟩
      { data := [], pos := some 0, flags := 2 + O_CREATE + O_TRUNC } :=
  open_inv name (put s (pathOf name) []) [] _ rid (get_put_same _ _ _)

end data

/-! ## Part 2: virtual folders (on the store) -/

/-- prefix-free names, as far as the code depends on it (see `Gcs.PrefixOK`): an object name that
    starts with the path `p` is `p` itself or continues with a separator (`d` vs `dog` is excluded) -/
abbrev PrefixOK := Gcs.PrefixOK

/-- **folder_iff_prefix.**  A name is a folder exactly when it is no object itself and objects exist
    under it.  (`Stat` of an object: `Gcs.stat_file`, size = the object's length; of nothing:
    `Gcs.stat_missing`.) -/
theorem folder_iff_prefix (s : Store) (d : Name) (hd : d ≠ []) (hfree : PrefixOK s d) :
    (∃ i, newFileInfo s (fsName d) = .ok i ∧ i.isDir = true) ↔
      (get s d = none ∧ ∃ o ∈ s, (d ++ [sep]) <+: o.1) :=
  folder_iff_prefix' s d hd hfree

/-- **readdir_children_once.**  Listing folder `d` returns its immediate children — the first path
    segment after `d/` of every object under it, marked as a folder when more follows — each once. -/
theorem readdir_children_once (s : Store) (d : Name) (hd : d ≠ []) (hl : d.getLast? ≠ some sep)
    (lay : Layout s (d ++ [sep])) (l : List Info) (hg : get s d = none) (hex : ∃ o ∈ s, d <+: o.1)
    (h : readdirS s (fsName d) = .ok l) :
    (l.map fun i => base i.name).Nodup ∧
    ∀ c dir, (c, dir) ∈ l.map (fun i => (base i.name, i.isDir)) ↔
      ∃ o ∈ s, ∃ rest, o.1 = d ++ [sep] ++ rest ∧ rest ≠ [] ∧
        c = rest.takeWhile (· != sep) ∧ dir = rest.contains sep :=
  readdir_children_once' s d hd hl lay l hg hex h

/-- **remove_nonempty_fails.**  `Remove` of a folder with at least one object under it (other than
    its own placeholder) fails with ENOTEMPTY and leaves the bucket alone. -/
theorem remove_nonempty_fails (s : Store) (d : Name) (hd : d ≠ []) (hl : d.getLast? ≠ some sep)
    (lay : Layout s (d ++ [sep])) (hg : get s d = none)
    (o : Name × Bytes) (ho : o ∈ s) (rest : Name) (h1 : o.1 = d ++ [sep] ++ rest) (hr : rest ≠ []) :
    removeS s (fsName d) = (s, some .notempty) :=
  remove_nonempty_fails' s d hd hl lay hg o ho rest h1 hr

/-- `RemoveAll` of a name that does not exist: success, nothing changes -/
theorem removeAll_absent (fuel : Nat) (s : Store) (d : Name) (hd : d ≠ []) (hg : get s d = none)
    (hno : ¬ ∃ o ∈ s, d <+: o.1) : removeAllS (fuel + 1) s (fsName d) = (s, none) := by
  simp [removeAllS, stat_missing s d hd hg hno]

/-- `RemoveAll` of an object removes exactly that object -/
theorem removeAll_file (fuel : Nat) (s : Store) (d : Name) (cur : Bytes) (hd : d ≠ []) (hg : get s d = some cur) :
    removeAllS (fuel + 1) s (fsName d) = (del s d, none) := by
  simp [removeAllS, stat_file s d cur hd hg, remove_file s d cur hd hg]

/-- `Rename` of an object: the new name holds the bytes, the old name is gone, nothing else moves -/
theorem rename_moves (s : Store) (a b : Name) (v : Bytes) (ha : a ≠ []) (hb : b ≠ []) (hab : a ≠ b)
    (hg : get s a = some v) :
    (renameS s (fsName a) (fsName b)).2 = none ∧
    get (renameS s (fsName a) (fsName b)).1 b = some v ∧
    get (renameS s (fsName a) (fsName b)).1 a = none ∧
    ∀ m, m ≠ a → m ≠ b → get (renameS s (fsName a) (fsName b)).1 m = get s m := by
  have hga : get (put s b v) a = some v := by rw [get_put_other _ _ _ _ hab]; exact hg
  have hr : renameS s (fsName a) (fsName b) = (del (put s b v) a, none) := by
    simp [renameS, bucketErr_fsName, pathOf_fsName, ha, hb, hg, putObj, delObj, hga]
  rw [hr]
  refine ⟨rfl, ?_, get_del_same _ _, ?_⟩
  · rw [get_del_other _ _ _ (Ne.symm hab)]; exact get_put_same _ _ _
  · intro m h1 h2
    rw [get_del_other _ _ _ h1, get_put_other _ _ _ _ h2]

/-- `Mkdir(bkt/d)` creates the placeholder object `d/` (an explicit folder) -/
theorem mkdir_placeholder (s : Store) (d : Name) (hd : d ≠ []) (hl : d.getLast? ≠ some sep)
    (hnb : '\\' ∉ d) :
    mkdirS s (fsName d) = (put s (d ++ [sep]) [], none) := by
  have hnorm : normSeps (fsName d) = fsName d := by
    unfold normSeps
    conv => rhs; rw [← List.map_id (fsName d)]
    apply List.map_congr_left
    intro c hc
    have : c ≠ '\\' := by
      intro e; subst e
      simp [fsName, bkt, sep] at hc
      exact hnb hc
    simp [this]
  have h1 : ensureNoPrefix (fsName d) = fsName d := by simp [ensureNoPrefix, gsPrefix, fsName, bkt, List.isPrefixOf]
  have h2 : normDir (fsName d) = fsName (d ++ [sep]) := by
    unfold normDir
    rw [h1, hnorm, ensureTrailing_fsName d hl hd]
    simp [ensureNoLeading, fsName, bkt, sep]
  unfold mkdirS
  simp [h2, bucketOf_fsName, pathOf_fsName, bucketErr_fsName, putObj, bkt]
  simp [fsName, bkt]

/-- **removeAll_exact.**  On a bucket whose layout is a `Tree` (unique, prefix-free, clash-free names),
    `RemoveAll(bkt/d)` run with enough fuel succeeds and leaves exactly the objects that are neither `d`
    nor under `d/` — explicit and implicit folders, any depth. -/
theorem removeAll_exact (S : Store) (T : Tree S) (d : Name) (hd : d ≠ []) (hl : d.getLast? ≠ some sep)
    (hal : PrefixOK S d) (fuel : Nat) (hf : ∀ o ∈ S, o.1.length < d.length + fuel) (hf1 : 0 < fuel) :
    removeAllS fuel S (fsName d) = (S.filter (fun o => !under d o), none) := by
  by_cases hex : ∃ o ∈ S, under d o = true
  · exact remAll_all S T fuel S d (List.Sublist.refl S) hd hl hal hex (fun o ho _ => hf o ho)
  · have hnone : ∀ o ∈ S, under d o = false := by
      intro o ho
      cases h : under d o with
      | false => rfl
      | true => exact absurd ⟨o, ho, h⟩ hex
    have hg : get S d = none := by
      rw [get_none_iff]
      intro o ho he
      have := hnone o ho
      rw [(under_iff d o).mpr (Or.inl he)] at this; cases this
    have hno : ¬ ∃ o ∈ S, d <+: o.1 := by
      rintro ⟨o, ho, hp⟩
      have := hnone o ho
      rw [(under_iff d o).mpr (hal o ho hp)] at this; cases this
    obtain ⟨n, rfl⟩ : ∃ n, fuel = n + 1 := ⟨fuel - 1, by omega⟩
    rw [removeAll_absent n S d hd hg hno]
    congr 1
    symm
    rw [List.filter_eq_self]
    intro o ho
    simp [hnone o ho]

/-- the same with the fuel `Fs.RemoveAll` is given in the model (`step (.removeAll p)`) -/
theorem removeAll_exact_model (S : Store) (T : Tree S) (d : Name) (hd : d ≠ []) (hl : d.getLast? ≠ some sep)
    (hal : PrefixOK S d) :
    removeAllS (storeFuel S + (fsName d).length) S (fsName d) = (S.filter (fun o => !under d o), none) := by
  refine removeAll_exact S T d hd hl hal _ ?_ ?_
  · intro o ho
    have := storeFuel_bound S o ho
    omega
  · have : 2 ≤ storeFuel S := (foldl_add_ge _ 2).1
    omega

/-- membership form: what survives `RemoveAll(bkt/d)` is exactly what is not in the subtree -/
theorem removeAll_exact_mem (S : Store) (T : Tree S) (d : Name) (hd : d ≠ []) (hl : d.getLast? ≠ some sep)
    (hal : PrefixOK S d) (o : Name × Bytes) :
    o ∈ (removeAllS (storeFuel S + (fsName d).length) S (fsName d)).1 ↔
      o ∈ S ∧ o.1 ≠ d ∧ ¬ (d ++ [sep]) <+: o.1 := by
  rw [removeAll_exact_model S T d hd hl hal, List.mem_filter]
  simp only [Bool.not_eq_true']
  constructor
  · rintro ⟨ho, hu⟩
    refine ⟨ho, fun he => ?_, fun hp => ?_⟩
    · rw [(under_iff d o).mpr (Or.inl he)] at hu; cases hu
    · rw [(under_iff d o).mpr (Or.inr hp)] at hu; cases hu
  · rintro ⟨ho, h1, h2⟩
    refine ⟨ho, ?_⟩
    cases h : under d o with
    | false => rfl
    | true => rcases (under_iff d o).mp h with h | h
              · exact absurd h h1
              · exact absurd h h2

/-! ## The hypotheses are satisfiable: concrete states -/

section examples

/-- a bucket with an explicit folder `d`, an implicit folder `d/e`, a child named like its folder
    (`d/d`, the S23 situation) and an unrelated object -/
def S0 : Store :=
  [("d/e/y".toList, [1]), ("d/d".toList, [2, 3]), ("d/".toList, []), ("d/x".toList, [4]), ("z".toList, [5, 6, 7])]

example : Tree S0 := tree_of_check S0 (by decide)

/-- … so `RemoveAll(bkt/d)` leaves exactly `z` (theorem `removeAll_exact_model`; here by evaluation) -/
example : (removeAllS (storeFuel S0 + (fsName "d".toList).length) S0 (fsName "d".toList)) = ([("z".toList, [5, 6, 7])], none) := by
  decide

example : PrefixOK S0 "d".toList := by
  intro o ho hp
  have : ∀ o ∈ S0, "d".toList <+: o.1 → o.1 = "d".toList ∨ ("d".toList ++ [sep]) <+: o.1 := by decide
  exact this o ho hp

/-- the listing of `d` holds `d`, `e/`, `x` once each (theorem `readdir_children_once`; here by evaluation) -/
example : (readdirS S0 (fsName "d".toList)).toOption.map (fun l => l.map fun i => (String.ofList (base i.name), i.isDir)) =
    some [("d", false), ("x", false), ("e", true)] := by decide

example : removeS S0 (fsName "d".toList) = (S0, some .notempty) := by decide

/-- a disciplined run on the 3-byte object `z`: write inside, positional write, re-established position,
    shrinking truncate, close, re-open, read -/
def ops0 : List FOp :=
  [.seek 1 0, .write [9], .writeAt [8] 0, .seek 0 2, .write [7, 7], .trunc 4, .close, .reopen 0 false, .read 10]

def c0 : Ctx := ⟨S0, { name := fsName "z".toList }, { flags := 2 }⟩
def f0 : Flat := { data := [5, 6, 7] }

example : Inv (fsName "z".toList) c0 f0 :=
  open_inv (fsName "z".toList) S0 [5, 6, 7] 2 0 (by decide)

example : DiscSeq (fsName "z".toList) f0 ops0 := by
  refine ⟨⟨rfl, Or.inl ⟨rfl, by decide, by decide⟩⟩, ⟨rfl, 1, rfl, by decide⟩, ⟨rfl, by decide, by decide⟩,
    ⟨rfl, Or.inr (Or.inl ⟨rfl, by decide, by decide⟩)⟩, ⟨rfl, 3, rfl, by decide⟩,
    ⟨rfl, by decide, by decide, by decide⟩, trivial, ⟨rfl, by decide, by decide⟩, ⟨rfl, 0, rfl, by decide⟩, trivial⟩

/-- … and what the code does on it: the bucket ends up holding `[8, 9, 7, 7]`, the re-read returns it -/
example : get (runF c0 ops0).1.s "z".toList = some [8, 9, 7, 7] ∧
    (runF c0 ops0).2.getLast? = some (.bytes [8, 9, 7, 7] none) := by decide

end examples

end AferoVerif.C20
