/-
  Property C15 — IOFS satisfies the io/fs contracts; FromIOFS is a faithful read-only view.

  Proved here, over the models of iofs.go (Model/IOFS.lean) and of MemMapFs, for all names,
  states, page-size sequences, offsets and lengths:
    * `validPath_iff`            fs.ValidPath characterised by UTF-8 validity and path elements
    * `invalid_path_rejected`    Open and ReadFile of IOFS (and Open/OpenFile of FromIOFS over it) answer
                                 an invalid name with ErrInvalid and leave the state exactly as it was;
                                 `unvalidated_entry_points` records that ReadDir, Stat and Sub pass
                                 their argument on as it is (afero's tests rely on that)
    * `glob_guarded`             a malformed pattern is reported before anything is looked at
    * `readDir_sorted`           IOFS.ReadDir = the directory's entries, sorted by name
    * `readDir_pages`            pages of File.ReadDir(n) are consecutive slices of the listing, never
                                 longer than asked, EOF exactly when a positive count finds nothing left
    * `readFile_eq`, `read_seek_readAt_agree`   ReadFile returns the flat bytes; ReadAt and
                                 Seek+Read return the same slice of them
    * `sub_is_basepath`, `sub_eq_generic`       Sub(dir) is BasePathFs at dir = the generic "prefix dir/"
    * `fromIofs_mutators_perm`, `fromIofs_inert`, `fromIofs_reads_same`
  The rest of the io/fs contract (everything testing/fstest checks beyond these clauses, Glob
  proper, the wrappers RegexpFs and CopyOnWriteFs below IOFS) is decided by the harness oracle.
-/
import AferoVerif.Model.IOFS
import AferoVerif.Proofs.Path
import AferoVerif.Proofs.MemFile
import AferoVerif.Proofs.ReadOnly
import AferoVerif.Props.C06
namespace AferoVerif.C15
open AferoVerif AferoVerif.Path AferoVerif.RO

/-! ### fs.ValidPath -/

theorem validAux_eq (s : Str) (cur : Seg) : validAux s cur = (splitAux s cur).all okElem := by
  induction s generalizing cur with
  | nil => simp [validAux, splitAux]
  | cons c cs ih =>
    simp only [validAux, splitAux]
    by_cases hc : c = sep
    · simp [hc, ih]
    · simp [hc, ih]

theorem okElem_iff (e : Seg) : okElem e = true ↔ e ≠ [] ∧ e ≠ dot ∧ e ≠ dotdot := by
  simp [okElem, and_assoc]

/-- **ValidPath by elements**: a name is valid iff it is valid UTF-8 and either is "." or
    consists of '/'-separated elements none of which is "", "." or ".." -/
theorem validPath_iff (s : Str) :
    validPath s = true ↔
      validUTF8 s = true ∧ (s = dot ∨ ∀ e ∈ split s, e ≠ [] ∧ e ≠ dot ∧ e ≠ dotdot) := by
  unfold validPath
  by_cases hu : validUTF8 s = true
  · simp only [hu, Bool.not_true, Bool.false_eq_true, if_false, true_and]
    by_cases hd : s = dot
    · simp [hd]
    · simp only [hd, if_false, false_or]
      rw [validAux_eq]
      simp only [split, List.all_eq_true, okElem_iff]
  · simp [hu]

theorem validPath_elems (s : Str) (h : validPath s = true) (hd : s ≠ dot) :
    ∀ e ∈ split s, e ≠ [] ∧ e ≠ dot ∧ e ≠ dotdot := by
  rcases ((validPath_iff s).mp h).2 with h1 | h1
  · exact absurd h1 hd
  · exact h1

/-- the empty name is invalid -/
theorem validPath_empty : validPath [] = false := by decide

/-- a name with a leading slash is invalid -/
theorem validPath_leading_slash (s : Str) : validPath (sep :: s) = false := by
  cases h : validPath (sep :: s) with
  | false => rfl
  | true =>
    have hd : sep :: s ≠ dot := by simp [dot, sep]
    have := validPath_elems _ h hd [] (by rw [split_sep_cons]; simp)
    exact absurd rfl this.1

/-- a name with a trailing slash is invalid -/
theorem validPath_trailing_slash (s : Str) : validPath (s ++ [sep]) = false := by
  cases h : validPath (s ++ [sep]) with
  | false => rfl
  | true =>
    have hd : s ++ [sep] ≠ dot := by
      intro e
      have := congrArg List.getLast? e
      simp [dot, sep] at this
    have := validPath_elems _ h hd [] (by
      rw [split_append_sep]; simp [split, splitAux])
    exact absurd rfl this.1

/-- a name with an empty, "." or ".." element anywhere is invalid (unless it is "." itself) -/
theorem validPath_bad_elem (s : Str) (e : Seg) (he : e ∈ split s) (hb : e = [] ∨ e = dot ∨ e = dotdot)
    (hd : s ≠ dot) : validPath s = false := by
  cases h : validPath s with
  | false => rfl
  | true =>
    have := validPath_elems _ h hd e he
    rcases hb with hb | hb | hb
    · exact absurd hb this.1
    · exact absurd hb this.2.1
    · exact absurd hb this.2.2

/-! ### invalid names are rejected by every entry point, and nothing is touched -/

/-- **invalid_path_rejected.** For every source, every state and every name that io/fs calls
    invalid: Open and ReadFile of IOFS — the two entry points that validate, and the two that
    testing/fstest probes with malformed names — and Open and OpenFile of FromIOFS over it answer
    ErrInvalid; the state is returned exactly as it was (the source is not even consulted). -/
theorem invalid_path_rejected (src : StepFn) (m : MemFs) (name : Str) (h : validPath name = false) :
    IOFS.open_ src m name = (m, .err .inval) ∧
    IOFS.readFile src m name = (m, .err .inval) ∧
    fromStepM src m (.open_ name) = (m, .err .inval) ∧
    (∀ flag perm, fromStepM src m (.openFile name flag perm) = (m, .err .inval)) := by
  simp [IOFS.open_, IOFS.readFile, fromStepM, h]

/-- a valid name reaches the source unchanged -/
theorem valid_path_forwarded (src : StepFn) (m : MemFs) (name : Str) (h : validPath name = true) :
    IOFS.open_ src m name = src m (.open_ name) := by
  simp [IOFS.open_, h]

/-- ReadDir, Stat and Sub do *not* validate: whatever the name, the source is asked (so, over
    MemMapFs, "a/" or "" are answered like "a" and the root).  afero's own test suite walks an
    IOFS from the root "" and pins this; the io/fs conformance test does not probe these entry
    points with malformed names. -/
theorem unvalidated_entry_points (src : StepFn) (m : MemFs) (name : Str) :
    IOFS.stat src m name = src m (.stat name) ∧
    IOFS.sub src name = (if name = dot then src else bpStep src name) := ⟨rfl, rfl⟩

/-- **glob_guarded.** A pattern `path.Match` calls malformed is reported as such, whatever the
    file system holds, and nothing is looked at. -/
theorem glob_guarded (src : StepFn) (m : MemFs) (p : Str) (h : badPattern p = true) :
    IOFS.glob src m p = (m, .bad) := by
  simp [IOFS.glob, h]

/-- a well-formed pattern without wildcards is one existence test (`Lstat`) -/
theorem glob_plain (src : StepFn) (m : MemFs) (p : Str) (h : badPattern p = false) (hm : hasMeta p = false) :
    (IOFS.glob src m p).2 = .names [p] ∨ (IOFS.glob src m p).2 = .names [] := by
  simp only [IOFS.glob, h, hm, Bool.false_eq_true, if_false, Bool.not_false, if_true]
  split
  · left; rfl
  · right; rfl

/-! ### IOFS.ReadDir: exactly the directory's entries, sorted by name -/

theorem strLe_total (a b : Str) : (strLe a b || strLe b a) = true := by
  induction a generalizing b with
  | nil => simp [strLe]
  | cons x xs ih =>
    cases b with
    | nil => simp [strLe]
    | cons y ys =>
      simp only [strLe]
      by_cases h1 : x.toNat < y.toNat
      · simp [h1]
      · by_cases h2 : y.toNat < x.toNat
        · simp [h2, h1]
        · have : ¬ x.toNat > y.toNat := by omega
          have h2' : ¬ y.toNat > x.toNat := by omega
          simp only [h1, this, h2, h2', if_false]
          exact ih ys

theorem strLe_trans (a b c : Str) (h1 : strLe a b = true) (h2 : strLe b c = true) : strLe a c = true := by
  induction a generalizing b c with
  | nil => simp [strLe]
  | cons x xs ih =>
    cases b with
    | nil => simp [strLe] at h1
    | cons y ys =>
      cases c with
      | nil => simp [strLe] at h2
      | cons z zs =>
        simp only [strLe] at h1 h2 ⊢
        by_cases hxy : x.toNat < y.toNat
        · by_cases hyz : y.toNat < z.toNat
          · have : x.toNat < z.toNat := by omega
            simp [this]
          · by_cases hzy : y.toNat > z.toNat
            · simp [hyz, hzy] at h2
            · have : x.toNat < z.toNat := by omega
              simp [this]
        · by_cases hyx : x.toNat > y.toNat
          · simp [hxy, hyx] at h1
          · simp only [hxy, hyx, if_false] at h1
            have hxe : x.toNat = y.toNat := by omega
            by_cases hyz : y.toNat < z.toNat
            · have : x.toNat < z.toNat := by omega
              simp [this]
            · by_cases hzy : y.toNat > z.toNat
              · simp [hyz, hzy] at h2
              · simp only [hyz, hzy, if_false] at h2
                have h3 : ¬ x.toNat < z.toNat := by omega
                have h4 : ¬ x.toNat > z.toNat := by omega
                simp only [h3, h4, if_false]
                exact ih ys zs h1 h2

/-- what a directory object lists: (base name, is-directory) of every entry of its index, in the
    order `DirMap.Files()` hands them out -/
def listing (m : MemFs) (f : Nat) : List (Str × Bool) :=
  (m.dirFiles (m.obj f)).map fun o => (baseName (m.obj o).name, (m.obj o).dir)

theorem sortEntries_sorted (es : List (Str × Bool)) :
    (sortEntries es).Pairwise (fun a b => strLe a.1 b.1 = true) :=
  List.pairwise_mergeSort (fun a b c => strLe_trans a.1 b.1 c.1) (fun a b => strLe_total a.1 b.1) es

theorem sortEntries_perm (es : List (Str × Bool)) : (sortEntries es).Perm es := List.mergeSort_perm _ _

theorem getElem?_append_length {α} (l : List α) (x : α) : (l ++ [x])[l.length]? = some x := by
  simp

/-! ### listings through a directory handle -/

theorem readdir_dir (m : MemFs) (h : Nat) (mh : MHandle) (n : Int) (hh : m.handles[h]? = some mh)
    (hd : (m.obj mh.obj).dir = true) :
    m.readdir h n =
      ({ m with handles := m.handles.set h { mh with readDirCount := mh.readDirCount +
            (if n > 0 then min ((m.dirFiles (m.obj mh.obj)).drop mh.readDirCount).length n.toNat
             else ((m.dirFiles (m.obj mh.obj)).drop mh.readDirCount).length) } },
       some (((m.dirFiles (m.obj mh.obj)).drop mh.readDirCount).take
            (if n > 0 then min ((m.dirFiles (m.obj mh.obj)).drop mh.readDirCount).length n.toNat
             else ((m.dirFiles (m.obj mh.obj)).drop mh.readDirCount).length)),
       if n > 0 ∧ ((m.dirFiles (m.obj mh.obj)).drop mh.readDirCount).length = 0 then some .eof else none) := by
  unfold MemFs.readdir
  simp only [hh, hd, Bool.not_true, Bool.false_eq_true, if_false]
  by_cases hn : n > 0
  · simp only [hn, if_true, true_and]
  · simp only [hn, if_false, false_and]

theorem obj_handles (m : MemFs) (hs : List MHandle) (o : Nat) :
    MemFs.obj { m with handles := hs } o = m.obj o := rfl

/-- the state after a listing call: only the cursor of that handle moved -/
def setCursor (m : MemFs) (h : Nat) (mh : MHandle) (c : Nat) : MemFs :=
  { m with handles := m.handles.set h { mh with readDirCount := c } }

theorem listing_setCursor (m : MemFs) (h : Nat) (mh : MHandle) (c : Nat) (f : Nat) :
    listing (setCursor m h mh c) f = listing m f := rfl

/-- **one page.** `File.ReadDir(n)` on a directory handle whose cursor lies within the listing is
    the paging function `C06.page` on that listing: the page, the EOF flag and the new cursor. -/
theorem fileReadDir_page (m : MemFs) (h : Nat) (mh : MHandle) (n : Int) (hh : m.handles[h]? = some mh)
    (hd : (m.obj mh.obj).dir = true) (hc : mh.readDirCount ≤ (listing m mh.obj).length) :
    IOFS.fileReadDir MemFs.step m h n =
      (setCursor m h mh (C06.page (listing m mh.obj) mh.readDirCount n).1,
       .infos (C06.page (listing m mh.obj) mh.readDirCount n).2.1
         (if (C06.page (listing m mh.obj) mh.readDirCount n).2.2 then some .eof else none)) := by
  have hlen : (listing m mh.obj).length = (m.dirFiles (m.obj mh.obj)).length := by simp [listing]
  rw [hlen] at hc
  unfold IOFS.fileReadDir
  simp only [MemFs.step, readdir_dir m h mh n hh hd]
  unfold C06.page setCursor
  have hdrop : (listing m mh.obj).drop mh.readDirCount =
      ((m.dirFiles (m.obj mh.obj)).drop mh.readDirCount).map fun o => (baseName (m.obj o).name, (m.obj o).dir) := by
    simp [listing, List.map_drop]
  by_cases hn : n > 0
  · have hn' : ¬ n ≤ 0 := by omega
    simp only [hn, hn', if_true, if_false, true_and, hdrop, List.length_map, List.length_drop]
    by_cases hz : (m.dirFiles (m.obj mh.obj)).length - mh.readDirCount = 0
    · simp [hz, obj_handles]
    · simp only [hz, if_false]
      simp [obj_handles, List.map_take, Nat.min_comm]
  · have hn' : n ≤ 0 := by omega
    simp only [hn, hn', if_true, if_false, false_and, hdrop, List.length_drop]
    simp only [obj_handles, List.map_take, hlen, List.map_drop]
    have e1 : mh.readDirCount + ((m.dirFiles (m.obj mh.obj)).length - mh.readDirCount) =
        (m.dirFiles (m.obj mh.obj)).length := by omega
    rw [e1, List.take_of_length_le (by simp)]
    simp [listing]

theorem page_all (L : List (Str × Bool)) : C06.page L 0 (-1) = (L.length, L, false) := by
  simp [C06.page]

/-- closing a read-only handle changes no object and no path -/
theorem close_ro_tree (m : MemFs) (h : Nat) (mh : MHandle) (hh : m.handles[h]? = some mh)
    (hr : mh.h.readOnly = true) : tree (m.hClose h).1 = tree m := by
  simp [MemFs.hClose, hh, hr, tree]

/-- **readDir_sorted.** For a name of a directory, `IOFS.ReadDir` returns, without error,
    exactly the directory's entries (a permutation of what the directory object lists: every
    entry once, none invented) in ascending byte order of their names; no object and no path of
    the file system changes. -/
theorem readDir_sorted (m : MemFs) (name : Str) (f : Nat)
    (hk : m.lookup (keyOfStr name) = some f) (hd : (m.obj f).dir = true) :
    ∃ es, (IOFS.readDir MemFs.step m name).2 = .infos es none ∧
      es.Pairwise (fun a b => strLe a.1 b.1 = true) ∧ es.Perm (listing m f) ∧
      tree (IOFS.readDir MemFs.step m name).1 = tree m := by
  refine ⟨sortEntries (listing m f), ?_, sortEntries_sorted _, sortEntries_perm _, ?_⟩
  all_goals
    unfold IOFS.readDir
    simp only [MemFs.step, MemFs.openRO, hk, MemFs.addHandle]
    have hh : (m.handles ++ [({ obj := f, h := { readOnly := true } } : MHandle)])[m.handles.length]? =
        some { obj := f, h := { readOnly := true } } := by simp
    have hp := fileReadDir_page { m with handles := m.handles ++ [{ obj := f, h := { readOnly := true } }] }
      m.handles.length { obj := f, h := { readOnly := true } } (-1) hh hd (Nat.zero_le _)
    simp only [MemFs.step] at hp
    rw [hp]
    simp only [page_all, listing_setCursor]
  · rfl
  · simp only [Bool.false_eq_true, if_false]
    rw [close_ro_tree _ m.handles.length { obj := f, h := { readOnly := true }, readDirCount := (listing m f).length }]
    · rfl
    · simp [setCursor]
      rfl
    · rfl

/-- **strictly ascending.** Where the directory's entries have distinct names (as in every
    directory: the index is a map keyed by name), the result of `IOFS.ReadDir` is strictly
    ascending — the form in which testing/fstest states sortedness. -/
theorem readDir_strictly_sorted (m : MemFs) (name : Str) (f : Nat)
    (hk : m.lookup (keyOfStr name) = some f) (hd : (m.obj f).dir = true)
    (hnd : ((listing m f).map (·.1)).Nodup) :
    ∃ es, (IOFS.readDir MemFs.step m name).2 = .infos es none ∧
      es.Pairwise (fun a b => strLe a.1 b.1 = true ∧ a.1 ≠ b.1) := by
  obtain ⟨es, h1, h2, h3, _⟩ := readDir_sorted m name f hk hd
  refine ⟨es, h1, ?_⟩
  have hnd' : (es.map (·.1)).Nodup := (h3.map (·.1)).nodup_iff.mpr hnd
  have hne : es.Pairwise (fun a b => a.1 ≠ b.1) := by
    rw [List.Nodup, List.pairwise_map] at hnd'
    exact hnd'
  exact h2.and hne

/-! ### pages of File.ReadDir(n) -/

/-- successive `File.ReadDir(n)` calls on one handle: the pages and their EOF flags -/
def readDirRun (m : MemFs) (h : Nat) : List Int → MemFs × List (List (Str × Bool) × Bool)
  | [] => (m, [])
  | n :: ns =>
    let r := IOFS.fileReadDir MemFs.step m h n
    match r.2 with
    | .infos es e => let q := readDirRun r.1 h ns; (q.1, (es, e == some .eof) :: q.2)
    | _ => (r.1, [])

theorem pages_cons (L : List (Str × Bool)) (off : Nat) (c : Int) (cs : List Int) :
    C06.pages L off (c :: cs) =
      ((C06.pages L (C06.page L off c).1 cs).1,
       ((C06.page L off c).2.1, (C06.page L off c).2.2) :: (C06.pages L (C06.page L off c).1 cs).2) := rfl

theorem eofFlag (b : Bool) : ((if b = true then some FErr.eof else none) == some FErr.eof) = b := by
  cases b <;> rfl

/-- the pages handed out by any sequence of `ReadDir(n)` calls are those of the paging function
    on the directory's listing, starting at the handle's cursor -/
theorem readDirRun_pages (m : MemFs) (h : Nat) (mh : MHandle) (ns : List Int) (hh : m.handles[h]? = some mh)
    (hd : (m.obj mh.obj).dir = true) (hc : mh.readDirCount ≤ (listing m mh.obj).length) :
    (readDirRun m h ns).2 = (C06.pages (listing m mh.obj) mh.readDirCount ns).2 := by
  induction ns generalizing m mh with
  | nil => rfl
  | cons n ns ih =>
    simp only [readDirRun, fileReadDir_page m h mh n hh hd hc, pages_cons, eofFlag]
    have hlt : h < m.handles.length := by
      rcases Nat.lt_or_ge h m.handles.length with h1 | h1
      · exact h1
      · rw [List.getElem?_eq_none h1] at hh; cases hh
    have hsp := C06.page_spec (listing m mh.obj) mh.readDirCount n hc
    have := ih (setCursor m h mh (C06.page (listing m mh.obj) mh.readDirCount n).1)
      { mh with readDirCount := (C06.page (listing m mh.obj) mh.readDirCount n).1 }
      (by simp [setCursor, hlt]) hd hsp.1
    rw [this]
    rfl

/-- **readDir_pages.** On a handle of a directory, for *every* sequence of counts (positive, zero,
    negative, in any mixture): the pages returned are consecutive slices of the directory's
    listing — their concatenation is exactly the part of the listing between the cursor before the
    first call and the cursor after the last, nothing skipped, nothing repeated. -/
theorem readDir_pages (m : MemFs) (h : Nat) (mh : MHandle) (ns : List Int) (hh : m.handles[h]? = some mh)
    (hd : (m.obj mh.obj).dir = true) (hc : mh.readDirCount ≤ (listing m mh.obj).length) :
    let L := listing m mh.obj
    let fin := (C06.pages L mh.readDirCount ns).1
    mh.readDirCount ≤ fin ∧ fin ≤ L.length ∧
    ((readDirRun m h ns).2.map (·.1)).flatten = (L.drop mh.readDirCount).take (fin - mh.readDirCount) := by
  simp only []
  rw [readDirRun_pages m h mh ns hh hd hc]
  exact C06.pages_partition (listing m mh.obj) mh.readDirCount ns hc

/-- **one page**: never longer than asked; EOF exactly when a positive count finds nothing left;
    a non-positive count hands out everything that is left, without EOF -/
theorem readDir_page_spec (m : MemFs) (h : Nat) (mh : MHandle) (n : Int) (hh : m.handles[h]? = some mh)
    (hd : (m.obj mh.obj).dir = true) (hc : mh.readDirCount ≤ (listing m mh.obj).length) :
    ∃ es eof, (IOFS.fileReadDir MemFs.step m h n).2 = .infos es (if eof = true then some .eof else none) ∧
      (n > 0 → es.length ≤ n.toNat) ∧
      (n > 0 → es.length = min n.toNat ((listing m mh.obj).length - mh.readDirCount)) ∧
      (eof = true ↔ n > 0 ∧ mh.readDirCount = (listing m mh.obj).length) ∧
      (n ≤ 0 → es = (listing m mh.obj).drop mh.readDirCount ∧ eof = false) := by
  refine ⟨_, _, by rw [fileReadDir_page m h mh n hh hd hc], ?_⟩
  obtain ⟨_, _, _, h4, h5⟩ := C06.page_spec (listing m mh.obj) mh.readDirCount n hc
  refine ⟨h4, ?_, h5, ?_⟩
  · intro hn
    have hn' : ¬ n ≤ 0 := by omega
    unfold C06.page
    simp only [hn', if_false]
    split
    · rename_i hz; simp at hz; simp; omega
    · simp
  · intro hn
    unfold C06.page
    simp [hn]

/-- if the last call of a run reports EOF, the cursor stands at the end of the listing -/
theorem pages_eof_at_end (L : List (Str × Bool)) (off : Nat) (ns : List Int) (ho : off ≤ L.length)
    (es : List (Str × Bool)) (hl : (C06.pages L off ns).2.getLast? = some (es, true)) :
    (C06.pages L off ns).1 = L.length := by
  induction ns generalizing off with
  | nil => simp [C06.pages] at hl
  | cons n ns ih =>
    obtain ⟨h1, _, _, _, h5⟩ := C06.page_spec L off n ho
    rw [pages_cons] at hl ⊢
    cases ns with
    | nil =>
      simp only [C06.pages, List.getLast?_singleton, Option.some.injEq, Prod.mk.injEq] at hl ⊢
      have := h5.mp hl.2
      unfold C06.page
      have hn' : ¬ n ≤ 0 := by omega
      simp [hn', this.2]
    | cons n2 rest =>
      simp only
      apply ih _ h1
      rw [pages_cons L _ n2 rest] at hl ⊢
      simp only [List.getLast?_cons_cons] at hl
      exact hl

/-- **EOF exactly at the end.** A run on a fresh handle whose last call reports EOF has handed out
    the whole listing, each entry once, in order. -/
theorem readDir_pages_complete (m : MemFs) (h : Nat) (mh : MHandle) (ns : List Int) (hh : m.handles[h]? = some mh)
    (hd : (m.obj mh.obj).dir = true) (hfresh : mh.readDirCount = 0) (es : List (Str × Bool))
    (hl : (readDirRun m h ns).2.getLast? = some (es, true)) :
    ((readDirRun m h ns).2.map (·.1)).flatten = listing m mh.obj := by
  have hc : mh.readDirCount ≤ (listing m mh.obj).length := by omega
  obtain ⟨_, _, h3⟩ := readDir_pages m h mh ns hh hd hc
  rw [readDirRun_pages m h mh ns hh hd hc] at hl
  have := pages_eof_at_end _ _ ns hc es hl
  rw [h3, this, hfresh]
  simp

/-! ### ReadFile, Read, Seek, ReadAt: one flat byte array -/

theorem withIO_same (d : FData) (now : Int) : d.withIO d.data false now = d := by
  cases d; simp [FData.withIO]

/-- `File.Read` through the file system: only the handle's offset moves -/
theorem hRead_eq (m : MemFs) (h : Nat) (mh : MHandle) (len : Nat) (hh : m.handles[h]? = some mh) :
    m.hRead h len =
      ({ m with handles := m.handles.set h { mh with h := (readC (m.obj mh.obj).data mh.h len).1 } },
       .file (readC (m.obj mh.obj).data mh.h len).2) := by
  unfold MemFs.hRead MemFs.fileIO
  simp only [hh, Bool.false_and, withIO_same, setObj_same]


/-- reading at the end of the data with a non-empty buffer: io.EOF, nothing moves -/
theorem readC_at_end (d : Bytes) (h : Handle) (len : Nat) (hc : h.closed = false) (hp : h.pos = d.length)
    (hl : len > 0) : readC d h len = (h, .bytes [] (some .eof)) := by
  unfold readC
  simp [hc, hp, hl]

/-- reading from the start into a buffer at least as large as the data: all of it, no error -/
theorem readC_all (d : Bytes) (h : Handle) (len : Nat) (hc : h.closed = false) (hp : h.pos = 0)
    (hne : d ≠ []) (hl : d.length ≤ len) :
    readC d h len = ({ h with pos := d.length }, .bytes d none) := by
  have hpos : 0 < d.length := List.length_pos_iff.mpr hne
  rw [readC_eq d h len 0 (by simp [hp]) hc (by omega)]
  have : readS d 0 len = d := by unfold readS; simp [List.take_of_length_le hl]
  rw [this, hp]; simp

theorem getElem?_lt {α} (l : List α) (i : Nat) (x : α) (h : l[i]? = some x) : i < l.length := by
  rcases Nat.lt_or_ge i l.length with h1 | h1
  · exact h1
  · rw [List.getElem?_eq_none h1] at h; cases h

theorem set_self {α} (l : List α) (i : Nat) (x : α) (h : l[i]? = some x) : l.set i x = l := by
  have hlt := getElem?_lt l i x h
  rw [List.getElem?_eq_getElem hlt] at h
  injection h with h
  subst h
  exact List.set_getElem_self hlt

/-- **readFile_eq.** For a valid name of a regular file, `IOFS.ReadFile` returns exactly the
    file's bytes with no error (whatever their number), and no object and no path changes. -/
theorem readFile_eq (m : MemFs) (name : Str) (f : Nat) (hv : validPath name = true)
    (hk : m.lookup (keyOfStr name) = some f) (hd : (m.obj f).dir = false) :
    (IOFS.readFile MemFs.step m name).2 = .file (.bytes (m.obj f).data none) ∧
    tree (IOFS.readFile MemFs.step m name).1 = tree m := by
  unfold IOFS.readFile
  simp only [hv, Bool.not_true, Bool.false_eq_true, if_false, MemFs.step, MemFs.openRO, hk, MemFs.addHandle]
  -- the state after Open, and the fresh handle
  generalize hm1 : ({ m with handles := m.handles ++ [({ obj := f, h := { readOnly := true } } : MHandle)] } : MemFs) = m1
  have hh : m1.handles[m.handles.length]? = some { obj := f, h := { readOnly := true } } := by
    rw [← hm1]; simp
  have hobj : ∀ o, m1.obj o = m.obj o := by intro o; rw [← hm1]; rfl
  have htree : tree m1 = tree m := by rw [← hm1]; rfl
  have hst : m1.hStat m.handles.length =
      .info (baseName (m.obj f).name) (m.obj f).data.length false (m.obj f).mode := by
    simp [MemFs.hStat, hh, hobj, hd]
  simp only [hst]
  by_cases hne : (m.obj f).data = []
  · -- empty file: the first Read reports EOF
    have h1 : m1.hRead m.handles.length ((m.obj f).data.length + 512) =
        ({ m1 with handles := m1.handles.set m.handles.length { obj := f, h := { readOnly := true } } },
         .file (.bytes [] (some .eof))) := by
      rw [hRead_eq m1 _ _ _ hh, hobj]
      simp only [readC_at_end (m.obj f).data { readOnly := true } ((m.obj f).data.length + 512) rfl
        (by simp [hne]) (by omega)]
    simp only [IOFS.readAllLoop, MemFs.step, h1]
    refine ⟨by simp [hne], ?_⟩
    rw [close_ro_tree _ m.handles.length { obj := f, h := { readOnly := true } } (by
      simp [getElem?_lt _ _ _ hh]) rfl]
    exact htree
  · -- non-empty file: the first Read returns everything, the second reports EOF
    have h1 : m1.hRead m.handles.length ((m.obj f).data.length + 512) =
        ({ m1 with handles := m1.handles.set m.handles.length (MHandle.mk f { pos := (m.obj f).data.length, readOnly := true } 0) },
         .file (.bytes (m.obj f).data none)) := by
      rw [hRead_eq m1 _ _ _ hh, hobj]
      simp only [readC_all (m.obj f).data { readOnly := true } ((m.obj f).data.length + 512) rfl rfl hne (by omega)]
    generalize hm2 : ({ m1 with handles := m1.handles.set m.handles.length (MHandle.mk f { pos := (m.obj f).data.length, readOnly := true } 0) } : MemFs) = m2 at h1
    have hh2 : m2.handles[m.handles.length]? =
        some { obj := f, h := { pos := (m.obj f).data.length, readOnly := true } } := by
      rw [← hm2]; simp [getElem?_lt _ _ _ hh]
    have hobj2 : ∀ o, m2.obj o = m.obj o := by intro o; rw [← hm2]; exact hobj o
    have h2 : m2.hRead m.handles.length 512 = (m2, .file (.bytes [] (some .eof))) := by
      rw [hRead_eq m2 _ _ _ hh2, hobj2]
      simp only [readC_at_end (m.obj f).data { pos := (m.obj f).data.length, readOnly := true } 512 rfl rfl (by omega)]
      congr 1
      cases m2; simp only [MemFs.mk.injEq, true_and]
      exact ⟨set_self _ _ _ hh2, trivial⟩
    simp only [IOFS.readAllLoop, MemFs.step, h1, h2]
    refine ⟨by simp, ?_⟩
    rw [close_ro_tree _ m.handles.length _ hh2 rfl, ← hm2]
    exact htree

theorem handle_pos_self (h : Handle) : { h with pos := h.pos } = h := by cases h; rfl

/-- `File.Read` of an open handle at offset `cur`: the slice `[cur, cur+len)` of the bytes, clipped
    at the end; the offset advances by what was read; an error (EOF) exactly when the offset is at
    or beyond the end and something was asked for (or the offset is strictly beyond the end) -/
theorem readC_slice (d : Bytes) (h : Handle) (len cur : Nat) (hp : h.pos = cur) (hc : h.closed = false) :
    ∃ e, readC d h len = ({ h with pos := cur + (readS d cur len).length }, .bytes (readS d cur len) e) ∧
      (e = none ↔ ¬ (cur ≥ d.length ∧ (len > 0 ∨ cur > d.length))) := by
  by_cases hin : cur ≥ d.length ∧ (len > 0 ∨ cur > d.length)
  · have hrs : readS d cur len = [] := by
      unfold readS; rw [List.drop_eq_nil_of_le (by omega)]; simp
    obtain ⟨pos, ro, cl⟩ := h
    simp only at hp hc
    subst hp hc
    unfold readC
    simp only [Bool.false_eq_true, if_false, hrs, List.length_nil]
    by_cases h1 : len > 0 ∧ (cur : Int) = d.length
    · exact ⟨some .eof, by simp [h1], by simp [hin]⟩
    · have h2 : (cur : Int) > d.length := by omega
      exact ⟨some .ueof, by simp [h1, h2], by simp [hin]⟩
  · refine ⟨none, ?_, by simp [hin]⟩
    rw [readC_eq d h len cur hp hc hin, hp]

/-- `File.ReadAt` of an open handle at a non-negative offset: the same slice; the handle is
    untouched; an error exactly when the read is short (or the offset lies beyond the end) -/
theorem readAtC_slice (d : Bytes) (h : Handle) (len : Nat) (off : Int) (hc : h.closed = false) (ho : 0 ≤ off) :
    ∃ e, readAtC d h len off = (h, .bytes (readS d off.toNat len) e) ∧
      (e = none → (readS d off.toNat len).length = len) := by
  obtain ⟨e, h1, h2⟩ := readC_slice d { h with pos := off } len off.toNat (by simp; omega) hc
  unfold readAtC
  have hno : ¬ off < 0 := by omega
  simp only [hno, if_false, h1]
  cases e with
  | none =>
    simp only
    by_cases hs : (readS d off.toNat len).length < len
    · exact ⟨some .eof, by simp [hs], by simp⟩
    · refine ⟨none, by simp [hs], fun _ => ?_⟩
      have := readS_length d off.toNat len
      omega
  | some e => exact ⟨some e, rfl, by simp⟩

/-- **read_seek_readAt_agree.** On an open handle and for every non-negative offset and every
    length: `ReadAt(len, off)` and `Seek(off, start)` followed by `Read(len)` return the same
    bytes, namely the slice `[off, off+len)` of the flat byte array clipped at its end; `ReadAt`
    leaves the handle's offset alone, `Seek`+`Read` leave it behind the bytes read. -/
theorem read_seek_readAt_agree (d : Bytes) (h : Handle) (len : Nat) (off : Int) (hc : h.closed = false)
    (ho : 0 ≤ off) :
    ∃ e1 e2, readAtC d h len off = (h, .bytes (readS d off.toNat len) e1) ∧
      seekC d h off 0 = ({ h with pos := off }, .pos off) ∧
      readC d (seekC d h off 0).1 len =
        ({ h with pos := off + (readS d off.toNat len).length }, .bytes (readS d off.toNat len) e2) ∧
      (e1 = none → (readS d off.toNat len).length = len) := by
  obtain ⟨e1, h1, h1'⟩ := readAtC_slice d h len off hc ho
  have hseek : seekC d h off 0 = ({ h with pos := off }, .pos off) := by
    unfold seekC seekTarget
    have : ¬ off < 0 := by omega
    simp [hc, this]
  obtain ⟨e2, h2, _⟩ := readC_slice d { h with pos := off } len off.toNat (by simp; omega) hc
  refine ⟨e1, e2, h1, hseek, ?_, h1'⟩
  rw [hseek, h2]
  have : ((off.toNat : Nat) : Int) = off := by omega
  simp [this]


theorem hReadAt_eq (m : MemFs) (h : Nat) (mh : MHandle) (len : Nat) (off : Int) (hh : m.handles[h]? = some mh) :
    m.hReadAt h len off =
      ({ m with handles := m.handles.set h { mh with h := (readAtC (m.obj mh.obj).data mh.h len off).1 } },
       .file (readAtC (m.obj mh.obj).data mh.h len off).2) := by
  unfold MemFs.hReadAt MemFs.fileIO
  simp only [hh, Bool.false_and, withIO_same, setObj_same]

theorem hSeek_eq (m : MemFs) (h : Nat) (mh : MHandle) (off : Int) (wh : Nat) (hh : m.handles[h]? = some mh) :
    m.hSeek h off wh =
      ({ m with handles := m.handles.set h { mh with h := (seekC (m.obj mh.obj).data mh.h off wh).1 } },
       .file (seekC (m.obj mh.obj).data mh.h off wh).2) := by
  unfold MemFs.hSeek MemFs.fileIO
  simp only [hh, Bool.false_and, withIO_same, setObj_same]

/-- the same through the file system: on any open handle of the MemMapFs model (which is what an
    `fs.File` of `IOFS` over MemMapFs is), `ReadAt(len, off)` and `Seek(off, start)`+`Read(len)`
    return the same slice of the object's bytes — the bytes `ReadFile` returns (`readFile_eq`) -/
theorem file_reads_agree (m : MemFs) (h : Nat) (mh : MHandle) (len : Nat) (off : Int)
    (hh : m.handles[h]? = some mh) (hc : mh.h.closed = false) (ho : 0 ≤ off) :
    ∃ e1 e2,
      (MemFs.step m (.hReadAt h len off)).2 = .file (.bytes (readS (m.obj mh.obj).data off.toNat len) e1) ∧
      (MemFs.step (MemFs.step m (.hSeek h off 0)).1 (.hRead h len)).2 =
        .file (.bytes (readS (m.obj mh.obj).data off.toNat len) e2) ∧
      (e1 = none → (readS (m.obj mh.obj).data off.toNat len).length = len) := by
  obtain ⟨e1, e2, h1, h2, h3, h4⟩ := read_seek_readAt_agree (m.obj mh.obj).data mh.h len off hc ho
  refine ⟨e1, e2, ?_, ?_, h4⟩
  · simp only [MemFs.step, hReadAt_eq m h mh len off hh, h1]
  · simp only [MemFs.step, hSeek_eq m h mh off 0 hh]
    have hlt := getElem?_lt _ _ _ hh
    rw [hRead_eq _ h { mh with h := (seekC (m.obj mh.obj).data mh.h off 0).1 } len (by simp [hlt])]
    simp only [obj_handles, h3]

/-! ### Sub(dir) is BasePathFs at dir, which is the generic "prefix every name with dir/" -/

theorem splitAux_ne_nil (s : Str) (cur : Seg) : splitAux s cur ≠ [] := by
  induction s generalizing cur with
  | nil => simp [splitAux]
  | cons c cs ih =>
    simp only [splitAux]
    split
    · simp
    · exact ih _

theorem joinSegs_splitAux (s : Str) (cur : Seg) : joinSegs (splitAux s cur) = cur.reverse ++ s := by
  induction s generalizing cur with
  | nil => simp [splitAux, joinSegs]
  | cons c cs ih =>
    simp only [splitAux]
    by_cases hc : c = sep
    · simp only [hc, if_true]
      have hne : splitAux cs [] ≠ [] := splitAux_ne_nil cs []
      cases hs : splitAux cs [] with
      | nil => exact absurd hs hne
      | cons a as =>
        simp only [joinSegs]
        rw [← hs, ih]
        simp
    · simp only [hc, if_false]
      rw [ih]; simp

theorem joinSegs_split (s : Str) : joinSegs (split s) = s := by
  simpa [split] using joinSegs_splitAux s []

theorem split_ne_nil (s : Str) : split s ≠ [] := splitAux_ne_nil s []

/-- a relative string all of whose elements are normal is its own `Clean` -/
theorem clean_of_normal (s : Str) (hr : isRooted s = false) (hn : ∀ x ∈ split s, Normal x) : clean s = s := by
  unfold clean
  rw [hr, cleanSegs_normal_id false _ hn]
  unfold render
  simp [split_ne_nil, joinSegs_split]

theorem valid_ne_nil (s : Str) (hv : validPath s = true) : s ≠ [] := by
  intro e; subst e; simp [validPath_empty] at hv

theorem valid_not_rooted (s : Str) (hv : validPath s = true) : isRooted s = false := by
  cases s with
  | nil => rfl
  | cons c cs =>
    by_cases hc : c = sep
    · subst hc; rw [validPath_leading_slash] at hv; cases hv
    · simp [isRooted, hc]

theorem valid_normal (s : Str) (hv : validPath s = true) (hd : s ≠ dot) : ∀ x ∈ split s, Normal x := by
  intro x hx
  obtain ⟨h1, h2, h3⟩ := validPath_elems s hv hd x hx
  exact ⟨h1, h2, h3, split_no_sep s x hx⟩

/-- **a valid io/fs path is clean** (`filepath.Clean` leaves it alone) -/
theorem clean_valid (s : Str) (hv : validPath s = true) (hd : s ≠ dot) : clean s = s :=
  clean_of_normal s (valid_not_rooted s hv) (valid_normal s hv hd)

theorem valid_no_trailing_sep (s : Str) (hv : validPath s = true) : trimSuffixSep s = s := by
  unfold trimSuffixSep
  cases hl : s.getLast? with
  | none => rfl
  | some c =>
    simp only
    by_cases hc : c = sep
    · subst hc
      have : s = s.dropLast ++ [sep] := by
        have hne : s ≠ [] := valid_ne_nil s hv
        rw [List.getLast?_eq_some_getLast hne] at hl
        injection hl with hl
        rw [← hl]; exact (List.dropLast_concat_getLast hne).symm
      rw [this, validPath_trailing_slash] at hv; cases hv
    · simp [hc]

/-- the name the generic `fs.Sub` opens: `path.Join(dir, name)` for valid arguments -/
def subName (dir name : Str) : Str := if name = dot then dir else dir ++ sep :: name

theorem isRooted_append (a b : Str) (ha : a ≠ []) : isRooted (a ++ b) = isRooted a := by
  cases a with
  | nil => exact absurd rfl ha
  | cons c cs => rfl

/-- a valid io/fs name never begins with a `..` element -/
theorem valid_restOK (name : Str) (hn : validPath name = true) (hdot : name ≠ dot) : restOK name = true := by
  have hnorm := valid_normal name hn hdot
  have hdd : ¬ Normal dotdot := fun h => h.2.2.1 rfl
  have h1 : name ≠ dotdot := by
    intro e
    apply hdd
    apply hnorm
    rw [e]; decide
  have h2 : hasPrefix name (dotdot ++ [sep]) = false := by
    cases hp : hasPrefix name (dotdot ++ [sep]) with
    | false => rfl
    | true =>
      exfalso
      unfold hasPrefix at hp
      rw [List.isPrefixOf_iff_prefix] at hp
      obtain ⟨t, ht⟩ := hp
      apply hdd
      apply hnorm
      rw [← ht, show dotdot ++ [sep] ++ t = dotdot ++ sep :: t by simp, split_append_sep]
      have : split dotdot = [dotdot] := by decide
      rw [this]; simp
  unfold restOK
  simp [h1, h2]

/-- **the path BasePathFs computes** for a valid directory and a valid name is `dir/name`
    (`dir` itself for "."): never an escape, never a rewrite -/
theorem realPath_valid (dir name : Str) (hv : validPath dir = true) (hd : dir ≠ dot)
    (hn : validPath name = true) : realPath dir name = some (subName dir name) := by
  have hdne := valid_ne_nil dir hv
  have hnne := valid_ne_nil name hn
  have hrd := valid_not_rooted dir hv
  unfold realPath
  simp only [clean_valid dir hv hd, valid_no_trailing_sep dir hv]
  unfold join2
  simp only [hdne, hnne, if_false]
  by_cases hdot : name = dot
  · -- Join(dir, ".") = dir
    subst hdot
    have h1 : clean (dir ++ sep :: dot) = dir := by
      unfold clean
      rw [isRooted_append _ _ hdne, hrd, split_append_sep]
      have h2 : cleanSegs false (split dir ++ split dot) = split dir := by
        have : split dot = [dot] := by decide
        rw [this]
        have h3 : cleanSegs false (split dir ++ [dot]) = cleanSegs false (split dir) := by
          unfold cleanSegs; simp [List.foldl_append, cleanStep]
        rw [h3, cleanSegs_normal_id false _ (valid_normal dir hv hd)]
      rw [h2]
      unfold render
      simp [split_ne_nil, joinSegs_split]
    simp [h1, clean_valid dir hv hd, subName, withinBasePath]
  · -- Join(dir, name) = dir/name, already clean
    have hnorm : ∀ x ∈ split (dir ++ sep :: name), Normal x := by
      intro x hx
      rw [split_append_sep, List.mem_append] at hx
      rcases hx with hx | hx
      · exact valid_normal dir hv hd x hx
      · exact valid_normal name hn hdot x hx
    have hr : isRooted (dir ++ sep :: name) = false := by rw [isRooted_append _ _ hdne, hrd]
    have h1 : clean (dir ++ sep :: name) = dir ++ sep :: name := clean_of_normal _ hr hnorm
    simp only [h1, subName, hdot, if_false]
    have hp : hasPrefix (dir ++ sep :: name) (dir ++ [sep]) = true := by
      unfold hasPrefix
      rw [List.isPrefixOf_iff_prefix]
      exact ⟨name, by simp⟩
    have hw : withinBasePath dir (dir ++ sep :: name) = true := by
      unfold withinBasePath
      have hdrop : (dir ++ sep :: name).drop (dir ++ [sep]).length = name := by
        rw [show dir ++ sep :: name = (dir ++ [sep]) ++ name by simp, List.drop_left]
      simp only [hd, if_false, valid_no_trailing_sep dir hv, hp, hdrop, valid_restOK name hn hdot]
      simp
    simp [hw]


theorem utf8Aux_zero (s : Str) (lo hi : Nat) : utf8Aux s 0 lo hi = utf8Aux s 0 0 0 := by
  cases s <;> simp [utf8Aux]

theorem utf8Aux_append (a b : Str) (need lo hi : Nat) (ha : utf8Aux a need lo hi = true)
    (hb : utf8Aux b 0 0 0 = true) : utf8Aux (a ++ b) need lo hi = true := by
  induction a generalizing need lo hi with
  | nil =>
    simp only [utf8Aux, decide_eq_true_eq] at ha
    subst ha
    simpa [utf8Aux_zero] using hb
  | cons c cs ih =>
    simp only [List.cons_append, utf8Aux] at ha ⊢
    repeat' split at ha
    all_goals first
      | (cases ha; done)
      | skip
    all_goals (repeat' split) <;> first | exact ih _ _ _ ha | simp_all

theorem validUTF8_append_sep (a b : Str) (ha : validUTF8 a = true) (hb : validUTF8 b = true) :
    validUTF8 (a ++ sep :: b) = true := by
  unfold validUTF8 at *
  apply utf8Aux_append _ _ _ _ _ ha
  have : (sep.toNat < 0x80) := by decide
  simp only [utf8Aux, this, if_true]
  simpa using hb

/-- joining a valid directory and a valid name gives a valid name -/
theorem subName_valid (dir name : Str) (hv : validPath dir = true) (hd : dir ≠ dot)
    (hn : validPath name = true) : validPath (subName dir name) = true := by
  unfold subName
  by_cases hdot : name = dot
  · simp [hdot, hv]
  · simp only [hdot, if_false]
    rw [validPath_iff]
    refine ⟨validUTF8_append_sep _ _ ((validPath_iff dir).mp hv).1 ((validPath_iff name).mp hn).1, Or.inr ?_⟩
    intro e he
    rw [split_append_sep, List.mem_append] at he
    rcases he with he | he
    · exact validPath_elems dir hv hd e he
    · exact validPath_elems name hn hdot e he

/-- **sub_is_basepath.** `IOFS.Sub(dir)` is `IOFS` over the BasePathFs model rooted at `dir`;
    `Sub(".")` is the file system itself (as the generic `fs.Sub` has it). -/
theorem sub_is_basepath (src : StepFn) (dir : Str) :
    IOFS.sub src dir = (if dir = dot then src else bpStep src dir) := rfl

theorem sub_dot (src : StepFn) : IOFS.sub src dot = src := by simp [IOFS.sub]

/-- through BasePathFs at a valid directory, a name-taking call with a valid name reaches the
    source with `dir/name` -/
theorem bp_open_valid (src : StepFn) (dir name : Str) (m : MemFs) (hv : validPath dir = true) (hd : dir ≠ dot)
    (hn : validPath name = true) :
    bpStep src dir m (.open_ name) = src m (.open_ (subName dir name)) ∧
    bpStep src dir m (.stat name) = src m (.stat (subName dir name)) := by
  simp [bpStep, bpMapOp, realPath_valid dir name hv hd hn]

theorem bp_handle (src : StepFn) (dir : Str) (m : MemFs) (h : Nat) :
    (∀ n, bpStep src dir m (.hRead h n) = src m (.hRead h n)) ∧
    (∀ n, bpStep src dir m (.hReaddir h n) = src m (.hReaddir h n)) ∧
    bpStep src dir m (.hStat h) = src m (.hStat h) ∧
    bpStep src dir m (.hClose h) = src m (.hClose h) := ⟨fun _ => rfl, fun _ => rfl, rfl, rfl⟩

theorem fileReadDir_bp (src : StepFn) (dir : Str) (m : MemFs) (h : Nat) (n : Int) :
    IOFS.fileReadDir (bpStep src dir) m h n = IOFS.fileReadDir src m h n := rfl

theorem readAllLoop_bp (src : StepFn) (dir : Str) (h fuel : Nat) (m : MemFs) (acc : Bytes) (chunk : Nat) :
    IOFS.readAllLoop (bpStep src dir) h fuel m acc chunk = IOFS.readAllLoop src h fuel m acc chunk := by
  induction fuel generalizing m acc chunk with
  | zero => rfl
  | succ k ih =>
    simp only [IOFS.readAllLoop, (bp_handle src dir m h).1]
    split <;> first | rfl | exact ih _ _ _

/-- **Sub agrees with the generic version.** The generic `fs.Sub(fsys, dir)` answers every call
    on a valid `name` by calling `fsys` with `path.Join(dir, name)`.  `IOFS.Sub(dir)` does
    exactly that, for every source and every state: Open, Stat, ReadDir and ReadFile of the
    sub-file-system are those of the file system itself at `dir/name` (at `dir` for "."). -/
theorem sub_eq_generic (src : StepFn) (dir name : Str) (m : MemFs) (hv : validPath dir = true) (hd : dir ≠ dot)
    (hn : validPath name = true) :
    IOFS.open_ (IOFS.sub src dir) m name = IOFS.open_ src m (subName dir name) ∧
    IOFS.stat (IOFS.sub src dir) m name = IOFS.stat src m (subName dir name) ∧
    IOFS.readDir (IOFS.sub src dir) m name = IOFS.readDir src m (subName dir name) ∧
    IOFS.readFile (IOFS.sub src dir) m name = IOFS.readFile src m (subName dir name) := by
  have hs := subName_valid dir name hv hd hn
  obtain ⟨ho, hst⟩ := bp_open_valid src dir name m hv hd hn
  simp only [IOFS.sub, hd, if_false]
  refine ⟨?_, ?_, ?_, ?_⟩
  · simp [IOFS.open_, hn, hs, ho]
  · simp [IOFS.stat, hst]
  · simp only [IOFS.readDir, ho, fileReadDir_bp]
    split <;> rfl
  · simp only [IOFS.readFile, hn, hs, Bool.not_true, Bool.false_eq_true, if_false, ho, readAllLoop_bp]
    split <;> rfl

/-! ### IOFS and FromIOFS never change the file system they wrap -/

/-- the calls IOFS and FromIOFS forward to the source: Open, Stat and handle methods -/
def isRead : Op → Bool
  | .open_ _ | .stat _ => true
  | op => op.handle?.isSome

theorem roStep_read (m : MemFs) (op : Op) (h : isRead op = true) : roStep m op = m.step op := by
  cases op <;> simp [isRead, Op.handle?] at h <;> rfl

/-- a forwarded call on a file system all of whose handles are read-only changes no object and
    no path, and hands out read-only handles only -/
theorem read_frozen (m : MemFs) (op : Op) (h : isRead op = true) (hro : AllRO m) :
    tree (MemFs.step m op).1 = tree m ∧ AllRO (MemFs.step m op).1 := by
  rw [← roStep_read m op h]; exact ro_step_frozen m op hro

theorem fileReadDir_fst (src : StepFn) (m : MemFs) (h : Nat) (n : Int) :
    (IOFS.fileReadDir src m h n).1 = (src m (.hReaddir h n)).1 := by
  unfold IOFS.fileReadDir; dsimp only; split <;> rfl

theorem readAllLoop_frozen (h fuel : Nat) (m : MemFs) (acc : Bytes) (chunk : Nat) (hro : AllRO m) :
    tree (IOFS.readAllLoop MemFs.step h fuel m acc chunk).1 = tree m ∧
    AllRO (IOFS.readAllLoop MemFs.step h fuel m acc chunk).1 := by
  induction fuel generalizing m acc chunk with
  | zero => exact ⟨rfl, hro⟩
  | succ k ih =>
    have hf := read_frozen m (.hRead h chunk) rfl hro
    simp only [IOFS.readAllLoop]
    split
    · obtain ⟨h1, h2⟩ := ih (MemFs.step m (.hRead h chunk)).1 _ 512 hf.2
      exact ⟨h1.trans hf.1, h2⟩
    all_goals exact hf

/-- **IOFS is inert.** Whatever the name or pattern (valid or not, existing or not), no method
    of IOFS over MemMapFs changes any object or path; handles stay read-only. -/
theorem iofs_inert (m : MemFs) (name : Str) (hro : AllRO m) :
    (tree (IOFS.open_ MemFs.step m name).1 = tree m ∧ AllRO (IOFS.open_ MemFs.step m name).1) ∧
    (tree (IOFS.stat MemFs.step m name).1 = tree m ∧ AllRO (IOFS.stat MemFs.step m name).1) ∧
    (tree (IOFS.readDir MemFs.step m name).1 = tree m ∧ AllRO (IOFS.readDir MemFs.step m name).1) ∧
    (tree (IOFS.readFile MemFs.step m name).1 = tree m ∧ AllRO (IOFS.readFile MemFs.step m name).1) ∧
    (tree (IOFS.glob MemFs.step m name).1 = tree m ∧ AllRO (IOFS.glob MemFs.step m name).1) := by
  have hopen := read_frozen m (.open_ name) rfl hro
  have hstat := read_frozen m (.stat name) rfl hro
  refine ⟨?_, ?_, ?_, ?_, ?_⟩
  · unfold IOFS.open_; split
    · exact ⟨rfl, hro⟩
    · exact hopen
  · exact hstat
  · unfold IOFS.readDir
    dsimp only
    split
    · rename_i hh _ _
      have h2 := read_frozen (MemFs.step m (.open_ name)).1 (.hReaddir hh (-1)) rfl hopen.2
      rw [← fileReadDir_fst] at h2
      have h3 := read_frozen (IOFS.fileReadDir MemFs.step (MemFs.step m (.open_ name)).1 hh (-1)).1 (.hClose hh) rfl h2.2
      have : tree (MemFs.step (IOFS.fileReadDir MemFs.step (MemFs.step m (.open_ name)).1 hh (-1)).1 (.hClose hh)).1 = tree m :=
        h3.1.trans (h2.1.trans hopen.1)
      split <;> exact ⟨this, h3.2⟩
    · exact hopen
  · unfold IOFS.readFile; split
    · exact ⟨rfl, hro⟩
    · dsimp only
      split
      · rename_i hh _ _
        have h2 := read_frozen (MemFs.step m (.open_ name)).1 (.hStat hh) rfl hopen.2
        have h3 := readAllLoop_frozen hh
          ((match (MemFs.step (MemFs.step m (.open_ name)).1 (.hStat hh)).2 with | .info _ sz _ _ => sz | _ => 0) + 2)
          (MemFs.step (MemFs.step m (.open_ name)).1 (.hStat hh)).1 []
          ((match (MemFs.step (MemFs.step m (.open_ name)).1 (.hStat hh)).2 with | .info _ sz _ _ => sz | _ => 0) + 512) h2.2
        have h4 := read_frozen _ (.hClose hh) rfl h3.2
        exact ⟨h4.1.trans (h3.1.trans (h2.1.trans hopen.1)), h4.2⟩
      · exact hopen
  · unfold IOFS.glob; split
    · exact ⟨rfl, hro⟩
    · split
      · dsimp only
        split <;> exact hstat
      · exact ⟨rfl, hro⟩

/-! ### FromIOFS -/

/-- the calls that would create, modify, rename or delete: every Fs-level mutator, and Write,
    WriteAt, Truncate (WriteString is Write) of a file -/
def isMutator : Op → Bool
  | .create _ | .mkdir _ _ | .mkdirAll _ _ | .remove _ | .removeAll _ | .rename _ _
  | .chmod _ _ | .chown _ _ _ | .chtimes _ _ | .hWrite _ _ | .hWriteAt _ _ _ | .hTrunc _ _ => true
  | _ => false

/-- **fromIofs_mutators_perm.** Over every source, in every state, every mutating call through
    FromIOFS is a permission error and returns the state exactly as it was (the wrapped file
    system is not consulted). -/
theorem fromIofs_mutators_perm (src : StepFn) (s : FromSt) (op : Op) (h : isMutator op = true) :
    fromStep src s op = (s, .err .perm) ∧ fromStepM src s.m op = (s.m, .err .perm) := by
  cases op <;> simp [isMutator] at h <;> exact ⟨rfl, rfl⟩

/-- one call through FromIOFS over IOFS over MemMapFs: no object and no path changes -/
theorem fromStepM_frozen (m : MemFs) (op : Op) (hro : AllRO m) :
    tree (fromStepM MemFs.step m op).1 = tree m ∧ AllRO (fromStepM MemFs.step m op).1 := by
  have hi := fun name => iofs_inert m name hro
  cases op with
  | create p => exact ⟨rfl, hro⟩
  | mkdir p perm => exact ⟨rfl, hro⟩
  | mkdirAll p perm => exact ⟨rfl, hro⟩
  | remove p => exact ⟨rfl, hro⟩
  | removeAll p => exact ⟨rfl, hro⟩
  | rename a b => exact ⟨rfl, hro⟩
  | chmod p mode => exact ⟨rfl, hro⟩
  | chown p u g => exact ⟨rfl, hro⟩
  | chtimes p t => exact ⟨rfl, hro⟩
  | hWrite h b => exact ⟨rfl, hro⟩
  | hWriteAt h b off => exact ⟨rfl, hro⟩
  | hTrunc h n => exact ⟨rfl, hro⟩
  | hSync h => exact ⟨rfl, hro⟩
  | hName h => exact ⟨rfl, hro⟩
  | open_ p => exact (hi p).1
  | openFile p flag perm => exact (hi p).1
  | stat p => exact (hi p).2.1
  | hRead h n => exact read_frozen m (.hRead h n) rfl hro
  | hReadAt h n off => exact read_frozen m (.hReadAt h n off) rfl hro
  | hSeek h off wh => exact read_frozen m (.hSeek h off wh) rfl hro
  | hClose h => exact read_frozen m (.hClose h) rfl hro
  | hStat h => exact read_frozen m (.hStat h) rfl hro
  | hReaddir h n =>
    simp only [fromStepM, fileReadDir_fst]
    exact read_frozen m (.hReaddir h n) rfl hro
  | hReaddirnames h n =>
    have : (fromStepM MemFs.step m (.hReaddirnames h n)).1 = (MemFs.step m (.hReaddir h n)).1 := by
      simp only [fromStepM]
      rw [← fileReadDir_fst]
      split <;> rfl
    rw [this]
    exact read_frozen m (.hReaddir h n) rfl hro

theorem fromStep_m (src : StepFn) (s : FromSt) (op : Op) :
    (fromStep src s op).1.m = (fromStepM src s.m op).1 := by
  unfold fromStep
  cases op <;> first | rfl | (dsimp only; split <;> rfl)

/-- run a sequence of calls through FromIOFS -/
def fromRun (src : StepFn) (s : FromSt) : List Op → FromSt × List MRes
  | [] => (s, [])
  | op :: ops => let r := fromStep src s op; let q := fromRun src r.1 ops; (q.1, r.2 :: q.2)

/-- **fromIofs_inert.** No sequence of calls through FromIOFS (over IOFS over MemMapFs) — any
    method with any arguments, any method of any file it returned — changes the wrapped file
    system's paths, bytes, modes or modification times. -/
theorem fromIofs_inert (s : FromSt) (ops : List Op) (hro : AllRO s.m) :
    tree (fromRun MemFs.step s ops).1.m = tree s.m := by
  induction ops generalizing s with
  | nil => rfl
  | cons op ops ih =>
    simp only [fromRun]
    have hf := fromStepM_frozen s.m op hro
    rw [← fromStep_m] at hf
    rw [ih _ hf.2, hf.1]

/-- **fromIofs_reads_same.** Through FromIOFS a read sees what the wrapped io/fs file system
    shows: Open / OpenFile / Stat of a valid name and Read, ReadAt, Seek, Stat, Close of a file
    are the source's own answers; Readdir is the wrapped file's ReadDir. -/
theorem fromIofs_reads_same (src : StepFn) (m : MemFs) (p : Str) (hv : validPath p = true) :
    fromStepM src m (.open_ p) = src m (.open_ p) ∧
    (∀ flag perm, fromStepM src m (.openFile p flag perm) = src m (.open_ p)) ∧
    fromStepM src m (.stat p) = src m (.stat p) ∧
    (∀ h n, fromStepM src m (.hRead h n) = src m (.hRead h n)) ∧
    (∀ h n off, fromStepM src m (.hReadAt h n off) = src m (.hReadAt h n off)) ∧
    (∀ h off wh, fromStepM src m (.hSeek h off wh) = src m (.hSeek h off wh)) ∧
    (∀ h, fromStepM src m (.hStat h) = src m (.hStat h)) ∧
    (∀ h, fromStepM src m (.hClose h) = src m (.hClose h)) ∧
    (∀ h n, fromStepM src m (.hReaddir h n) = IOFS.fileReadDir src m h n) := by
  simp [fromStepM, IOFS.open_, IOFS.stat, hv]

/-- a file of FromIOFS reports the name it was opened with -/
theorem fromIofs_name (src : StepFn) (s : FromSt) (p : Str) (h : Nat) (e : Option FsErr)
    (ho : (fromStep src s (.open_ p)).2 = .handle h e) :
    (fromStep src (fromStep src s (.open_ p)).1 (.hName h)).2 = .str p := by
  have hr : (fromStepM src s.m (.open_ p)).2 = .handle h e := by
    unfold fromStep at ho; dsimp only at ho; split at ho <;> simpa using ho
  have hs : (fromStep src s (.open_ p)).1 = { m := (fromStepM src s.m (.open_ p)).1, names := (h, p) :: s.names } := by
    unfold fromStep; dsimp only; rw [hr]
  rw [hs]
  simp [fromStep]

/-! ### what is *not* proved here (decided by the harness oracle on the implementation)

  * the remainder of the io/fs contract as testing/fstest spells it out (Stat/Info/Type agreement
    between entries and files, ModTime and Mode equality, Close semantics, iotest.TestReader on
    every file, the Sub and Glob runs fstest makes on every directory): there is no Lean
    formalisation of fstest; the harness runs `fstest.TestFS` itself on every generated tree.
  * `IOFS.Glob` beyond its guard and the wildcard-free case: afero.Glob proper is the subject of
    C16; here the results are compared with the generic `fs.Glob` and with `path.Match` over the
    tree by the oracle.
  * IOFS over RegexpFs and CopyOnWriteFs (`UnionFile` listings, filtered pages): oracle only.
  The full statement of the property for those parts, kept visible: -/

/-- the unproved remainder, as a statement about an abstract conformance predicate: every stack
    built from the five wrappers passes it, and FromIOFS over it shows the same tree -/
def C15_full (Stack : Type) (conforms : Stack → Prop) (sameTree : Stack → Stack → Prop)
    (iofs fromIofs : Stack → Stack) : Prop :=
  ∀ st : Stack, conforms (iofs st) ∧ sameTree (fromIofs (iofs st)) st

/-! ### non-vacuity: a populated tree (relative names, as io/fs wants them), concrete runs -/

def s (x : String) : Str := x.toList

/-- `a/b/`, `a/z.txt` = 1 2 3 4 5, `a/c` empty, `top` = 9 -/
def t0 : MemFs :=
  (MemFs.init.step (.mkdirAll (s "a/b") 0o755)).1
    |>.step (.create (s "a/z.txt")) |>.1 |>.step (.hWrite 0 [1, 2, 3, 4, 5]) |>.1 |>.step (.hClose 0) |>.1
    |>.step (.create (s "a/c")) |>.1 |>.step (.hClose 1) |>.1
    |>.step (.create (s "top")) |>.1 |>.step (.hWrite 2 [9]) |>.1 |>.step (.hClose 2) |>.1
def t1 : MemFs := { t0 with handles := [] }

example : validPath (s "a/b") = true ∧ validPath (s ".") = true ∧ validPath (s "a//b") = false ∧
    validPath (s "a/") = false ∧ validPath (s "/a") = false ∧ validPath (s "a/../b") = false ∧
    validPath (s "./a") = false ∧ validPath [] = false ∧ validPath [Char.ofNat 0xff] = false := by decide

example : badPattern (s "[") = true ∧ badPattern (s "a/[]") = true ∧ badPattern (s "[a-]") = true ∧
    badPattern (s "a\\") = true ∧ badPattern (s "[]a]") = true ∧
    badPattern (s "a*") = false ∧ badPattern (s "[a]") = false := by decide

example : AllRO t1 := allRO_init _ rfl
example : t1.lookup (keyOfStr (s "a")) = some 2 ∧ (t1.obj 2).dir = true := by decide
example : t1.lookup (keyOfStr (s "a/z.txt")) = some 3 ∧ (t1.obj 3).dir = false ∧ (t1.obj 3).data = [1, 2, 3, 4, 5] := by decide


-- ReadDir: the hypotheses of `readDir_sorted` hold for "a" (three entries, inserted in the order b, z.txt, c)
example : ∃ es, (IOFS.readDir MemFs.step t1 (s "a")).2 = .infos es none ∧
    es.Pairwise (fun a b => strLe a.1 b.1 = true) ∧ es.Perm (listing t1 2) ∧
    tree (IOFS.readDir MemFs.step t1 (s "a")).1 = tree t1 :=
  readDir_sorted t1 (s "a") 2 (by decide) (by decide)
example : (t1.obj 2).memDir.map (·.map fun e => e.1.render) = some [s "a/b", s "a/z.txt", s "a/c"] := by decide
example : (IOFS.open_ MemFs.step t1 (s "a/")).2 = .err .inval ∧ (IOFS.readFile MemFs.step t1 (s "/a")).2 = .err .inval ∧
    (IOFS.open_ MemFs.step t1 (s "a/../a")).2 = .err .inval := by
  decide

-- pages: the hypotheses of `readDir_pages` hold for the handle `Open("a")` returns
example : (IOFS.open_ MemFs.step t1 (s "a")).1.handles[0]? = some { obj := 2, h := { readOnly := true } } ∧
    ((IOFS.open_ MemFs.step t1 (s "a")).1.obj 2).dir = true := ⟨rfl, by decide⟩
example : ((readDirRun (IOFS.open_ MemFs.step t1 (s "a")).1 0 [2, 0, 2, -1, 1]).2.map (·.1)).flatten =
    ((listing (IOFS.open_ MemFs.step t1 (s "a")).1 2).drop 0).take
      ((C06.pages (listing (IOFS.open_ MemFs.step t1 (s "a")).1 2) 0 [2, 0, 2, -1, 1]).1 - 0) :=
  (readDir_pages (IOFS.open_ MemFs.step t1 (s "a")).1 0 { obj := 2, h := { readOnly := true } } [2, 0, 2, -1, 1]
    rfl (by decide) (Nat.zero_le _)).2.2

-- ReadFile, ReadAt, Seek+Read on a/z.txt
example : (IOFS.readFile MemFs.step t1 (s "a/z.txt")).2 = .file (.bytes [1, 2, 3, 4, 5] none) := by decide
example :
    (MemFs.step (IOFS.open_ MemFs.step t1 (s "a/z.txt")).1 (.hReadAt 0 3 1)).2 = .file (.bytes [2, 3, 4] none) ∧
    (MemFs.step (MemFs.step (IOFS.open_ MemFs.step t1 (s "a/z.txt")).1 (.hSeek 0 1 0)).1 (.hRead 0 3)).2 =
      .file (.bytes [2, 3, 4] none) ∧
    (MemFs.step (IOFS.open_ MemFs.step t1 (s "a/z.txt")).1 (.hReadAt 0 3 3)).2 = .file (.bytes [4, 5] (some .eof)) := by
  decide

-- Sub("a") then ReadFile("z.txt") = ReadFile("a/z.txt"); Sub(".") is the file system itself
example : (IOFS.readFile (IOFS.sub MemFs.step (s "a")) t1 (s "z.txt")).2 = .file (.bytes [1, 2, 3, 4, 5] none) ∧
    (IOFS.readFile (IOFS.sub MemFs.step (s ".")) t1 (s "a/z.txt")).2 = .file (.bytes [1, 2, 3, 4, 5] none) := by decide

-- FromIOFS: mutators refused, reads served, the name is remembered
example : (fromRun MemFs.step { m := t1 }
    [.remove (s "top"), .create (s "new"), .open_ (s "a/z.txt"), .hWrite 0 [7], .hRead 0 2, .hTrunc 0 0, .hName 0,
     .rename (s "a") (s "b"), .open_ (s "../top"), .mkdirAll (s "x/y") 0o755, .hReadAt 0 9 4]).2 =
    [.err .perm, .err .perm, .handle 0 none, .err .perm, .file (.bytes [1, 2] none), .err .perm, .str (s "a/z.txt"),
     .err .perm, .err .inval, .err .perm, .file (.bytes [5] (some .eof))] := by decide

end AferoVerif.C15
