/-
  Property C13, further clauses — a filter stacked on a filter: `NewRegexpFs(NewRegexpFs(src, p1), p2)`.

  In regexpfs.go the outer RegexpFs calls the inner one as its `source` (its `IsDir(r.source, name)` is
  the INNER filter's `Stat`), and a handle opened through the stack is an outer `RegexpFile` wrapping an
  inner `RegexpFile`, so a listing is filtered twice.  Vocabulary (Proofs/ReStack.lean):

  * `reStepOn src pred` — regexpfs.go transcribed over an arbitrary source step function `src`;
    `ReStOn σ` its state (`m : σ` the source, `filtered` the handles that are RegexpFiles of this filter);
  * `reStack p1 p2 = reStepOn (reStep p1) p2` — the stack; its state `S : StackSt`: `S.m.m` the MemFs,
    `S.m.filtered` the inner wrappers, `S.filtered` the outer wrappers; `S.flat` the single filter's state
    with the same source and the outer wrappers; `stackOf c` the stack state where both levels wrap
    exactly the handles the single filter's state `c` wraps; `conjPred p1 p2 s = p1 s && p2 s`.

  Found: nothing is false.  The stack IS the conjunction filter, call by call, including the error class
  of every refused call, Rename's two checks, and the paging of listings: each `RegexpFile.Readdir(c)` reads
  `c` entries from the level below exactly ONCE and drops the non-matching ones, so stack and single filter
  consume the same `c` source entries per call and show the same (possibly shorter than `c`) page.  The one
  proviso (`stack_is_conjunction`) concerns states no program can reach: a handle wrapped by one level only
  (`stack_proviso_needed`).
-/
import AferoVerif.Proofs.ReStack
namespace AferoVerif.C13
open AferoVerif

/-- **1. the source-generic transcription is the model.**  Over the MemFs step function `reStepOn` gives, for
    EVERY op, the answer, the source state and the wrapped handles of `reStep` (no op of `reStep` takes a
    shortcut that the Stat-based `IsDir` would notice: MemFs' `Stat` changes nothing and reports exactly
    not-exist or the directory flag). -/
theorem reStepOn_mem (pred : Str → Bool) (s : ReStOn MemFs) (op : Op) :
    reStepOn MemFs.step pred s op = ((reStep pred s.toRe op).1.on, (reStep pred s.toRe op).2) := by
  exact AferoVerif.reStepOn_mem pred s op

/-- **2. the stack is the conjunction filter** — one call, EVERY state of the stack, every op, every `p1 p2`:
    the stack answers what the single filter with `fun s => p1 s && p2 s` answers, leaves the same source
    (the whole MemFs: bytes, path map, handles and their cursors), and both of its levels wrap the same
    new handles `l` as the single filter does.  Proviso, for `Readdir`/`Readdirnames` only: the handle is
    wrapped by both levels or by none (always so for handles obtained through the stack). -/
theorem stack_is_conjunction (p1 p2 : Str → Bool) (S : StackSt) (op : Op)
    (hop : ∀ h, op.listing? = some h → S.m.filtered.contains h = S.filtered.contains h) :
    (reStack p1 p2 S op).2 = (reStep (conjPred p1 p2) S.flat op).2 ∧
    (reStack p1 p2 S op).1.m.m = (reStep (conjPred p1 p2) S.flat op).1.m ∧
    ∃ l, (reStep (conjPred p1 p2) S.flat op).1.filtered = S.filtered ++ l ∧
         (reStack p1 p2 S op).1.filtered = S.filtered ++ l ∧
         (reStack p1 p2 S op).1.m.filtered = S.m.filtered ++ l := by
  exact stack_sim p1 p2 S op hop

/-- from a state in which every handle was obtained through the stack, unconditionally and for every op
    (listings with every page size included): same answer, corresponding state -/
theorem stack_is_conjunction_step (p1 p2 : Str → Bool) (c : ReSt) (op : Op) :
    reStack p1 p2 (stackOf c) op =
      (stackOf (reStep (conjPred p1 p2) c op).1, (reStep (conjPred p1 p2) c op).2) := by
  exact stack_step p1 p2 c op

/-- whole programs over a fresh stack on the source `m`: the list of answers is the conjunction filter's
    — hence every page of every listing, in order, and their concatenation up to EOF -/
theorem stack_is_conjunction_run (p1 p2 : Str → Bool) (m : MemFs) (ops : List Op) :
    (runOn (reStack p1 p2) (stackOf { m := m }) ops).2 = (runOn (reStep (conjPred p1 p2)) { m := m } ops).2 ∧
    (runOn (reStack p1 p2) (stackOf { m := m }) ops).1.m.m = (runOn (reStep (conjPred p1 p2)) { m := m } ops).1.m := by
  rw [stack_run]; exact ⟨rfl, rfl⟩

/-- **listings are filtered twice.**  A handle opened through the stack, any page size `n`, the source's
    page being `es`: `Readdir` shows `es` filtered by `p1` then by `p2`, which is `es` filtered by the
    conjunction (same entries, same order); `Readdirnames` shows their names; the source has moved by its
    own page, as under the single filter. -/
theorem stack_listing (p1 p2 : Str → Bool) (S : StackSt) (h : Nat) (n : Int)
    (ho : S.filtered.contains h = true) (hi : S.m.filtered.contains h = true)
    (es : List (Str × Bool)) (hsrc : (S.m.m.step (.hReaddir h n)).2 = .infos es none) :
    (reStack p1 p2 S (.hReaddir h n)).2 =
      .infos ((es.filter fun e => e.2 || p1 e.1).filter fun e => e.2 || p2 e.1) none ∧
    (reStack p1 p2 S (.hReaddir h n)).2 = .infos (es.filter fun e => e.2 || (p1 e.1 && p2 e.1)) none ∧
    (reStack p1 p2 S (.hReaddirnames h n)).2 =
      .names ((es.filter fun e => e.2 || (p1 e.1 && p2 e.1)).map (·.1)) none ∧
    (reStack p1 p2 S (.hReaddir h n)).1.m.m = (S.m.m.step (.hReaddir h n)).1 ∧
    (reStack p1 p2 S (.hReaddirnames h n)).1.m.m = (S.m.m.step (.hReaddir h n)).1 := by
  exact stack_page p1 p2 S h n ho hi es hsrc

/-- at the end of the listing (any error of the source's Readdir): no entries and that error -/
theorem stack_listing_eof (p1 p2 : Str → Bool) (S : StackSt) (h : Nat) (n : Int)
    (ho : S.filtered.contains h = true) (hi : S.m.filtered.contains h = true)
    (es : List (Str × Bool)) (e : FErr) (hsrc : (S.m.m.step (.hReaddir h n)).2 = .infos es (some e)) :
    (reStack p1 p2 S (.hReaddir h n)).2 = .infos [] (some e) ∧
    (reStack p1 p2 S (.hReaddirnames h n)).2 = .names [] (some e) := by
  exact stack_page_err p1 p2 S h n ho hi es e hsrc

/-- **3. hidden and protected through the stack.**  A regular file whose name fails `p1` OR fails `p2`:
    Stat, Open, OpenFile (any flags), Chmod, Chown, Chtimes, Remove, Create, RemoveAll on its name fail with
    not-exist and leave the whole stack state — source included — unchanged.  For every state. -/
theorem stack_hidden (p1 p2 : Str → Bool) (S : StackSt) (p : Str) (hf : IsFile S.m.m p)
    (hp : p1 p = false ∨ p2 p = false) (op : Op)
    (hop : op = .stat p ∨ op = .open_ p ∨ (∃ fl pm, op = .openFile p fl pm) ∨ (∃ md, op = .chmod p md) ∨
           (∃ u g, op = .chown p u g) ∨ (∃ t, op = .chtimes p t) ∨ op = .remove p ∨ op = .create p ∨
           op = .removeAll p) :
    reStack p1 p2 S op = (S, .err .notexist) := by
  exact AferoVerif.stack_hidden p1 p2 S p hf hp op hop

/-- such a file can be renamed neither from … -/
theorem stack_hidden_rename_from (p1 p2 : Str → Bool) (S : StackSt) (p q : Str) (hf : IsFile S.m.m p)
    (hp : p1 p = false ∨ p2 p = false) :
    reStack p1 p2 S (.rename p q) = (S, .err .notexist) := by
  exact AferoVerif.stack_hidden_rename_from p1 p2 S p q hf hp

/-- … nor can any file be renamed to a name that fails `p1` or fails `p2` -/
theorem stack_hidden_rename_to (p1 p2 : Str → Bool) (S : StackSt) (a p : Str) (ha : IsFile S.m.m a)
    (hp : p1 p = false ∨ p2 p = false) :
    reStack p1 p2 S (.rename a p) = (S, .err .notexist) := by
  exact AferoVerif.stack_hidden_rename_to p1 p2 S a p ha hp

/-- **matching files behave as in the source, directories are visible.**  For a directory (whatever its
    name), or a regular file matching both patterns: Stat, Chmod, Chown, Chtimes, Remove through the stack
    answer what the source answers and change the source as the call on the source itself does. -/
theorem stack_transparent (p1 p2 : Str → Bool) (S : StackSt) (p : Str)
    (hv : IsDirectory S.m.m p ∨ (IsFile S.m.m p ∧ p1 p = true ∧ p2 p = true)) (op : Op)
    (hop : op = .stat p ∨ (∃ md, op = .chmod p md) ∨ (∃ u g, op = .chown p u g) ∨ (∃ t, op = .chtimes p t) ∨
           op = .remove p) :
    (reStack p1 p2 S op).2 = (S.m.m.step op).2 ∧ (reStack p1 p2 S op).1.m.m = (S.m.m.step op).1 ∧
    (reStack p1 p2 S op).1.filtered = S.filtered ∧ (reStack p1 p2 S op).1.m.filtered = S.m.filtered := by
  exact AferoVerif.stack_transparent p1 p2 S p hv op hop

/-- Rename of a file matching both patterns to a name matching both is the source's Rename -/
theorem stack_rename_matching (p1 p2 : Str → Bool) (S : StackSt) (a b : Str) (ha : IsFile S.m.m a)
    (h1a : p1 a = true) (h2a : p2 a = true) (h1b : p1 b = true) (h2b : p2 b = true) :
    (reStack p1 p2 S (.rename a b)).2 = (S.m.m.step (.rename a b)).2 ∧
    (reStack p1 p2 S (.rename a b)).1.m.m = (S.m.m.step (.rename a b)).1 := by
  exact AferoVerif.stack_rename_matching p1 p2 S a b ha h1a h2a h1b h2b

/-- **never listed.**  Whatever a handle opened through the stack lists, for every page size: directories,
    and names that match BOTH patterns. -/
theorem stack_never_listed (p1 p2 : Str → Bool) (S : StackSt) (h : Nat) (n : Int)
    (ho : S.filtered.contains h = true) (hi : S.m.filtered.contains h = true)
    (es : List (Str × Bool)) (e : Option FErr) (hres : (reStack p1 p2 S (.hReaddir h n)).2 = .infos es e) :
    ∀ x ∈ es, x.2 = true ∨ (p1 x.1 = true ∧ p2 x.1 = true) := by
  exact AferoVerif.stack_never_listed p1 p2 S h n ho hi es e hres

theorem stack_never_listed_names (p1 p2 : Str → Bool) (S : StackSt) (h : Nat) (n : Int)
    (ho : S.filtered.contains h = true) (hi : S.m.filtered.contains h = true)
    (ns : List Str) (e : Option FErr) (hres : (reStack p1 p2 S (.hReaddirnames h n)).2 = .names ns e) :
    ∃ es : List (Str × Bool), ns = es.map (·.1) ∧ ∀ x ∈ es, x.2 = true ∨ (p1 x.1 = true ∧ p2 x.1 = true) := by
  exact AferoVerif.stack_never_listed_names p1 p2 S h n ho hi ns e hres

/-- the proviso of (2) is needed, though no program meets it: a handle wrapped by the outer level only
    lists through `p2` alone -/
theorem stack_proviso_needed (p1 p2 : Str → Bool) (S : StackSt) (h : Nat) (n : Int)
    (ho : S.filtered.contains h = true) (hi : S.m.filtered.contains h = false)
    (es : List (Str × Bool)) (hsrc : (S.m.m.step (.hReaddir h n)).2 = .infos es none) :
    (reStack p1 p2 S (.hReaddir h n)).2 = .infos (es.filter fun e => e.2 || p2 e.1) none := by
  exact stack_page_outer_only p1 p2 S h n ho hi es hsrc

/-! ### 4. non-vacuity: `\.txt$` stacked under `(^|/)a[^/]*$` on a concrete tree -/

/-- `/d` with the files `a.txt` (matches both), `ax` (fails `predTxt`), `b.txt` (fails `predA`) and the
    directory `sub` -/
def tree : MemFs :=
  let m := (MemFs.init.step (.mkdir "/d".toList 0o755)).1
  let m := (m.step (.create "/d/a.txt".toList)).1
  let m := (m.step (.create "/d/ax".toList)).1
  let m := (m.step (.create "/d/b.txt".toList)).1
  let m := (m.step (.mkdir "/d/sub".toList 0o755)).1
  { m with handles := [] }

/-- the fresh stack over it -/
def S0 : StackSt := stackOf { m := tree }

example : IsFile tree "/d/ax".toList ∧ predTxt "/d/ax".toList = false := ⟨⟨3, by decide, by decide⟩, by decide⟩
example : IsFile tree "/d/b.txt".toList ∧ predA "/d/b.txt".toList = false := ⟨⟨4, by decide, by decide⟩, by decide⟩
example : IsFile tree "/d/a.txt".toList ∧ conjPred predTxt predA "/d/a.txt".toList = true :=
  ⟨⟨2, by decide, by decide⟩, by decide⟩
/-- Stat: the file failing the inner pattern, the file failing the outer one, the file matching both, the
    directory (which matches neither) -/
example : (reStack predTxt predA S0 (.stat "/d/ax".toList)).2 = .err .notexist := by decide
example : (reStack predTxt predA S0 (.stat "/d/b.txt".toList)).2 = .err .notexist := by decide
example : (reStack predTxt predA S0 (.stat "/d/a.txt".toList)).2 = .info "a.txt".toList 0 false modeTemporary := by decide
example : (reStack predTxt predA S0 (.stat "/d/sub".toList)).2 = .info "sub".toList 42 true (modeDir ||| 0o755) := by decide
example : predTxt "/d/sub".toList = false ∧ predA "/d/sub".toList = false := by decide
/-- the theorem applies: Remove of either hidden file changes nothing -/
example : reStack predTxt predA S0 (.remove "/d/ax".toList) = (S0, .err .notexist) :=
  stack_hidden _ _ S0 "/d/ax".toList ⟨3, by decide, by decide⟩ (Or.inl (by decide)) _ (by simp)
example : reStack predTxt predA S0 (.remove "/d/b.txt".toList) = (S0, .err .notexist) :=
  stack_hidden _ _ S0 "/d/b.txt".toList ⟨4, by decide, by decide⟩ (Or.inr (by decide)) _ (by simp)
/-- Rename: to a name failing the inner pattern, to a name failing the outer one, to a name matching both;
    Create of a name failing one of them -/
example : (reStack predTxt predA S0 (.rename "/d/a.txt".toList "/d/ab".toList)).2 = .err .notexist := by decide
example : (reStack predTxt predA S0 (.rename "/d/a.txt".toList "/d/c.txt".toList)).2 = .err .notexist := by decide
example : (reStack predTxt predA S0 (.rename "/d/a.txt".toList "/d/a2.txt".toList)).2 =
    (tree.step (.rename "/d/a.txt".toList "/d/a2.txt".toList)).2 :=
  (stack_rename_matching _ _ S0 "/d/a.txt".toList "/d/a2.txt".toList ⟨2, by decide, by decide⟩
    (by decide) (by decide) (by decide) (by decide)).1
example : (reStack predTxt predA S0 (.remove "/d/a.txt".toList)).2 = .ok := by decide
example : (reStack predTxt predA S0 (.chmod "/d/a.txt".toList 0o600)).2 = .ok := by decide
example : (reStack predTxt predA S0 (.create "/d/ay".toList)).2 = .err .notexist := by decide
example : (reStack predTxt predA S0 (.create "/d/a3.txt".toList)).2 = .handle 0 none := by decide

/-- `/d` opened through the stack: handle 0, wrapped at both levels -/
def S1 : StackSt := (reStack predTxt predA S0 (.open_ "/d".toList)).1
example : (reStack predTxt predA S0 (.open_ "/d".toList)).2 = .handle 0 none := by decide
example : S1.filtered = [0] ∧ S1.m.filtered = [0] := by decide

/-- what the source lists: everything / its first page of two -/
theorem tree_page_all : (S1.m.m.step (.hReaddir 0 (-1))).2 =
    .infos [("a.txt".toList, false), ("ax".toList, false), ("b.txt".toList, false), ("sub".toList, true)] none := by
  have hh : S1.m.m.handles[0]? = some { obj := 1, h := { readOnly := true } } := by rfl
  simp only [MemFs.step, MemFs.readdir, hh]
  rw [dirFiles_sorted _ _ (by decide)]
  decide

theorem tree_page_two : (S1.m.m.step (.hReaddir 0 2)).2 =
    .infos [("a.txt".toList, false), ("ax".toList, false)] none := by
  have hh : S1.m.m.handles[0]? = some { obj := 1, h := { readOnly := true } } := by rfl
  simp only [MemFs.step, MemFs.readdir, hh]
  rw [dirFiles_sorted _ _ (by decide)]
  decide

/-- the stack lists the file matching both patterns and the directory -/
example : (reStack predTxt predA S1 (.hReaddir 0 (-1))).2 =
    .infos [("a.txt".toList, false), ("sub".toList, true)] none := by
  rw [(stack_listing predTxt predA S1 0 (-1) (by decide) (by decide) _ tree_page_all).2.1]; decide
example : (reStack predTxt predA S1 (.hReaddirnames 0 (-1))).2 = .names ["a.txt".toList, "sub".toList] none := by
  rw [(stack_listing predTxt predA S1 0 (-1) (by decide) (by decide) _ tree_page_all).2.2.1]; decide
/-- a page of two asked, one entry shown (the source's two were `a.txt`, `ax`) — as with the single filter -/
example : (reStack predTxt predA S1 (.hReaddir 0 2)).2 = .infos [("a.txt".toList, false)] none := by
  rw [(stack_listing predTxt predA S1 0 2 (by decide) (by decide) _ tree_page_two).2.1]; decide
example : (reStep (conjPred predTxt predA) S1.flat (.hReaddir 0 2)).2 = .infos [("a.txt".toList, false)] none := by
  rw [← (stack_is_conjunction predTxt predA S1 (.hReaddir 0 2) (by intro h hh; cases hh; decide)).1,
    (stack_listing predTxt predA S1 0 2 (by decide) (by decide) _ tree_page_two).2.1]; decide
/-- the proviso: were handle 0 wrapped by the outer level only, `ax` would show -/
def S1bad : StackSt := { m := { m := S1.m.m, filtered := [] }, filtered := [0] }
example : (reStack predTxt predA S1bad (.hReaddir 0 (-1))).2 =
    .infos [("a.txt".toList, false), ("ax".toList, false), ("sub".toList, true)] none := by
  rw [stack_proviso_needed predTxt predA S1bad 0 (-1) (by decide) (by decide) _ tree_page_all]; decide

end AferoVerif.C13
