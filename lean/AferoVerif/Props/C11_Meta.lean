/-
  Property C11 (and the routing clauses of C10), the situations Props/C11_Fs.lean leaves outside `CoveredOp`:

  (1) Chmod / Chown / Chtimes of a name that is a DIRECTORY of the base and absent from the cache layer;
  (2) Rename of a regular base file that is NOT a cache hit (a miss; a stale copy);
  (3) Rename of a cached directory WITH its entries (the cache layer holding all, some or none of them);
  (4) a name that is a directory in one layer and a regular file in the other: what Stat and Open answer.

  The model (`Cache.step`, tied to cacheOnReadFs.go by differential testing) is the authority; the statements
  say what it does.  Vocabulary: `Coherent`, `Inv`, `BaseThenLayer`, `Relinked`, `Copied` (Proofs/CacheCoherent.lean);
  `view`, `refRenameDir`, `RenameLeaf`, `RenameSubtree`, `ObjsOK` (Proofs/MemFsRef.lean, MemFsFragment.lean);
  `InvOK` = `Inv` + `ObjsOK` of both layers, `TreesOK` = `InvOK` without the coherence clause, `CoherentOff s k` =
  coherent except possibly at `k`, `withDirOf L p` = `L` after `MkdirAll(filepath.Dir(p), 0777)` if `L` lacked
  that directory (Proofs/CacheMeta.lean, Proofs/CowInert.lean).

  What is FALSE of the model, and proved here instead:
  * (1) the "natural" reading — the metadata call reaches the base and the cache layer — is false: the call
    FAILS with an i/o error before either layer is called (`chmod_uncached_dir` …); the directory is not made in
    the cache layer; but directories ABOVE it that the layer lacked are (`uncached_dir_residue`).
  * (1') with the cached directory STALE instead of absent, the same failing call removes the directory's entry
    from the cache layer and orphans its entries: `Inv` breaks at `Consistent` of the cache layer, clause
    `hasParent` (`stale_dir_chmod_breaks_cache_tree`, a concrete state).
  * (4) a cached directory over a base file is served as a directory for as long as it is a hit, and `Open`
    wraps a base FILE handle and a layer DIRECTORY handle into one UnionFile (`cached_dir_over_base_file`).
-/
import AferoVerif.Proofs.CacheMeta
namespace AferoVerif.C11
open AferoVerif AferoVerif.Cache AferoVerif.MemFs

/-! ### (1) Chmod / Chown / Chtimes of a directory only the base holds -/

/-- **Chmod of a directory the cache layer does not hold fails, and reaches neither layer.**  In a state with
    the invariant `InvOK`, for a name that is a directory of the base and absent from the cache layer
    (`UncachedBaseDir`): the call answers the i/o error of the copy-up it tries first; the base is what it
    was (it is never called); the handle table is what it was; the cache layer is not given the call — its
    view is the one after `MkdirAll(filepath.Dir(p))` (`withDirOf`), so the directory itself is NOT made
    there (the name is still missing) although missing directories above it are; the layers are coherent and
    the invariant holds afterwards. -/
theorem chmod_uncached_dir (dur : Int) (c : Cow) (p : Str) (mode : Nat) (hi : InvOK c) (h : UncachedBaseDir c p) :
    (Cache.step dur c (.chmod p mode)).2 = .err .io ∧ (Cache.step dur c (.chmod p mode)).1.s.b = c.s.b ∧
    (Cache.step dur c (.chmod p mode)).1.hs = c.hs ∧
    view (Cache.step dur c (.chmod p mode)).1.s.l = view (withDirOf c.s.l p) ∧
    (Cache.step dur c (.chmod p mode)).1.s.l.lookup (keyOfStr p) = none ∧
    Coherent (Cache.step dur c (.chmod p mode)).1.s ∧ InvOK (Cache.step dur c (.chmod p mode)).1 :=
  both_uncached_dir c dur p (.chmod p mode) hi h

/-- **Chown** of such a name: the same -/
theorem chown_uncached_dir (dur : Int) (c : Cow) (p : Str) (uid gid : Int) (hi : InvOK c) (h : UncachedBaseDir c p) :
    (Cache.step dur c (.chown p uid gid)).2 = .err .io ∧ (Cache.step dur c (.chown p uid gid)).1.s.b = c.s.b ∧
    (Cache.step dur c (.chown p uid gid)).1.hs = c.hs ∧
    view (Cache.step dur c (.chown p uid gid)).1.s.l = view (withDirOf c.s.l p) ∧
    (Cache.step dur c (.chown p uid gid)).1.s.l.lookup (keyOfStr p) = none ∧
    Coherent (Cache.step dur c (.chown p uid gid)).1.s ∧ InvOK (Cache.step dur c (.chown p uid gid)).1 :=
  both_uncached_dir c dur p (.chown p uid gid) hi h

/-- **Chtimes** of such a name: the same -/
theorem chtimes_uncached_dir (dur : Int) (c : Cow) (p : Str) (t : Int) (hi : InvOK c) (h : UncachedBaseDir c p) :
    (Cache.step dur c (.chtimes p t)).2 = .err .io ∧ (Cache.step dur c (.chtimes p t)).1.s.b = c.s.b ∧
    (Cache.step dur c (.chtimes p t)).1.hs = c.hs ∧
    view (Cache.step dur c (.chtimes p t)).1.s.l = view (withDirOf c.s.l p) ∧
    (Cache.step dur c (.chtimes p t)).1.s.l.lookup (keyOfStr p) = none ∧
    Coherent (Cache.step dur c (.chtimes p t)).1.s ∧ InvOK (Cache.step dur c (.chtimes p t)).1 :=
  both_uncached_dir c dur p (.chtimes p t) hi h

/-- … when the cache layer holds the directory the name lies in, the failed call leaves the cache layer's view
    exactly as it was (`op`: the Chmod / Chown / Chtimes call, routed through `Cache.both`) -/
theorem uncached_dir_parent_cached_view_same (dur : Int) (c : Cow) (p : Str) (op : Op) (hi : InvOK c)
    (h : UncachedBaseDir c p) (hp : (c.s.l.lookup (keyOfStr (Path.dir p))).isSome = true) :
    view (both c dur p op).1.s.l = view c.s.l :=
  both_uncached_dir_parent_cached c dur p op hi h hp

/-- … and in general the residue is this (`withDirOf c.s.l p` being the layer whose view the cache layer has
    after the failed call): every name the cache layer held leads to the same object with the same bytes; every
    name it has gained is a DIRECTORY — `filepath.Dir(p)` or a name above it -/
theorem uncached_dir_residue (c : Cow) (p : Str) (hi : InvOK c)
    (k : Key) (g : Nat) (hg : (withDirOf c.s.l p).lookup k = some g) :
    (c.s.l.lookup k = some g ∧ ((withDirOf c.s.l p).obj g).data = (c.s.l.obj g).data) ∨
    (c.s.l.lookup k = none ∧ ((withDirOf c.s.l p).obj g).dir = true ∧
      (k = keyOfStr (Path.dir p) ∨ isUnder k (keyOfStr (Path.dir p)) = true)) :=
  both_uncached_dir_residue c p hi k g hg

/-- the hypotheses hold in `cMiss` (base: `/a/b/f`, `/a/g`, `/g`; empty cache layer) for `chmod /a/b`: the call
    answers the i/o error; `/a/b` is still missing in the cache layer, but its parent `/a` — which the layer
    lacked — is now a directory there (object 1); the invariant holds afterwards.  For `chtimes /a` (parent: the
    root, which the layer holds) the layer's view is unchanged. -/
example : InvOK cMiss ∧ UncachedBaseDir cMiss "/a/b".toList ∧
    (Cache.step 0 cMiss (.chmod "/a/b".toList 0o700)).2 = .err .io ∧
    (Cache.step 0 cMiss (.chmod "/a/b".toList 0o700)).1.s.b = cMiss.s.b ∧
    (Cache.step 0 cMiss (.chmod "/a/b".toList 0o700)).1.s.l.lookup (keyOfStr "/a/b".toList) = none ∧
    cMiss.s.l.lookup (keyOfStr "/a".toList) = none ∧
    (Cache.step 0 cMiss (.chmod "/a/b".toList 0o700)).1.s.l.lookup (keyOfStr "/a".toList) = some 1 ∧
    ((Cache.step 0 cMiss (.chmod "/a/b".toList 0o700)).1.s.l.obj 1).dir = true ∧
    InvOK (Cache.step 0 cMiss (.chmod "/a/b".toList 0o700)).1 ∧
    UncachedBaseDir cMiss "/a".toList ∧
    (Cache.step 0 cMiss (.chtimes "/a".toList 77)).2 = .err .io ∧
    view (Cache.step 0 cMiss (.chtimes "/a".toList 77)).1.s.l = view cMiss.s.l :=
  have H := chmod_uncached_dir 0 cMiss "/a/b".toList 0o700 invOK_cMiss uncachedBaseDir_cMiss
  ⟨invOK_cMiss, uncachedBaseDir_cMiss, H.1, H.2.1, H.2.2.2.2.1, by decide, by decide, by decide, H.2.2.2.2.2.2,
    uncachedBaseDir_cMiss', (chtimes_uncached_dir 0 cMiss "/a".toList 77 invOK_cMiss uncachedBaseDir_cMiss').1,
    uncached_dir_parent_cached_view_same 0 cMiss "/a".toList (.chtimes "/a".toList 77) invOK_cMiss
      uncachedBaseDir_cMiss' (by decide)⟩

/-- **where the invariant does NOT survive: the cached directory is stale, not absent.**  `cStaleDir`: both
    layers hold the directory `/d` with the entry `/d/f`, the base's `/d` is newer than the cached one and the
    duration (10) has passed; `InvOK` holds.  `Chmod /d` answers the i/o error; the base still holds `/d`; in
    the cache layer `/d` is gone (the copy-up replaced the directory entry by a file and removed it again) while
    `/d/f` is still in the path map, so `Consistent` fails for the cache layer at the clause `hasParent`
    (`Inv.cl`); `Coherent` still holds.  All of it evaluated on the concrete state. -/
theorem stale_dir_chmod_breaks_cache_tree :
    InvOK cStaleDir ∧ cacheStatus cStaleDir 10 (keyOfStr "/d".toList) = .stale ∧
    (Cache.step 10 cStaleDir (.chmod "/d".toList 0o700)).2 = .err .io ∧
    (Cache.step 10 cStaleDir (.chmod "/d".toList 0o700)).1.s.b.lookup (keyOfStr "/d".toList) = some 1 ∧
    (Cache.step 10 cStaleDir (.chmod "/d".toList 0o700)).1.s.l.lookup (keyOfStr "/d".toList) = none ∧
    (Cache.step 10 cStaleDir (.chmod "/d".toList 0o700)).1.s.l.lookup (keyOfStr "/d/f".toList) = some 2 ∧
    ¬ Consistent (Cache.step 10 cStaleDir (.chmod "/d".toList 0o700)).1.s.l ∧
    Coherent (Cache.step 10 cStaleDir (.chmod "/d".toList 0o700)).1.s :=
  staleDir_breaks_layer

/-! ### (2) Rename of a regular base file that is not a cache hit -/

/-- **Rename of an uncached or outdated regular file copies it first, then moves it in both layers.**  `a` is a
    regular file of the base whose status is miss or stale (`UncachedFile`); both layers are consistent trees,
    coherent except possibly at `a` (an outdated copy may hold any bytes); the base, and the cache layer as the
    copy-up leaves it (`layerBefore`), meet the ordinary preconditions of a leaf rename.  Then the call
    answers ok; the copy-up has put the base's bytes under `a` in the cache layer and kept every other name of
    it (`Copied`, and the clause after it); the base has moved `a` to `b` (`Relinked`); the cache layer has
    moved the fresh copy from `a` to `b`; the layers are coherent and `InvOK` holds afterwards. -/
theorem rename_uncached_file (dur : Int) (c : Cow) (a b : Str) (bf : Nat) (ht : TreesOK c)
    (hco : CoherentOff c.s (keyOfStr a)) (h : UncachedFile c dur a bf) (hne : keyOfStr a ≠ keyOfStr b)
    (hrb : RenameLeaf c.s.b (keyOfStr a) (keyOfStr b))
    (hrl : RenameLeaf (layerBefore c dur a) (keyOfStr a) (keyOfStr b)) :
    (Cache.step dur c (.rename a b)).2 = .ok ∧
    Copied (keyOfStr a) (c.s.b.obj bf).data c.s.l (layerBefore c dur a) ∧
    (∀ k' f, c.s.l.lookup k' = some f → k' ≠ keyOfStr a → (layerBefore c dur a).lookup k' = some f) ∧
    Relinked (keyOfStr a) (keyOfStr b) bf c.s.b (Cache.step dur c (.rename a b)).1.s.b ∧
    (∃ lf, (layerBefore c dur a).lookup (keyOfStr a) = some lf ∧
      ((layerBefore c dur a).obj lf).data = (c.s.b.obj bf).data ∧
      Relinked (keyOfStr a) (keyOfStr b) lf (layerBefore c dur a) (Cache.step dur c (.rename a b)).1.s.l) ∧
    Coherent (Cache.step dur c (.rename a b)).1.s ∧ InvOK (Cache.step dur c (.rename a b)).1 :=
  rename_uncached dur c a b bf ht hco h hne hrb hrl

/-- … **name by name**: afterwards the cache layer holds nothing under `a`, and neither does the base; under `b`
    the base holds the object `a` led to (a regular file with its old bytes) and the cache layer holds an object
    with exactly those bytes; every other name of the base leads where it led, and every other name the cache
    layer held still leads to its object -/
theorem rename_uncached_file_effect (dur : Int) (c : Cow) (a b : Str) (bf : Nat) (ht : TreesOK c)
    (hco : CoherentOff c.s (keyOfStr a)) (h : UncachedFile c dur a bf) (hne : keyOfStr a ≠ keyOfStr b)
    (hrb : RenameLeaf c.s.b (keyOfStr a) (keyOfStr b))
    (hrl : RenameLeaf (layerBefore c dur a) (keyOfStr a) (keyOfStr b)) :
    ∃ lf, (Cache.step dur c (.rename a b)).1.s.l.lookup (keyOfStr a) = none ∧
      (Cache.step dur c (.rename a b)).1.s.b.lookup (keyOfStr a) = none ∧
      (Cache.step dur c (.rename a b)).1.s.l.lookup (keyOfStr b) = some lf ∧
      (Cache.step dur c (.rename a b)).1.s.b.lookup (keyOfStr b) = some bf ∧
      ((Cache.step dur c (.rename a b)).1.s.l.obj lf).data = ((Cache.step dur c (.rename a b)).1.s.b.obj bf).data ∧
      ((Cache.step dur c (.rename a b)).1.s.b.obj bf).data = (c.s.b.obj bf).data ∧
      ((Cache.step dur c (.rename a b)).1.s.b.obj bf).dir = false ∧
      (∀ k, k ≠ keyOfStr a → k ≠ keyOfStr b →
        (Cache.step dur c (.rename a b)).1.s.b.lookup k = c.s.b.lookup k ∧
        ∀ f, c.s.l.lookup k = some f → (Cache.step dur c (.rename a b)).1.s.l.lookup k = some f) :=
  rename_uncached_effect dur c a b bf ht hco h hne hrb hrl

/-- … **with hypotheses on the state before the call only**, for a rename that stays within one directory onto
    a name the cache layer does not hold (where the cache layer holds `filepath.Dir(a)`, it is a directory): the
    cache layer as the copy-up leaves it then meets the preconditions (`renameLeaf_layerBefore_same_dir`), so:
    the call answers ok; afterwards neither layer holds anything under `a`; under `b` the base holds the object
    `a` led to and the cache layer an object with exactly the base's bytes; all other names keep their objects;
    the layers are coherent and `InvOK` holds -/
theorem rename_uncached_file_same_dir (dur : Int) (c : Cow) (a b : Str) (bf : Nat) (ht : TreesOK c)
    (hco : CoherentOff c.s (keyOfStr a)) (h : UncachedFile c dur a bf)
    (hpd : ∀ q, c.s.l.lookup (keyOfStr (Path.dir a)) = some q → (c.s.l.obj q).dir = true)
    (hne : keyOfStr a ≠ keyOfStr b)
    (hsame : parentKey (keyOfStr b) = parentKey (keyOfStr a)) (hfree : c.s.l.lookup (keyOfStr b) = none)
    (hrb : RenameLeaf c.s.b (keyOfStr a) (keyOfStr b)) :
    (Cache.step dur c (.rename a b)).2 = .ok ∧
    (∃ lf, (Cache.step dur c (.rename a b)).1.s.l.lookup (keyOfStr a) = none ∧
      (Cache.step dur c (.rename a b)).1.s.b.lookup (keyOfStr a) = none ∧
      (Cache.step dur c (.rename a b)).1.s.l.lookup (keyOfStr b) = some lf ∧
      (Cache.step dur c (.rename a b)).1.s.b.lookup (keyOfStr b) = some bf ∧
      ((Cache.step dur c (.rename a b)).1.s.l.obj lf).data = ((Cache.step dur c (.rename a b)).1.s.b.obj bf).data ∧
      ((Cache.step dur c (.rename a b)).1.s.b.obj bf).data = (c.s.b.obj bf).data ∧
      ((Cache.step dur c (.rename a b)).1.s.b.obj bf).dir = false ∧
      (∀ k, k ≠ keyOfStr a → k ≠ keyOfStr b →
        (Cache.step dur c (.rename a b)).1.s.b.lookup k = c.s.b.lookup k ∧
        ∀ f, c.s.l.lookup k = some f → (Cache.step dur c (.rename a b)).1.s.l.lookup k = some f)) ∧
    Coherent (Cache.step dur c (.rename a b)).1.s ∧ InvOK (Cache.step dur c (.rename a b)).1 :=
  have hrl := renameLeaf_layerBefore_same_dir c dur a b bf ht h hpd hne hsame hfree
  have H := rename_uncached dur c a b bf ht hco h hne hrb hrl
  ⟨H.1, rename_uncached_effect dur c a b bf ht hco h hne hrb hrl, H.2.2.2.2.2.1, H.2.2.2.2.2.2⟩

/-- a MISS: `rename /a/b/f /a/b/h` in `cMiss` (the cache layer is empty; the copy-up makes `/a`, `/a/b` and
    `/a/b/f` there).  Every hypothesis holds; afterwards `/a/b/h` holds "hi" in both layers, `/a/b/f` is gone
    from both, the state is coherent. -/
example : TreesOK cMiss ∧ CoherentOff cMiss.s (keyOfStr "/a/b/f".toList) ∧ UncachedFile cMiss 0 "/a/b/f".toList 3 ∧
    cacheStatus cMiss 0 (keyOfStr "/a/b/f".toList) = .miss ∧
    (Cache.step 0 cMiss (.rename "/a/b/f".toList "/a/b/h".toList)).2 = .ok ∧
    (∃ lf, (Cache.step 0 cMiss (.rename "/a/b/f".toList "/a/b/h".toList)).1.s.l.lookup (keyOfStr "/a/b/f".toList) = none ∧
      (Cache.step 0 cMiss (.rename "/a/b/f".toList "/a/b/h".toList)).1.s.l.lookup (keyOfStr "/a/b/h".toList) = some lf ∧
      ((Cache.step 0 cMiss (.rename "/a/b/f".toList "/a/b/h".toList)).1.s.l.obj lf).data = [104, 105]) ∧
    Coherent (Cache.step 0 cMiss (.rename "/a/b/f".toList "/a/b/h".toList)).1.s := by
  have ht := invOK_cMiss.trees
  have hco := coherentOff_of_coherent invOK_cMiss.inv.coh (keyOfStr "/a/b/f".toList)
  have H := rename_uncached_file 0 cMiss _ "/a/b/h".toList 3 ht hco uncachedFile_cMiss (by decide) renameLeaf_mB
    renameLeaf_cMiss_layer
  obtain ⟨lf, e1, _, e3, _, e5, e6, _⟩ := rename_uncached_file_effect 0 cMiss _ "/a/b/h".toList 3 ht hco
    uncachedFile_cMiss (by decide) renameLeaf_mB renameLeaf_cMiss_layer
  exact ⟨ht, hco, uncachedFile_cMiss, by decide, H.1, ⟨lf, e1, e3, by rw [e5, e6]; decide⟩, H.2.2.2.2.2.1⟩

/-- the same call through `rename_uncached_file_same_dir`: its hypotheses speak of `cMiss` only (`/a/b/h` has the
    parent of `/a/b/f`, the cache layer holds neither it nor `/a/b`) -/
example : (Cache.step 0 cMiss (.rename "/a/b/f".toList "/a/b/h".toList)).2 = .ok ∧
    InvOK (Cache.step 0 cMiss (.rename "/a/b/f".toList "/a/b/h".toList)).1 :=
  have H := rename_uncached_file_same_dir 0 cMiss "/a/b/f".toList "/a/b/h".toList 3 invOK_cMiss.trees
    (coherentOff_of_coherent invOK_cMiss.inv.coh _) uncachedFile_cMiss
    (fun q h => nomatch (h.symm.trans (by decide : _ = none))) (by decide) (by decide) (by decide) renameLeaf_mB
  ⟨H.1, H.2.2.2⟩

/-- a STALE copy: `rename /g /h` in `cStale` — the cache layer holds an outdated `/g` (bytes 9 9) while the
    base's `/g` holds 1 2 3, so the state is NOT coherent before the call (`not_coherent_cStale`), only
    `CoherentOff` at `/g`.  Afterwards the cache layer holds 1 2 3 under `/h`, nothing under `/g`, and the
    state IS coherent: the stale copy has been refreshed, then moved. -/
example : TreesOK cStale ∧ ¬ Coherent cStale.s ∧ CoherentOff cStale.s (keyOfStr "/g".toList) ∧
    UncachedFile cStale 10 "/g".toList 5 ∧ cacheStatus cStale 10 (keyOfStr "/g".toList) = .stale ∧
    (Cache.step 10 cStale (.rename "/g".toList "/h".toList)).2 = .ok ∧
    (∃ lf, (Cache.step 10 cStale (.rename "/g".toList "/h".toList)).1.s.l.lookup (keyOfStr "/g".toList) = none ∧
      (Cache.step 10 cStale (.rename "/g".toList "/h".toList)).1.s.l.lookup (keyOfStr "/h".toList) = some lf ∧
      ((Cache.step 10 cStale (.rename "/g".toList "/h".toList)).1.s.l.obj lf).data = [1, 2, 3]) ∧
    Coherent (Cache.step 10 cStale (.rename "/g".toList "/h".toList)).1.s := by
  have H := rename_uncached_file 10 cStale _ "/h".toList 5 treesOK_cStale coherentOff_cStale uncachedFile_cStale
    (by decide) renameLeaf_cStale_base renameLeaf_cStale_layer
  obtain ⟨lf, e1, _, e3, _, e5, e6, _⟩ := rename_uncached_file_effect 10 cStale _ "/h".toList 5 treesOK_cStale
    coherentOff_cStale uncachedFile_cStale (by decide) renameLeaf_cStale_base renameLeaf_cStale_layer
  exact ⟨treesOK_cStale, not_coherent_cStale, coherentOff_cStale, uncachedFile_cStale, by decide, H.1,
    ⟨lf, e1, e3, by rw [e5, e6]; decide⟩, H.2.2.2.2.2.1⟩

/-! ### (3) Rename of a cached directory with its entries -/

/-- **Rename of a cached directory moves the subtree in both layers and keeps them coherent.**  The old name is
    a cache hit; each layer meets the ordinary preconditions of a rename — of a leaf (`RenameLeaf`) or of a
    directory with everything below it onto a free name (`RenameSubtree`); the cache layer may hold all, some
    or none of the base's entries.  Then the call answers ok; each layer is its own answer to `Rename`; in
    BOTH layers the view is the old one with the subtree moved (`refRenameDir`: the new name and every name
    below it denote what the corresponding old names did, nothing is left at or below the old name, every other
    name is untouched); the layers are coherent — for every name, hence for every name below the new
    directory — and `InvOK` holds. -/
theorem rename_cached_dir (dur : Int) (c : Cow) (a b : Str) (hi : InvOK c)
    (hst : cacheStatus c dur (keyOfStr a) = .hit) (hne : keyOfStr a ≠ keyOfStr b)
    (hrb : RenameLeaf c.s.b (keyOfStr a) (keyOfStr b) ∨ RenameSubtree c.s.b (keyOfStr a) (keyOfStr b))
    (hrl : RenameLeaf c.s.l (keyOfStr a) (keyOfStr b) ∨ RenameSubtree c.s.l (keyOfStr a) (keyOfStr b)) :
    (Cache.step dur c (.rename a b)).2 = .ok ∧
    (Cache.step dur c (.rename a b)).1.s.b = (c.s.b.rename (keyOfStr a) (keyOfStr b)).1 ∧
    (Cache.step dur c (.rename a b)).1.s.l = (c.s.l.rename (keyOfStr a) (keyOfStr b)).1 ∧
    view (Cache.step dur c (.rename a b)).1.s.b = refRenameDir (view c.s.b) (keyOfStr a) (keyOfStr b) ∧
    view (Cache.step dur c (.rename a b)).1.s.l = refRenameDir (view c.s.l) (keyOfStr a) (keyOfStr b) ∧
    Coherent (Cache.step dur c (.rename a b)).1.s ∧ InvOK (Cache.step dur c (.rename a b)).1 :=
  rename_dir_cached dur c a b hi hst hne hrb hrl

/-- … **entry by entry** (a directory with entries, in both layers onto a free name): for every name `k` below
    the old directory each layer shows under the corresponding new name exactly what it showed under `k`, and
    nothing under `k` any more; the directory itself is shown under the new name, no longer under the old one -/
theorem rename_cached_dir_entries (dur : Int) (c : Cow) (a b : Str) (hi : InvOK c)
    (hst : cacheStatus c dur (keyOfStr a) = .hit) (hne : keyOfStr a ≠ keyOfStr b)
    (hrb : RenameSubtree c.s.b (keyOfStr a) (keyOfStr b)) (hrl : RenameSubtree c.s.l (keyOfStr a) (keyOfStr b))
    (k : Key) (hu : isUnder (keyOfStr a) k = true) :
    (view (Cache.step dur c (.rename a b)).1.s.b (rePrefix (keyOfStr a) (keyOfStr b) k) = view c.s.b k ∧
      view (Cache.step dur c (.rename a b)).1.s.b k = none ∧
      view (Cache.step dur c (.rename a b)).1.s.b (keyOfStr b) = view c.s.b (keyOfStr a) ∧
      view (Cache.step dur c (.rename a b)).1.s.b (keyOfStr a) = none) ∧
    (view (Cache.step dur c (.rename a b)).1.s.l (rePrefix (keyOfStr a) (keyOfStr b) k) = view c.s.l k ∧
      view (Cache.step dur c (.rename a b)).1.s.l k = none ∧
      view (Cache.step dur c (.rename a b)).1.s.l (keyOfStr b) = view c.s.l (keyOfStr a) ∧
      view (Cache.step dur c (.rename a b)).1.s.l (keyOfStr a) = none) :=
  rename_dir_cached_entries dur c a b hi hst hne hrb hrl k hu

/-- … **coherence below the new directory**: a regular file the cache layer held under a name `k` below the old
    directory is afterwards held, with those very bytes, under the corresponding new name by the cache layer
    AND by the base -/
theorem rename_cached_dir_entry_coherent (dur : Int) (c : Cow) (a b : Str) (hi : InvOK c)
    (hst : cacheStatus c dur (keyOfStr a) = .hit) (hne : keyOfStr a ≠ keyOfStr b)
    (hrb : RenameSubtree c.s.b (keyOfStr a) (keyOfStr b)) (hrl : RenameSubtree c.s.l (keyOfStr a) (keyOfStr b))
    (k : Key) (hu : isUnder (keyOfStr a) k = true) (d : Bytes) (md : Nat) (hk : view c.s.l k = some (.file d md)) :
    view (Cache.step dur c (.rename a b)).1.s.l (rePrefix (keyOfStr a) (keyOfStr b) k) = some (.file d md) ∧
    ∃ md', view (Cache.step dur c (.rename a b)).1.s.b (rePrefix (keyOfStr a) (keyOfStr b) k) = some (.file d md') :=
  rename_dir_cached_entry_coherent dur c a b hi hst hne hrb hrl k hu d md hk

/-- `rename /a /z` in `cDir`: the base holds `/a/b/f` = "hi" and `/a/g` = 5, the cache layer holds `/a`, `/a/b`
    and `/a/b/f` but NOT `/a/g`.  Every hypothesis holds.  Afterwards `/z/b/f` holds "hi" in both layers,
    `/z/g` holds 5 in the base and is still unknown to the cache layer, nothing is left below `/a` in either
    layer, and the state is coherent. -/
example : InvOK cDir ∧ cacheStatus cDir 0 (keyOfStr "/a".toList) = .hit ∧
    RenameSubtree cDir.s.b (keyOfStr "/a".toList) (keyOfStr "/z".toList) ∧
    RenameSubtree cDir.s.l (keyOfStr "/a".toList) (keyOfStr "/z".toList) ∧
    (Cache.step 0 cDir (.rename "/a".toList "/z".toList)).2 = .ok ∧
    view (Cache.step 0 cDir (.rename "/a".toList "/z".toList)).1.s.l (keyOfStr "/z/b/f".toList) =
      some (.file [104, 105] modeTemporary) ∧
    view (Cache.step 0 cDir (.rename "/a".toList "/z".toList)).1.s.b (keyOfStr "/z/b/f".toList) =
      some (.file [104, 105] modeTemporary) ∧
    view (Cache.step 0 cDir (.rename "/a".toList "/z".toList)).1.s.b (keyOfStr "/z/g".toList) =
      some (.file [5] modeTemporary) ∧
    view (Cache.step 0 cDir (.rename "/a".toList "/z".toList)).1.s.l (keyOfStr "/z/g".toList) = none ∧
    view (Cache.step 0 cDir (.rename "/a".toList "/z".toList)).1.s.l (keyOfStr "/a/b/f".toList) = none ∧
    view (Cache.step 0 cDir (.rename "/a".toList "/z".toList)).1.s.b (keyOfStr "/a/b/f".toList) = none ∧
    view (Cache.step 0 cDir (.rename "/a".toList "/z".toList)).1.s.b (keyOfStr "/a".toList) = none ∧
    Coherent (Cache.step 0 cDir (.rename "/a".toList "/z".toList)).1.s ∧
    InvOK (Cache.step 0 cDir (.rename "/a".toList "/z".toList)).1 := by
  obtain ⟨h1, _, _, hb, hl, h6, h7⟩ := rename_cached_dir 0 cDir "/a".toList "/z".toList invOK_cDir (by decide) (by decide)
    (Or.inr renameSubtree_cDir_base) (Or.inr renameSubtree_cDir_layer)
  refine ⟨invOK_cDir, by decide, renameSubtree_cDir_base, renameSubtree_cDir_layer, h1, ?_, ?_, ?_, ?_, ?_, ?_, ?_, h6, h7⟩
  all_goals first | (rw [hl]; decide) | (rw [hb]; decide)

/-! ### (4) a directory in one layer, a regular file in the other -/

/-- **coherent layers exclude one of the two clashes**: a name that is a regular file of the cache layer is a
    regular file of the base, never a directory there -/
theorem no_cached_file_over_base_dir (s : Layers) (hco : Coherent s) (k : Key) (lf bf : Nat)
    (hl : s.l.lookup k = some lf) (hf : (s.l.obj lf).dir = false) (hb : s.b.lookup k = some bf) :
    (s.b.obj bf).dir = false :=
  coherent_no_file_over_dir s hco k lf bf hl hf hb

/-- **a cached DIRECTORY over a regular file of the base, while it is a hit** (for ever, with duration zero):
    `Stat` answers with the cache layer's directory — size 42, the directory flag, the layer's mode; the state
    is unchanged — and the base's file is invisible.  `Open` answers a new handle: a UnionFile over a fresh
    base handle on the FILE (`bf`) and a fresh layer handle on the directory (`ld`); nothing is copied, neither
    layer's view changes. -/
theorem cached_dir_over_base_file (c : Cow) (dur : Int) (p : Str) (ld bf : Nat)
    (hst : cacheStatus c dur (keyOfStr p) = .hit)
    (hl : c.s.l.lookup (keyOfStr p) = some ld) (hd : (c.s.l.obj ld).dir = true)
    (hb : c.s.b.lookup (keyOfStr p) = some bf) :
    (Cache.step dur c (.stat p)).2 = .info (baseName (c.s.l.obj ld).name) 42 true (c.s.l.obj ld).mode ∧
    (Cache.step dur c (.stat p)).1 = c ∧
    (Cache.step dur c (.open_ p)).2 = .handle c.hs.length none ∧
    (Cache.step dur c (.open_ p)).1.hs =
      c.hs ++ [.union { bi := c.s.b.handles.length, li := c.s.l.handles.length }] ∧
    ((Cache.step dur c (.open_ p)).1.s.b.handles[c.s.b.handles.length]?).map (·.obj) = some bf ∧
    ((Cache.step dur c (.open_ p)).1.s.l.handles[c.s.l.handles.length]?).map (·.obj) = some ld ∧
    view (Cache.step dur c (.open_ p)).1.s.b = view c.s.b ∧ view (Cache.step dur c (.open_ p)).1.s.l = view c.s.l :=
  clash_dir_over_file_hit c dur p ld bf hst hl hd hb

/-- `cClash`: the cache layer holds the directory `/g` (object 1), the base the file `/g` = 1 2 3 (object 5);
    the invariant holds (this clash is compatible with coherence); with duration zero the name is a hit:
    `Stat /g` answers "directory g, size 42", `Open /g` a UnionFile over a base handle on the file and a layer
    handle on the directory -/
example : InvOK cClash ∧ cacheStatus cClash 0 (keyOfStr "/g".toList) = .hit ∧
    (Cache.step 0 cClash (.stat "/g".toList)).2 = .info "g".toList 42 true (modeDir ||| 0o755) ∧
    (Cache.step 0 cClash (.open_ "/g".toList)).2 = .handle 0 none ∧
    ((Cache.step 0 cClash (.open_ "/g".toList)).1.s.b.handles[cClash.s.b.handles.length]?).map (·.obj) = some 5 ∧
    ((Cache.step 0 cClash (.open_ "/g".toList)).1.s.l.handles[cClash.s.l.handles.length]?).map (·.obj) = some 1 :=
  have H := cached_dir_over_base_file cClash 0 "/g".toList 1 5 (by decide) (by decide) (by decide) (by decide)
  ⟨invOK_cClash, by decide, by decide, H.2.2.1, H.2.2.2.2.1, H.2.2.2.2.2.1⟩

/-- **a cached regular FILE over a directory of the base, while it is a hit**: `Stat` answers with the cache
    layer's file (its length, no directory flag, its mode); `Open` a handle on the layer's file; the base is
    not consulted.  (Such a state is not coherent: `no_cached_file_over_base_dir`.) -/
theorem cached_file_over_base_dir (c : Cow) (dur : Int) (p : Str) (lf : Nat)
    (hst : cacheStatus c dur (keyOfStr p) = .hit)
    (hl : c.s.l.lookup (keyOfStr p) = some lf) (hf : (c.s.l.obj lf).dir = false) :
    (Cache.step dur c (.stat p)).2 =
      .info (baseName (c.s.l.obj lf).name) (c.s.l.obj lf).data.length false (c.s.l.obj lf).mode ∧
    (Cache.step dur c (.open_ p)).2 = .handle c.hs.length none ∧
    (Cache.step dur c (.open_ p)).1.hs = c.hs ++ [.layer c.s.l.handles.length] ∧
    (Cache.step dur c (.open_ p)).1.s.b = c.s.b :=
  clash_file_over_dir_hit c dur p lf hst hl hf

/-- `cClash'`: the base holds the directory `/g`, the cache layer the file `/g` = 1 2 3 (object 5); `Stat /g`
    through the cache answers "file g, 3 bytes" -/
example : cacheStatus cClash' 0 (keyOfStr "/g".toList) = .hit ∧
    (∃ bd, cClash'.s.b.lookup (keyOfStr "/g".toList) = some bd ∧ (cClash'.s.b.obj bd).dir = true) ∧
    (Cache.step 0 cClash' (.stat "/g".toList)).2 = .info "g".toList 3 false modeTemporary ∧
    (Cache.step 0 cClash' (.open_ "/g".toList)).1.hs = [.layer cClash'.s.l.handles.length] :=
  have H := cached_file_over_base_dir cClash' 0 "/g".toList 5 (by decide) (by decide) (by decide)
  ⟨by decide, ⟨1, by decide, by decide⟩, by decide, H.2.2.1⟩

/-- **once the cached regular file is STALE** (the base's directory is newer, the duration has passed): `Stat`
    answers with the base's directory, and `Open` treats the name as a directory of both layers (a UnionFile,
    `Cache.unionOpen`); nothing is copied -/
theorem stale_file_over_base_dir (c : Cow) (dur : Int) (p : Str) (bd : Nat)
    (hst : cacheStatus c dur (keyOfStr p) = .stale)
    (hb : c.s.b.lookup (keyOfStr p) = some bd) (hd : (c.s.b.obj bd).dir = true) :
    (Cache.step dur c (.stat p)).2 = .info (baseName (c.s.b.obj bd).name) 42 true (c.s.b.obj bd).mode ∧
    Cache.step dur c (.open_ p) = unionOpen c (keyOfStr p) :=
  clash_file_over_dir_stale c dur p bd hst hb hd

/-- `cClashStale'` (base: directory `/g`, touched at 50; cache layer: file `/g` from time 0; clock 100, duration
    10): the name is stale; `Stat` answers "directory g, size 42"; `Open` hands out a UnionFile over base handle
    0 (the directory) and layer handle 3 (the file) -/
example : cacheStatus cClashStale' 10 (keyOfStr "/g".toList) = .stale ∧
    (∃ bd, cClashStale'.s.b.lookup (keyOfStr "/g".toList) = some bd ∧ (cClashStale'.s.b.obj bd).dir = true) ∧
    (Cache.step 10 cClashStale' (.stat "/g".toList)).2 = .info "g".toList 42 true (modeDir ||| 0o755) ∧
    Cache.step 10 cClashStale' (.open_ "/g".toList) = unionOpen cClashStale' (keyOfStr "/g".toList) ∧
    (Cache.step 10 cClashStale' (.open_ "/g".toList)).1.hs = [.union { bi := 0, li := 3 }] :=
  have H := stale_file_over_base_dir cClashStale' 10 "/g".toList 1 (by decide) (by decide) (by decide)
  ⟨by decide, ⟨1, by decide, by decide⟩, by decide, H.2, rfl⟩

/-- **once the cached directory is STALE** over a regular file of the base: `Stat` answers with the base's
    file, and `Open` copies the base's file into the cache layer (`Cache.copyThenOpen`: the layer's `Create`
    replaces the directory entry by the copy) and serves the copy -/
theorem stale_dir_over_base_file (c : Cow) (dur : Int) (p : Str) (bf : Nat)
    (hst : cacheStatus c dur (keyOfStr p) = .stale)
    (hb : c.s.b.lookup (keyOfStr p) = some bf) (hf : (c.s.b.obj bf).dir = false) :
    (Cache.step dur c (.stat p)).2 =
      .info (baseName (c.s.b.obj bf).name) (c.s.b.obj bf).data.length false (c.s.b.obj bf).mode ∧
    Cache.step dur c (.open_ p) = copyThenOpen c p (keyOfStr p) :=
  clash_dir_over_file_stale c dur p bf hst hb hf

/-- `cClashStale` (base: file `/g` = 1 2 3, touched at 50; cache layer: directory `/g` from time 0; clock 100,
    duration 10): the name is stale; `Stat` answers "file g, 3 bytes"; `Open` copies: afterwards the cache layer's
    `/g` leads to a NEW object (2) that is a regular file holding 1 2 3 — the directory entry has been replaced -/
example : cacheStatus cClashStale 10 (keyOfStr "/g".toList) = .stale ∧
    (∃ ld, cClashStale.s.l.lookup (keyOfStr "/g".toList) = some ld ∧ (cClashStale.s.l.obj ld).dir = true) ∧
    (Cache.step 10 cClashStale (.stat "/g".toList)).2 = .info "g".toList 3 false modeTemporary ∧
    Cache.step 10 cClashStale (.open_ "/g".toList) = copyThenOpen cClashStale "/g".toList (keyOfStr "/g".toList) ∧
    (Cache.step 10 cClashStale (.open_ "/g".toList)).1.s.l.lookup (keyOfStr "/g".toList) = some 2 ∧
    ((Cache.step 10 cClashStale (.open_ "/g".toList)).1.s.l.obj 2).dir = false ∧
    ((Cache.step 10 cClashStale (.open_ "/g".toList)).1.s.l.obj 2).data = [1, 2, 3] :=
  have H := stale_dir_over_base_file cClashStale 10 "/g".toList 5 (by decide) (by decide) (by decide)
  ⟨by decide, ⟨1, by decide, by decide⟩, by decide, H.2, by decide, by decide, by decide⟩

end AferoVerif.C11
