/-
  Property C20, folder part — the spelling of a name does not matter.

  "… for names given in any of gcsfs's accepted spellings (optional `gs://` prefix, one optional
  leading separator, backslashes instead of separators, and for folders an optional trailing
  separator)."

  Every `Fs` method of the model (`Gcs.step`) reads its name argument through `normName`
  (`Create`, `OpenFile`, `Stat`, `Remove`, `RemoveAll`, `Rename`) or `normDir` (`Mkdir`, `MkdirAll`)
  and nothing else (`step_spelling_irrelevant`).  The theorems below say which spellings normalise
  alike, with the exact side conditions.  Three things are FALSE of the code without them, because
  the `gs://` prefix is recognised before backslashes are rewritten and only one leading separator
  is dropped:

  * `gs:/` + `\` is the folder `gs://`, `gs:/` + `/` is the empty name (`normDir_backslash_eq_sep_iff`);
  * `gs:\\bkt\a` is not `gs://bkt/a` (`normName_all_backslash_iff`, `normDir_all_backslash_iff`);
  * a leading separator is optional only once, and not in front of `gs://`: `//bkt/a`, `/\bkt/a`,
    `/gs://bkt/a`, `gs://gs://bkt/a` (`leading_separator_counterexamples`).

  Vocabulary (`AferoVerif/Proofs/GcsSpelling.lean`): `backslashed n` = `n` with every separator
  written `\`; `gs4` = `gs:/`; `Canon n` = no backslash, no `gs://` prefix, no leading separator;
  `Spelling n n'` = `n'` is `[gs://] [/ or \] body` with `normSeps body = n`; `DirSpelling n n'` adds
  an optional trailing `/` or `\`.  `sep` is `'/'`.
-/
import AferoVerif.Proofs.GcsSpelling
import AferoVerif.Props.C20
namespace AferoVerif.C20

open AferoVerif AferoVerif.Gcs

/-! ## 1. `normSeps`, trailing separators and `normDir` -/

/-- rewriting backslashes twice is rewriting them once -/
theorem normSeps_idempotent (n : Name) : normSeps (normSeps n) = normSeps n :=
  normSeps_idem n

/-- `normSeps` commutes with appending a separator, in either spelling -/
theorem normSeps_trailing (n : Name) :
    normSeps (n ++ [sep]) = normSeps n ++ [sep] ∧ normSeps (n ++ ['\\']) = normSeps n ++ [sep] :=
  ⟨normSeps_snoc_sep n, normSeps_snoc_bs n⟩

/-- **`d` and `d/` are the same folder name**: for a name that ends in neither a separator nor a
    backslash (the empty name included), appending a separator does not change `normDir`. -/
theorem normDir_trailing_sep (n : Name) (h1 : n.getLast? ≠ some sep) (h2 : n.getLast? ≠ some '\\') :
    normDir (n ++ [sep]) = normDir n :=
  normDir_snoc n sep (Or.inl rfl) h1 h2

/-- … and `d\` too -/
theorem normDir_trailing_backslash (n : Name) (h1 : n.getLast? ≠ some sep) (h2 : n.getLast? ≠ some '\\') :
    normDir (n ++ ['\\']) = normDir n :=
  normDir_snoc n '\\' (Or.inr rfl) h1 h2

/-- without the hypothesis it is false: a second trailing separator stays -/
example : normDir ("bkt/a/".toList ++ [sep]) ≠ normDir "bkt/a/".toList := by decide

/-- **a trailing backslash is a trailing separator for every name but `gs:/`** (`gs:/\` is the
    folder `gs://`, whereas `gs://` is the bare prefix, i.e. the empty name) -/
theorem normDir_backslash_eq_sep_iff (n : Name) :
    normDir (n ++ ['\\']) = normDir (n ++ [sep]) ↔ n ≠ gs4 :=
  normDir_bs_eq_sep_iff n

/-- **the all-backslash spelling names the same folder exactly when the name has no `gs://` prefix**
    (the prefix has to be spelled with separators: `gs:\\bkt\a` is the folder `gs://bkt/a/`) -/
theorem normDir_all_backslash_iff (n : Name) :
    normDir (backslashed n) = normDir n ↔ ¬ gsPrefix <+: n :=
  normDir_backslashed_iff n

/-- more generally: two names without the prefix that differ in the spelling of separators only -/
theorem normDir_same_separators (a b : Name) (ha : ¬ gsPrefix <+: a) (hb : ¬ gsPrefix <+: b)
    (h : normSeps a = normSeps b) : normDir a = normDir b :=
  normDir_congr a b ha hb h

/-- behind the prefix the rest may be spelled with backslashes -/
theorem normDir_gs_all_backslash (t : Name) : normDir (gsPrefix ++ backslashed t) = normDir (gsPrefix ++ t) := by
  rw [normDir_eq, normDir_eq, normName_gs_backslashed]

/-- **exactly one trailing separator**: from a non-empty name with no trailing separator `normDir`
    makes `m/` where `m` is non-empty and does not end in a separator -/
theorem normDir_exactly_one_trailing (n : Name) (hn : n ≠ []) (h1 : n.getLast? ≠ some sep)
    (h2 : n.getLast? ≠ some '\\') :
    ∃ m, normDir n = m ++ [sep] ∧ m ≠ [] ∧ m.getLast? ≠ some sep :=
  normDir_one_trailing n hn h1 h2

/-- for every name: `normDir` returns the empty name or a name that ends in the separator -/
theorem normDir_empty_or_trailing (n : Name) : normDir n = [] ∨ (normDir n).getLast? = some sep :=
  normDir_shape n

/-- `Mkdir`'s view of a name is `Stat`'s view plus the trailing separator -/
theorem normDir_is_normName_trailing (n : Name) : normDir n = ensureTrailing (normName n) :=
  normDir_eq n

/-! ## 2. `Mkdir` / `MkdirAll` -/

/-- **`Mkdir` of `n`, `n/`, `n\`, the all-backslash spelling and the all-backslash spelling with a
    trailing backslash: same bucket, same result**, for every bucket `s` and every `n` that has no
    trailing separator; the backslash spellings need `n` not to carry the `gs://` prefix. -/
theorem mkdir_spelling_irrelevant (s : Store) (n : Name) (h1 : n.getLast? ≠ some sep)
    (h2 : n.getLast? ≠ some '\\') :
    mkdirS s (n ++ [sep]) = mkdirS s n ∧ mkdirS s (n ++ ['\\']) = mkdirS s n ∧
    (¬ gsPrefix <+: n → mkdirS s (backslashed n) = mkdirS s n ∧ mkdirS s (backslashed n ++ ['\\']) = mkdirS s n) :=
  have h := normDir_spellings n h1 h2
  ⟨mkdirS_congr s _ _ h.1, mkdirS_congr s _ _ h.2.1,
   fun hg => ⟨mkdirS_congr s _ _ (h.2.2 hg).1, mkdirS_congr s _ _ (h.2.2 hg).2⟩⟩

/-- the same for `MkdirAll` -/
theorem mkdirAll_spelling_irrelevant (s : Store) (n : Name) (h1 : n.getLast? ≠ some sep)
    (h2 : n.getLast? ≠ some '\\') :
    mkdirAllS s (n ++ [sep]) = mkdirAllS s n ∧ mkdirAllS s (n ++ ['\\']) = mkdirAllS s n ∧
    (¬ gsPrefix <+: n →
      mkdirAllS s (backslashed n) = mkdirAllS s n ∧ mkdirAllS s (backslashed n ++ ['\\']) = mkdirAllS s n) :=
  have h := normDir_spellings n h1 h2
  ⟨mkdirAllS_congr s _ _ h.1, mkdirAllS_congr s _ _ h.2.1,
   fun hg => ⟨mkdirAllS_congr s _ _ (h.2.2 hg).1, mkdirAllS_congr s _ _ (h.2.2 hg).2⟩⟩

/-- with a leading separator or the prefix as well (on a name that starts with neither) -/
theorem mkdir_leading_irrelevant (s : Store) (n : Name) (hg : ¬ gsPrefix <+: n)
    (h1 : n.head? ≠ some sep) (h2 : n.head? ≠ some '\\') :
    mkdirS s (sep :: n) = mkdirS s n ∧ mkdirS s ('\\' :: n) = mkdirS s n ∧ mkdirS s (gsPrefix ++ n) = mkdirS s n ∧
    mkdirAllS s (sep :: n) = mkdirAllS s n ∧ mkdirAllS s ('\\' :: n) = mkdirAllS s n ∧
    mkdirAllS s (gsPrefix ++ n) = mkdirAllS s n :=
  ⟨mkdirS_congr s _ _ (normDir_lead n sep (Or.inl rfl) hg h1 h2),
   mkdirS_congr s _ _ (normDir_lead n '\\' (Or.inr rfl) hg h1 h2),
   mkdirS_congr s _ _ (normDir_gs n hg),
   mkdirAllS_congr s _ _ (normDir_lead n sep (Or.inl rfl) hg h1 h2),
   mkdirAllS_congr s _ _ (normDir_lead n '\\' (Or.inr rfl) hg h1 h2),
   mkdirAllS_congr s _ _ (normDir_gs n hg)⟩

/-! ## 3. `normName`: `Stat`, `Remove`, `RemoveAll`, `Create`, `OpenFile`, `Rename` -/

/-- **one leading separator, in either spelling, is optional** on a name that starts with neither a
    separator (either spelling) nor the `gs://` prefix -/
theorem normName_leading_separator (n : Name) (c : Char) (hc : c = sep ∨ c = '\\') (hg : ¬ gsPrefix <+: n)
    (h1 : n.head? ≠ some sep) (h2 : n.head? ≠ some '\\') : normName (c :: n) = normName n :=
  normName_lead n c hc hg h1 h2

/-- each of the three hypotheses is needed (two leading separators leave one, which makes the
    bucket name empty; a separator in front of `gs://` hides the prefix), and the prefix is optional
    only once -/
theorem leading_separator_counterexamples :
    normName (sep :: "/bkt/a".toList) ≠ normName "/bkt/a".toList ∧
    normName (sep :: "\\bkt/a".toList) ≠ normName "\\bkt/a".toList ∧
    normName (sep :: "gs://bkt/a".toList) ≠ normName "gs://bkt/a".toList ∧
    normName (gsPrefix ++ "gs://bkt/a".toList) ≠ normName "gs://bkt/a".toList :=
  normName_lead_counterexamples

/-- **the `gs://` prefix is optional** (on a name that does not carry it already) -/
theorem normName_gs_prefix (n : Name) (h : ¬ gsPrefix <+: n) : normName (gsPrefix ++ n) = normName n :=
  normName_gs n h

/-- **the all-backslash spelling is the same file name exactly when there is no `gs://` prefix** -/
theorem normName_all_backslash_iff (n : Name) : normName (backslashed n) = normName n ↔ ¬ gsPrefix <+: n :=
  normName_backslashed_iff n

/-- two names without the prefix that differ in the spelling of separators only -/
theorem normName_same_separators (a b : Name) (ha : ¬ gsPrefix <+: a) (hb : ¬ gsPrefix <+: b)
    (h : normSeps a = normSeps b) : normName a = normName b :=
  normName_congr a b ha hb h

/-- all of it together: nine spellings of one name -/
theorem normName_spelling_list (n : Name) (hg : ¬ gsPrefix <+: n) (h1 : n.head? ≠ some sep)
    (h2 : n.head? ≠ some '\\') :
    ∀ n' ∈ [sep :: n, '\\' :: n, gsPrefix ++ n, gsPrefix ++ sep :: n, gsPrefix ++ '\\' :: n,
            backslashed n, '\\' :: backslashed n, gsPrefix ++ backslashed n, gsPrefix ++ '\\' :: backslashed n],
      normName n' = normName n :=
  normName_spellings n hg h1 h2

/-- **a call sees its name through `normName` / `normDir` only**: two calls whose name arguments
    normalise alike (`SameOp`) change the whole file-system state (bucket, registered resources,
    handles) alike and return the same result -/
theorem step_spelling_irrelevant (st : St) (o o' : Op) (h : SameOp o o') : step st o = step st o' :=
  step_sameOp st o o' h

/-- … and so do two scripts -/
theorem script_spelling_irrelevant (os os' : List Op) (h : SameOps os os') (st : St) :
    runOps st os = runOps st os' :=
  runOps_sameOp os os' h st

/-- **`Stat`, `Remove`, `RemoveAll`, `Create`, `OpenFile` (any flag), `Rename` (either argument)
    take the same decision for each of the nine spellings of `n`** -/
theorem file_ops_spelling_irrelevant (st : St) (n : Name) (hg : ¬ gsPrefix <+: n) (h1 : n.head? ≠ some sep)
    (h2 : n.head? ≠ some '\\') :
    ∀ n' ∈ [sep :: n, '\\' :: n, gsPrefix ++ n, gsPrefix ++ sep :: n, gsPrefix ++ '\\' :: n,
            backslashed n, '\\' :: backslashed n, gsPrefix ++ backslashed n, gsPrefix ++ '\\' :: backslashed n],
      step st (.stat n') = step st (.stat n) ∧ step st (.remove n') = step st (.remove n) ∧
      step st (.removeAll n') = step st (.removeAll n) ∧ step st (.create n') = step st (.create n) ∧
      (∀ flag, step st (.openFile n' flag) = step st (.openFile n flag)) ∧
      (∀ c, step st (.rename n' c) = step st (.rename n c)) ∧
      (∀ c, step st (.rename c n') = step st (.rename c n)) :=
  fun n' hn' => file_ops_congr st n' n (normName_spellings n hg h1 h2 n' hn')

/-! ### canonical names: every accepted spelling at once -/

/-- **every accepted spelling of a canonical name normalises to it** -/
theorem normName_of_spelling (n n' : Name) (hc : Canon n) (h : Spelling n n') : normName n' = n :=
  normName_spelling n n' hc h

/-- **every accepted folder spelling of a canonical name normalises to it plus one separator** -/
theorem normDir_of_spelling (n n' : Name) (hc : Canon n) (hn : n ≠ []) (hl : n.getLast? ≠ some sep)
    (h : DirSpelling n n') : normDir n' = n ++ [sep] :=
  normDir_spelling n n' hc hn hl h

/-- the file calls on any accepted spelling of a canonical name are the calls on the name -/
theorem file_ops_of_spelling (st : St) (n n' : Name) (hc : Canon n) (h : Spelling n n') :
    step st (.stat n') = step st (.stat n) ∧ step st (.remove n') = step st (.remove n) ∧
    step st (.removeAll n') = step st (.removeAll n) ∧ step st (.create n') = step st (.create n) ∧
    (∀ flag, step st (.openFile n' flag) = step st (.openFile n flag)) ∧
    (∀ c, step st (.rename n' c) = step st (.rename n c)) ∧
    (∀ c, step st (.rename c n') = step st (.rename c n)) :=
  file_ops_congr st n' n
    ((normName_spelling n n' hc h).trans (normName_spelling n n hc (Spelling.self n hc)).symm)

/-- the folder calls on any accepted folder spelling of a canonical name are the calls on the name -/
theorem dir_ops_of_spelling (st : St) (n n' : Name) (hc : Canon n) (hn : n ≠ []) (hl : n.getLast? ≠ some sep)
    (h : DirSpelling n n') :
    step st (.mkdir n') = step st (.mkdir n) ∧ step st (.mkdirAll n') = step st (.mkdirAll n) :=
  dir_ops_congr st n' n
    ((normDir_spelling n n' hc hn hl h).trans
      (normDir_spelling n n hc hn hl (Spelling.self n hc).dir).symm)

/-! ### the folder theorems of `Props/C20.lean`, for every accepted spelling of `bkt/d`

  (`d` has no backslash: a backslash in the *argument* is a separator, an object name holding one
  cannot be addressed through gcsfs at all.) -/

/-- `bkt/d` is canonical -/
theorem fsName_canonical (d : Name) (hnb : '\\' ∉ d) : Canon (fsName d) := canon_fsName d hnb

/-- `folder_iff_prefix`, any spelling -/
theorem folder_iff_prefix_any_spelling (s : Store) (d n' : Name) (hd : d ≠ []) (hnb : '\\' ∉ d)
    (hfree : PrefixOK s d) (h : Spelling (fsName d) n') :
    (∃ i, newFileInfo s (normName n') = .ok i ∧ i.isDir = true) ↔
      (get s d = none ∧ ∃ o ∈ s, (d ++ [sep]) <+: o.1) := by
  rw [normName_spelling _ _ (canon_fsName d hnb) h]
  exact folder_iff_prefix s d hd hfree

/-- `remove_nonempty_fails`, any spelling -/
theorem remove_nonempty_fails_any_spelling (s : Store) (d n' : Name) (hd : d ≠ []) (hl : d.getLast? ≠ some sep)
    (hnb : '\\' ∉ d) (lay : Layout s (d ++ [sep])) (hg : get s d = none)
    (o : Name × Bytes) (ho : o ∈ s) (rest : Name) (ho1 : o.1 = d ++ [sep] ++ rest) (hr : rest ≠ [])
    (h : Spelling (fsName d) n') :
    removeS s (normName n') = (s, some .notempty) := by
  rw [normName_spelling _ _ (canon_fsName d hnb) h]
  exact remove_nonempty_fails s d hd hl lay hg o ho rest ho1 hr

/-- `readdir_children_once`, any spelling (the handle `OpenFile` returns carries `normName n'`) -/
theorem readdir_any_spelling (s : Store) (d n' : Name) (hnb : '\\' ∉ d) (h : Spelling (fsName d) n') :
    readdirS s (normName n') = readdirS s (fsName d) := by
  rw [normName_spelling _ _ (canon_fsName d hnb) h]

/-- `removeAll_exact`, any spelling -/
theorem removeAll_exact_any_spelling (S : Store) (T : Tree S) (d n' : Name) (hd : d ≠ [])
    (hl : d.getLast? ≠ some sep) (hnb : '\\' ∉ d)
    (hal : PrefixOK S d) (fuel : Nat) (hf : ∀ o ∈ S, o.1.length < d.length + fuel) (hf1 : 0 < fuel)
    (h : Spelling (fsName d) n') :
    removeAllS fuel S (normName n') = (S.filter (fun o => !under d o), none) := by
  rw [normName_spelling _ _ (canon_fsName d hnb) h]
  exact removeAll_exact S T d hd hl hal fuel hf hf1

/-- `mkdir_placeholder`, any folder spelling: `Mkdir` creates the placeholder object `d/` -/
theorem mkdir_placeholder_any_spelling (s : Store) (d n' : Name) (hd : d ≠ []) (hl : d.getLast? ≠ some sep)
    (hnb : '\\' ∉ d) (h : DirSpelling (fsName d) n') :
    mkdirS s n' = (put s (d ++ [sep]) [], none) := by
  have hc := canon_fsName d hnb
  have e : normDir n' = normDir (fsName d) :=
    (normDir_spelling _ _ hc (fsName_ne_nil d) (fsName_getLast d hd hl) h).trans
      (normDir_spelling _ _ hc (fsName_ne_nil d) (fsName_getLast d hd hl) (Spelling.self _ hc).dir).symm
  rw [mkdirS_congr s _ _ e]
  exact mkdir_placeholder s d hd hl hnb

/-! ## 4. The hypotheses are satisfiable: concrete names -/

section examples

/-- the folder `bkt/logs` in five spellings: one object name, one trailing separator -/
example : normDir "bkt/logs".toList = "bkt/logs/".toList ∧ normDir "bkt/logs/".toList = "bkt/logs/".toList ∧
    normDir "bkt\\logs\\".toList = "bkt/logs/".toList ∧ normDir "/bkt\\logs".toList = "bkt/logs/".toList ∧
    normDir "gs://bkt/logs\\".toList = "bkt/logs/".toList := by decide

example : normDir "gs://bkt/p/q/".toList = "bkt/p/q/".toList ∧ normName "gs://bkt/p/q/".toList = "bkt/p/q/".toList ∧
    normName "gs://\\bkt\\p\\q".toList = "bkt/p/q".toList := by decide

example : backslashed "bkt/logs".toList = "bkt\\logs".toList := by decide

/-- `Mkdir` through the theorem: `bkt/logs` has no trailing separator and no prefix -/
example (s : Store) : mkdirS s "bkt\\logs\\".toList = mkdirS s "bkt/logs".toList :=
  ((mkdir_spelling_irrelevant s "bkt/logs".toList (by decide) (by decide)).2.2 (by decide)).2

/-- … and by evaluation: the placeholder `logs/` -/
example : mkdirS [] "bkt\\logs\\".toList = ([("logs/".toList, [])], none) ∧
    mkdirS [] "bkt/logs".toList = ([("logs/".toList, [])], none) ∧
    mkdirAllS [] "gs://bkt/p/q/".toList = mkdirAllS [] "bkt\\p\\q".toList ∧
    (mkdirAllS [] "bkt\\p\\q".toList).2 = none := by decide

/-- `bkt/logs` is canonical; `gs://\bkt\logs` is an accepted spelling, `gs://\bkt\logs\` an accepted
    folder spelling -/
example : Canon "bkt/logs".toList := fsName_canonical "logs".toList (by decide)

example : Spelling "bkt/logs".toList "gs://\\bkt\\logs".toList :=
  Spelling.mk gsPrefix ['\\'] "bkt\\logs".toList (Or.inr rfl) (Or.inr (Or.inr rfl)) (by decide)

example : DirSpelling "bkt/logs".toList "gs://\\bkt\\logs\\".toList :=
  DirSpelling.mk "gs://\\bkt\\logs".toList ['\\']
    (Spelling.mk gsPrefix ['\\'] "bkt\\logs".toList (Or.inr rfl) (Or.inr (Or.inr rfl)) (by decide))
    (Or.inr (Or.inr rfl))

/-- the folder theorems on the bucket `S0` of `Props/C20.lean` (explicit folder `d`), in another spelling -/
example : removeS S0 (normName "gs://\\bkt\\d".toList) = (S0, some .notempty) := by decide

example : (step { store := S0 } (.stat "\\bkt\\d\\e".toList)).2 = .info "e".toList folderSize true := by decide

example : (step { store := S0 } (.removeAll "gs://bkt\\d".toList)).1.store = [("z".toList, [5, 6, 7])] := by decide

/-- the exceptions are real -/
example : normDir "gs:/\\".toList = "gs://".toList ∧ normDir "gs://".toList = [] := by decide

example : normDir "gs:\\\\bkt\\a".toList = "gs://bkt/a/".toList ∧ normDir "gs://bkt/a".toList = "bkt/a/".toList := by
  decide

/-- two leading separators: the bucket name is empty, `Stat` fails where `bkt/d` is a folder -/
example : (step { store := S0 } (.stat "//bkt/d".toList)).2 = .err .nobucket ∧
    (step { store := S0 } (.stat "/bkt/d".toList)).2 = .info "d".toList folderSize true := by decide

end examples

end AferoVerif.C20
