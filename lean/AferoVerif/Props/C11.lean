/-
  Property C11 — writes through CacheOnReadFs keep base and cache identical.

  Proved here, for the `UnionFile` handle a write-open through the cache returns: as long as the
  two underlying handles are *twins* (same offset, same flags, and the two file objects hold the
  same bytes), every handle method — Read, ReadAt, Seek, Write, WriteAt, Truncate, Close, at any
  offset, with any payload — leaves them twins: the bytes written reach the base exactly as they
  reach the cache, and the offsets stay locked (`union_twin_preserved`).
  The Fs-level part of coherence (Create/Rename/Remove/… act on both layers) is decided by the
  correspondence runs and the coherence oracle for now.
-/
import AferoVerif.Model.Cache
import AferoVerif.Proofs.MemFile
import AferoVerif.Proofs.Reach
import AferoVerif.Proofs.CowContent
import AferoVerif.Proofs.Util
namespace AferoVerif.C11
open AferoVerif

/-- the two handles of a union are twins -/
def Twin (s : Layers) (u : UFile) : Prop :=
  ∃ mb ml, s.b.handles[u.bi]? = some mb ∧ s.l.handles[u.li]? = some ml ∧
    mb.h = ml.h ∧ 0 ≤ mb.h.pos ∧ mb.obj < s.b.objs.length ∧ ml.obj < s.l.objs.length ∧
    (s.b.obj mb.obj).data = (s.l.obj ml.obj).data

/-! ### what `fileIO` does to the addressed handle and object -/

theorem obj_setObj_same (m : MemFs) (i : Nat) (d : FData) (hi : i < m.objs.length) : (m.setObj i d).obj i = d := by
  unfold MemFs.setObj MemFs.obj
  simp [List.getD_eq_getElem?_getD, hi]

theorem fileIO_spec (m : MemFs) (hi : Nat) (f : Bytes → Handle → Bytes × Handle × FOut) (touch : Bool)
    (mh : MHandle) (hh : m.handles[hi]? = some mh) (ho : mh.obj < m.objs.length) :
    (m.fileIO hi f touch).2 = .file (f (m.obj mh.obj).data mh.h).2.2 ∧
    (m.fileIO hi f touch).1.handles[hi]? = some { mh with h := (f (m.obj mh.obj).data mh.h).2.1 } ∧
    ((m.fileIO hi f touch).1.obj mh.obj).data = (f (m.obj mh.obj).data mh.h).1 ∧
    (m.fileIO hi f touch).1.objs.length = m.objs.length := by
  have hlt : hi < m.handles.length := (List.getElem?_eq_some_iff.mp hh).1
  have e : m.fileIO hi f touch =
      ({ (m.setObj mh.obj ((m.obj mh.obj).withIO (f (m.obj mh.obj).data mh.h).1
            (touch && (f (m.obj mh.obj).data mh.h).2.2.success) m.now)) with
          handles := (m.setObj mh.obj ((m.obj mh.obj).withIO (f (m.obj mh.obj).data mh.h).1
            (touch && (f (m.obj mh.obj).data mh.h).2.2.success) m.now)).handles.set hi
              { mh with h := (f (m.obj mh.obj).data mh.h).2.1 } },
       .file (f (m.obj mh.obj).data mh.h).2.2) := by
    unfold MemFs.fileIO; simp only [hh]
  rw [e]
  refine ⟨rfl, ?_, ?_, ?_⟩
  · simp [MemFs.setObj, hlt]
  · show ((m.setObj mh.obj _).obj mh.obj).data = _
    rw [obj_setObj_same _ _ _ ho]; rfl
  · simp [MemFs.setObj]

/-- both sides run the same function on equal inputs: they stay twins -/
theorem twin_same_fn (s : Layers) (u : UFile) (f : Bytes → Handle → Bytes × Handle × FOut) (tb tl : Bool)
    (h : Twin s u) (hpos : ∀ d hd, 0 ≤ hd.pos → 0 ≤ (f d hd).2.1.pos) :
    Twin { b := (s.b.fileIO u.bi f tb).1, l := (s.l.fileIO u.li f tl).1 } u ∧
    (s.b.fileIO u.bi f tb).2 = (s.l.fileIO u.li f tl).2 := by
  obtain ⟨mb, ml, hb, hl, heq, hp, hob, hol, hd⟩ := h
  obtain ⟨b1, b2, b3, b4⟩ := fileIO_spec s.b u.bi f tb mb hb hob
  obtain ⟨l1, l2, l3, l4⟩ := fileIO_spec s.l u.li f tl ml hl hol
  refine ⟨⟨_, _, b2, l2, ?_, ?_, by rw [b4]; exact hob, by rw [l4]; exact hol, ?_⟩, ?_⟩
  · simp only; rw [hd, heq]
  · simp only; exact hpos _ _ hp
  · simp only at b3 l3 ⊢; rw [b3, l3, hd, heq]
  · rw [b1, l1, hd, heq]

/-! ### the handle functions: either refused (nothing changes) or succeeded -/

theorem writeC_cases (d : Bytes) (h : Handle) (b : Bytes) (hp : 0 ≤ h.pos) :
    ((writeC d h b).1 = d ∧ (writeC d h b).2.1 = h ∧ ∀ k, (writeC d h b).2.2 ≠ .n k none) ∨
    ((∃ k, (writeC d h b).2.2 = .n k none) ∧ 0 ≤ (writeC d h b).2.1.pos) := by
  by_cases hc : h.closed = true
  · left; unfold writeC; simp [hc]
  · by_cases hr : h.readOnly = true
    · left; unfold writeC; simp [hc, hr]
    · by_cases hb : b = []
      · right; unfold writeC; simp [hc, hr, hb, hp]
      · right
        have hc' : h.closed = false := by simpa using hc
        have hr' : h.readOnly = false := by simpa using hr
        obtain ⟨cur, hcur⟩ : ∃ cur : Nat, h.pos = cur := ⟨h.pos.toNat, by omega⟩
        rw [writeC_eq d h b cur hcur hc' hr' hb]
        exact ⟨⟨_, rfl⟩, by simp only; omega⟩

theorem writeC_pos (d : Bytes) (h : Handle) (b : Bytes) (hp : 0 ≤ h.pos) : 0 ≤ (writeC d h b).2.1.pos := by
  rcases writeC_cases d h b hp with ⟨_, h2, _⟩ | ⟨_, h2⟩
  · rw [h2]; exact hp
  · exact h2

theorem seekC_pos (d : Bytes) (h : Handle) (off : Int) (wh : Nat) (hp : 0 ≤ h.pos) : 0 ≤ (seekC d h off wh).1.pos := by
  unfold seekC
  repeat' split
  all_goals first
    | exact hp
    | (simp only; omega)

theorem seekC_cases (d : Bytes) (h : Handle) (off : Int) (wh : Nat) :
    ((seekC d h off wh).1 = h ∧ ∀ p, (seekC d h off wh).2 ≠ .pos p) ∨ (∃ p, (seekC d h off wh).2 = .pos p) := by
  unfold seekC
  repeat' split
  · left; exact ⟨rfl, by simp⟩
  · left; exact ⟨rfl, by simp⟩
  · right; exact ⟨_, rfl⟩

/-! ### the methods of the union handle -/

/-- Write: the payload reaches the base exactly as it reaches the cache layer -/
theorem write_twin (s : Layers) (u : UFile) (bs : Bytes) (h : Twin s u) : Twin (u.write s bs).1 u := by
  have key := twin_same_fn s u (fun d hd => writeC d hd bs) true true h (fun d hd hp => writeC_pos d hd bs hp)
  obtain ⟨mb, ml, hb, hl, heq, hp, hob, hol, hd⟩ := h
  obtain ⟨l1, l2, l3, l4⟩ := fileIO_spec s.l u.li (fun d hd => writeC d hd bs) true ml hl hol
  unfold UFile.write MemFs.hWrite at *
  simp only
  rcases writeC_cases (s.l.obj ml.obj).data ml.h bs (heq ▸ hp) with ⟨c1, c2, c3⟩ | ⟨⟨k, c1⟩, _⟩
  · -- the layer refused (closed / read-only handle): nothing was written anywhere
    have hres : ∀ k, (s.l.fileIO u.li (fun d hd => writeC d hd bs) true).2 ≠ .file (.n k none) := by
      intro k hcon
      rw [l1] at hcon
      injection hcon with hcon
      exact c3 _ hcon
    split
    · rename_i k' hk; exact absurd hk (hres k')
    · refine ⟨mb, _, hb, l2, ?_, hp, hob, by rw [l4]; exact hol, ?_⟩
      · simp only; rw [c2]; exact heq
      · simp only at l3 ⊢; rw [l3, c1]; exact hd
  · split
    · exact key.1
    · rename_i hne; exact absurd (by rw [l1, c1]) (hne k)

theorem writeAtC_cases (d : Bytes) (h : Handle) (b : Bytes) (off : Int) :
    (writeAtC d h b off).2.1 = h ∧
    (((writeAtC d h b off).1 = d ∧ ∀ k, (writeAtC d h b off).2.2 ≠ .n k none) ∨
     (∃ k, (writeAtC d h b off).2.2 = .n k none)) := by
  unfold writeAtC
  by_cases ho : off < 0
  · simp [ho]
  · simp only [ho, if_false]
    refine ⟨by trivial, ?_⟩
    rcases writeC_cases d { h with pos := off } b (by simp only; omega) with ⟨c1, _, c3⟩ | ⟨c1, _⟩
    · left; exact ⟨c1, c3⟩
    · right; exact c1

/-- WriteAt: same bytes at the same offset in both; the offsets do not move -/
theorem writeAt_twin (s : Layers) (u : UFile) (bs : Bytes) (off : Int) (h : Twin s u) :
    Twin (u.writeAt s bs off).1 u := by
  have key := twin_same_fn s u (fun d hd => writeAtC d hd bs off) true true h
    (fun d hd hp => by rw [(writeAtC_cases d hd bs off).1]; exact hp)
  obtain ⟨mb, ml, hb, hl, heq, hp, hob, hol, hd⟩ := h
  obtain ⟨l1, l2, l3, l4⟩ := fileIO_spec s.l u.li (fun d hd => writeAtC d hd bs off) true ml hl hol
  unfold UFile.writeAt MemFs.hWriteAt at *
  simp only
  obtain ⟨c2, hc⟩ := writeAtC_cases (s.l.obj ml.obj).data ml.h bs off
  rcases hc with ⟨c1, c3⟩ | ⟨k, c1⟩
  · have hres : ∀ k, (s.l.fileIO u.li (fun d hd => writeAtC d hd bs off) true).2 ≠ .file (.n k none) := by
      intro k hcon
      rw [l1] at hcon
      injection hcon with hcon
      exact c3 _ hcon
    split
    · rename_i k' hk; exact absurd hk (hres k')
    · refine ⟨mb, _, hb, l2, ?_, hp, hob, by rw [l4]; exact hol, ?_⟩
      · simp only; rw [c2]; exact heq
      · simp only at l3 ⊢; rw [l3, c1]; exact hd
  · split
    · exact key.1
    · rename_i hne; exact absurd (by rw [l1, c1]) (hne k)

theorem truncC_cases (d : Bytes) (h : Handle) (n : Int) :
    ((truncC d h n).1 = d ∧ (truncC d h n).2 ≠ .ok) ∨ (truncC d h n).2 = .ok := by
  unfold truncC
  by_cases hc : h.closed = true
  · left; simp [hc]
  · by_cases hr : h.readOnly = true
    · left; simp [hc, hr]
    · by_cases hn : n < 0
      · left; simp [hc, hr, hn]
      · simp only [hc, hr, hn, if_false, Bool.false_eq_true]
        split
        · right; rfl
        · split
          · left; exact ⟨rfl, by simp⟩
          · right; rfl

/-- Truncate: both files are cut or zero-extended to the same size -/
theorem truncate_twin (s : Layers) (u : UFile) (n : Int) (h : Twin s u) : Twin (u.truncate s n).1 u := by
  have key := twin_same_fn s u (fun d hd => ((truncC d hd n).1, hd, (truncC d hd n).2)) true true h
    (fun d hd hp => hp)
  obtain ⟨mb, ml, hb, hl, heq, hp, hob, hol, hd⟩ := h
  obtain ⟨l1, l2, l3, l4⟩ := fileIO_spec s.l u.li (fun d hd => ((truncC d hd n).1, hd, (truncC d hd n).2)) true ml hl hol
  unfold UFile.truncate MemFs.hTruncate at *
  simp only
  rcases truncC_cases (s.l.obj ml.obj).data ml.h n with ⟨c1, c3⟩ | c1
  · have hres : (s.l.fileIO u.li (fun d hd => ((truncC d hd n).1, hd, (truncC d hd n).2)) true).2 ≠ .file .ok := by
      intro hcon
      rw [l1] at hcon
      injection hcon with hcon
      exact c3 hcon
    split
    · rename_i hk; exact absurd hk hres
    · refine ⟨mb, _, hb, l2, ?_, hp, hob, by rw [l4]; exact hol, ?_⟩
      · simp only; exact heq
      · simp only at l3 ⊢; rw [l3, c1]; exact hd
  · split
    · exact key.1
    · rename_i hne; exact absurd (by rw [l1]; simp only; rw [c1]) hne

/-- Seek: both offsets move together, or neither moves -/
theorem seek_twin (s : Layers) (u : UFile) (off : Int) (wh : Nat) (h : Twin s u) : Twin (u.seek s off wh).1 u := by
  have key := twin_same_fn s u (fun d hd => (d, (seekC d hd off wh).1, (seekC d hd off wh).2)) false false h
    (fun d hd hp => seekC_pos d hd off wh hp)
  obtain ⟨mb, ml, hb, hl, heq, hp, hob, hol, hd⟩ := h
  obtain ⟨l1, l2, l3, l4⟩ := fileIO_spec s.l u.li (fun d hd => (d, (seekC d hd off wh).1, (seekC d hd off wh).2)) false ml hl hol
  obtain ⟨b1, b2, b3, b4⟩ := fileIO_spec s.b u.bi (fun d hd => (d, (seekC d hd off wh).1, (seekC d hd off wh).2)) false mb hb hob
  unfold UFile.seek MemFs.hSeek at *
  simp only
  split
  · -- the layer moved: the base is asked the same; either answer keeps the pair as `key` says
    split <;> exact key.1
  · -- the layer refused (closed handle or negative target): its handle is unchanged
    rename_i hne
    have hsame : (seekC (s.l.obj ml.obj).data ml.h off wh).1 = ml.h := by
      rcases seekC_cases (s.l.obj ml.obj).data ml.h off wh with ⟨c1, _⟩ | ⟨p, c1⟩
      · exact c1
      · exact absurd (by rw [l1, c1]) (hne p)
    refine ⟨mb, _, hb, l2, ?_, hp, hob, by rw [l4]; exact hol, ?_⟩
    · simp only; rw [hsame]; exact heq
    · simp only at l3 ⊢; rw [l3]; exact hd

theorem readC_cases (d : Bytes) (h : Handle) (len : Nat) (hp : 0 ≤ h.pos) :
    ((readC d h len).1 = h ∧ ((readC d h len).2 = .bytes [] (some .closed) ∨ (readC d h len).2 = .bytes [] (some .ueof))) ∨
    ((readC d h len).1 = h ∧ (readC d h len).2 = .bytes [] (some .eof) ∧ h.closed = false) ∨
    (∃ bs, (readC d h len).2 = .bytes bs none ∧ (readC d h len).1 = { h with pos := h.pos + bs.length } ∧
      h.closed = false) := by
  by_cases hc : h.closed = true
  · left; unfold readC; simp [hc]
  · have hc' : h.closed = false := by simpa using hc
    obtain ⟨cur, hcur⟩ : ∃ cur : Nat, h.pos = cur := ⟨h.pos.toNat, by omega⟩
    by_cases h1 : len > 0 ∧ h.pos = (d.length : Int)
    · right; left; unfold readC; simp [hc', h1]
    · by_cases h2 : h.pos > (d.length : Int)
      · left; unfold readC; simp [hc', h1, h2]
      · right; right
        have hin : ¬ (cur ≥ d.length ∧ (len > 0 ∨ cur > d.length)) := by omega
        rw [readC_eq d h len cur hcur hc' hin]
        exact ⟨_, rfl, rfl, hc'⟩

theorem seek_cur (d : Bytes) (h : Handle) (n : Nat) (hc : h.closed = false) (hp : 0 ≤ h.pos) :
    (seekC d h n 1).1 = { h with pos := h.pos + n } := by
  unfold seekC seekTarget
  have : ¬ (h.pos + (n : Int) < 0) := by omega
  simp [hc, this]

/-- Read: the base handle follows the layer handle by exactly the number of bytes read -/
theorem read_twin (s : Layers) (u : UFile) (len : Nat) (h : Twin s u) : Twin (u.read s len).1 u := by
  obtain ⟨mb, ml, hb, hl, heq, hp, hob, hol, hd⟩ := h
  have hpl : 0 ≤ ml.h.pos := heq ▸ hp
  obtain ⟨l1, l2, l3, l4⟩ := fileIO_spec s.l u.li (fun d hd => (d, (readC d hd len).1, (readC d hd len).2)) false ml hl hol
  unfold UFile.read MemFs.hRead at *
  simp only at l1 l2 l3 ⊢
  rcases readC_cases (s.l.obj ml.obj).data ml.h len hpl with ⟨c1, c2⟩ | ⟨c1, c2, c3⟩ | ⟨bs, c2, c1, c3⟩
  · -- closed handle or position beyond the end: the base handle is not touched
    have hno : isOkOrEOF (s.l.fileIO u.li (fun d hd => (d, (readC d hd len).1, (readC d hd len).2)) false).2 = false := by
      rw [l1]; rcases c2 with c2 | c2 <;> rw [c2] <;> rfl
    rw [hno]
    simp only [Bool.false_eq_true, if_false]
    exact ⟨mb, _, hb, l2, by simp only; rw [c1]; exact heq, hp, hob, by rw [l4]; exact hol, by simp only at l3 ⊢; rw [l3]; exact hd⟩
  · -- clean EOF: the base seeks by 0 bytes
    have hyes : isOkOrEOF (s.l.fileIO u.li (fun d hd => (d, (readC d hd len).1, (readC d hd len).2)) false).2 = true := by
      rw [l1, c2]; rfl
    rw [hyes]
    simp only [if_true]
    have hn : UFile.bytesLen (s.l.fileIO u.li (fun d hd => (d, (readC d hd len).1, (readC d hd len).2)) false).2 = 0 := by
      rw [l1, c2]; rfl
    rw [hn]
    obtain ⟨b1, b2, b3, b4⟩ := fileIO_spec s.b u.bi (fun d hd => (d, (seekC d hd ((0 : Nat) : Int) 1).1, (seekC d hd ((0 : Nat) : Int) 1).2)) false mb hb hob
    have hbc : mb.h.closed = false := heq ▸ c3
    have hsk := seek_cur (s.b.obj mb.obj).data mb.h 0 hbc hp
    unfold MemFs.hSeek
    split <;> (refine ⟨_, _, b2, l2, ?_, ?_, by rw [b4]; exact hob, by rw [l4]; exact hol, ?_⟩
               · simp only; rw [hsk, c1, heq]; simp
               · simp only; rw [hsk]; simp only; omega
               · simp only at b3 l3 ⊢; rw [b3, l3]; exact hd)
  · -- bytes were read: the base seeks forward by their number
    have hyes : isOkOrEOF (s.l.fileIO u.li (fun d hd => (d, (readC d hd len).1, (readC d hd len).2)) false).2 = true := by
      rw [l1, c2]; rfl
    rw [hyes]
    simp only [if_true]
    have hn : UFile.bytesLen (s.l.fileIO u.li (fun d hd => (d, (readC d hd len).1, (readC d hd len).2)) false).2 = bs.length := by
      rw [l1, c2]; rfl
    rw [hn]
    obtain ⟨b1, b2, b3, b4⟩ := fileIO_spec s.b u.bi (fun d hd => (d, (seekC d hd ((bs.length : Nat) : Int) 1).1, (seekC d hd ((bs.length : Nat) : Int) 1).2)) false mb hb hob
    have hbc : mb.h.closed = false := heq ▸ c3
    have hsk := seek_cur (s.b.obj mb.obj).data mb.h bs.length hbc hp
    unfold MemFs.hSeek
    split <;> (refine ⟨_, _, b2, l2, ?_, ?_, by rw [b4]; exact hob, by rw [l4]; exact hol, ?_⟩
               · simp only; rw [hsk, c1, heq]
               · simp only; rw [hsk]; simp only; omega
               · simp only at b3 l3 ⊢; rw [b3, l3]; exact hd)

theorem readAtC_handle (d : Bytes) (h : Handle) (len : Nat) (off : Int) : (readAtC d h len off).1 = h := by
  unfold readAtC
  repeat' split
  all_goals rfl

/-- ReadAt (as repaired): positional, touches neither offset -/
theorem readAt_twin (s : Layers) (u : UFile) (len : Nat) (off : Int) (h : Twin s u) : Twin (u.readAt s len off).1 u := by
  obtain ⟨mb, ml, hb, hl, heq, hp, hob, hol, hd⟩ := h
  obtain ⟨l1, l2, l3, l4⟩ := fileIO_spec s.l u.li (fun d hd => (d, (readAtC d hd len off).1, (readAtC d hd len off).2)) false ml hl hol
  unfold UFile.readAt MemFs.hReadAt
  simp only at l2 l3 ⊢
  refine ⟨mb, _, hb, l2, ?_, hp, hob, by rw [l4]; exact hol, ?_⟩
  · simp only; rw [readAtC_handle]; exact heq
  · rw [l3]; exact hd

theorem hClose_spec (m : MemFs) (hi : Nat) (mh : MHandle) (hh : m.handles[hi]? = some mh) (ho : mh.obj < m.objs.length) :
    (m.hClose hi).1.handles[hi]? = some { mh with h := { mh.h with closed := true } } ∧
    ((m.hClose hi).1.obj mh.obj).data = (m.obj mh.obj).data ∧ (m.hClose hi).1.objs.length = m.objs.length := by
  have hlt : hi < m.handles.length := (List.getElem?_eq_some_iff.mp hh).1
  unfold MemFs.hClose
  simp only [hh]
  by_cases hr : mh.h.readOnly = true
  · simp only [hr, if_true]
    refine ⟨by simp [hlt], ?_, ?_⟩ <;> first | rfl | trivial
  · simp only [hr, Bool.false_eq_true, if_false]
    refine ⟨by simp [MemFs.setObj, hlt], ?_, by simp [MemFs.setObj]⟩
    show ((m.setObj mh.obj _).obj mh.obj).data = _
    rw [obj_setObj_same _ _ _ ho]

/-- Close closes both -/
theorem close_twin (s : Layers) (u : UFile) (h : Twin s u) : Twin (u.close s).1 u := by
  obtain ⟨mb, ml, hb, hl, heq, hp, hob, hol, hd⟩ := h
  obtain ⟨b1, b2, b3⟩ := hClose_spec s.b u.bi mb hb hob
  obtain ⟨l1, l2, l3⟩ := hClose_spec s.l u.li ml hl hol
  unfold UFile.close
  simp only
  exact ⟨_, _, b1, l1, by simp only; rw [heq], hp, by rw [b3]; exact hob, by rw [l3]; exact hol, by rw [b2, l2]; exact hd⟩

/-- the data-moving methods of a union handle -/
inductive UOp where
  | read (len : Nat) | readAt (len : Nat) (off : Int) | write (bs : Bytes) | writeAt (bs : Bytes) (off : Int)
  | truncate (n : Int) | seek (off : Int) (wh : Nat) | close

def applyU (u : UFile) (s : Layers) : UOp → Layers
  | .read len => (u.read s len).1
  | .readAt len off => (u.readAt s len off).1
  | .write bs => (u.write s bs).1
  | .writeAt bs off => (u.writeAt s bs off).1
  | .truncate n => (u.truncate s n).1
  | .seek off wh => (u.seek s off wh).1
  | .close => (u.close s).1

/-- **C11, handle level.** Whatever sequence of Read, ReadAt, Seek, Write, WriteAt, Truncate and
    Close calls is made on a union handle — any offsets (negative and beyond EOF included), any
    payloads — the base handle and the cache handle stay twins: same offset, and the base file
    holds exactly the bytes the cache file holds. -/
theorem union_twin_preserved (u : UFile) (s : Layers) (ops : List UOp) (h : Twin s u) :
    Twin (ops.foldl (applyU u) s) u := by
  induction ops generalizing s with
  | nil => exact h
  | cons op ops ih =>
    simp only [List.foldl_cons]
    apply ih
    cases op with
    | read len => exact read_twin s u len h
    | readAt len off => exact readAt_twin s u len off h
    | write bs => exact write_twin s u bs h
    | writeAt bs off => exact writeAt_twin s u bs off h
    | truncate n => exact truncate_twin s u n h
    | seek off wh => exact seek_twin s u off wh h
    | close => exact close_twin s u h

/-- in particular the two files are byte-identical after any such sequence -/
theorem union_bytes_identical (u : UFile) (s : Layers) (ops : List UOp) (h : Twin s u) :
    ∃ mb ml, (ops.foldl (applyU u) s).b.handles[u.bi]? = some mb ∧ (ops.foldl (applyU u) s).l.handles[u.li]? = some ml ∧
      ((ops.foldl (applyU u) s).b.obj mb.obj).data = ((ops.foldl (applyU u) s).l.obj ml.obj).data ∧ mb.h.pos = ml.h.pos := by
  obtain ⟨mb, ml, hb, hl, heq, _, _, _, hd⟩ := union_twin_preserved u s ops h
  exact ⟨mb, ml, hb, hl, hd, by rw [heq]⟩

/-- `Create` through the cache returns a union handle whose two sides are twins (non-vacuity of
    the premise, on the concrete empty pair of filesystems) -/
example : let r := Cache.create ({} : Cow) "/f".toList
    Twin r.1.s { bi := 0, li := 0 } := by
  refine ⟨_, _, rfl, rfl, rfl, by decide, by decide, by decide, rfl⟩

/-- **`Create` through the cache returns twins, in every state**: whatever the two layers hold
    (any states in which names lead to allocated objects — every reachable state), `Create(name)`
    returns a union handle whose base side and cache side are at offset 0 on two empty files; so by
    `union_twin_preserved` every later Read/Write/Seek/Truncate sequence through that handle keeps
    base and cache byte-identical. -/
theorem create_returns_twins (c : Cow) (name : Str) (hb : MemFs.InRange c.s.b) (hl : MemFs.InRange c.s.l) :
    ∃ u, (Cache.create c name).2 = .handle c.hs.length none ∧
      (Cache.create c name).1.hs = c.hs ++ [.union u] ∧ Twin (Cache.create c name).1.s u := by
  obtain ⟨b1, b2, _, b4, _⟩ := MemFs.create_spec c.s.b (keyOfStr name) hb
  obtain ⟨l1, l2, _, l4, _⟩ := MemFs.create_spec c.s.l (keyOfStr name) hl
  unfold Cache.create
  simp only [MemFs.addHandle, Cow.addH]
  refine ⟨{ bi := (c.s.b.create (keyOfStr name)).1.handles.length, li := (c.s.l.create (keyOfStr name)).1.handles.length }, trivial, rfl, ?_⟩
  refine ⟨⟨(c.s.b.create (keyOfStr name)).2, { readOnly := false }, 0⟩, ⟨(c.s.l.create (keyOfStr name)).2, { readOnly := false }, 0⟩,
    by simp, by simp, rfl, Int.le_refl 0, b2, l2, ?_⟩
  show ((c.s.b.create (keyOfStr name)).1.obj _).data = ((c.s.l.create (keyOfStr name)).1.obj _).data
  rw [b4, l4]

/-- a file created through the cache and then written, read, sought and truncated through the
    returned handle in any way is byte-identical in base and cache -/
theorem create_then_io_identical (c : Cow) (name : Str) (ops : List UOp) (hb : MemFs.InRange c.s.b) (hl : MemFs.InRange c.s.l) :
    ∃ u mb ml, (ops.foldl (applyU u) (Cache.create c name).1.s).b.handles[u.bi]? = some mb ∧
      (ops.foldl (applyU u) (Cache.create c name).1.s).l.handles[u.li]? = some ml ∧
      ((ops.foldl (applyU u) (Cache.create c name).1.s).b.obj mb.obj).data =
        ((ops.foldl (applyU u) (Cache.create c name).1.s).l.obj ml.obj).data := by
  obtain ⟨u, _, _, ht⟩ := create_returns_twins c name hb hl
  obtain ⟨mb, ml, h1, h2, h3, _⟩ := union_bytes_identical u _ ops ht
  exact ⟨u, mb, ml, h1, h2, h3⟩

/-- `OpenFile` of an existing name without O_EXCL, any other flags: a fresh handle on the same
    object; the bytes are kept, or dropped when the flags truncate -/
theorem openFile_existing_gen (m : MemFs) (k : Key) (flag perm f : Nat) (hl : m.lookup k = some f)
    (hx : flag &&& O_EXCL = 0) (hf : f < m.objs.length) :
    (m.openFile k flag perm).2 = .handle m.handles.length none ∧
    (m.openFile k flag perm).1.handles[m.handles.length]? =
      some ⟨f, ⟨if flag &&& O_APPEND > 0 then ((m.obj f).data.length : Int) else 0, decide (flag &&& (O_WRONLY ||| O_RDWR) = 0), false⟩, 0⟩ ∧
    (m.openFile k flag perm).1.objs.length = m.objs.length ∧
    ((m.openFile k flag perm).1.obj f).data =
      (if flag &&& O_TRUNC > 0 ∧ flag &&& (O_RDWR ||| O_WRONLY) > 0 then [] else (m.obj f).data) := by
  unfold MemFs.openFile
  simp only [hl, Option.isSome_some, true_and, hx, Nat.lt_irrefl, if_false]
  by_cases hT : (flag &&& O_TRUNC > 0 ∧ flag &&& (O_RDWR ||| O_WRONLY) > 0)
  · simp only [hT, and_self, if_true, Bool.false_eq_true, if_false]
    refine ⟨rfl, by simp [MemFs.setObj], by simp [MemFs.setObj], ?_⟩
    have := obj_setObj_same m f { m.obj f with data := [], mtime := m.now } hf
    unfold MemFs.obj at this ⊢; simp only at this ⊢; rw [this]
  · simp only [hT, if_false, Bool.false_eq_true]
    exact ⟨trivial, by simp, trivial, rfl⟩

/-- **a write-open of a cached, coherent file returns twins**: if the name is a cache hit and base
    and cache hold the same bytes under it, `OpenFile` with any write flags (no O_EXCL) returns a
    union handle whose two sides are twins — so everything written through it reaches both layers
    identically (`union_twin_preserved`). -/
theorem openFile_hit_returns_twins (c : Cow) (dur : Int) (name : Str) (flag perm bf lf : Nat)
    (hst : Cache.cacheStatus c dur (keyOfStr name) = .hit)
    (hw : flag &&& cowWriteMask ≠ 0) (hx : flag &&& O_EXCL = 0)
    (hb : c.s.b.lookup (keyOfStr name) = some bf) (hl : c.s.l.lookup (keyOfStr name) = some lf)
    (hbf : bf < c.s.b.objs.length) (hlf : lf < c.s.l.objs.length)
    (hco : (c.s.b.obj bf).data = (c.s.l.obj lf).data) :
    ∃ u, (Cache.openFile c dur name flag perm).2 = .handle c.hs.length none ∧
      (Cache.openFile c dur name flag perm).1.hs = c.hs ++ [.union u] ∧
      Twin (Cache.openFile c dur name flag perm).1.s u := by
  obtain ⟨b1, b2, b3, b4⟩ := openFile_existing_gen c.s.b (keyOfStr name) flag perm bf hb hx hbf
  obtain ⟨l1, l2, l3, l4⟩ := openFile_existing_gen c.s.l (keyOfStr name) flag perm lf hl hx hlf
  unfold Cache.openFile
  simp only [hst, or_true, if_true, hw, ne_eq, not_false_eq_true, b1, l1, Cow.addH]
  refine ⟨{ bi := c.s.b.handles.length, li := c.s.l.handles.length }, trivial, rfl, ?_⟩
  refine ⟨_, _, b2, l2, ?_, ?_, by rw [b3]; exact hbf, by rw [l3]; exact hlf, ?_⟩
  · rw [hco]
  · show (0 : Int) ≤ (if flag &&& O_APPEND > 0 then ((c.s.b.obj bf).data.length : Int) else 0)
    split <;> omega
  · show ((c.s.b.openFile (keyOfStr name) flag perm).1.obj bf).data = ((c.s.l.openFile (keyOfStr name) flag perm).1.obj lf).data
    rw [b4, l4, hco]

/-! ### a write-open of an uncached (or stale) file copies it first -/

theorem strip_and (flag A E : Nat) (h : A &&& E = 0) : (flag ^^^ (flag &&& A)) &&& E = flag &&& E := by
  apply Nat.eq_of_testBit_eq
  intro i
  have hi := congrArg (fun x => x.testBit i) h
  simp only [Nat.testBit_and, Nat.zero_testBit] at hi
  simp only [Nat.testBit_and, Nat.testBit_xor]
  cases hf : flag.testBit i <;> cases ha : A.testBit i <;> cases he : E.testBit i <;> simp_all

theorem strip_self (flag A : Nat) : (flag ^^^ (flag &&& A)) &&& A = 0 := by
  apply Nat.eq_of_testBit_eq
  intro i
  simp only [Nat.testBit_and, Nat.testBit_xor, Nat.zero_testBit]
  cases hf : flag.testBit i <;> cases ha : A.testBit i <;> simp_all

/-- the copy made by `copyFileToLayer` for a write-open without truncation: afterwards the base
    still holds its bytes (its handle table back to what it was, plus one closed handle), and the
    cache layer holds a byte-identical copy under the name -/
theorem copyUpFlags_content (c : Cow) (name : Str) (flag perm bf : Nat)
    (hb : c.s.b.lookup (keyOfStr name) = some bf) (hfile : (c.s.b.obj bf).dir = false)
    (hbf : bf < c.s.b.objs.length) (hr : MemFs.InRange c.s.l)
    (hx : flag &&& O_EXCL = 0) (ht : flag &&& O_TRUNC = 0) :
    (Cache.copyUpFlags c name flag perm).2 = none ∧
    (Cache.copyUpFlags c name flag perm).1.hs = c.hs ∧
    (Cache.copyUpFlags c name flag perm).1.s.b.lookup (keyOfStr name) = some bf ∧
    bf < (Cache.copyUpFlags c name flag perm).1.s.b.objs.length ∧
    ((Cache.copyUpFlags c name flag perm).1.s.b.obj bf).data = (c.s.b.obj bf).data ∧
    ∃ lf, (Cache.copyUpFlags c name flag perm).1.s.l.lookup (keyOfStr name) = some lf ∧
      lf < (Cache.copyUpFlags c name flag perm).1.s.l.objs.length ∧
      ((Cache.copyUpFlags c name flag perm).1.s.l.obj lf).data = (c.s.b.obj bf).data := by
  have hx' : (flag ^^^ (flag &&& O_APPEND)) &&& O_EXCL = 0 := by rw [strip_and _ _ _ (by decide)]; exact hx
  have ht' : ¬ ((flag ^^^ (flag &&& O_APPEND)) &&& O_TRUNC > 0 ∧ (flag ^^^ (flag &&& O_APPEND)) &&& (O_RDWR ||| O_WRONLY) > 0) := by
    rw [strip_and _ _ _ (by decide), ht]; intro h; exact absurd h.1 (Nat.lt_irrefl 0)
  have hap : ¬ ((flag ^^^ (flag &&& O_APPEND)) &&& O_APPEND > 0) := by rw [strip_self]; exact Nat.lt_irrefl 0
  have hof := openFile_existing c.s.b (keyOfStr name) (flag ^^^ (flag &&& O_APPEND)) perm bf hb hx' ht'
  unfold Cache.copyUpFlags
  simp only [hof, hap, if_false]
  -- the handle just opened sits at index handles.length, at offset 0, on object bf
  have hget : (c.s.b.handles ++ [MHandle.mk bf (Handle.mk 0 (decide ((flag ^^^ (flag &&& O_APPEND)) &&& (O_WRONLY ||| O_RDWR) = 0)) false) 0]).getD c.s.b.handles.length default
      = MHandle.mk bf (Handle.mk 0 (decide ((flag ^^^ (flag &&& O_APPEND)) &&& (O_WRONLY ||| O_RDWR) = 0)) false) 0 := by
    rw [List.getD_eq_getElem?_getD, List.getElem?_append_right (Nat.le_refl _), Nat.sub_self]
    rfl
  simp only [hget, Int.toNat_zero]
  have hobj : ({ c.s.b with handles := c.s.b.handles ++ [MHandle.mk bf (Handle.mk 0 (decide ((flag ^^^ (flag &&& O_APPEND)) &&& (O_WRONLY ||| O_RDWR) = 0)) false) 0] } : MemFs).obj bf = c.s.b.obj bf := rfl
  obtain ⟨k1, lf, k2, k3, _, k5⟩ := copyFile_content
    ({ c.s.b with handles := c.s.b.handles ++ [MHandle.mk bf (Handle.mk 0 (decide ((flag ^^^ (flag &&& O_APPEND)) &&& (O_WRONLY ||| O_RDWR) = 0)) false) 0] } : MemFs)
    c.s.l name bf hr (by rw [hobj]; exact hfile)
  have hcl := Util.hClose_keeps
    ({ c.s.b with handles := c.s.b.handles ++ [MHandle.mk bf (Handle.mk 0 (decide ((flag ^^^ (flag &&& O_APPEND)) &&& (O_WRONLY ||| O_RDWR) = 0)) false) 0] } : MemFs)
    c.s.b.handles.length (MHandle.mk bf (Handle.mk 0 (decide ((flag ^^^ (flag &&& O_APPEND)) &&& (O_WRONLY ||| O_RDWR) = 0)) false) 0) (by simp)
  obtain ⟨_, c2, c3, c4⟩ := hcl
  refine ⟨k1, trivial, ?_, ?_, ?_, lf, k2, k5 _ _ k2, ?_⟩
  · show (MemFs.hClose _ _).1.lookup _ = _
    rw [c2]; exact hb
  · show bf < (MemFs.hClose _ _).1.objs.length
    rw [c3]; exact hbf
  · show ((MemFs.hClose _ _).1.obj bf).data = _
    rw [(c4 bf).1]
    rfl
  · exact k3.trans (by rw [hobj])

/-- **a write-open of an uncached or stale file copies it first and returns twins**: for a regular
    base file that is a miss or stale, `OpenFile` with any write-access flags that neither truncate
    nor demand exclusivity (O_APPEND included) first leaves a byte-identical copy in the cache and
    then returns a union handle whose two sides are twins — what is written through it reaches both
    layers identically (`union_twin_preserved`). -/
theorem openFile_miss_returns_twins (c : Cow) (dur : Int) (name : Str) (flag perm bf : Nat)
    (hst : Cache.cacheStatus c dur (keyOfStr name) = .miss ∨ Cache.cacheStatus c dur (keyOfStr name) = .stale)
    (hw : flag &&& cowWriteMask ≠ 0) (hx : flag &&& O_EXCL = 0) (ht : flag &&& O_TRUNC = 0)
    (hb : c.s.b.lookup (keyOfStr name) = some bf) (hfile : (c.s.b.obj bf).dir = false)
    (hbf : bf < c.s.b.objs.length) (hr : MemFs.InRange c.s.l) :
    ∃ u, (Cache.openFile c dur name flag perm).2 = .handle c.hs.length none ∧
      (Cache.openFile c dur name flag perm).1.hs = c.hs ++ [.union u] ∧
      Twin (Cache.openFile c dur name flag perm).1.s u := by
  obtain ⟨p1, p2, p3, p4, p5, lf, p6, p7, p8⟩ := copyUpFlags_content c name flag perm bf hb hfile hbf hr hx ht
  have hne : ¬ (Cache.cacheStatus c dur (keyOfStr name) = .local_ ∨ Cache.cacheStatus c dur (keyOfStr name) = .hit) := by
    rcases hst with h | h <;> simp [h]
  generalize hC : Cache.copyUpFlags c name flag perm = C at p1 p2 p3 p4 p5 p6 p7 p8
  obtain ⟨c1, e1⟩ := C
  simp only at p1 p2 p3 p4 p5 p6 p7 p8
  subst p1
  obtain ⟨b1, b2, b3, b4⟩ := openFile_existing_gen c1.s.b (keyOfStr name) flag perm bf p3 hx p4
  obtain ⟨l1, l2, l3, l4⟩ := openFile_existing_gen c1.s.l (keyOfStr name) flag perm lf p6 hx p7
  unfold Cache.openFile
  simp only [hne, if_false, hC, hw, ne_eq, not_false_eq_true, if_true, b1, l1, Cow.addH, p2]
  refine ⟨{ bi := c1.s.b.handles.length, li := c1.s.l.handles.length }, trivial, rfl, ?_⟩
  refine ⟨_, _, b2, l2, ?_, ?_, by rw [b3]; exact p4, by rw [l3]; exact p7, ?_⟩
  · rw [p5, p8]
  · show (0 : Int) ≤ (if flag &&& O_APPEND > 0 then ((c1.s.b.obj bf).data.length : Int) else 0)
    split <;> omega
  · show ((c1.s.b.openFile (keyOfStr name) flag perm).1.obj bf).data = ((c1.s.l.openFile (keyOfStr name) flag perm).1.obj lf).data
    rw [b4, l4, p5, p8]

end AferoVerif.C11
