/-
  Property C06 — CopyOnWriteFs view is overlay-over-base with content-preserving copy-up.

  Proved here: Stat shows the overlay's entry if the overlay has one and the base's otherwise;
  the merged listing of a directory present in both layers holds every name of either layer
  exactly once with the overlay's entry winning; and for *every* sequence of page sizes the
  pages handed out by a union directory handle are consecutive slices of that one listing,
  never longer than asked, with EOF exactly when a positive count meets an exhausted listing.
  Copy-up content preservation and failed-call inertness are decided by the correspondence /
  oracle runs for now (see DESIGN.md).
-/
import AferoVerif.Model.Cow
import AferoVerif.Proofs.CowContent
import AferoVerif.Proofs.Reach
import AferoVerif.Props.C02
namespace AferoVerif.C06
open AferoVerif

/-! ### Stat is the view -/

theorem stat_notexist_iff (m : MemFs) (k : Key) : m.stat k = .err .notexist ↔ m.lookup k = none := by
  unfold MemFs.stat
  cases m.lookup k with
  | none => simp
  | some f => simp

/-- the overlay's entry if the overlay has one, otherwise the base's entry -/
theorem stat_is_view (c : Cow) (p : Str) :
    (c.step (.stat p)).2 =
      (if (c.s.l.lookup (keyOfStr p)).isSome then c.s.l.stat (keyOfStr p) else c.s.b.stat (keyOfStr p)) ∧
    (c.step (.stat p)).1 = c := by
  simp only [Cow.step]
  cases hk : c.s.l.lookup (keyOfStr p) with
  | none =>
    have : c.s.l.stat (keyOfStr p) = .err .notexist := (stat_notexist_iff _ _).mpr hk
    rw [this]; simp
  | some f =>
    have hne : c.s.l.stat (keyOfStr p) ≠ .err .notexist := fun e => by
      have := (stat_notexist_iff _ _).mp e; rw [hk] at this; cases this
    simp only [Option.isSome_some, if_true]
    first
      | exact ⟨trivial, trivial⟩
      | (split
         · rename_i heq; exact absurd heq hne
         · exact ⟨rfl, rfl⟩)

/-! ### the merged listing -/

abbrev Ent := Str × Bool

def names (l : List Ent) : List Str := l.map (·.1)

/-- step used for overlay entries: replace an entry of the same name, else append -/
def putL (acc : List Ent) (e : Ent) : List Ent :=
  if acc.any (·.1 = e.1) then acc.map (fun x => if x.1 = e.1 then e else x) else acc ++ [e]

/-- step used for base entries: keep what is there, else append -/
def putB (acc : List Ent) (e : Ent) : List Ent :=
  if acc.any (·.1 = e.1) then acc else acc ++ [e]

theorem merge_eq (lofi bofi : List Ent) : UFile.merge lofi bofi = bofi.foldl putB (lofi.foldl putL []) := rfl

theorem names_putL_mem (acc : List Ent) (e : Ent) (n : Str) :
    n ∈ names (putL acc e) ↔ n ∈ names acc ∨ n = e.1 := by
  unfold putL names
  by_cases h : acc.any (·.1 = e.1) = true
  · simp only [h, if_true, List.map_map, List.mem_map]
    simp only [List.any_eq_true, decide_eq_true_eq] at h
    obtain ⟨x, hx, hxe⟩ := h
    constructor
    · rintro ⟨y, hy, rfl⟩
      simp only [Function.comp]
      by_cases hye : y.1 = e.1
      · right; simp [hye]
      · left; exact ⟨y, hy, by simp [hye]⟩
    · rintro (⟨y, hy, rfl⟩ | rfl)
      · exact ⟨y, hy, by simp only [Function.comp]; by_cases hye : y.1 = e.1 <;> simp [hye]⟩
      · exact ⟨x, hx, by simp [Function.comp, hxe]⟩
  · simp only [h, Bool.false_eq_true, if_false, List.map_append, List.mem_append, List.mem_map,
      List.map_cons, List.map_nil, List.mem_singleton]

theorem names_putB_mem (acc : List Ent) (e : Ent) (n : Str) :
    n ∈ names (putB acc e) ↔ n ∈ names acc ∨ n = e.1 := by
  unfold putB names
  by_cases h : acc.any (·.1 = e.1) = true
  · simp only [h, if_true]
    simp only [List.any_eq_true, decide_eq_true_eq] at h
    obtain ⟨x, hx, hxe⟩ := h
    constructor
    · intro h1; left; exact h1
    · rintro (h1 | rfl)
      · exact h1
      · exact List.mem_map.mpr ⟨x, hx, hxe⟩
  · simp only [h, Bool.false_eq_true, if_false, List.map_append, List.mem_append, List.mem_map,
      List.map_cons, List.map_nil, List.mem_singleton]

theorem names_putL_nodup (acc : List Ent) (e : Ent) (h : (names acc).Nodup) : (names (putL acc e)).Nodup := by
  unfold putL
  by_cases ha : acc.any (·.1 = e.1) = true
  · simp only [ha, if_true]
    have : names (acc.map fun x => if x.1 = e.1 then e else x) = names acc := by
      unfold names
      rw [List.map_map]
      apply List.map_congr_left
      intro x _
      simp only [Function.comp]
      by_cases hx : x.1 = e.1 <;> simp [hx]
    rw [this]; exact h
  · simp only [ha, Bool.false_eq_true, if_false]
    unfold names
    rw [List.map_append, List.nodup_append]
    refine ⟨h, by simp, ?_⟩
    intro a ha' b hb
    simp only [List.map_cons, List.map_nil, List.mem_singleton] at hb
    subst hb
    intro hab
    subst hab
    apply ha
    simp only [List.any_eq_true, decide_eq_true_eq]
    obtain ⟨x, hx, hxe⟩ := List.mem_map.mp ha'
    exact ⟨x, hx, hxe⟩

theorem names_putB_nodup (acc : List Ent) (e : Ent) (h : (names acc).Nodup) : (names (putB acc e)).Nodup := by
  unfold putB
  by_cases ha : acc.any (·.1 = e.1) = true
  · simp only [ha, if_true]; exact h
  · simp only [ha, Bool.false_eq_true, if_false]
    unfold names
    rw [List.map_append, List.nodup_append]
    refine ⟨h, by simp, ?_⟩
    intro a ha' b hb
    simp only [List.map_cons, List.map_nil, List.mem_singleton] at hb
    subst hb
    intro hab
    subst hab
    apply ha
    simp only [List.any_eq_true, decide_eq_true_eq]
    obtain ⟨x, hx, hxe⟩ := List.mem_map.mp ha'
    exact ⟨x, hx, hxe⟩

theorem foldl_putL (l : List Ent) (acc : List Ent) (h : (names acc).Nodup) :
    (names (l.foldl putL acc)).Nodup ∧ ∀ n, n ∈ names (l.foldl putL acc) ↔ n ∈ names acc ∨ n ∈ names l := by
  induction l generalizing acc with
  | nil => exact ⟨h, fun n => by simp [names]⟩
  | cons e es ih =>
    simp only [List.foldl_cons]
    obtain ⟨h1, h2⟩ := ih (putL acc e) (names_putL_nodup acc e h)
    refine ⟨h1, fun n => ?_⟩
    rw [h2, names_putL_mem]
    simp only [names, List.map_cons, List.mem_cons]
    constructor
    · rintro ((h3 | h3) | h3)
      · left; exact h3
      · right; left; exact h3
      · right; right; exact h3
    · rintro (h3 | h3 | h3)
      · left; left; exact h3
      · left; right; exact h3
      · right; exact h3

theorem foldl_putB (l : List Ent) (acc : List Ent) (h : (names acc).Nodup) :
    (names (l.foldl putB acc)).Nodup ∧ ∀ n, n ∈ names (l.foldl putB acc) ↔ n ∈ names acc ∨ n ∈ names l := by
  induction l generalizing acc with
  | nil => exact ⟨h, fun n => by simp [names]⟩
  | cons e es ih =>
    simp only [List.foldl_cons]
    obtain ⟨h1, h2⟩ := ih (putB acc e) (names_putB_nodup acc e h)
    refine ⟨h1, fun n => ?_⟩
    rw [h2, names_putB_mem]
    simp only [names, List.map_cons, List.mem_cons]
    constructor
    · rintro ((h3 | h3) | h3)
      · left; exact h3
      · right; left; exact h3
      · right; right; exact h3
    · rintro (h3 | h3 | h3)
      · left; left; exact h3
      · left; right; exact h3
      · right; exact h3

/-- **the union listing**: every name of the overlay's or the base's listing, each exactly once -/
theorem readdir_is_union_nodup (lofi bofi : List Ent) :
    (names (UFile.merge lofi bofi)).Nodup ∧
    ∀ n, n ∈ names (UFile.merge lofi bofi) ↔ n ∈ names lofi ∨ n ∈ names bofi := by
  rw [merge_eq]
  obtain ⟨hL, hLm⟩ := foldl_putL lofi [] (by simp [names])
  obtain ⟨hB, hBm⟩ := foldl_putB bofi _ hL
  refine ⟨hB, fun n => ?_⟩
  rw [hBm, hLm]
  simp [names]

theorem nodup_names_inj (l : List Ent) (h : (names l).Nodup) (a b : Ent) (ha : a ∈ l) (hb : b ∈ l)
    (hab : a.1 = b.1) : a = b := by
  induction l with
  | nil => cases ha
  | cons e es ih =>
    simp only [names, List.map_cons, List.nodup_cons, List.mem_map] at h
    rcases List.mem_cons.mp ha with rfl | ha' <;> rcases List.mem_cons.mp hb with rfl | hb'
    · rfl
    · exact absurd ⟨b, hb', hab.symm⟩ h.1
    · exact absurd ⟨a, ha', hab⟩ h.1
    · exact ih h.2 ha' hb'

/-- base entries never displace an overlay entry -/
theorem putB_keeps (acc : List Ent) (e x : Ent) (hx : x ∈ acc) : x ∈ putB acc e := by
  unfold putB; split
  · exact hx
  · exact List.mem_append_left _ hx

theorem foldl_putB_keeps (l acc : List Ent) (x : Ent) (hx : x ∈ acc) : x ∈ l.foldl putB acc := by
  induction l generalizing acc with
  | nil => exact hx
  | cons e es ih => exact ih _ (putB_keeps acc e x hx)

/-- **overlay entry wins**: an entry of the overlay's listing (names distinct there, as in any
    directory) appears unchanged in the merged listing -/
theorem overlay_entry_wins (lofi bofi : List Ent) (x : Ent) (hx : x ∈ lofi) (hnd : (names lofi).Nodup) :
    x ∈ UFile.merge lofi bofi := by
  rw [merge_eq]
  apply foldl_putB_keeps
  -- x survives the overlay fold: nothing later in lofi has its name
  have key : ∀ (l acc : List Ent), (x ∈ acc ∨ x ∈ l) → (∀ y ∈ l, y.1 = x.1 → y = x) → x ∈ l.foldl putL acc := by
    intro l
    induction l with
    | nil => intro acc h _; rcases h with h | h; exact h; cases h
    | cons e es ih =>
      intro acc h huniq
      simp only [List.foldl_cons]
      apply ih
      · rcases h with h | h
        · left
          unfold putL
          split
          · apply List.mem_map.mpr
            refine ⟨x, h, ?_⟩
            by_cases hxe : x.1 = e.1
            · have := huniq e (by simp) hxe.symm
              simp [hxe, this]
            · simp [hxe]
          · exact List.mem_append_left _ h
        · rcases List.mem_cons.mp h with h | h
          · left
            subst h
            unfold putL
            split
            · rename_i hany
              simp only [List.any_eq_true, decide_eq_true_eq] at hany
              obtain ⟨y, hy, hye⟩ := hany
              exact List.mem_map.mpr ⟨y, hy, by simp [hye]⟩
            · simp
          · right; exact h
      · intro y hy; exact huniq y (by simp [hy])
  apply key lofi [] (Or.inr hx)
  intro y hy hyx
  -- names are distinct in lofi
  exact nodup_names_inj lofi hnd y x hy hx hyx

/-! ### pages partition the listing, for every sequence of page sizes -/

/-- the paging arithmetic of `UnionFile.Readdir` on a fixed merged listing -/
def page (files : List Ent) (off : Nat) (c : Int) : Nat × List Ent × Bool :=
  let rest := files.drop off
  if c ≤ 0 then (files.length, rest, false)
  else if rest.length = 0 then (off, [], true)
  else (off + min c.toNat rest.length, rest.take (min c.toNat rest.length), false)

def pages (files : List Ent) : Nat → List Int → Nat × List (List Ent × Bool)
  | off, [] => (off, [])
  | off, c :: cs =>
    let (off1, out, eof) := page files off c
    let (off2, rest) := pages files off1 cs
    (off2, (out, eof) :: rest)

theorem page_spec (files : List Ent) (off : Nat) (c : Int) (ho : off ≤ files.length) :
    let r := page files off c
    r.1 ≤ files.length ∧ off ≤ r.1 ∧ r.2.1 = (files.drop off).take (r.1 - off) ∧
    (c > 0 → r.2.1.length ≤ c.toNat) ∧ (r.2.2 = true ↔ (c > 0 ∧ off = files.length)) := by
  unfold page
  simp only
  by_cases hc : c ≤ 0
  · simp only [hc, if_true]
    refine ⟨Nat.le_refl _, ho, ?_, fun h => by omega, by simp; omega⟩
    rw [List.take_of_length_le]; simp
  · simp only [hc, if_false]
    by_cases hr : (files.drop off).length = 0
    · simp only [hr, if_true]
      have : off = files.length := by simp at hr; omega
      refine ⟨ho, Nat.le_refl _, by simp, fun _ => by simp, by simp; omega⟩
    · simp only [hr, if_false]
      have hl : (files.drop off).length = files.length - off := by simp
      refine ⟨by omega, by omega, by simp, fun _ => by simp; omega, ?_⟩
      simp; intro _; simp at hr; omega

/-- **pages partition the listing**: for every sequence of page sizes, the concatenation of the
    pages handed out is exactly the slice of the listing between the starting and the final
    cursor — consecutive, disjoint, in order. -/
theorem pages_partition (files : List Ent) (off : Nat) (cs : List Int) (ho : off ≤ files.length) :
    let r := pages files off cs
    off ≤ r.1 ∧ r.1 ≤ files.length ∧ (r.2.map (·.1)).flatten = (files.drop off).take (r.1 - off) := by
  induction cs generalizing off with
  | nil => simp [pages, ho]
  | cons c cs ih =>
    simp only [pages]
    obtain ⟨h1, h2, h3, _, _⟩ := page_spec files off c ho
    obtain ⟨i1, i2, i3⟩ := ih (page files off c).1 h1
    refine ⟨by omega, i2, ?_⟩
    simp only [List.map_cons, List.flatten_cons]
    rw [i3, h3]
    -- take a (drop off) ++ take b (drop off') = take (a+b) (drop off)
    generalize hA : (page files off c).1 = off1 at *
    generalize hB : (pages files off1 cs).1 = off2 at *
    have hd : List.drop off1 files = List.drop (off1 - off) (List.drop off files) := by
      rw [List.drop_drop]; congr 1; omega
    rw [hd, ← List.take_add]
    congr 1; omega

/-- the link to the code model: once the listing has been merged (cursor ≠ 0), `UnionFile.Readdir`
    is exactly `page` on the stored listing, and touches neither layer -/
theorem readdir_is_page (s : Layers) (u : UFile) (c : Int) (h : u.off ≠ 0) :
    u.readdir s c = (s, { u with off := (page u.files u.off c).1 }, some (page u.files u.off c).2.1,
      if (page u.files u.off c).2.2 then some .eof else none) := by
  unfold UFile.readdir page
  simp only [h, if_false]
  by_cases hc : c ≤ 0
  · simp [hc]
  · simp only [hc, if_false]
    by_cases hr : (u.files.drop u.off).length = 0
    · simp [hr]
    · have hr' : ¬ (u.files.length - u.off = 0) := by simpa using hr
      simp [hr']

/-- the very first call merges the two layers' complete listings and then pages the same way -/
theorem readdir_first_is_page (s : Layers) (u : UFile) (c : Int) (h : u.off = 0)
    (lfs bfs : List Nat) (hl : (s.l.readdir u.li (-1)).2.1 = some lfs) (hb : (s.b.readdir u.bi (-1)).2.1 = some bfs) :
    let files := u.files ++ UFile.merge (UFile.infosOf (s.l.readdir u.li (-1)).1 lfs) (UFile.infosOf (s.b.readdir u.bi (-1)).1 bfs)
    (u.readdir s c).2.2.1 = some (page files 0 c).2.1 ∧ (u.readdir s c).2.1.files = files ∧
    (u.readdir s c).2.1.off = (page files 0 c).1 := by
  unfold UFile.readdir page
  simp only [h, if_true, hl, hb]
  by_cases hc : c ≤ 0
  · simp [hc, h]
  · simp only [hc, if_false]
    split <;> simp_all

/-! ### content-preserving copy-up -/

/-- **copy-up keeps the content.** Opening a base-only regular file through the union with
    write-access flags (no O_TRUNC, no O_EXCL) and writing `b` at offset `off` through the returned
    handle succeeds; the overlay then holds, under that name, the base's bytes with exactly that
    range replaced (`writeS`), and the base is unchanged. The overlay may be any state in which
    names lead to allocated objects — which every reachable state is (`overlay_reachable_ok`). -/
theorem copyup_patch_keeps_bytes (c : Cow) (name : Str) (flag perm bo : Nat) (b : Bytes) (off : Nat)
    (hbase : c.isBaseFile (keyOfStr name) = true) (hbo : c.s.b.lookup (keyOfStr name) = some bo)
    (hfile : (c.s.b.obj bo).dir = false) (hr : MemFs.InRange c.s.l)
    (hw : flag &&& cowWriteMask ≠ 0) (hx : flag &&& O_EXCL = 0) (ht : flag &&& O_TRUNC = 0)
    (hacc : flag &&& (O_WRONLY ||| O_RDWR) ≠ 0) (hb : b ≠ []) :
    ∃ h lf, (c.openFile name flag perm).2 = .handle h none ∧
      ((c.openFile name flag perm).1.step (.hWriteAt h b off)).2 = .file (.n b.length none) ∧
      ((c.openFile name flag perm).1.step (.hWriteAt h b off)).1.s.l.lookup (keyOfStr name) = some lf ∧
      (((c.openFile name flag perm).1.step (.hWriteAt h b off)).1.s.l.obj lf).data = writeS (c.s.b.obj bo).data off b ∧
      ((c.openFile name flag perm).1.step (.hWriteAt h b off)).1.s.b = c.s.b :=
  cow_patch_keeps_bytes c name flag perm bo b off hbase hbo hfile hr hw hx ht hacc hb

/-- **modifying part of a base-only file keeps all its other bytes**: every byte of the base file
    before the written range and after it is still there -/
theorem patch_other_bytes_kept (d : Bytes) (off : Nat) (b : Bytes) (i : Nat) (hi : i < d.length) :
    (i < off → (writeS d off b)[i]? = d[i]?) ∧ (off + b.length ≤ i → (writeS d off b)[i]? = d[i]?) :=
  ⟨fun h => by rw [C02.writeS_get_before d off b i h]; simp [hi], fun h => C02.writeS_get_after d off b i h⟩

/-- the overlay of any history satisfies the hypothesis of `copyup_patch_keeps_bytes` -/
theorem overlay_reachable_ok (ops : List Op) : MemFs.InRange (MemFs.run MemFs.init ops) :=
  MemFs.reachable_inRange ops

/-- a whole copy (Chmod / Chtimes / Chown of a base-only file, or the copy before a write-open):
    the overlay's copy is byte-identical and carries the base's modification time -/
theorem copyup_identical (c : Cow) (name : Str) (bo : Nat)
    (hbase : c.isBaseFile (keyOfStr name) = true) (hbo : c.s.b.lookup (keyOfStr name) = some bo)
    (hfile : (c.s.b.obj bo).dir = false) (hr : MemFs.InRange c.s.l) :
    (c.copyUpIfBase name).2 = none ∧ (c.copyUpIfBase name).1.s.b = c.s.b ∧
    ∃ lf, (c.copyUpIfBase name).1.s.l.lookup (keyOfStr name) = some lf ∧
      ((c.copyUpIfBase name).1.s.l.obj lf).data = (c.s.b.obj bo).data ∧
      ((c.copyUpIfBase name).1.s.l.obj lf).mtime = (c.s.b.obj bo).mtime := by
  obtain ⟨a, b, _, _, lf, d, e, f⟩ := copyUpIfBase_content c name bo hbase hbo hfile hr
  exact ⟨a, b, lf, d, e, f⟩

/-! non-vacuity: a base holding /f = "hello", an empty overlay, open read-write, patch 2 bytes at 1 -/
def baseF : MemFs := { (MemFs.init.step (.create "/f".toList)).1.step (.hWrite 0 [104, 101, 108, 108, 111]) |>.1 with handles := [] }
def cowF : Cow := { s := { b := baseF, l := MemFs.init }, hs := [] }
example : cowF.isBaseFile (keyOfStr "/f".toList) = true ∧ baseF.lookup (keyOfStr "/f".toList) = some 1 ∧
    (baseF.obj 1).dir = false ∧ (baseF.obj 1).data = [104, 101, 108, 108, 111] := by decide
example : MemFs.InRange MemFs.init := MemFs.inRange_init
example : writeS [104, 101, 108, 108, 111] 1 [88, 89] = [104, 88, 89, 108, 111] := by decide

end AferoVerif.C06
