/-
  Property C17 — content helpers are exact (search part).
  `contains_exact`: for every content and every list of non-empty needles, the windowed
  search returns true exactly when some needle occurs in the content.
-/
import AferoVerif.Model.Contains
import AferoVerif.Proofs.Util
import AferoVerif.Generated.Facts
namespace AferoVerif.C17
open AferoVerif

/-- a needle no longer than the middle block crosses at most one block boundary -/
theorem infix_split {α} (n a b c : List α) (h : n <:+: a ++ b ++ c) (hlen : n.length ≤ b.length) :
    n <:+: a ++ b ∨ n <:+: b ++ c := by
  obtain ⟨s, t, hst⟩ := h
  by_cases hp : a.length ≤ s.length
  · right
    have h1 : s ++ (n ++ t) = a ++ (b ++ c) := by simpa [List.append_assoc] using hst
    rcases List.append_eq_append_iff.mp h1 with ⟨a', ha, hb⟩ | ⟨c', hs, hc⟩
    · have : a' = [] := by
        have := congrArg List.length ha; simp at this
        exact List.eq_nil_of_length_eq_zero (by omega)
      subst this
      simp at ha hb
      exact ⟨[], t, by simpa using hb⟩
    · exact ⟨c', t, by simpa [List.append_assoc] using hc.symm⟩
  · left
    have hp : s.length < a.length := Nat.lt_of_not_le hp
    have h1 : (s ++ n) ++ t = (a ++ b) ++ c := by simpa [List.append_assoc] using hst
    rcases List.append_eq_append_iff.mp h1 with ⟨a', ha, hb⟩ | ⟨c', hs, hc⟩
    · exact ⟨s, a', by simpa [List.append_assoc] using ha.symm⟩
    · have hl := congrArg List.length hs
      simp at hl
      have : c' = [] := List.eq_nil_of_length_eq_zero (by omega)
      subst this
      simp at hs
      exact ⟨s, [], by simpa using hs⟩

/-- loop invariant: no needle occurs in the previous window; then the loop decides
    occurrence in `prev ++ rest`. -/
theorem loop_correct (half : Nat) (hh : 0 < half) (ns : List Bytes)
    (hns : ∀ n ∈ ns, n.length ≤ half) (prev rest : Bytes)
    (hno : ∀ n ∈ ns, ¬ n <:+: prev) :
    containsLoop half ns prev rest = true ↔ ∃ n ∈ ns, n <:+: prev ++ rest := by
  induction hk : rest.length using Nat.strongRecOn generalizing prev rest with
  | ind k ih =>
  unfold containsLoop
  have hh0 : half ≠ 0 := by omega
  simp only [hh0, dite_false]
  have hsplit : rest = rest.take half ++ rest.drop half := (List.take_append_drop half rest).symm
  by_cases hhit : ((rest.take half).length > 0 && ns.any (fun n => decide (n <:+: prev ++ rest.take half))) = true
  · simp only [hhit, if_true, true_iff]
    simp only [Bool.and_eq_true, List.any_eq_true, decide_eq_true_eq] at hhit
    obtain ⟨_, n, hn, hin⟩ := hhit
    refine ⟨n, hn, hin.trans ?_⟩
    rw [hsplit]
    exact ⟨[], rest.drop half, by simp⟩
  · simp only [hhit, Bool.false_eq_true, if_false]
    by_cases hlt : (rest.take half).length < half
    · simp only [hlt, dite_true, Bool.false_eq_true, false_iff]
      have hrl : rest.length < half := by
        simp at hlt; omega
      have htake : rest.take half = rest := List.take_of_length_le (by omega)
      rw [htake] at hhit
      rintro ⟨n, hn, hin⟩
      by_cases hr0 : rest.length > 0
      · apply hhit
        simp only [Bool.and_eq_true, List.any_eq_true, decide_eq_true_eq]
        exact ⟨by simpa using hr0, n, hn, hin⟩
      · have : rest = [] := List.eq_nil_of_length_eq_zero (by omega)
        subst this
        simp at hin
        exact hno n hn hin
    · simp only [hlt, dite_false]
      have hcl : (rest.take half).length = half := by
        have := List.length_take_le half rest; omega
      have hpos : (rest.take half).length > 0 := by omega
      have hnowin : ∀ n ∈ ns, ¬ n <:+: prev ++ rest.take half := by
        intro n hn hin
        apply hhit
        simp only [Bool.and_eq_true, List.any_eq_true, decide_eq_true_eq]
        exact ⟨by simpa using hpos, n, hn, hin⟩
      have hnochunk : ∀ n ∈ ns, ¬ n <:+: rest.take half := fun n hn hin =>
        hnowin n hn (hin.trans ⟨prev, [], by simp⟩)
      have hdl : (rest.drop half).length < k := by
        simp; have : rest.length ≥ half := by
          have := List.length_take (i := half) (l := rest); omega
        omega
      rw [ih _ hdl (rest.take half) (rest.drop half) hnochunk rfl]
      constructor
      · rintro ⟨n, hn, hin⟩
        refine ⟨n, hn, ?_⟩
        rw [hsplit]
        exact hin.trans ⟨prev, [], by simp⟩
      · rintro ⟨n, hn, hin⟩
        refine ⟨n, hn, ?_⟩
        rw [hsplit, ← List.append_assoc] at hin
        rcases infix_split n prev (rest.take half) (rest.drop half) hin (by rw [hcl]; exact hns n hn) with h | h
        · exact absurd h (hnowin n hn)
        · exact h

theorem le_foldl_max (ns : List Bytes) (m : Nat) :
    m ≤ ns.foldl (fun m n => max m n.length) m ∧ ∀ n ∈ ns, n.length ≤ ns.foldl (fun m n => max m n.length) m := by
  induction ns generalizing m with
  | nil => simp
  | cons a as ih =>
    simp only [List.foldl_cons, List.mem_cons, forall_eq_or_imp]
    have h1 := ih (max m a.length)
    refine ⟨by omega, by omega, h1.2⟩

theorem le_largest (ns : List Bytes) : ∀ n ∈ ns, n.length ≤ largest ns := (le_foldl_max ns 0).2

/-- **C17 (search).** For every content and every list of non-empty needles the helper
    answers true exactly when one of the needles occurs in the content. -/
theorem contains_exact (c : Bytes) (ns : List Bytes) (hne : ∀ n ∈ ns, n ≠ []) :
    containsAny c ns = true ↔ ∃ n ∈ ns, n <:+: c := by
  unfold containsAny
  cases ns with
  | nil => simp
  | cons a as =>
    have hL : 0 < largest (a :: as) := by
      have h1 := le_largest (a :: as) a (by simp)
      have h2 : a ≠ [] := hne a (by simp)
      have : 0 < a.length := List.length_pos_iff.mpr h2
      omega
    have hL0 : largest (a :: as) ≠ 0 := by omega
    simp only [List.isEmpty_cons, Bool.false_eq_true, if_false, hL0]
    have := loop_correct (largest (a :: as) * 4 / 2) (by omega) (a :: as)
      (fun n hn => by have := le_largest (a :: as) n hn; omega) [] c
      (fun n hn hin => by
        have h2 := hne n hn
        have : n = [] := by simpa using hin
        exact h2 this)
    simpa using this

/-- a single needle (`FileContainsBytes`) -/
theorem contains_single (c n : Bytes) (hn : n ≠ []) : containsAny c [n] = true ↔ n <:+: c := by
  rw [contains_exact c [n] (by simpa using hn)]; simp

theorem foldl_max_all_nil (ns : List Bytes) (h : ∀ n ∈ ns, n = []) (m : Nat) :
    ns.foldl (fun m n => max m n.length) m = m := by
  induction ns generalizing m with
  | nil => rfl
  | cons a as ih =>
    have ha : a = [] := h a (by simp)
    subst ha
    simp only [List.foldl_cons, List.length_nil, Nat.max_zero]
    exact ih (fun n hn => h n (by simp [hn])) m

/-- no needles, or only empty needles: false (the code returns before reading) -/
theorem all_empty_false (c : Bytes) (ns : List Bytes) (h : ∀ n ∈ ns, n = []) : containsAny c ns = false := by
  unfold containsAny
  have : largest ns = 0 := foldl_max_all_nil ns h 0
  simp [this]

/-! non-vacuity, and the two historical false positives (stale tail, zero needle) now rejected -/
example : containsAny [99,99,99,99,99,98,99,99,97] [[97,98]] = false := by
  rw [Bool.eq_false_iff, ne_eq, contains_exact _ _ (by decide)]; decide
example : containsAny [97] [[0]] = false := by
  rw [Bool.eq_false_iff, ne_eq, contains_exact _ _ (by decide)]; decide
example : containsAny [1,2,3,4,5,6,7,8,9] [[4,5,6]] = true := by
  rw [contains_exact _ _ (by decide)]; decide
example : containsAny [1,2,3,4,5,6,7,8,9] [[8,9],[3,3]] = true := by
  rw [contains_exact _ _ (by decide)]; decide

/-! ### write helpers followed by ReadFile (over the MemMapFs model) -/

/-- **WriteFile then ReadFile returns exactly the bytes given**, for every content and every state in
    which names lead to allocated objects (every reachable state, `MemFs.reachable_inRange`), when the
    name is not a directory and its parent directory exists (the ordinary POSIX preconditions) -/
theorem writeFile_readFile (m : MemFs) (name : Str) (data : Bytes) (perm p : Nat) (pd : List (Key × Nat))
    (hr : MemFs.InRange m) (hnd : ∀ f, m.lookup (keyOfStr name) = some f → (m.obj f).dir = false)
    (hp : m.lookup (parentKey (keyOfStr name)) = some p) (hpd : (m.obj p).memDir = some pd)
    (hpk : parentKey (keyOfStr name) ≠ keyOfStr name) :
    (Util.writeFile m name data perm).2 = .ok ∧
    (Util.readFile (Util.writeFile m name data perm).1 name).2 = some data :=
  Util.writeFile_readFile_mem m name data perm p pd hr hnd hp hpd hpk

/-- **WriteReader then ReadFile returns exactly the bytes given** (the directory part of the path
    being an existing directory, the name not a directory) — whatever the file held before -/
theorem writeReader_readFile (m : MemFs) (path : Str) (data : Bytes) (p : Nat) (pd : List (Key × Nat))
    (hr : MemFs.InRange m) (hnd : ∀ f, m.lookup (keyOfStr path) = some f → (m.obj f).dir = false)
    (hp : m.lookup (parentKey (keyOfStr path)) = some p) (hpd : (m.obj p).memDir = some pd)
    (hpk : parentKey (keyOfStr path) ≠ keyOfStr path)
    (hdir : (Path.splitDirFile path).1 = [] ∨ (m.lookup (keyOfStr (Path.splitDirFile path).1)).isSome) :
    (Util.writeReader m path data).2 = .ok ∧
    (Util.readFile (Util.writeReader m path data).1 path).2 = some data :=
  Util.writeReader_readFile_mem m path data p pd hr hnd hp hpd hpk hdir

/-- **SafeWriteReader** refuses an existing path without touching anything, and on a free path is
    WriteReader -/
theorem safeWriteReader_spec (m : MemFs) (path : Str) (data : Bytes) :
    ((m.lookup (keyOfStr path)).isSome → Util.safeWriteReader m path data = (m, .fail "already exists")) ∧
    (m.lookup (keyOfStr path) = none → Util.safeWriteReader m path data = Util.writeReader m path data) :=
  ⟨Util.safeWriteReader_existing m path data, Util.safeWriteReader_free m path data⟩

/-! non-vacuity: the hypotheses hold for "/f" on the initial filesystem, and the round trip computes -/
example : MemFs.InRange MemFs.init ∧ MemFs.init.lookup (parentKey (keyOfStr "/f".toList)) = some 0 ∧
    (MemFs.init.obj 0).memDir = some [] ∧ parentKey (keyOfStr "/f".toList) ≠ keyOfStr "/f".toList :=
  ⟨MemFs.inRange_init, by decide, by decide, by decide⟩
example : (Util.readFile (Util.writeFile MemFs.init "/f".toList [1, 2, 3] 0o644).1 "/f".toList).2 = some [1, 2, 3] := by decide
example : (Util.readFile (Util.writeReader (Util.writeFile MemFs.init "/f".toList [1, 2, 3, 4, 5] 0o644).1 "/f".toList [9]).1 "/f".toList).2 = some [9] := by decide

/-! ### tie to the source: constants regenerated from the Go code on every run -/

/-- the window of the search: `bufflen := largest * 4`, `halflen := bufflen / 2` as written in util.go;
    the model's loop runs with exactly that half -/
theorem window_is_source (content : Bytes) (ns : List Bytes) (h1 : ns.isEmpty = false) (h2 : largest ns ≠ 0) :
    containsAny content ns = containsLoop (largest ns * Generated.windowMul / Generated.windowDiv) ns [] content := by
  unfold containsAny; simp [h1, h2, Generated.windowMul, Generated.windowDiv]

end AferoVerif.C17
