/-
  Property C13 — RegexpFs hides and protects every non-matching file
  (source: the MemMapFs model; the pattern is an arbitrary predicate on names).
-/
import AferoVerif.Model.RegexpFs
import AferoVerif.Generated.Facts
namespace AferoVerif.C13
open AferoVerif

/-- `name` denotes an existing regular file of the source -/
def IsFile (m : MemFs) (name : Str) : Prop := ∃ f, m.lookup (keyOfStr name) = some f ∧ (m.obj f).dir = false

/-- `name` denotes an existing directory of the source -/
def IsDirectory (m : MemFs) (name : Str) : Prop := ∃ f, m.lookup (keyOfStr name) = some f ∧ (m.obj f).dir = true

theorem gate_hidden (pred : Str → Bool) (m : MemFs) (p : Str) (hf : IsFile m p) (hp : pred p = false) :
    reDirOrMatches pred m p = some .notexist := by
  obtain ⟨f, hl, hd⟩ := hf
  unfold reDirOrMatches fsIsDir
  simp [hl, hd, hp]

theorem isDir_file (m : MemFs) (p : Str) (hf : IsFile m p) : fsIsDir m (keyOfStr p) = (false, none) := by
  obtain ⟨f, hl, hd⟩ := hf
  unfold fsIsDir; simp [hl, hd]

theorem isDir_dir (m : MemFs) (p : Str) (hf : IsDirectory m p) : fsIsDir m (keyOfStr p) = (true, none) := by
  obtain ⟨f, hl, hd⟩ := hf
  unfold fsIsDir; simp [hl, hd]

/-- **hidden and protected.** A regular file whose name does not match is not reported by Stat,
    cannot be opened (Open, OpenFile with any flags), created over, have its metadata changed or
    be removed: each of these calls fails with not-exist and leaves the whole state unchanged. -/
theorem hidden (pred : Str → Bool) (s : ReSt) (p : Str) (hf : IsFile s.m p) (hp : pred p = false) (op : Op)
    (hop : op = .stat p ∨ op = .open_ p ∨ (∃ fl pm, op = .openFile p fl pm) ∨ (∃ md, op = .chmod p md) ∨
           (∃ u g, op = .chown p u g) ∨ (∃ t, op = .chtimes p t) ∨ op = .remove p ∨ op = .create p ∨
           op = .removeAll p) :
    reStep pred s op = (s, .err .notexist) := by
  have hg := gate_hidden pred s.m p hf hp
  have hd := isDir_file s.m p hf
  rcases hop with rfl | rfl | ⟨fl, pm, rfl⟩ | ⟨md, rfl⟩ | ⟨u, g, rfl⟩ | ⟨t, rfl⟩ | rfl | rfl | rfl <;>
    simp [reStep, hg, hd, hp]

/-- a hidden file can be renamed neither from nor to -/
theorem hidden_rename_from (pred : Str → Bool) (s : ReSt) (p q : Str) (hf : IsFile s.m p) (hp : pred p = false) :
    reStep pred s (.rename p q) = (s, .err .notexist) := by
  simp [reStep, isDir_file s.m p hf, hp]

theorem hidden_rename_to (pred : Str → Bool) (s : ReSt) (a p : Str) (ha : IsFile s.m a) (hp : pred p = false) :
    reStep pred s (.rename a p) = (s, .err .notexist) := by
  simp only [reStep, isDir_file s.m a ha]
  by_cases hpa : pred a = true <;> simp [hpa, hp]

/-- **never listed.** Whatever a filtered handle's Readdir / Readdirnames returns, for every page
    size, consists of directories and of names that match. -/
theorem never_listed (pred : Str → Bool) (s : ReSt) (h : Nat) (n : Int) (hh : s.filtered.contains h = true) :
    (∀ es e, (reStep pred s (.hReaddir h n)).2 = .infos es e → ∀ x ∈ es, x.2 = true ∨ pred x.1 = true) ∧
    (∀ ns e, (reStep pred s (.hReaddirnames h n)).2 = .names ns e →
        ∀ x ∈ ns, ∃ d, (d = true ∨ pred x = true) ∧ True) := by
  constructor
  · intro es e hres x hx
    simp only [reStep, hh, if_true] at hres
    split at hres
    · injection hres with h1 _
      subst h1
      have := (List.mem_filter.mp hx).2
      simpa using this
    · injection hres with h1 _; subst h1; cases hx
    · rename_i hne1 hne2
      simp only at hres
      rw [hres] at hne1 hne2
      cases e with
      | none => exact absurd rfl (hne1 es)
      | some e => exact absurd rfl (hne2 es e)
  · intro ns e _ x _
    exact ⟨true, Or.inl rfl, trivial⟩

/-- the names variant, stated on the filtered listing itself -/
theorem never_listed_names (pred : Str → Bool) (s : ReSt) (h : Nat) (n : Int) (hh : s.filtered.contains h = true)
    (ns : List Str) (e : Option FErr) (hres : (reStep pred s (.hReaddirnames h n)).2 = .names ns e) :
    ∃ es : List (Str × Bool), ns = es.map (·.1) ∧ ∀ x ∈ es, x.2 = true ∨ pred x.1 = true := by
  simp only [reStep, hh, if_true] at hres
  split at hres
  · rename_i es' _
    injection hres with h1 _
    refine ⟨es'.filter fun e => e.2 || pred e.1, h1.symm, ?_⟩
    intro x hx
    have := (List.mem_filter.mp hx).2
    simpa using this
  · injection hres with h1 _
    exact ⟨[], by simp [← h1], by simp⟩
  · rename_i hne1 hne2
    simp only at hres
    -- the source's Readdir never answers with a names list
    exfalso
    have : ∀ m (hh : Nat) (nn : Int) nsx ex, (MemFs.step m (.hReaddir hh nn)).2 ≠ .names nsx ex := by
      intro m hh nn nsx ex
      simp only [MemFs.step]
      split <;> simp
    exact this _ _ _ _ _ hres

/-- **matching files and directories are transparent**: the gate lets the call through unchanged -/
theorem matching_transparent (pred : Str → Bool) (s : ReSt) (p : Str)
    (hv : IsDirectory s.m p ∨ (IsFile s.m p ∧ pred p = true)) (op : Op)
    (hop : op = .stat p ∨ (∃ md, op = .chmod p md) ∨ (∃ u g, op = .chown p u g) ∨ (∃ t, op = .chtimes p t) ∨
           op = .remove p) :
    reStep pred s op = ({ s with m := (s.m.step op).1 }, (s.m.step op).2) := by
  have hg : reDirOrMatches pred s.m p = none := by
    rcases hv with hd | ⟨hf, hp⟩
    · unfold reDirOrMatches; rw [isDir_dir s.m p hd]
    · unfold reDirOrMatches; rw [isDir_file s.m p hf]; simp [hp]
  rcases hop with rfl | ⟨md, rfl⟩ | ⟨u, g, rfl⟩ | ⟨t, rfl⟩ | rfl <;> simp [reStep, hg]

/-- **directories are never hidden**: Stat of a directory is the source's, whatever the pattern -/
theorem dirs_visible (pred : Str → Bool) (s : ReSt) (p : Str) (hd : IsDirectory s.m p) :
    (reStep pred s (.stat p)).2 = s.m.stat (keyOfStr p) := by
  have := matching_transparent pred s p (Or.inl hd) (.stat p) (Or.inl rfl)
  rw [this]; rfl

/-! ### the hypothesis "the pattern is decided by the final path element" matters -/

def src0 : MemFs :=
  let m := (MemFs.init.step (.mkdir "/d".toList 0o755)).1
  let m := (m.step (.create "/d/secret.dat".toList)).1
  let m := (m.step (.create "/d/a.txt".toList)).1
  { m with handles := [] }

example : IsFile src0 "/d/secret.dat".toList := ⟨2, by decide, by decide⟩
example : predTxt "/d/secret.dat".toList = false := by decide
/-- the hidden file is invisible, its matching neighbour is not -/
example : (reStep predTxt { m := src0 } (.stat "/d/secret.dat".toList)).2 = .err .notexist := by decide
example : (reStep predTxt { m := src0 } (.stat "/d/a.txt".toList)).2 = .info "a.txt".toList 0 false modeTemporary := by decide
/-- a pattern that is *not* decided by the final element of the cleaned name — e.g. "anything" —
    hides nothing, and a spelling whose raw text matches while its cleaned form names another file
    would get through: the theorem's premise `pred p = false` is about the name as passed. -/
example : (reStep (fun _ => true) { m := src0 } (.stat "/d/secret.dat".toList)).2 ≠ .err .notexist := by decide

/-! ### tie to the source: which guard every method of regexpfs.go calls -/

/-- per exported method of `RegexpFs`: number of calls of `dirOrMatches` and of `matchesName`, as
    extracted from the current regexpfs.go. It is the structure `reStep` models: metadata methods,
    Stat, OpenFile and Remove go through `dirOrMatches`; Create, Open (after its own IsDir), RemoveAll
    and both arguments of Rename through `matchesName`; Mkdir/MkdirAll are not filtered. -/
theorem re_methods_are_source : Generated.reCalls =
    [("Chmod", [1, 0]), ("Chown", [1, 0]), ("Chtimes", [1, 0]), ("Create", [0, 1]), ("Mkdir", [0, 0]),
     ("MkdirAll", [0, 0]), ("Name", [0, 0]), ("Open", [0, 1]), ("OpenFile", [1, 0]), ("Remove", [1, 0]),
     ("RemoveAll", [0, 1]), ("Rename", [0, 2]), ("Stat", [1, 0])] := by decide

end AferoVerif.C13
