/-
  Lexical path functions of Go's path/filepath (unix), over `List Char`:
  Clean as a stack machine over '/'-separated segments, Join, Split, Dir, Base, HasPrefix,
  TrimPrefix.  Validated against the Go functions on every C08/C09 run
  (all strings up to length 8 over {'/', '.', 'a', 'b'} and random longer ones).
-/
namespace AferoVerif

abbrev Str := List Char
abbrev Seg := List Char

namespace Path

def sep : Char := '/'
def dot : Seg := ['.']
def dotdot : Seg := ['.', '.']

/-- split on '/', keeping empty segments: "a//b" ↦ ["a","","b"], "" ↦ [""] -/
def splitAux : Str → Seg → List Seg
  | [], cur => [cur.reverse]
  | c :: cs, cur => if c = sep then cur.reverse :: splitAux cs [] else splitAux cs (c :: cur)

def split (s : Str) : List Seg := splitAux s []

def isRooted (s : Str) : Bool := s.head? = some sep

/-- one step of Clean's stack machine; the stack holds the kept segments, last first -/
def cleanStep (rooted : Bool) (stk : List Seg) (s : Seg) : List Seg :=
  if s = [] ∨ s = dot then stk
  else if s = dotdot then
    match stk with
    | [] => if rooted then [] else [dotdot]
    | t :: ts => if t = dotdot then dotdot :: t :: ts else ts
  else s :: stk

def cleanSegs (rooted : Bool) (segs : List Seg) : List Seg :=
  (segs.foldl (cleanStep rooted) []).reverse

def joinSegs : List Seg → Str
  | [] => []
  | [s] => s
  | s :: rest => s ++ sep :: joinSegs rest

/-- render cleaned segments the way filepath.Clean prints them -/
def render (rooted : Bool) (segs : List Seg) : Str :=
  if rooted then sep :: joinSegs segs
  else if segs = [] then dot else joinSegs segs

/-- filepath.Clean -/
def clean (s : Str) : Str := render (isRooted s) (cleanSegs (isRooted s) (split s))

/-- filepath.Join of two elements (empty elements are ignored; nothing left ↦ "") -/
def join2 (a b : Str) : Str :=
  if a = [] then (if b = [] then [] else clean b)
  else if b = [] then clean a
  else clean (a ++ sep :: b)

def lastSlash (s : Str) : Option Nat :=
  let idxs := (List.range s.length).filter fun i => s[i]? = some sep
  idxs.getLast?

/-- filepath.Split: (dir up to and including the last '/', file after it) -/
def splitDirFile (s : Str) : Str × Str :=
  match lastSlash s with
  | none => ([], s)
  | some i => (s.take (i + 1), s.drop (i + 1))

/-- filepath.Dir -/
def dir (s : Str) : Str := clean (splitDirFile s).1

def dropTrailingSeps (s : Str) : Str := (s.reverse.dropWhile (· = sep)).reverse

/-- filepath.Base -/
def base (s : Str) : Str :=
  if s = [] then dot
  else
    let t := dropTrailingSeps s
    if t = [] then [sep] else (splitDirFile t).2

def hasPrefix (s p : Str) : Bool := p.isPrefixOf s

def trimPrefix (s p : Str) : Str := if p.isPrefixOf s then s.drop p.length else s

/-- a kept segment of a cleaned rooted path: not "", ".", ".." and free of '/' -/
def Normal (s : Seg) : Prop := s ≠ [] ∧ s ≠ dot ∧ s ≠ dotdot ∧ sep ∉ s

end Path
end AferoVerif
