/-
  Models of afero.Glob (match.go) and path/filepath.Glob (Go 1.23) over an abstract read-only
  view of a filesystem, with `filepath.Match` as a parameter (afero calls the standard library's
  Match itself).  `none` = filepath.ErrBadPattern.
-/
import AferoVerif.Model.Path
namespace AferoVerif.Glob
open AferoVerif

/-- what Glob needs of a filesystem -/
structure FsView where
  lstatOk : Str → Bool
  isDir : Str → Bool          -- Stat succeeds and says directory
  names : Str → List Str      -- Readdirnames(-1), sorted

abbrev MatchFn := Str → Str → Option Bool

def hasMetaA (p : Str) : Bool := p.any fun c => c = '*' || c = '?' || c = '['
/-- the standard library also treats a backslash as "meta" (escapes) -/
def hasMetaS (p : Str) : Bool := p.any fun c => c = '*' || c = '?' || c = '[' || c = '\\'

/-- the directory part Glob recurses on: Split(pattern).dir, "" ↦ ".", "/" kept, else the trailing
    separator chopped off -/
def dirOf (pattern : Str) : Str :=
  let d := (Path.splitDirFile pattern).1
  if d = [] then Path.dot else if d = [Path.sep] then d else d.dropLast

def fileOf (pattern : Str) : Str := (Path.splitDirFile pattern).2

/-- `glob(fs, dir, pattern, matches)`: matches of one directory level appended to `acc` -/
def globDir (v : FsView) (m : MatchFn) (dir pat : Str) (acc : List Str) : Option (List Str) :=
  if !v.isDir dir then some acc
  else
    (v.names dir).foldl (fun r n =>
      match r with
      | none => none
      | some a => match m pat n with
        | none => none
        | some true => some (a ++ [Path.join2 dir n])
        | some false => some a) (some acc)

def globDirs (v : FsView) (m : MatchFn) (dirs : List Str) (pat : Str) : Option (List Str) :=
  dirs.foldl (fun r d => match r with | none => none | some a => globDir v m d pat a) (some [])

/-- afero.Glob -/
def globA (v : FsView) (m : MatchFn) : Nat → Str → Option (List Str)
  | 0, _ => none
  | fuel + 1, pattern =>
    if !hasMetaA pattern then
      some (if v.lstatOk pattern then [pattern] else [])
    else if !hasMetaA (dirOf pattern) then globDir v m (dirOf pattern) (fileOf pattern) []
    else match globA v m fuel (dirOf pattern) with
      | none => none
      | some ds => globDirs v m ds (fileOf pattern)

/-- filepath.Glob -/
def globS (v : FsView) (m : MatchFn) : Nat → Str → Option (List Str)
  | 0, _ => none
  | fuel + 1, pattern =>
    if (m pattern []).isNone then none                    -- "check pattern is well-formed"
    else if !hasMetaS pattern then
      some (if v.lstatOk pattern then [pattern] else [])
    else if !hasMetaS (dirOf pattern) then globDir v m (dirOf pattern) (fileOf pattern) []
    else if dirOf pattern = pattern then none             -- "prevent infinite recursion"
    else match globS v m fuel (dirOf pattern) with
      | none => none
      | some ds => globDirs v m ds (fileOf pattern)

/-! a concrete matcher for escape-free patterns over `*`, `?`, `[...]` (ranges, `^`) and literals,
    used by the driver; names are single path elements -/

/-- parse a character class body after '['; returns (negated, items, rest after ']') -/
def classItems : List Char → List (Char × Char) → Option (List (Char × Char) × List Char)
  | [], _ => none
  | ']' :: rest, acc => if acc.isEmpty then none else some (acc, rest)
  | lo :: '-' :: hi :: rest, acc => if hi = ']' then none else classItems rest (acc ++ [(lo, hi)])
  | c :: rest, acc => classItems rest (acc ++ [(c, c)])

def parseClass (p : List Char) : Option (Bool × List (Char × Char) × List Char) :=
  match p with
  | '^' :: rest => (classItems rest []).map fun (its, r) => (true, its, r)
  | _ => (classItems p []).map fun (its, r) => (false, its, r)

def inClass (its : List (Char × Char)) (c : Char) : Bool := its.any fun (lo, hi) => lo.toNat ≤ c.toNat && c.toNat ≤ hi.toNat

def matchPat : Nat → List Char → List Char → Option Bool
  | 0, _, _ => none
  | _ + 1, [], n => some n.isEmpty
  | fuel + 1, '*' :: p, n =>
    -- '*' matches any run of non-separator characters
    match matchPat fuel p n with
    | none => none
    | some true => some true
    | some false =>
      match n with
      | [] => some false
      | c :: n' => if c = Path.sep then some false else matchPat fuel ('*' :: p) n'
  | fuel + 1, '?' :: p, n =>
    match n with
    | [] => (matchPat fuel p []).map fun _ => false
    | c :: n' => if c = Path.sep then (matchPat fuel p n').map fun _ => false else matchPat fuel p n'
  | fuel + 1, '[' :: p, n =>
    match parseClass p with
    | none => none
    | some (neg, its, rest) =>
      match n with
      | [] => (matchPat fuel rest []).map fun _ => false
      | c :: n' => if inClass its c != neg then matchPat fuel rest n' else (matchPat fuel rest n').map fun _ => false
  | fuel + 1, c :: p, n =>
    match n with
    | [] => (matchPat fuel p []).map fun _ => false
    | d :: n' => if c = d then matchPat fuel p n' else (matchPat fuel p n').map fun _ => false

def matchFn : MatchFn := fun p n => matchPat (2 * (p.length + n.length) + 4) p n

end AferoVerif.Glob
