/-
  Executable model of ioutil.go's temporary-name machinery: `reseed`, `nextRandom`, `TempFile`,
  `TempDir`, over the MemMapFs model (`MemFs.openFile` with O_RDWR|O_CREATE|O_EXCL, `MemFs.mkdir`).

  * the generator state `randNum` is a `UInt32`; `r*1664525 + 1013904223` wraps like Go's uint32;
  * `reseed()` reads the clock and the pid in the source: in the model the values it returns are
    an input stream (`Rng.seeds`);
  * `strconv.Itoa(int(1e9 + r%1e9))[1:]` = the nine decimal digits of `r % 10^9`, zero padded;
  * the pattern is split at the LAST '*' (`strings.LastIndex`);
  * retry loop: 10000 tries; from the 11th conflict on, every conflict reseeds (`nconflict > 10`).
  Behaviour modelled is that of the *repaired* source: a pattern / prefix that contains a path
  separator is refused (as os.CreateTemp / os.MkdirTemp do) instead of creating the entry
  somewhere else than directly in `dir`.
-/
import AferoVerif.Model.MemMapFs
namespace AferoVerif.Temp
open AferoVerif AferoVerif.Path

/-! ### the name generator -/

/-- one step of the linear congruential generator (constants from Numerical Recipes), on uint32 -/
def lcg (r : UInt32) : UInt32 := r * 1664525 + 1013904223

/-- the `k` least significant decimal digits of `n`, most significant first, zero padded -/
def digitsAux : Nat → Nat → List Char
  | 0, _ => []
  | k + 1, n => digitsAux k (n / 10) ++ [Char.ofNat (48 + n % 10)]

/-- `strconv.Itoa(int(1e9 + r%1e9))[1:]` -/
def randStr (r : UInt32) : Str := digitsAux 9 (r.toNat % 1000000000)

structure Rng where
  randNum : UInt32 := 0
  /-- what the next calls of `reseed()` return (clock + pid in the source: an input here) -/
  seeds : List UInt32 := []
  /-- number of `reseed()` calls made so far -/
  reseeds : Nat := 0
  deriving Repr, Inhabited

/-- what `reseed()` returns once the input stream is exhausted: a value that differs from call to
    call, as the clock does -/
def Rng.fallback (g : Rng) : UInt32 := UInt32.ofNat (g.reseeds * 2654435761 + 1)

/-- `reseed()`: value and the generator with the stream advanced -/
def Rng.reseed (g : Rng) : UInt32 × Rng :=
  (g.seeds.headD g.fallback, { g with seeds := g.seeds.tail, reseeds := g.reseeds + 1 })

/-- `nextRandom()`; one critical section of `randmu` in the source -/
def nextRandom (g : Rng) : Str × Rng :=
  let p : UInt32 × Rng := if g.randNum = 0 then g.reseed else (g.randNum, g)
  let r := lcg p.1
  (randStr r, { p.2 with randNum := r })

/-- `randmu.Lock(); randNum = reseed(); randmu.Unlock()` -/
def forceReseed (g : Rng) : Rng :=
  let s := g.reseed
  { s.2 with randNum := s.1 }

/-! ### pattern handling -/

/-- split at the last '*': `some (pattern[:pos], pattern[pos+1:])` for `pos = LastIndex(pattern, "*")` -/
def splitLastStar : Str → Option (Str × Str)
  | [] => none
  | c :: cs =>
    match splitLastStar cs with
    | some r => some (c :: r.1, r.2)
    | none => if c = '*' then some ([], cs) else none

/-- TempFile's `prefix, suffix` -/
def prefixSuffix (pattern : Str) : Str × Str :=
  match splitLastStar pattern with
  | some r => r
  | none => (pattern, [])

/-- the repaired source refuses patterns that contain a path separator -/
def hasSep (s : Str) : Bool := s.contains sep

/-! ### TempFile / TempDir -/

def tempFlags : Nat := O_RDWR ||| O_CREATE ||| O_EXCL

/-- bookkeeping after an IsExist conflict: `if nconflict++; nconflict > 10 { randNum = reseed() }` -/
def afterConflict (g : Rng) (nconflict : Nat) : Rng × Nat :=
  (if nconflict + 1 > 10 then forceReseed g else g, nconflict + 1)

structure Out where
  m : MemFs
  g : Rng
  /-- the name tried last ("" when none was) -/
  name : Str
  /-- what the last `OpenFile` / `Mkdir` returned -/
  res : MRes
  /-- IsExist conflicts met by this call -/
  conflicts : Nat
  deriving Inhabited

/-- the retry loop of `TempFile`; `fuel` = tries left -/
def tempFileLoop : Nat → MemFs → Rng → Str → Str → Str → Nat → Out
  | 0, m, g, _, _, _, nc => ⟨m, g, [], .err .exist, nc⟩       -- all tries conflicted: the last error is returned
  | fuel + 1, m, g, dir, pre, suf, nc =>
    let nr := nextRandom g
    let name := join2 dir (pre ++ nr.1 ++ suf)
    let r := m.openFile (keyOfStr name) tempFlags 0o600
    if r.2 = .err .exist then
      let a := afterConflict nr.2 nc
      tempFileLoop fuel r.1 a.1 dir pre suf a.2
    else ⟨r.1, nr.2, name, r.2, nc⟩

/-- the retry loop of `TempDir` -/
def tempDirLoop : Nat → MemFs → Rng → Str → Str → Nat → Out
  | 0, m, g, _, _, nc => ⟨m, g, [], .err .exist, nc⟩
  | fuel + 1, m, g, dir, pre, nc =>
    let nr := nextRandom g
    let name := join2 dir (pre ++ nr.1)
    let r := m.mkdir (keyOfStr name) 0o700
    if r.2 = .err .exist then
      let a := afterConflict nr.2 nc
      tempDirLoop fuel r.1 a.1 dir pre a.2
    else ⟨r.1, nr.2, name, r.2, nc⟩

def maxTries : Nat := 10000

/-- `TempFile(fs, dir, pattern)`; `tmp` is what `os.TempDir()` returns -/
def tempFile (tmp : Str) (m : MemFs) (g : Rng) (dir pattern : Str) : Out :=
  let dir := if dir = [] then tmp else dir
  if hasSep pattern then ⟨m, g, [], .err .other, 0⟩
  else
    let ps := prefixSuffix pattern
    tempFileLoop maxTries m g dir ps.1 ps.2 0

/-- `TempDir(fs, dir, prefix)` -/
def tempDir (tmp : Str) (m : MemFs) (g : Rng) (dir pre : Str) : Out :=
  let dir := if dir = [] then tmp else dir
  if hasSep pre then ⟨m, g, [], .err .other, 0⟩
  else tempDirLoop maxTries m g dir pre 0

/-- did the call succeed?  TempFile: a handle and no error; TempDir: `nil` -/
def Out.fileOk (o : Out) : Bool := match o.res with | .handle _ none => true | _ => false
def Out.dirOk (o : Out) : Bool := o.res = .ok

/-! ### sequences of calls -/

inductive Call where
  | file (dir pattern : Str)
  | dir (dir pre : Str)
  deriving Repr, Inhabited

def call (tmp : Str) (m : MemFs) (g : Rng) : Call → Out
  | .file d p => tempFile tmp m g d p
  | .dir d p => tempDir tmp m g d p

def Out.ok (o : Out) : Call → Bool
  | .file _ _ => o.fileOk
  | .dir _ _ => o.dirOk

/-- run calls one after the other; collects the names the successful ones returned, oldest first -/
def runCalls (tmp : Str) : MemFs → Rng → List Call → MemFs × Rng × List Str
  | m, g, [] => (m, g, [])
  | m, g, c :: cs =>
    let o := call tmp m g c
    let r := runCalls tmp o.m o.g cs
    (r.1, r.2.1, if o.ok c then o.name :: r.2.2 else r.2.2)

/-! ### concurrent callers: an interleaving of atomic steps

  Caller `i` repeats TempFile (or TempDir) with its own `dir, prefix, suffix`.  The atomic steps
  are the two critical sections of the source: `nextRandom` (under `randmu`) and the exclusive
  create (`OpenFile(O_CREATE|O_EXCL)` / `Mkdir`, one step of the file system), plus the reseed
  after the 11th conflict (under `randmu`).  A schedule is any list of caller numbers. -/

inductive Phase where
  | idle                  -- about to call nextRandom
  | try_ (name : Str)     -- has a candidate, about to try the exclusive create
  | reseed                -- met more than 10 conflicts, about to reseed
  deriving Repr, Inhabited, DecidableEq

structure Spec where
  isDir : Bool := false
  dir : Str
  pre : Str
  suf : Str := []
  deriving Repr, Inhabited

structure Conc where
  m : MemFs
  g : Rng
  phase : Nat → Phase := fun _ => .idle
  nconflict : Nat → Nat := fun _ => 0
  /-- names returned so far, newest first, with the caller that got them -/
  log : List (Nat × Str) := []

def upd {α : Type} (f : Nat → α) (i : Nat) (v : α) : Nat → α := fun j => if j = i then v else f j

/-- the exclusive create a caller performs -/
def exclCreate (sp : Spec) (m : MemFs) (name : Str) : MemFs × MRes :=
  if sp.isDir then m.mkdir (keyOfStr name) 0o700 else m.openFile (keyOfStr name) tempFlags 0o600

def created (sp : Spec) (r : MRes) : Bool :=
  if sp.isDir then r = .ok else (match r with | .handle _ none => true | _ => false)

/-- caller `i` performs its next atomic step -/
def concStep (spec : Nat → Spec) (s : Conc) (i : Nat) : Conc :=
  let sp := spec i
  match s.phase i with
  | .idle =>
    let nr := nextRandom s.g
    { s with g := nr.2, phase := upd s.phase i (.try_ (join2 sp.dir (sp.pre ++ nr.1 ++ sp.suf))) }
  | .try_ name =>
    let r := exclCreate sp s.m name
    if r.2 = .err .exist then
      let nc := s.nconflict i + 1
      { s with m := r.1, nconflict := upd s.nconflict i nc, phase := upd s.phase i (if nc > 10 then .reseed else .idle) }
    else
      -- the call returns (with the name if it succeeded); the caller starts its next call
      { s with m := r.1, nconflict := upd s.nconflict i 0, phase := upd s.phase i .idle,
               log := if created sp r.2 then (i, name) :: s.log else s.log }
  | .reseed => { s with g := forceReseed s.g, phase := upd s.phase i .idle }

def concRun (spec : Nat → Spec) (s : Conc) (sched : List Nat) : Conc := sched.foldl (concStep spec) s

end AferoVerif.Temp
