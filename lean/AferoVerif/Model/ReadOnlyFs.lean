/-
  Model of readonlyfs.go over the MemMapFs model as source.
-/
import AferoVerif.Model.FsOp
namespace AferoVerif

/-- `os.O_WRONLY|syscall.O_RDWR|os.O_APPEND|os.O_CREATE|os.O_TRUNC` -/
def roWriteMask : Nat := O_WRONLY ||| O_RDWR ||| O_APPEND ||| O_CREATE ||| O_TRUNC

/-- ReadOnlyFs: every mutating method is EPERM without consulting the source; OpenFile is
    gated by the write-flag mask; everything else is forwarded. Handles are the source's. -/
def roStep (m : MemFs) : Op → MemFs × MRes
  | .create _ | .mkdir _ _ | .mkdirAll _ _ | .remove _ | .removeAll _ | .rename _ _
  | .chmod _ _ | .chown _ _ _ | .chtimes _ _ => (m, .err .perm)
  | .openFile p flag perm =>
    if flag &&& roWriteMask ≠ 0 then (m, .err .perm) else m.step (.openFile p flag perm)
  | op => m.step op

end AferoVerif
