/-
  Executable model of memmap.go (+ mem/dir.go, mem/dirmap.go, the directory part of
  mem/file.go), function by function.

  * heap of `FData` objects: object identity matters (handles survive rename/remove; during
    `Rename` one directory object is reachable under its old and new key);
  * path map `data : List (Key × Nat)` — Go's `map[string]*FileData`; a `Key` is the cleaned
    path split into segments plus the rooted flag (afero keeps `a/b` and `/a/b` apart);
  * every directory object carries `memDir`, Go's `DirMap` (name ↦ object);
  * Go map iteration is modelled by the insertion order of the association list; results are
    compared as sets / after sorting where Go's order is unspecified.
  Behaviour modelled is that of the *repaired* source (see known-findings.json: fixed).
-/
import AferoVerif.Model.Path
import AferoVerif.Model.MemFile
namespace AferoVerif
open Path

structure Key where
  rooted : Bool
  segs : List Seg
  deriving DecidableEq, Repr, Inhabited

def rootKey : Key := ⟨true, []⟩

/-- `normalizePath` after `filepath.Clean`: "." and ".." denote the root -/
def normKey (k : Key) : Key :=
  if k.rooted = false ∧ (k.segs = [] ∨ k.segs = [dotdot]) then rootKey else k

/-- `normalizePath(name)` -/
def keyOfStr (s : Str) : Key := normKey ⟨isRooted s, cleanSegs (isRooted s) (split s)⟩

def Key.render (k : Key) : Str := Path.render k.rooted k.segs

/-- `findParent`: `filepath.Split(name)` ↦ dir, `Clean`, then `lockfreeOpen` normalises -/
def parentKey (k : Key) : Key :=
  if k.segs = [] then rootKey else normKey ⟨k.rooted, k.segs.dropLast⟩

/-- `strings.HasPrefix(p, name + "/")` on the rendered keys -/
def isUnder (name p : Key) : Bool :=
  name.rooted = p.rooted ∧ name.segs ≠ [] ∧ name.segs.length < p.segs.length ∧ name.segs.isPrefixOf p.segs

/-- `strings.Replace(desc.Name(), oldname, newname, 1)` for a descendant of `oldname` -/
def rePrefix (oldname newname desc : Key) : Key :=
  ⟨newname.rooted, newname.segs ++ desc.segs.drop oldname.segs.length⟩

/-- `_, name := filepath.Split(s.name)`: what FileInfo.Name() reports ("" for the root) -/
def baseName (k : Key) : Str :=
  match k.segs.getLast? with
  | some s => s
  | none => []

/-- byte-wise string order, Go's `<` on strings (used by the DirMap sorter) -/
def strLe : Str → Str → Bool
  | [], _ => true
  | _ :: _, [] => false
  | a :: as, b :: bs => if a.toNat < b.toNat then true else if a.toNat > b.toNat then false else strLe as bs

/-! ### mode bits (os.FileMode) -/
def modeDir : Nat := 2 ^ 31
def modeTemporary : Nat := 2 ^ 28
def chmodBits : Nat := 0o777 ||| 2 ^ 23 ||| 2 ^ 22 ||| 2 ^ 20   -- ModePerm|Setuid|Setgid|Sticky


structure FData where
  name : Key
  dir : Bool := false
  data : Bytes := []
  mode : Nat := 0
  mtime : Int := 0
  uid : Int := 0
  gid : Int := 0
  memDir : Option (List (Key × Nat)) := none      -- nil map for regular files
  deriving Repr, Inhabited

/-- what a handle call does to the file object: new bytes, and the mtime stamp on success -/
def FData.withIO (d : FData) (data : Bytes) (stamp : Bool) (now : Int) : FData :=
  { d with data := data, mtime := if stamp then now else d.mtime }

structure MHandle where
  obj : Nat
  h : Handle := {}
  readDirCount : Nat := 0
  deriving Repr, Inhabited

structure MemFs where
  objs : List FData := []
  data : List (Key × Nat) := []
  handles : List MHandle := []
  now : Int := 0
  deriving Repr, Inhabited

/-! association-list helpers (Go map semantics: one value per key) -/
def alLookup (m : List (Key × Nat)) (k : Key) : Option Nat :=
  (m.find? (·.1 = k)).map (·.2)
def alErase (m : List (Key × Nat)) (k : Key) : List (Key × Nat) := m.filter (·.1 ≠ k)
def alInsert (m : List (Key × Nat)) (k : Key) (v : Nat) : List (Key × Nat) :=
  if (alLookup m k).isSome then m.map fun e => if e.1 = k then (k, v) else e else m ++ [(k, v)]

namespace MemFs

def obj (m : MemFs) (i : Nat) : FData := m.objs.getD i default
def setObj (m : MemFs) (i : Nat) (f : FData) : MemFs := { m with objs := m.objs.set i f }
def alloc (m : MemFs) (f : FData) : MemFs × Nat := ({ m with objs := m.objs ++ [f] }, m.objs.length)

/-- `getData()` initialisation: the root directory exists from the start -/
def init : MemFs :=
  { objs := [{ name := rootKey, dir := true, mode := modeDir ||| 0o755, memDir := some [] }],
    data := [(rootKey, 0)] }

def lookup (m : MemFs) (k : Key) : Option Nat := alLookup m.data k

/-- `mem.CreateFile` / `mem.CreateDir` -/
def newFile (m : MemFs) (k : Key) : FData := { name := k, mode := modeTemporary, mtime := m.now }
def newDir (m : MemFs) (k : Key) : FData := { name := k, dir := true, memDir := some [], mtime := m.now }

/-- `findParent` -/
def findParent (m : MemFs) (f : Nat) : Option Nat := m.lookup (parentKey (m.obj f).name)

/-- `registerWithParent` and `lockfreeMkdir` (mutually recursive in the source; fuel = depth) -/
def registerWithParent : Nat → MemFs → Nat → Nat → MemFs
  | 0, m, _, _ => m
  | fuel + 1, m, f, perm =>
    let pk := parentKey (m.obj f).name
    -- parent := findParent(f); if nil: lockfreeMkdir(pdir, perm) and look again
    let (m, parent?) : MemFs × Option Nat :=
      match m.lookup pk with
      | some p => (m, some p)
      | none =>
        -- lockfreeMkdir(pdir, perm): pdir does not exist here, so it is created and registered
        let (m1, item) := m.alloc { (m.newDir pk) with mode := modeDir ||| perm }
        let m2 := { m1 with data := alInsert m1.data pk item }
        let m3 := registerWithParent fuel m2 item perm
        (m3, m3.lookup pk)
    match parent? with
    | none => m
    | some p =>
      let pd := m.obj p
      -- mem.InitializeDir: a nil memDir turns the object into a directory
      let pd := if pd.memDir.isNone then { pd with dir := true, memDir := some [] } else pd
      let fname := (m.obj f).name
      m.setObj p { pd with memDir := pd.memDir.map fun d => alInsert d fname f }

/-- fuel that always suffices: one level per path segment, plus one -/
def regFuel (m : MemFs) (f : Nat) : Nat := (m.obj f).name.segs.length + 2

/-- `unRegisterWithParent(fileName)`: error (none) if the file does not exist; the source
    log.Panics when the parent is missing — modelled as `panic` by the callers. -/
inductive UnregRes where
  | ok (m : MemFs) | notFound | noParent

def unRegisterWithParent (m : MemFs) (k : Key) : UnregRes :=
  match m.lookup k with
  | none => .notFound
  | some f =>
    match m.findParent f with
    | none => .noParent
    | some p =>
      let pd := m.obj p
      let fname := (m.obj f).name
      .ok (m.setObj p { pd with memDir := pd.memDir.map fun d => alErase d fname })

/-- depth used by `findDescendants`' sort: number of '/'-separated pieces of the name -/
def depthOf (k : Key) : Nat := (if k.rooted then 1 else 0) + k.segs.length

/-- `findDescendants`: objects whose key lies under `name`, sorted by depth -/
def findDescendants (m : MemFs) (name : Key) : List Nat :=
  let ds := (m.data.filter fun e => isUnder name e.1).map (·.2)
  ds.mergeSort fun a b => depthOf (m.obj a).name ≤ depthOf (m.obj b).name

end MemFs

/-! ### open flags (linux values of os.O_*) -/
def O_WRONLY : Nat := 1
def O_RDWR : Nat := 2
def O_CREATE : Nat := 0x40
def O_EXCL : Nat := 0x80
def O_TRUNC : Nat := 0x200
def O_APPEND : Nat := 0x400
def O_SYNC : Nat := 0x101000

/-- error classes of Fs-level calls -/
inductive FsErr where
  | notexist | exist | perm | notdir | isdir | notempty | inval | closed | io | eof | other
  deriving DecidableEq, Repr, Inhabited

def FsErr.tag : FsErr → String
  | .notexist => "notexist" | .exist => "exist" | .perm => "perm" | .notdir => "notdir"
  | .isdir => "isdir" | .notempty => "notempty" | .inval => "inval" | .closed => "closed"
  | .io => "io" | .eof => "eof" | .other => "other"


/-- result of an Fs-level or handle-level call, already canonical -/
inductive MRes where
  | ok
  | err (e : FsErr)
  | handle (h : Nat) (e : Option FsErr)       -- Create/Open/OpenFile: handle index (+ error of the trailing chmod)
  | info (name : Str) (size : Nat) (dir : Bool) (mode : Nat)
  | names (ns : List Str) (e : Option FErr)   -- Readdir / Readdirnames
  | infos (ns : List (Str × Bool)) (e : Option FErr)
  | str (s : Str)
  | file (o : FOut)                           -- handle I/O (C02 vocabulary)
  | panic
  deriving DecidableEq, Repr, Inhabited

namespace MemFs

def addHandle (m : MemFs) (o : Nat) (ro : Bool) : MemFs × Nat :=
  ({ m with handles := m.handles ++ [{ obj := o, h := { readOnly := ro } }] }, m.handles.length)

/-- `setFileMode` -/
def setFileMode (m : MemFs) (k : Key) (mode : Nat) : MemFs × Option FsErr :=
  match m.lookup k with
  | none => (m, some .notexist)
  | some f => (m.setObj f { m.obj f with mode := mode }, none)

/-- `Create` (as repaired: an existing regular file is truncated in place, so that handles
    already open on it keep seeing the file) -/
def create (m : MemFs) (k : Key) : MemFs × Nat :=
  match m.lookup k with
  | some f =>
    if (m.obj f).dir then
      -- a directory entry is replaced by a fresh file object (the source does the same)
      let (m1, nf) := m.alloc (m.newFile k)
      let m2 := { m1 with data := alInsert m1.data k nf }
      (registerWithParent (m2.regFuel nf) m2 nf 0, nf)
    else (m.setObj f { m.obj f with data := [], mtime := m.now }, f)
  | none =>
    let (m1, nf) := m.alloc (m.newFile k)
    let m2 := { m1 with data := alInsert m1.data k nf }
    (registerWithParent (m2.regFuel nf) m2 nf 0, nf)

/-- `Mkdir` -/
def mkdir (m : MemFs) (k : Key) (perm : Nat) : MemFs × MRes :=
  let perm := perm &&& chmodBits
  match m.lookup k with
  | some _ => (m, .err .exist)
  | none =>
    let (m1, item) := m.alloc { (m.newDir k) with mode := modeDir ||| perm }
    let m2 := { m1 with data := alInsert m1.data k item }
    let m3 := registerWithParent (m2.regFuel item) m2 item perm
    match m3.setFileMode k (perm ||| modeDir) with
    | (m4, none) => (m4, .ok)
    | (m4, some e) => (m4, .err e)

/-- `MkdirAll`: Mkdir, "exists" is not an error -/
def mkdirAll (m : MemFs) (k : Key) (perm : Nat) : MemFs × MRes :=
  match m.mkdir k perm with
  | (m', .err .exist) => (m', .ok)
  | r => r

/-- `Open` -/
def openRO (m : MemFs) (k : Key) : MemFs × MRes :=
  match m.lookup k with
  | none => (m, .err .notexist)
  | some f => let (m', h) := m.addHandle f true; (m', .handle h none)

/-- `OpenFile` (as repaired: the handle is read-only whenever the access mode is O_RDONLY) -/
def openFile (m : MemFs) (k : Key) (flag perm : Nat) : MemFs × MRes :=
  let perm := perm &&& chmodBits
  let existing := m.lookup k
  if existing.isSome ∧ flag &&& O_EXCL > 0 then (m, .err .exist)
  else
    let r : Option (MemFs × Nat × Bool) :=
      match existing with
      | some f => some (m, f, false)
      | none => if flag &&& O_CREATE > 0 then let (m', f) := m.create k; some (m', f, true) else none
    match r with
    | none => (m, .err .notexist)
    | some (m, f, chmod) =>
      let ro : Bool := flag &&& (O_WRONLY ||| O_RDWR) = 0
      let pos : Int := if flag &&& O_APPEND > 0 then (m.obj f).data.length else 0
      -- O_TRUNC with a write mode: file.Truncate(0) on the handle just built
      let (m, truncErr) : MemFs × Option FsErr :=
        if flag &&& O_TRUNC > 0 ∧ flag &&& (O_RDWR ||| O_WRONLY) > 0 then
          (m.setObj f { m.obj f with data := [], mtime := m.now }, none)
        else (m, none)
      match truncErr with
      | some e => (m, .err e)
      | none =>
        let hidx := m.handles.length
        let m := { m with handles := m.handles ++ [{ obj := f, h := { readOnly := ro, pos := pos } }] }
        if chmod then
          let (m, e) := m.setFileMode k perm
          (m, .handle hidx e)
        else (m, .handle hidx none)

/-- `Remove` -/
def remove (m : MemFs) (k : Key) : MemFs × MRes :=
  match m.lookup k with
  | none => (m, .err .notexist)
  | some _ =>
    match m.unRegisterWithParent k with
    | .ok m1 => ({ m1 with data := alErase m1.data k }, .ok)
    | .notFound => (m, .err .notexist)
    | .noParent => (m, .panic)

/-- `RemoveAll` -/
def removeAll (m : MemFs) (k : Key) : MemFs × MRes :=
  match m.unRegisterWithParent k with
  | .noParent => (m, .panic)
  | r =>
    let m1 := match r with | .ok m1 => m1 | _ => m
    ({ m1 with data := m1.data.filter fun e => ¬ (e.1 = k ∨ isUnder k e.1) }, .ok)

/-- one round of the loop in `renameDescendants` -/
def renameOneDesc (oldname newname : Key) (acc : Option (MemFs × List Key)) (desc : Nat) :
    Option (MemFs × List Key) :=
  match acc with
  | none => none
  | some (m, removes) =>
    let dname := (m.obj desc).name
    let newName := rePrefix oldname newname dname
    match m.unRegisterWithParent dname with
    | .ok m1 =>
      let m2 := m1.setObj desc { m1.obj desc with name := newName }
      let m3 := { m2 with data := alInsert m2.data newName desc }
      some (registerWithParent (m3.regFuel desc) m3 desc 0, removes ++ [dname])
    | _ => none

/-- `Rename` (as repaired: a missing source is reported even when both names are equal) -/
def rename (m : MemFs) (oldname newname : Key) : MemFs × MRes :=
  match m.lookup oldname with
  | none => (m, .err .notexist)
  | some f =>
    if oldname = newname then (m, .ok)
    else
      match m.unRegisterWithParent oldname with
      | .notFound => (m, .err .notexist)
      | .noParent => (m, .panic)
      | .ok m1 =>
        let m2 := m1.setObj f { m1.obj f with name := newname }
        let m3 := { m2 with data := alInsert m2.data newname f }
        -- renameDescendants
        match (m3.findDescendants oldname).foldl (renameOneDesc oldname newname) (some (m3, [])) with
        | none => (m, .panic)
        | some (m4, removes) =>
          let m5 := { m4 with data := m4.data.filter fun e => ¬ removes.contains e.1 }
          let m6 := { m5 with data := alErase m5.data oldname }
          (registerWithParent (m6.regFuel f) m6 f 0, .ok)

/-- `Stat` -/
def stat (m : MemFs) (k : Key) : MRes :=
  match m.lookup k with
  | none => .err .notexist
  | some f =>
    let d := m.obj f
    .info (baseName d.name) (if d.dir then 42 else d.data.length) d.dir d.mode

/-- `Chmod` (as repaired: the name is normalised like everywhere else) -/
def chmod (m : MemFs) (k : Key) (mode : Nat) : MemFs × MRes :=
  let mode := mode &&& chmodBits
  match m.lookup k with
  | none => (m, .err .notexist)
  | some f =>
    -- prevOtherBits := Mode() & ^chmodBits
    let prevOther := (m.obj f).mode - ((m.obj f).mode &&& chmodBits)
    match m.setFileMode k (prevOther ||| mode) with
    | (m', none) => (m', .ok)
    | (m', some e) => (m', .err e)

def chown (m : MemFs) (k : Key) (uid gid : Int) : MemFs × MRes :=
  match m.lookup k with
  | none => (m, .err .notexist)
  | some f => (m.setObj f { m.obj f with uid := uid, gid := gid }, .ok)

def chtimes (m : MemFs) (k : Key) (t : Int) : MemFs × MRes :=
  match m.lookup k with
  | none => (m, .err .notexist)
  | some f => (m.setObj f { m.obj f with mtime := t }, .ok)

/-! ### handle methods -/

/-- `DirMap.Files()`: entries sorted by (full) name -/
def dirFiles (m : MemFs) (d : FData) : List Nat :=
  let es := (d.memDir.getD [])
  (es.mergeSort fun a b => strLe a.1.render b.1.render).map (·.2)

/-- `File.Readdir(count)` (as repaired: the cursor is clamped to the current length) -/
def readdir (m : MemFs) (hi : Nat) (count : Int) : MemFs × Option (List Nat) × Option FErr :=
  match m.handles[hi]? with
  | none => (m, none, some .inval)
  | some mh =>
    let d := m.obj mh.obj
    if !d.dir then (m, none, some .notdir)    -- "not a dir"
    else
      let files := (m.dirFiles d).drop mh.readDirCount
      let (outLen, e) : Nat × Option FErr :=
        if count > 0 then (min files.length count.toNat, if files.length = 0 then some .eof else none)
        else (files.length, none)
      let m' := { m with handles := m.handles.set hi { mh with readDirCount := mh.readDirCount + outLen } }
      (m', some (files.take outLen), e)

def fileIO (m : MemFs) (hi : Nat) (f : Bytes → Handle → Bytes × Handle × FOut) (touch : Bool) : MemFs × MRes :=
  match m.handles[hi]? with
  | none => (m, .err .inval)
  | some mh =>
    let d := m.obj mh.obj
    let r := f d.data mh.h
    let m1 := m.setObj mh.obj (d.withIO r.1 (touch && r.2.2.success) m.now)
    ({ m1 with handles := m1.handles.set hi { mh with h := r.2.1 } }, .file r.2.2)

def hRead (m : MemFs) (hi len : Nat) : MemFs × MRes :=
  m.fileIO hi (fun d h => let (h', o) := readC d h len; (d, h', o)) false
def hReadAt (m : MemFs) (hi len : Nat) (off : Int) : MemFs × MRes :=
  m.fileIO hi (fun d h => let (h', o) := readAtC d h len off; (d, h', o)) false
def hWrite (m : MemFs) (hi : Nat) (b : Bytes) : MemFs × MRes :=
  m.fileIO hi (fun d h => writeC d h b) true
def hWriteAt (m : MemFs) (hi : Nat) (b : Bytes) (off : Int) : MemFs × MRes :=
  m.fileIO hi (fun d h => writeAtC d h b off) true
def hTruncate (m : MemFs) (hi : Nat) (size : Int) : MemFs × MRes :=
  m.fileIO hi (fun d h => let (d', o) := truncC d h size; (d', h, o)) true
def hSeek (m : MemFs) (hi : Nat) (off : Int) (wh : Nat) : MemFs × MRes :=
  m.fileIO hi (fun d h => let (h', o) := seekC d h off wh; (d, h', o)) false

/-- `File.Close`: marks the handle closed; a writable handle stamps the modification time -/
def hClose (m : MemFs) (hi : Nat) : MemFs × MRes :=
  match m.handles[hi]? with
  | none => (m, .err .inval)
  | some mh =>
    let d := m.obj mh.obj
    let m1 := if mh.h.readOnly then m else m.setObj mh.obj { d with mtime := m.now }
    ({ m1 with handles := m1.handles.set hi { mh with h := { mh.h with closed := true } } }, .ok)

def hName (m : MemFs) (hi : Nat) : MRes :=
  match m.handles[hi]? with
  | none => .err .inval
  | some mh => .str (m.obj mh.obj).name.render

def hStat (m : MemFs) (hi : Nat) : MRes :=
  match m.handles[hi]? with
  | none => .err .inval
  | some mh =>
    let d := m.obj mh.obj
    .info (baseName d.name) (if d.dir then 42 else d.data.length) d.dir d.mode

end MemFs

end AferoVerif
