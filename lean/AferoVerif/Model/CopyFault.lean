/-
  Model of `copyToLayer` / `copyFile` (unionFile.go:271-321) as the explicit sequence of calls it
  makes on the base and on the layer, with at most one injected fault.

  Calls, in order:  base.Open · layer.Stat(dir) · [layer.MkdirAll(dir)] · layer.Create ·
  (base.Read · layer.Write)* · base.Read(EOF) · base.Stat · layer.Close · layer.Chtimes
  (io.Copy moves 32 KiB per round).  A fault is (index of the call, kind); kinds: the call fails
  with an error; a Read delivers only `k` bytes together with EOF (early EOF); a Write accepts
  only `k` bytes and reports no error (short write).
  The layer is abstracted to the one entry that matters: `Option Bytes` for the file's name.
-/
import AferoVerif.Model.Script
namespace AferoVerif.CopyFault

inductive Call where
  | bOpen | lStatDir | lMkdirAll | lCreate | bRead | lWrite | bStat | lClose | lChtimes | lRemove
  deriving DecidableEq, Repr

inductive FKind where
  | error
  | short (k : Nat)
  deriving DecidableEq, Repr

structure Fault where
  idx : Nat
  kind : FKind
  deriving Repr

structure Res where
  entry : Option Bytes      -- what the layer holds under the name afterwards
  ok : Bool                 -- did the copy report success
  calls : List Call         -- the calls made, in order
  deriving Repr

def chunkSize : Nat := 32768

/-- does the fault hit call number `i`? -/
def hit (f : Option Fault) (i : Nat) : Option FKind :=
  match f with
  | some ft => if ft.idx = i then some ft.kind else none
  | none => none

/-- clean-up path of copyFile: layer.Remove(name), lfh.Close(), report failure -/
def cleanup (calls : List Call) : Res := { entry := none, ok := false, calls := calls ++ [.lRemove, .lClose] }

/-- the io.Copy loop: `rest` is what the base handle has not delivered yet, `acc` what the layer
    file holds so far, `i` the index of the next call -/
def copyLoop (f : Option Fault) : (fuel : Nat) → (rest acc : Bytes) → (i : Nat) → (calls : List Call) →
    (Bytes × Nat × List Call) ⊕ Res
  | 0, _, acc, i, calls => .inl (acc, i, calls)
  | fuel + 1, rest, acc, i, calls =>
    -- base.Read
    let calls := calls ++ [.bRead]
    match hit f i with
    | some .error => .inr (cleanup calls)
    | rk =>
      let want := rest.take chunkSize
      let (got, eof) : Bytes × Bool :=
        match rk with
        | some (.short k) => (want.take k, true)            -- early EOF after k bytes
        | _ => (want, want.length = 0)
      if got.length = 0 then .inl (acc, i + 1, calls)       -- (0, EOF): the loop ends
      else
        -- layer.Write(got)
        let calls := calls ++ [.lWrite]
        match hit f (i + 1) with
        | some .error => .inr (cleanup calls)
        | some (.short k) => if k < got.length then .inr (cleanup calls) else   -- io.ErrShortWrite
            (if eof then .inl (acc ++ got, i + 2, calls) else copyLoop f fuel (rest.drop got.length) (acc ++ got) (i + 2) calls)
        | none =>
          if eof then .inl (acc ++ got, i + 2, calls)
          else copyLoop f fuel (rest.drop got.length) (acc ++ got) (i + 2) calls

/-- `copyToLayer(base, layer, name)`: `content` = the base file's bytes, `old` = what the layer
    held under the name before (a stale cached copy, or nothing), `dirExists` = whether the
    parent directory exists in the layer. -/
def copyUp (content : Bytes) (old : Option Bytes) (dirExists : Bool) (f : Option Fault) : Res :=
  -- 0: base.Open
  if hit f 0 = some .error then { entry := old, ok := false, calls := [.bOpen] } else
  -- 1: layer.Stat(dir)  (Exists)
  if hit f 1 = some .error then { entry := old, ok := false, calls := [.bOpen, .lStatDir] } else
  let calls := [.bOpen, .lStatDir]
  -- 2: layer.MkdirAll(dir) only if the directory is missing
  let mk := !dirExists
  if mk ∧ hit f 2 = some .error then { entry := old, ok := false, calls := calls ++ [.lMkdirAll] } else
  let calls := if mk then calls ++ [.lMkdirAll] else calls
  let i := if mk then 3 else 2
  -- layer.Create(name): truncates an existing entry
  if hit f i = some .error then { entry := old, ok := false, calls := calls ++ [.lCreate] } else
  let calls := calls ++ [.lCreate]
  match copyLoop f (content.length / chunkSize + 2) content [] (i + 1) calls with
  | .inr r => r
  | .inl (acc, j, calls) =>
    -- base.Stat: error, or size ≠ bytes copied
    let calls := calls ++ [.bStat]
    if hit f j = some .error ∨ content.length ≠ acc.length then cleanup calls else
    -- layer.Close
    let calls := calls ++ [.lClose]
    if hit f (j + 1) = some .error then { (cleanup (calls.dropLast)) with calls := calls ++ [.lRemove, .lClose] } else
    -- layer.Chtimes: its error is returned, the complete copy stays
    let calls := calls ++ [.lChtimes]
    if hit f (j + 2) = some .error then { entry := some acc, ok := false, calls := calls }
    else { entry := some acc, ok := true, calls := calls }

end AferoVerif.CopyFault
