/-
  Model of copyOnWriteFs.go over two MemMapFs models (base, layer).
-/
import AferoVerif.Model.Union
namespace AferoVerif
open Path

/-- a handle handed out by the union: a base handle, a layer handle, or a UnionFile (directories
    present in both layers) -/
inductive CowH where
  | base (i : Nat)
  | layer (i : Nat)
  | union (u : UFile)
  deriving Repr, Inhabited

structure Cow where
  s : Layers := {}
  hs : List CowH := []
  deriving Repr, Inhabited

/-- `os.O_WRONLY|os.O_RDWR|os.O_APPEND|os.O_CREATE|os.O_TRUNC` (copyOnWriteFs.go:213) -/
def cowWriteMask : Nat := O_WRONLY ||| O_RDWR ||| O_APPEND ||| O_CREATE ||| O_TRUNC

namespace Cow

/-- `isBaseFile`: the name lives only in the base -/
def isBaseFile (c : Cow) (k : Key) : Bool :=
  if (c.s.l.lookup k).isSome then false else (c.s.b.lookup k).isSome

def addH (c : Cow) (h : CowH) : Cow × Nat := ({ c with hs := c.hs ++ [h] }, c.hs.length)

/-- open a handle in the layer with the source's OpenFile and wrap the result -/
def layerOpenFile (c : Cow) (k : Key) (flag perm : Nat) : Cow × MRes :=
  let r := c.s.l.openFile k flag perm
  let c : Cow := { c with s := { c.s with l := r.1 } }
  match r.2 with
  | .handle i e => ((c.addH (.layer i)).1, .handle (c.addH (.layer i)).2 e)
  | other => (c, other)

def baseOpenFile (c : Cow) (k : Key) (flag perm : Nat) : Cow × MRes :=
  let r := c.s.b.openFile k flag perm
  let c : Cow := { c with s := { c.s with b := r.1 } }
  match r.2 with
  | .handle i e => ((c.addH (.base i)).1, .handle (c.addH (.base i)).2 e)
  | other => (c, other)

/-- copy up if the name lives only in the base; `none` = fine -/
def copyUpIfBase (c : Cow) (name : Str) : Cow × Option FsErr :=
  if c.isBaseFile (keyOfStr name) then
    let (l', e) := copyToLayer c.s.b c.s.l name
    ({ c with s := { c.s with l := l' } }, e)
  else (c, none)

def open_ (c : Cow) (name : Str) : Cow × MRes :=
  let k := keyOfStr name
  let rb := c.s.b.openRO k
  let rl := c.s.l.openRO k
  if c.isBaseFile k then
    let c : Cow := { c with s := { c.s with b := rb.1 } }
    match rb.2 with
    | .handle i e => ((c.addH (.base i)).1, .handle (c.addH (.base i)).2 e)
    | other => (c, other)
  else
    match fsIsDir c.s.l k with
    | (_, some e) => (c, .err e)
    | (ldir, none) =>
      let bdir := (fsIsDir c.s.b k)
      if ldir ∧ bdir.1 ∧ bdir.2.isNone then
        -- directory in both layers: UnionFile over both handles
        match rb.2, rl.2 with
        | .handle bi _, .handle li _ =>
          let c : Cow := { c with s := { b := rb.1, l := rl.1 } }
          ((c.addH (.union { bi := bi, li := li })).1, .handle (c.addH (.union { bi := bi, li := li })).2 none)
        | _, _ => (c, .err .other)
      else
        let c : Cow := { c with s := { c.s with l := rl.1 } }
        match rl.2 with
        | .handle i e => ((c.addH (.layer i)).1, .handle (c.addH (.layer i)).2 e)
        | other => (c, other)

def openFile (c : Cow) (name : Str) (flag perm : Nat) : Cow × MRes :=
  let k := keyOfStr name
  let b := c.isBaseFile k
  if flag &&& cowWriteMask ≠ 0 then
    if b then
      match c.copyUpIfBase name with
      | (c, some e) => (c, .err e)
      | (c, none) => c.layerOpenFile k flag perm
    else
      let dk := keyOfStr (Path.dir name)
      let (isaDir, _) := fsIsDir c.s.b dk            -- a not-exist error is tolerated here
      if isaDir then
        let (l', r) := c.s.l.mkdirAll dk 0o777
        let c := { c with s := { c.s with l := l' } }
        match r with
        | .ok => c.layerOpenFile k flag perm
        | other => (c, other)
      else
        match fsIsDir c.s.l dk with
        | (_, some e) => (c, .err e)
        | (true, none) => c.layerOpenFile k flag perm
        | (false, none) => (c, .err .notdir)
  else if b then c.baseOpenFile k flag perm
  -- (as repaired) a directory of the overlay is opened as Open does: the union of both layers
  else if (fsIsDir c.s.l k).1 ∧ (fsIsDir c.s.l k).2.isNone then c.open_ name
  else c.layerOpenFile k flag perm

/-- forward an op (re-indexed to the underlying handle) to one layer -/
def reindex : Op → Nat → Op
  | .hRead _ n, i => .hRead i n
  | .hReadAt _ n o, i => .hReadAt i n o
  | .hWrite _ b, i => .hWrite i b
  | .hWriteAt _ b o, i => .hWriteAt i b o
  | .hTrunc _ n, i => .hTrunc i n
  | .hSeek _ o w, i => .hSeek i o w
  | .hClose _, i => .hClose i
  | .hName _, i => .hName i
  | .hStat _, i => .hStat i
  | .hSync _, i => .hSync i
  | .hReaddir _ n, i => .hReaddir i n
  | .hReaddirnames _ n, i => .hReaddirnames i n
  | op, _ => op

def setH (c : Cow) (i : Nat) (h : CowH) : Cow := { c with hs := c.hs.set i h }

def handleOp (c : Cow) (hi : Nat) (op : Op) : Cow × MRes :=
  match c.hs[hi]? with
  | none => (c, .err .inval)
  | some (.base i) => let (b', r) := c.s.b.step (reindex op i); ({ c with s := { c.s with b := b' } }, r)
  | some (.layer i) => let (l', r) := c.s.l.step (reindex op i); ({ c with s := { c.s with l := l' } }, r)
  | some (.union u) =>
    match op with
    | .hRead _ n => let (s', r) := u.read c.s n; ({ c with s := s' }, r)
    | .hReadAt _ n o => let (s', r) := u.readAt c.s n o; ({ c with s := s' }, r)
    | .hWrite _ b => let (s', r) := u.write c.s b; ({ c with s := s' }, r)
    | .hWriteAt _ b o => let (s', r) := u.writeAt c.s b o; ({ c with s := s' }, r)
    | .hTrunc _ n => let (s', r) := u.truncate c.s n; ({ c with s := s' }, r)
    | .hSeek _ o w => let (s', r) := u.seek c.s o w; ({ c with s := s' }, r)
    | .hClose _ => let (s', r) := u.close c.s; ({ c with s := s' }, r)
    | .hName _ => (c, c.s.l.hName u.li)
    | .hStat _ => (c, c.s.l.hStat u.li)
    | .hSync _ => (c, .ok)
    | .hReaddir _ n =>
      let (s', u', fs, e) := u.readdir c.s n
      (({ c with s := s' } : Cow).setH hi (.union u'), match fs with
        | none => .file (.err (e.getD .inval))
        | some fs => .infos fs e)
    | .hReaddirnames _ n =>
      let (s', u', fs, e) := u.readdir c.s n
      (({ c with s := s' } : Cow).setH hi (.union u'), match fs with
        | none => .file (.err (e.getD .inval))
        | some fs => .names (fs.map (·.1)) e)
    | _ => (c, .err .inval)

def liftL (c : Cow) (r : MemFs × MRes) : Cow × MRes := ({ c with s := { c.s with l := r.1 } }, r.2)

/-- the CopyOnWriteFs as a step function -/
def step (c : Cow) (op : Op) : Cow × MRes :=
  match op with
  | .chtimes p t =>
    match c.copyUpIfBase p with
    | (c, some e) => (c, .err e)
    | (c, none) => c.liftL (c.s.l.chtimes (keyOfStr p) t)
  | .chmod p mode =>
    match c.copyUpIfBase p with
    | (c, some e) => (c, .err e)
    | (c, none) => c.liftL (c.s.l.chmod (keyOfStr p) mode)
  | .chown p u g =>
    match c.copyUpIfBase p with
    | (c, some e) => (c, .err e)
    | (c, none) => c.liftL (c.s.l.chown (keyOfStr p) u g)
  | .stat p =>
    match c.s.l.stat (keyOfStr p) with
    | .err .notexist => (c, c.s.b.stat (keyOfStr p))
    | r => (c, r)
  | .rename a b =>
    if c.isBaseFile (keyOfStr a) then (c, .err .perm)
    else c.liftL (c.s.l.rename (keyOfStr a) (keyOfStr b))
  -- with a MemMapFs layer the error is a *PathError, never the bare syscall.ENOENT the source
  -- switches on: the layer's answer is returned as it is
  | .remove p => c.liftL (c.s.l.remove (keyOfStr p))
  | .removeAll p => c.liftL (c.s.l.removeAll (keyOfStr p))
  | .openFile p flag perm => c.openFile p flag perm
  | .open_ p => c.open_ p
  | .create p => c.openFile p (O_CREATE ||| O_TRUNC ||| O_RDWR) 0o666
  | .mkdir p perm =>
    match fsIsDir c.s.b (keyOfStr p) with
    | (_, some _) => c.liftL (c.s.l.mkdirAll (keyOfStr p) perm)
    | (true, none) => (c, .err .exist)
    | (false, none) => c.liftL (c.s.l.mkdirAll (keyOfStr p) perm)
  | .mkdirAll p perm =>
    match fsIsDir c.s.b (keyOfStr p) with
    | (_, some _) => c.liftL (c.s.l.mkdirAll (keyOfStr p) perm)
    | (true, none) => (c, .ok)
    | (false, none) => c.liftL (c.s.l.mkdirAll (keyOfStr p) perm)
  | op =>
    match op.handle? with
    | some hi => c.handleOp hi op
    | none => (c, .err .inval)

end Cow
end AferoVerif
