/-
  Model of cacheOnReadFs.go over two MemMapFs models. State and handle table are those of the
  copy-on-write model (`Cow`: base, layer, base/layer/union handles); `dur` is the cache
  duration in seconds (0 = cached files are served for ever); "now" is the layer's clock.
-/
import AferoVerif.Model.Cow
namespace AferoVerif

inductive CState where
  | miss | stale | hit | local_
  deriving DecidableEq, Repr

namespace Cache

/-- `cacheStatus` as a pure function of (layer entry?, base entry?, duration, now) -/
def cacheStatus (c : Cow) (dur : Int) (k : Key) : CState :=
  match c.s.l.lookup k with
  | none => .miss
  | some lf =>
    if dur = 0 then .hit
    else if (c.s.l.obj lf).mtime + dur < c.s.l.now then
      match c.s.b.lookup k with
      | none => .local_
      | some bf => if (c.s.b.obj bf).mtime > (c.s.l.obj lf).mtime then .stale else .hit
    else .hit

def setL (c : Cow) (l : MemFs) : Cow := { c with s := { c.s with l := l } }
def setB (c : Cow) (b : MemFs) : Cow := { c with s := { c.s with b := b } }

/-- `copyToLayer`: `none` = fine -/
def copyUp (c : Cow) (name : Str) : Cow × Option FsErr :=
  let r := copyToLayer c.s.b c.s.l name
  (setL c r.1, r.2)

/-- `copyFileToLayer(name, flag, perm)`: the base is opened with the *caller's* flags (which may
    create or truncate it) except O_APPEND (as repaired: the copy starts at the beginning), copied
    from the handle's position on, and the handle is closed (a writable handle stamps the base's
    mtime). -/
def copyUpFlags (c : Cow) (name : Str) (flag perm : Nat) : Cow × Option FsErr :=
  let k := keyOfStr name
  let rb := c.s.b.openFile k (flag ^^^ (flag &&& O_APPEND)) perm
  match rb.2 with
  | .handle h _ =>
    let b1 := rb.1
    let mh := b1.handles.getD h default
    let rc := copyFileFrom b1 c.s.l name mh.obj mh.h.pos.toNat
    let b2 := (b1.hClose h).1
    ({ c with s := { b := b2, l := rc.1 } }, rc.2)
  | .err e => (setB c rb.1, some e)
  | _ => (setB c rb.1, some .other)

/-- the shape shared by Chtimes / Chmod / Chown / Rename: act on the base unless the file is
    local to the cache (copying it up first on miss / stale), then on the layer -/
def both (c : Cow) (dur : Int) (name : Str) (op : Op) : Cow × MRes :=
  let st := cacheStatus c dur (keyOfStr name)
  let pre : Cow × Option FsErr :=
    match st with
    | .stale | .miss => copyUp c name
    | _ => (c, none)
  match pre with
  | (c, some e) => (c, .err e)
  | (c, none) =>
    let rb : MemFs × MRes := if st = .local_ then (c.s.b, .ok) else c.s.b.step op
    match rb.2 with
    | .ok =>
      let rl := c.s.l.step op
      ({ c with s := { b := rb.1, l := rl.1 } }, rl.2)
    | other => (setB c rb.1, other)

/-- Remove / RemoveAll: no copy-up -/
def bothNoCopy (c : Cow) (dur : Int) (name : Str) (op : Op) : Cow × MRes :=
  let st := cacheStatus c dur (keyOfStr name)
  let rb : MemFs × MRes := if st = .local_ then (c.s.b, .ok) else c.s.b.step op
  match rb.2 with
  | .ok =>
    let rl := c.s.l.step op
    ({ c with s := { b := rb.1, l := rl.1 } }, rl.2)
  | other => (setB c rb.1, other)

def layerOpen (c : Cow) (k : Key) : Cow × MRes :=
  let r := c.s.l.openRO k
  let c := setL c r.1
  match r.2 with
  | .handle i e => ((c.addH (.layer i)).1, .handle (c.addH (.layer i)).2 e)
  | other => (c, other)

def baseOpen (c : Cow) (k : Key) : Cow × MRes :=
  let r := c.s.b.openRO k
  let c := setB c r.1
  match r.2 with
  | .handle i e => ((c.addH (.base i)).1, .handle (c.addH (.base i)).2 e)
  | other => (c, other)

/-- directories: `&UnionFile{Base: bfile, Layer: lfile}` with whichever side opened -/
def unionOpen (c : Cow) (k : Key) : Cow × MRes :=
  let rb := c.s.b.openRO k
  let rl := c.s.l.openRO k
  match rb.2, rl.2 with
  | .handle bi _, .handle li _ =>
    let c : Cow := { c with s := { b := rb.1, l := rl.1 } }
    ((c.addH (.union { bi := bi, li := li })).1, .handle (c.addH (.union { bi := bi, li := li })).2 none)
  | .handle bi _, _ =>          -- layer side missing: the union reads through the base handle
    let c : Cow := setB c rb.1
    ((c.addH (.base bi)).1, .handle (c.addH (.base bi)).2 none)
  | _, .handle li _ =>
    let c : Cow := setL c rl.1
    ((c.addH (.layer li)).1, .handle (c.addH (.layer li)).2 none)
  | _, other => (c, other)

/-- copy the file up, then serve it from the layer -/
def copyThenOpen (c : Cow) (name : Str) (k : Key) : Cow × MRes :=
  match copyUp c name with
  | (c, some e) => (c, .err e)
  | (c, none) => layerOpen c k

def open_ (c : Cow) (dur : Int) (name : Str) : Cow × MRes :=
  let k := keyOfStr name
  match cacheStatus c dur k with
  | .local_ => layerOpen c k
  | .miss =>
    match c.s.b.lookup k with
    | none => (c, .err .notexist)
    | some bf =>
      if (c.s.b.obj bf).dir then baseOpen c k
      else copyThenOpen c name k
  | .stale =>
    -- fi is the base's info here
    let bdir := match c.s.b.lookup k with | some bf => (c.s.b.obj bf).dir | none => false
    if !bdir then copyThenOpen c name k
    else unionOpen c k
  | .hit =>
    let ldir := match c.s.l.lookup k with | some lf => (c.s.l.obj lf).dir | none => false
    if !ldir then layerOpen c k else unionOpen c k

def openFile (c : Cow) (dur : Int) (name : Str) (flag perm : Nat) : Cow × MRes :=
  let k := keyOfStr name
  let st := cacheStatus c dur k
  let pre : Cow × Option FsErr :=
    if st = .local_ ∨ st = .hit then (c, none) else copyUpFlags c name flag perm
  match pre with
  | (c, some e) => (c, .err e)
  | (c, none) =>
    if flag &&& cowWriteMask ≠ 0 then
      let rb := c.s.b.openFile k flag perm
      match rb.2 with
      | .handle bi _ =>
        let rl := c.s.l.openFile k flag perm
        match rl.2 with
        | .handle li _ =>
          let c : Cow := { c with s := { b := rb.1, l := rl.1 } }
          ((c.addH (.union { bi := bi, li := li })).1, .handle (c.addH (.union { bi := bi, li := li })).2 none)
        | other => ({ c with s := { b := (rb.1.hClose bi).1, l := rl.1 } }, other)
      | other => (setB c rb.1, other)
    else c.layerOpenFile k flag perm

def create (c : Cow) (name : Str) : Cow × MRes :=
  let k := keyOfStr name
  let rb := c.s.b.create k
  let hb := rb.1.addHandle rb.2 false
  let rl := c.s.l.create k
  let hl := rl.1.addHandle rl.2 false
  let c : Cow := { c with s := { b := hb.1, l := hl.1 } }
  ((c.addH (.union { bi := hb.2, li := hl.2 })).1, .handle (c.addH (.union { bi := hb.2, li := hl.2 })).2 none)

/-- the CacheOnReadFs as a step function -/
def step (dur : Int) (c : Cow) (op : Op) : Cow × MRes :=
  match op with
  | .chtimes p _ => both c dur p op
  | .chmod p _ => both c dur p op
  | .chown p _ _ => both c dur p op
  | .rename a _ => both c dur a op
  | .remove p => bothNoCopy c dur p op
  | .removeAll p => bothNoCopy c dur p op
  | .stat p =>
    match cacheStatus c dur (keyOfStr p) with
    | .miss => (c, c.s.b.stat (keyOfStr p))
    | .stale => (c, c.s.b.stat (keyOfStr p))
    | _ => (c, c.s.l.stat (keyOfStr p))
  | .open_ p => open_ c dur p
  | .openFile p flag perm => openFile c dur p flag perm
  | .create p => create c p
  | .mkdir p perm =>
    let rb := c.s.b.mkdir (keyOfStr p) perm
    match rb.2 with
    | .ok => let rl := c.s.l.mkdirAll (keyOfStr p) perm; ({ c with s := { b := rb.1, l := rl.1 } }, rl.2)
    | other => (setB c rb.1, other)
  | .mkdirAll p perm =>
    let rb := c.s.b.mkdirAll (keyOfStr p) perm
    match rb.2 with
    | .ok => let rl := c.s.l.mkdirAll (keyOfStr p) perm; ({ c with s := { b := rb.1, l := rl.1 } }, rl.2)
    | other => (setB c rb.1, other)
  | op =>
    match op.handle? with
    | some hi => c.handleOp hi op
    | none => (c, .err .inval)

end Cache
end AferoVerif
