/-
  Model of regexpfs.go over the MemMapFs model. The regular expression is abstracted as a
  predicate on the name (as repaired: `re.MatchString(filepath.Clean(name))`, i.e. the engine
  instantiates `pred` with `re ∘ Clean`); listings filter on base names.
-/
import AferoVerif.Model.Union
namespace AferoVerif

/-- `dirOrMatches`: error of IsDir, else ok for a directory, else the pattern decides.
    `none` = allowed. -/
def reDirOrMatches (pred : Str → Bool) (m : MemFs) (name : Str) : Option FsErr :=
  match fsIsDir m (keyOfStr name) with
  | (_, some e) => some e
  | (true, none) => none
  | (false, none) => if pred name then none else some .notexist

structure ReSt where
  m : MemFs := MemFs.init
  filtered : List Nat := []      -- handles obtained through RegexpFs.Open/OpenFile (RegexpFile: listings are filtered)
  deriving Inhabited

def reStep (pred : Str → Bool) (s : ReSt) (op : Op) : ReSt × MRes :=
  let fwd (op : Op) : ReSt × MRes := let r := s.m.step op; ({ s with m := r.1 }, r.2)
  let gate (name : Str) (op : Op) : ReSt × MRes :=
    match reDirOrMatches pred s.m name with
    | some e => (s, .err e)
    | none => fwd op
  match op with
  | .chtimes p _ => gate p op
  | .chmod p _ => gate p op
  | .chown p _ _ => gate p op
  | .stat p => gate p op
  | .remove p => gate p op
  | .openFile p _ _ =>
    -- (as repaired) the handle is a filtering RegexpFile, as for Open
    match reDirOrMatches pred s.m p with
    | some e => (s, .err e)
    | none =>
      let r := s.m.step op
      match r.2 with
      | .handle h e => ({ m := r.1, filtered := s.filtered ++ [h] }, .handle h e)
      | other => ({ s with m := r.1 }, other)
  | .rename a b =>
    match fsIsDir s.m (keyOfStr a) with
    | (_, some e) => (s, .err e)
    | (true, none) => (s, .ok)                       -- a directory: silently nothing
    | (false, none) =>
      if !pred a then (s, .err .notexist)
      else if !pred b then (s, .err .notexist)
      else fwd op
  | .removeAll p =>
    match fsIsDir s.m (keyOfStr p) with
    | (_, some e) => (s, .err e)
    | (true, none) => fwd op
    | (false, none) => if pred p then fwd op else (s, .err .notexist)
  | .open_ p =>
    match fsIsDir s.m (keyOfStr p) with
    | (_, some e) => (s, .err e)
    | (d, none) =>
      if !d ∧ !pred p then (s, .err .notexist)
      else
        let r := s.m.step op
        match r.2 with
        | .handle h e => ({ m := r.1, filtered := s.filtered ++ [h] }, .handle h e)
        | other => ({ s with m := r.1 }, other)
  | .mkdir _ _ => fwd op
  | .mkdirAll _ _ => fwd op
  | .create p => if pred p then fwd op else (s, .err .notexist)
  | .hReaddir h n =>
    let r := s.m.step op
    if s.filtered.contains h then
      match r.2 with
      | .infos es none => ({ s with m := r.1 }, .infos (es.filter fun e => e.2 || pred e.1) none)
      | .infos _ (some e) => ({ s with m := r.1 }, .infos [] (some e))
      | other => ({ s with m := r.1 }, other)
    else ({ s with m := r.1 }, r.2)
  | .hReaddirnames h n =>
    if s.filtered.contains h then
      let r := s.m.step (.hReaddir h n)
      match r.2 with
      | .infos es none => ({ s with m := r.1 }, .names ((es.filter fun e => e.2 || pred e.1).map (·.1)) none)
      | .infos _ (some e) => ({ s with m := r.1 }, .names [] (some e))
      | other => ({ s with m := r.1 }, other)
    else fwd op
  | op => fwd op

/-! the pattern menu of the correspondence runs, each with its exact predicate -/
def endsWith (s suf : Str) : Bool := suf.isSuffixOf s
def lastElem (s : Str) : Str := (Path.splitDirFile s).2

/-- `\.txt$` -/
def predTxt (s : Str) : Bool := endsWith s ".txt".toList
/-- `(^|/)a[^/]*$` -/
def predA (s : Str) : Bool := (lastElem s).head? = some 'a'
/-- `x[^/]*$` -/
def predX (s : Str) : Bool := (lastElem s).contains 'x'
/-- `(^|/)[^./]*$`: the final element (possibly empty) has no dot -/
def predNoDot (s : Str) : Bool := !(lastElem s).contains '.'
/-- `(^|/)[a-c]+$` -/
def predAC (s : Str) : Bool := lastElem s ≠ [] ∧ (lastElem s).all fun c => c = 'a' ∨ c = 'b' ∨ c = 'c'

end AferoVerif
