/-
  Executable model of zipfs/{fs,file}.go and tarfs/{fs,file}.go (property C14).

  An archive is a list of entries (name, isDir, bytes).  `zipBuild` / `tarBuild` mirror the two
  `New` functions: `splitpath`, the two-level map `files[dir][name]` (association lists with
  the map operations "lookup / insert-or-replace"), first entry wins in zipfs, last entry wins
  in tarfs, the tarfs pseudo-root stored under `files["/"][""]`.

  Handles mirror `zipfs.File` (the consumed prefix `buf` of a *sequential* decompressor,
  `fillBuffer`, `offset`) and `tarfs.File` (`bytes.Reader` semantics: its own position).
  Go slice expressions are explicit: an out-of-range bound gives the `panic` outcome.

  The model describes the *repaired* behaviour for four defects of the pinned tree:
    S7  tarfs.Fs.Open copied the File record but shared the *bytes.Reader (handles interfered;
        a second open read nothing) — here every open gets its own position;
    S8  zipfs.File.ReadAt sliced `f.buf[off:]` with `off > len(f.buf)` (panic beyond EOF) —
        here that case returns 0 bytes and the error of `fillBuffer` (io.EOF);
    S9  tarfs.New did not create the directory map of an explicit directory entry, so listing
        an empty directory gave ENOENT — here `tarAdd` ensures it (as zipfs always did);
    S22 zipfs.New did not create the map of the root, so listing the root of an archive
        without a top-level entry gave ENOENT — here the root map exists from the start.

  Outside the model (the engine answers `unmodelled`): `Stat/Name/Readdir/Readdirnames` on a
  handle after `Close` (tarfs dereferences a nil header there), negative `ReadAt` offsets
  (undefined for io.ReaderAt).
-/
import AferoVerif.Model.Path
import AferoVerif.Model.Script
namespace AferoVerif
namespace Archive

open Path

inductive Kind where
  | zip | tar
  deriving DecidableEq, Repr, Inhabited

structure Entry where
  name : Str
  isDir : Bool
  data : Bytes
  deriving DecidableEq, Repr, Inhabited

/-- outcome classes (messages are never compared) -/
inductive Err where
  | notexist | perm | eof | closed | isdir | notdir | range | inval
  deriving DecidableEq, Repr, Inhabited

def Err.tag : Err → String
  | .notexist => "notexist" | .perm => "perm" | .eof => "eof" | .closed => "closed"
  | .isdir => "isdir" | .notdir => "notdir" | .range => "range" | .inval => "inval"

/-! ### path splitting (identical in zipfs/fs.go:18 and tarfs/fs.go:20) -/

def root : Str := [sep]

/-- `splitpath`: prefix a separator, Clean, Split, Clean the directory part. -/
def splitpath (name : Str) : Str × Str :=
  let n1 := if name = [] ∨ name.head? ≠ some sep then sep :: name else name
  let df := splitDirFile (clean n1)
  (clean df.1, df.2)

/-- `filepath.Join(splitpath(name))`: what `File.Name()` returns -/
def joinSplit (name : Str) : Str := join2 (splitpath name).1 (splitpath name).2

/-! ### Go maps as association lists -/

/-- `m[k]` -/
def aget {β : Type} (k : Str) : List (Str × β) → Option β
  | [] => none
  | kv :: r => if kv.1 = k then some kv.2 else aget k r

/-- `m[k] = v` -/
def aset {β : Type} (k : Str) (v : β) : List (Str × β) → List (Str × β)
  | [] => [(k, v)]
  | kv :: r => if kv.1 = k then (k, v) :: r else kv :: aset k v r

def akeys {β : Type} (m : List (Str × β)) : List Str := m.map (·.1)

abbrev Dir := List (Str × Entry)
abbrev Files := List (Str × Dir)

/-- `if _, ok := fs.files[d]; !ok { fs.files[d] = make(map…) }` -/
def ensureDir (fs : Files) (d : Str) : Files :=
  if (aget d fs).isSome then fs else aset d [] fs

def dirOf (fs : Files) (d : Str) : Dir := (aget d fs).getD []

/-- `fs.files[d][f]` with both `ok` tests -/
def get2 (fs : Files) (d f : Str) : Option Entry :=
  match aget d fs with
  | none => none
  | some m => aget f m

/-- `fs.files[d][f] = e` (the map of `d` exists) -/
def setFile (fs : Files) (d f : Str) (e : Entry) : Files := aset d (aset f e (dirOf fs d)) fs

/-- one iteration of the loop of `zipfs.New` -/
def zipAdd (fs : Files) (e : Entry) : Files :=
  let df := splitpath e.name
  let fs1 := ensureDir fs df.1
  let fs2 := if (get2 fs1 df.1 df.2).isSome then fs1 else setFile fs1 df.1 df.2 e
  if e.isDir then ensureDir fs2 (join2 df.1 df.2) else fs2

/-- `zipfs.New` (root map present from the start: S22 repaired) -/
def zipBuild (arch : List Entry) : Files := arch.foldl zipAdd [(root, [])]

/-- one iteration of the loop of `tarfs.New` (directory map ensured: S9 repaired) -/
def tarAdd (fs : Files) (e : Entry) : Files :=
  let df := splitpath e.name
  let fs1 := ensureDir fs df.1
  let fs2 := setFile fs1 df.1 df.2 e
  if e.isDir then ensureDir fs2 (join2 df.1 df.2) else fs2

/-- the pseudo-root `&File{h: &tar.Header{Name: "/", Typeflag: TypeDir}}` -/
def tarRootEntry : Entry := { name := root, isDir := true, data := [] }

/-- `tarfs.New` -/
def tarBuild (arch : List Entry) : Files :=
  let fs := arch.foldl tarAdd []
  let fs1 := ensureDir fs root
  setFile fs1 root [] tarRootEntry

def build : Kind → List Entry → Files
  | .zip, arch => zipBuild arch
  | .tar, arch => tarBuild arch

/-! ### handles -/

structure H where
  /-- zipfs: `zipfile` (none = pseudo-root, or closed); tarfs: `h` (none after Close) -/
  ent : Option Entry := none
  /-- zipfs: field `isdir`; tarfs: unused -/
  isdir : Bool := false
  closed : Bool := false
  /-- zipfs: `offset`; tarfs: position of the `bytes.Reader` -/
  off : Nat := 0
  /-- zipfs: `buf`, everything read from the decompressor so far -/
  buf : Bytes := []
  deriving DecidableEq, Repr, Inhabited

inductive Res where
  | ok
  | err (e : Err)
  | handle (i : Nat)
  | info (name : Str) (size : Nat) (dir : Bool)
  | bytes (b : Bytes) (e : Option Err)
  | pos (p : Nat)
  | n (k : Nat) (e : Option Err)
  | infos (l : List (Str × Bool))
  | names (l : List Str)
  | str (s : Str)
  | panic
  | unmodelled
  deriving DecidableEq, Repr, Inhabited

/-- bytes `[off, off+len)` of the entry, clipped at the end -/
def slice (d : Bytes) (off len : Nat) : Bytes := (d.drop off).take len

/-- `FileInfo()` of an entry: base name, size, directory flag -/
def infoOf (e : Entry) : Res := .info (base e.name) e.data.length e.isDir

/-! #### zipfs.File -/

/-- `fillBuffer` (zipfs/file.go:21).  The decompressor is a sequential source of the entry's
    bytes; it has delivered exactly `buf` so far, so `io.ReadFull` continues at `buf.length`. -/
def fillBuffer (data buf : Bytes) (offset : Nat) : Bytes × Option Err :=
  let off' := if offset > data.length then data.length else offset
  let err : Option Err := if offset > data.length then some .eof else none
  if buf.length ≥ off' then (buf, err)
  else
    let got := (data.drop buf.length).take (off' - buf.length)     -- io.ReadFull(f.reader, buf)
    if got.length > 0 then (buf ++ got, err)
    else (buf, some .eof)                                           -- readErr

/-- `File.Read` (zipfs/file.go:54) -/
def zipRead (h : H) (n : Nat) : H × Res :=
  if h.isdir then (h, .bytes [] (some .isdir))
  else if h.closed then (h, .bytes [] (some .closed))
  else match h.ent with
    | none => (h, .panic)                                  -- nil zipfile
    | some e =>
      let r := fillBuffer e.data h.buf (h.off + n)
      if h.off > r.1.length then ({ h with buf := r.1 }, .panic)        -- f.buf[f.offset:]
      else
        let out := (r.1.drop h.off).take n                  -- copy(p, f.buf[f.offset:])
        ({ h with buf := r.1, off := h.off + out.length }, .bytes out r.2)

/-- `File.ReadAt` (zipfs/file.go:67, S8 repaired: an offset beyond the buffer reads nothing) -/
def zipReadAt (h : H) (n off : Nat) : H × Res :=
  if h.isdir then (h, .bytes [] (some .isdir))
  else if h.closed then (h, .bytes [] (some .closed))
  else match h.ent with
    | none => (h, .panic)
    | some e =>
      let r := fillBuffer e.data h.buf (off + n)
      if off > r.1.length then ({ h with buf := r.1 }, .bytes [] r.2)
      else ({ h with buf := r.1 }, .bytes ((r.1.drop off).take n) r.2)

/-- `File.Seek` (zipfs/file.go:80) -/
def zipSeek (h : H) (off : Int) (wh : Nat) : H × Res :=
  if h.isdir then (h, .err .isdir)
  else if h.closed then (h, .err .closed)
  else match h.ent with
    | none => (h, .panic)
    | some e =>
      let t : Option Int :=
        match wh with
        | 0 => some off
        | 1 => some (off + h.off)
        | 2 => some (off + e.data.length)
        | _ => none
      match t with
      | none => (h, .err .inval)
      | some t =>
        if t < 0 ∨ t > e.data.length then (h, .err .range)
        else ({ h with off := t.toNat }, .pos t.toNat)

/-! #### tarfs.File (bytes.Reader) -/

/-- `File.Read` (tarfs/file.go:33) over `bytes.Reader.Read` -/
def tarRead (h : H) (n : Nat) : H × Res :=
  if h.closed then (h, .bytes [] (some .closed))
  else match h.ent with
    | none => (h, .panic)
    | some e =>
      if e.isDir then (h, .bytes [] (some .isdir))
      else if h.off ≥ e.data.length then (h, .bytes [] (some .eof))
      else
        let out := (e.data.drop h.off).take n
        ({ h with off := h.off + out.length }, .bytes out none)

/-- `File.ReadAt` over `bytes.Reader.ReadAt` (offsets ≥ 0) -/
def tarReadAt (h : H) (n off : Nat) : H × Res :=
  if h.closed then (h, .bytes [] (some .closed))
  else match h.ent with
    | none => (h, .panic)
    | some e =>
      if e.isDir then (h, .bytes [] (some .isdir))
      else if off ≥ e.data.length then (h, .bytes [] (some .eof))
      else
        let out := (e.data.drop off).take n
        (h, .bytes out (if out.length < n then some .eof else none))

/-- `File.Seek` over `bytes.Reader.Seek` -/
def tarSeek (h : H) (off : Int) (wh : Nat) : H × Res :=
  if h.closed then (h, .err .closed)
  else match h.ent with
    | none => (h, .panic)
    | some e =>
      if e.isDir then (h, .err .isdir)
      else
        let t : Option Int :=
          match wh with
          | 0 => some off
          | 1 => some (h.off + off)
          | 2 => some (e.data.length + off)
          | _ => none
        match t with
        | none => (h, .err .inval)                 -- "invalid whence"
        | some t =>
          if t < 0 then (h, .err .inval)           -- "negative position"
          else ({ h with off := t.toNat }, .pos t.toNat)

/-! #### listings -/

def strLe : Str → Str → Bool
  | [], _ => true
  | _ :: _, [] => false
  | a :: as, b :: bs =>
    if a.toNat < b.toNat then true else if b.toNat < a.toNat then false else strLe as bs

/-- insertion into a name-ordered listing (structural, so that listings evaluate in proofs) -/
def insertBy (x : Str × Entry) : Dir → Dir
  | [] => [x]
  | y :: r => if strLe x.1 y.1 then x :: y :: r else y :: insertBy x r

/-- `sort.Strings` on the directory's names -/
def sortDir (m : Dir) : Dir := m.foldr insertBy []

/-- Go's `for … { append; if count > 0 && len >= count { break } }` -/
def takeCount {α : Type} (l : List α) (count : Int) : List α :=
  if count > 0 then l.take count.toNat else l

/-- the entries a listing of directory `name` shows: the map of that directory, without the
    tarfs pseudo-root key "" (`if n == "" { continue }`), in name order -/
def listDir (fs : Files) (name : Str) : Option Dir :=
  match aget name fs with
  | none => none
  | some m => some (sortDir (m.filter fun kv => kv.1 ≠ []))

/-- `File.Name()` -/
def hName (k : Kind) (h : H) : Res :=
  match h.ent with
  | none => (match k with | .zip => .str root | .tar => .panic)
  | some e => .str (joinSplit e.name)

/-- `File.Stat()` -/
def hStat (k : Kind) (h : H) : Res :=
  match h.ent with
  | none => (match k with | .zip => .info root 0 true | .tar => .panic)
  | some e => infoOf e

def baseInfo (kv : Str × Entry) : Str × Bool :=
  match infoOf kv.2 with
  | .info nm _ d => (nm, d)
  | _ => ([], false)

/-- directory name a handle lists (`f.Name()`), or the error -/
def hDirName (k : Kind) (h : H) : Except Err Str :=
  match k with
  | .zip =>
    if !h.isdir then .error .notdir
    else match h.ent with
      | none => .ok root
      | some e => .ok (joinSplit e.name)
  | .tar =>
    match h.ent with
    | none => .error .closed
    | some e => if !e.isDir then .error .notdir else .ok (joinSplit e.name)

/-- `File.Readdir(count)`; zipfs iterates its map in random order, the model lists in name
    order (for `count > 0` only the *number* of entries is compared for zipfs). -/
def hReaddir (k : Kind) (fs : Files) (h : H) (count : Int) : Res :=
  match hDirName k h with
  | .error e => .err e
  | .ok name =>
    match listDir fs name with
    | none => .err .notexist
    | some m => .infos (takeCount (m.map baseInfo) count)

/-- `File.Readdirnames(count)`: zipfs returns the map keys, tarfs `FileInfo.Name()` -/
def hReaddirnames (k : Kind) (fs : Files) (h : H) (count : Int) : Res :=
  match hDirName k h with
  | .error e => .err e
  | .ok name =>
    match listDir fs name with
    | none => .err .notexist
    | some m =>
      match k with
      | .zip => .names (takeCount (m.map (·.1)) count)
      | .tar => .names (takeCount (m.map fun kv => (baseInfo kv).1) count)

/-! ### operations -/

inductive HOp where
  | read (n : Nat)
  | readAt (n : Nat) (off : Nat)
  | seek (off : Int) (wh : Nat)
  | close
  | readdir (count : Int)
  | readdirnames (count : Int)
  | stat
  | name
  | sync
  | write (b : Bytes)
  | writeAt (b : Bytes) (off : Int)
  | writeString (b : Bytes)
  | truncate (size : Int)
  deriving DecidableEq, Repr, Inhabited

inductive FsMut where
  | create | mkdir | mkdirAll | remove | removeAll | rename | chmod | chown | chtimes
  deriving DecidableEq, Repr, Inhabited

inductive Op where
  | stat (p : Str)
  | open (p : Str)
  | openFile (p : Str) (flag : Int)
  | fsMut (m : FsMut) (p q : Str)
  | h (i : Nat) (op : HOp)
  deriving DecidableEq, Repr, Inhabited

/-- one call on a handle -/
def hstep (k : Kind) (fs : Files) (h : H) : HOp → H × Res
  | .read n => (match k with | .zip => zipRead h n | .tar => tarRead h n)
  | .readAt n off => (match k with | .zip => zipReadAt h n off | .tar => tarReadAt h n off)
  | .seek off wh => (match k with | .zip => zipSeek h off wh | .tar => tarSeek h off wh)
  | .close =>
    (match k with
     | .zip => ({ h with ent := none, closed := true, buf := [] }, .ok)
     | .tar => if h.closed then (h, .err .closed) else ({ h with ent := none, closed := true }, .ok))
  | .readdir c => if h.closed then (h, .unmodelled) else (h, hReaddir k fs h c)
  | .readdirnames c => if h.closed then (h, .unmodelled) else (h, hReaddirnames k fs h c)
  | .stat => if h.closed then (h, .unmodelled) else (h, hStat k h)
  | .name => if h.closed then (h, .unmodelled) else (h, hName k h)
  | .sync => (h, .ok)
  | .write _ => (h, .n 0 (some .perm))
  | .writeAt _ _ => (h, .n 0 (some .perm))
  | .writeString _ => (h, .n 0 (some .perm))
  | .truncate _ => (h, .err .perm)

/-- the handle `Open` returns for an entry -/
def fresh (k : Kind) (e : Entry) : H :=
  match k with
  | .zip => { ent := some e, isdir := e.isDir }
  | .tar => { ent := some e }

/-- `Fs.Open`: the handle, or ENOENT -/
def openH (k : Kind) (fs : Files) (p : Str) : Option H :=
  let df := splitpath p
  match k with
  | .zip =>
    if df.2 = [] then some { ent := none, isdir := true }
    else (get2 fs df.1 df.2).map (fresh .zip)
  | .tar => (get2 fs df.1 df.2).map (fresh .tar)

/-- `Fs.Stat` -/
def statFs (k : Kind) (fs : Files) (p : Str) : Res :=
  let df := splitpath p
  match k with
  | .zip =>
    if df.2 = [] then .info root 0 true
    else (match get2 fs df.1 df.2 with | none => .err .notexist | some e => infoOf e)
  | .tar => (match get2 fs df.1 df.2 with | none => .err .notexist | some e => infoOf e)

structure St where
  kind : Kind := .zip
  files : Files := []
  hs : List H := []
  deriving Repr, Inhabited

def openFs (s : St) (p : Str) : St × Res :=
  match openH s.kind s.files p with
  | none => (s, .err .notexist)
  | some h => ({ s with hs := s.hs ++ [h] }, .handle s.hs.length)

def step (s : St) : Op → St × Res
  | .stat p => (s, statFs s.kind s.files p)
  | .open p => openFs s p
  | .openFile p flag => if flag ≠ 0 then (s, .err .perm) else openFs s p
  | .fsMut _ _ _ => (s, .err .perm)
  | .h i op =>
    match s.hs[i]? with
    | none => (s, .err .inval)                 -- no such handle: not a call
    | some h =>
      let r := hstep s.kind s.files h op
      ({ s with hs := s.hs.set i r.1 }, r.2)

def init (k : Kind) (arch : List Entry) : St := { kind := k, files := build k arch, hs := [] }

/-- run a program, collecting the results -/
def run : St → List Op → St × List Res
  | s, [] => (s, [])
  | s, op :: ops =>
    let r := step s op
    let r2 := run r.1 ops
    (r2.1, r.2 :: r2.2)

/-- run a program of calls on one handle -/
def runH (k : Kind) (fs : Files) : H → List HOp → H × List Res
  | h, [] => (h, [])
  | h, op :: ops =>
    let r := hstep k fs h op
    let r2 := runH k fs r.1 ops
    (r2.1, r.2 :: r2.2)

/-! ### flat specification of handle I/O on a regular entry

  One byte list `d` and one position; every read returns `slice d pos n`.  The two
  back-ends differ only in when they attach `io.EOF` and in whether a position beyond the
  end can be set. -/

def flatStep (k : Kind) (d : Bytes) (pos : Nat) : HOp → Nat × Res
  | .read n =>
    let out := slice d pos n
    (pos + out.length, .bytes out
      (match k with
       | .zip => if pos + n > d.length then some .eof else none
       | .tar => if pos ≥ d.length then some .eof else none))
  | .readAt n off =>
    let out := slice d off n
    (pos, .bytes out
      (match k with
       | .zip => if off + n > d.length then some .eof else none
       | .tar => if off ≥ d.length ∨ out.length < n then some .eof else none))
  | .seek off wh =>
    let t : Option Int :=
      match wh with
      | 0 => some off
      | 1 => some (off + pos)
      | 2 => some (off + d.length)
      | _ => none
    (match t with
     | none => (pos, .err .inval)
     | some t =>
       match k with
       | .zip => if t < 0 ∨ t > d.length then (pos, .err .range) else (t.toNat, .pos t.toNat)
       | .tar => if t < 0 then (pos, .err .inval) else (t.toNat, .pos t.toNat))
  | .sync => (pos, .ok)
  | .write _ => (pos, .n 0 (some .perm))
  | .writeAt _ _ => (pos, .n 0 (some .perm))
  | .writeString _ => (pos, .n 0 (some .perm))
  | .truncate _ => (pos, .err .perm)
  | _ => (pos, .unmodelled)

def runFlat (k : Kind) (d : Bytes) : Nat → List HOp → Nat × List Res
  | pos, [] => (pos, [])
  | pos, op :: ops =>
    let r := flatStep k d pos op
    let r2 := runFlat k d r.1 ops
    (r2.1, r.2 :: r2.2)

/-- the calls the flat specification covers -/
def HOp.isIO : HOp → Bool
  | .read _ | .readAt _ _ | .seek _ _ | .sync | .write _ | .writeAt _ _ | .writeString _ | .truncate _ => true
  | _ => false

/-- the mutating calls of `afero.File` -/
def HOp.isMutator : HOp → Bool
  | .write _ | .writeAt _ _ | .writeString _ | .truncate _ => true
  | _ => false

/-- the mutating calls of `afero.Fs` (`OpenFile` with any flag but `O_RDONLY` counts) and of
    its handles -/
def Op.isMutator : Op → Bool
  | .fsMut _ _ _ => true
  | .openFile _ flag => flag ≠ 0
  | .h _ o => o.isMutator
  | _ => false

end Archive
end AferoVerif
