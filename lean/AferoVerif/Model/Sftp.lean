/-
  Property C19 — model of sftpfs (sftpfs/sftp.go, sftpfs/file.go) over a modelled SFTP server.

  Two layers, kept apart on purpose:

  * `Sftp.Srv…` / `Sftp.client…` — the **trusted** part: what `github.com/pkg/sftp` (client
    library + request server + its in-memory backend `InMemHandler`, plus the harness shim that
    answers SETSTAT on a directory with OK and refuses negative sizes/offsets) does with a
    request.  Flat name table (cleaned rooted name ↦ entry), a heap of regular-file contents
    (handles keep the *object* across rename and remove), per-handle client-side offset.
    File contents follow the flat byte-array specification of C02 (`readS`, `writeS`, `truncS`).
    This layer is modelled from the library's source, *not verified*; the correspondence run
    compares it with the real library on every case.
  * `Sftp.fs…` / `Sftp.file…` — sftpfs itself, transcribed method by method: every `Fs` and `File`
    method as the delegation the source performs, `File.WriteAt` as repaired (delegates to the
    client's `WriteAt`), `Fs.Mkdir` = MKDIR then SETSTAT, `Fs.MkdirAll` with its backward scan
    over the path string (as repaired: an existing non-directory is an error).
-/
import AferoVerif.Model.Script
import AferoVerif.Model.Path
import AferoVerif.Model.MemFile
namespace AferoVerif
namespace Sftp
open AferoVerif.Path

/-- the name the server works with: `cleanPathWithBase("/", p)`, as its list of segments
    (the root is `[]`) -/
abbrev Key := List Seg

def keyOf (p : Str) : Key := cleanSegs true (split p)

inductive Ent where
  | dir
  | file (id : Nat)
  deriving DecidableEq, Repr, Inhabited

/-- error classes a caller can tell apart (messages are never compared) -/
inductive SErr where
  | notexist   -- SSH_FX_NO_SUCH_FILE → os.ErrNotExist
  | fail       -- SSH_FX_FAILURE and every other failure
  | eof        -- io.EOF
  | closed     -- os.ErrClosed (client side)
  | inval      -- os.ErrInvalid (client side: negative seek target)
  deriving DecidableEq, Repr, Inhabited

def SErr.tag : SErr → String
  | .notexist => "notexist" | .fail => "fail" | .eof => "eof" | .closed => "closed" | .inval => "inval"

structure SHandle where
  obj : Nat            -- the server-side object the handle is bound to
  key : Key            -- the name it was opened under (FSTAT / FSETSTAT go by name on this server)
  pos : Nat := 0       -- client-side offset (`sftp.File.offset`, never negative)
  rd : Bool
  wr : Bool
  closed : Bool := false
  deriving DecidableEq, Repr, Inhabited

structure Srv where
  files : List Bytes := []           -- heap of regular-file contents, indexed by object id
  names : List (Key × Ent) := []     -- the backend's flat name table; the root is implicit
  hs : List SHandle := []            -- handles handed out to sftpfs, in order
  chmods : List (Key × Nat) := []    -- log of the permission changes the server was asked for
                                     -- (the backend stores no modes; the log keeps `Mkdir`'s and
                                     -- `OpenFile`'s trailing Chmod observable)
  deriving Repr, Inhabited

def findEnt : List (Key × Ent) → Key → Option Ent
  | [], _ => none
  | ke :: rest, k => if ke.1 = k then some ke.2 else findEnt rest k

/-- `root.fetch` (no symbolic links in the driven domain) -/
def lookup (s : Srv) (k : Key) : Option Ent := if k = [] then some .dir else findEnt s.names k

def content (s : Srv) (id : Nat) : Bytes := (s.files[id]?).getD []

/-! ### the backend (request-example.go), trusted -/

/-- `root.canonName`: the directory part of the name must be an existing directory -/
def parentErr (s : Srv) (k : Key) : Option SErr :=
  match lookup s k.dropLast with
  | none => some .notexist
  | some (.file _) => some .fail        -- ENOTDIR
  | some .dir => none

structure PFlags where
  read : Bool
  write : Bool
  creat : Bool
  excl : Bool
  trunc : Bool
  append : Bool := false     -- SSH_FXF_APPEND: the request server takes it as a wish to write, nothing more
  deriving DecidableEq, Repr, Inhabited

/-- result of an open on the server: new state, error or object id -/
structure OpenRes where
  st : Srv
  err : Option SErr
  id : Nat
  deriving Repr, Inhabited

/-- `root.openfile` -/
def srvOpenfile (s : Srv) (k : Key) (f : PFlags) : OpenRes :=
  match lookup s k with
  | none =>
    if !f.creat then ⟨s, some .notexist, 0⟩
    else match parentErr s k with
      | some e => ⟨s, some e, 0⟩
      | none => ⟨{ s with files := s.files ++ [[]], names := (k, .file s.files.length) :: s.names }, none, s.files.length⟩
  | some .dir => ⟨s, some .fail, 0⟩          -- ErrExist (creat+excl) or ErrInvalid: both SSH_FX_FAILURE
  | some (.file id) =>
    if f.creat && f.excl then ⟨s, some .fail, 0⟩
    else if f.trunc then ⟨{ s with files := s.files.set id [] }, none, id⟩
    else ⟨s, none, id⟩

/-- SETSTAT by name with a size (`Filecmd "Setstat"` behind the shim) -/
def srvSetSize (s : Srv) (k : Key) (n : Int) : Srv × Option SErr :=
  if n < 0 then (s, some .fail)
  else match lookup s k with
    | none => (s, some .notexist)
    | some .dir => (s, none)
    | some (.file id) => ({ s with files := s.files.set id (truncS (content s id) n.toNat) }, none)

/-- SETSTAT by name with permission bits: accepted for anything that exists, recorded, not stored -/
def srvChmod (s : Srv) (k : Key) (perm : Nat) : Srv × Option SErr :=
  match lookup s k with
  | none => (s, some .notexist)
  | some _ => ({ s with chmods := s.chmods ++ [(k, perm)] }, none)

/-- `root.mkdir` = `putfile` of a directory -/
def srvMkdir (s : Srv) (k : Key) : Srv × Option SErr :=
  match parentErr s k with
  | some e => (s, some e)
  | none =>
    match lookup s k with
    | some _ => (s, some .fail)            -- ErrExist
    | none => ({ s with names := (k, .dir) :: s.names }, none)

def eraseKey : List (Key × Ent) → Key → List (Key × Ent)
  | [], _ => []
  | ke :: rest, k => if ke.1 = k then eraseKey rest k else ke :: eraseKey rest k

def hasChild (ns : List (Key × Ent)) (k : Key) : Bool := ns.any fun ke => ke.1 ≠ [] ∧ ke.1.dropLast = k

/-- `Client.Remove`: REMOVE (`root.unlink`), and RMDIR (`root.rmdir`) when that fails with
    SSH_FX_FAILURE, which is what `unlink` answers for a directory -/
def clientRemove (s : Srv) (k : Key) : Srv × Option SErr :=
  match lookup s k with
  | none => (s, some .notexist)
  | some (.file _) => ({ s with names := eraseKey s.names k }, none)
  | some .dir =>
    if hasChild s.names k then (s, some .fail)         -- "directory not empty"
    else ({ s with names := eraseKey s.names k }, none)

/-- the image of a name below `a` when `a` becomes `b` -/
def moveKey (a b k : Key) : Key := b ++ k.drop a.length

/-- does the entry named `k` move when `a` is renamed? the entry itself, and for a directory
    every entry below it -/
def moves (a : Key) (isDir : Bool) (k : Key) : Bool := k == a || (isDir && a.isPrefixOf k)

def renameEntry (a b : Key) (isDir : Bool) (ke : Key × Ent) : Key × Ent :=
  if moves a isDir ke.1 then (moveKey a b ke.1, ke.2) else ke

def renameNames (ns : List (Key × Ent)) (a b : Key) (isDir : Bool) : List (Key × Ent) :=
  ns.map (renameEntry a b isDir)

/-- `Client.Rename` = `Filecmd "Rename"`: refused when the target exists (SFTP v3), then
    `root.rename`: the entry, and for a directory every entry below it, moves -/
def clientRename (s : Srv) (a b : Key) : Srv × Option SErr :=
  if (parentErr s b).isNone && (lookup s b).isSome then (s, some .fail)     -- ErrExist
  else match lookup s a with
    | none => (s, some .notexist)
    | some e =>
      match parentErr s b with
      | some er => (s, some er)
      | none => ({ s with names := renameNames s.names a b (e == .dir) }, none)

structure Info where
  size : Nat
  dir : Bool
  deriving DecidableEq, Repr, Inhabited

/-- STAT / LSTAT / FSTAT: by name -/
def srvStat (s : Srv) (k : Key) : Except SErr Info :=
  match lookup s k with
  | none => .error .notexist
  | some .dir => .ok ⟨0, true⟩
  | some (.file id) => .ok ⟨(content s id).length, false⟩

/-- `memFile.ReadAt` as seen through `sftp.File.readAt` (the client loops until the buffer is full
    or the server reports EOF): the bytes the file holds there, EOF iff fewer than asked for -/
def srvReadAt (d : Bytes) (off len : Nat) : Bytes × Option SErr :=
  let r := readS d off len
  (r, if r.length < len then some .eof else none)

/-! ### the client library (client.go), trusted -/

/-- `toPflags` for Go's `os` flag integers (linux): access mode in the low two bits,
    O_CREATE = 0x40, O_EXCL = 0x80, O_TRUNC = 0x200 -/
def pflagsOf (flag : Nat) : PFlags :=
  { read := flag % 4 == 0 || flag % 4 == 2, write := flag % 4 == 1 || flag % 4 == 2,
    creat := flag.testBit 6, excl := flag.testBit 7, trunc := flag.testBit 9, append := flag.testBit 10 }

/-- flags the correspondence drives: access mode 0, 1 or 2, any of O_CREATE, O_EXCL, O_TRUNC, and
    O_APPEND (which sftpfs hands on and the request server ignores: the handle starts at offset 0
    like any other) -/
def flagInDomain (flag : Nat) : Bool :=
  flag % 4 != 3 && flag < 2048 && (flag / 4) % 16 == 0 && !flag.testBit 8

/-- `Client.open`: a handle that the request server treats as read-write ("Open"), write-only
    ("Put") or read-only ("Get") according to the flags -/
def clientOpen (s : Srv) (k : Key) (f : PFlags) : Srv × Option SErr :=
  let r := srvOpenfile s k f
  match r.err with
  | some e => (r.st, some e)
  | none =>
    let h : SHandle := { obj := r.id, key := k, rd := f.read, wr := f.write || f.creat || f.trunc || f.append }
    ({ r.st with hs := r.st.hs ++ [h] }, none)

/-- result of a handle call -/
inductive HOut where
  | ok
  | err (e : SErr)
  | n (k : Nat) (e : Option SErr)
  | bytes (b : Bytes) (e : Option SErr)
  | pos (p : Nat)
  | info (i : Info)
  | undef            -- outside the modelled domain (a read on a write-only handle)
  | nohandle
  deriving DecidableEq, Repr, Inhabited

def setH (s : Srv) (i : Nat) (h : SHandle) : Srv := { s with hs := s.hs.set i h }

/-- `sftp.File.writeAt` at a non-negative offset through a given handle -/
def clientWriteAt (s : Srv) (h : SHandle) (b : Bytes) (off : Nat) : Srv × Nat × Option SErr :=
  if h.wr then ({ s with files := s.files.set h.obj (writeS (content s h.obj) off b) }, b.length, none)
  else (s, 0, some .fail)       -- a read-only handle: the server answers with an error, nothing is stored

/-- `sftp.File.Write` -/
def clientWrite (s : Srv) (i : Nat) (b : Bytes) : Srv × HOut :=
  match s.hs[i]? with
  | none => (s, .nohandle)
  | some h =>
    if h.closed then (s, .n 0 (some .closed))
    else
      let r := clientWriteAt s h b h.pos
      (setH r.1 i { h with pos := h.pos + r.2.1 }, .n r.2.1 r.2.2)

/-- `sftp.File.WriteAt` (the offset travels as uint64; the server refuses it when negative) -/
def clientWriteAtH (s : Srv) (i : Nat) (b : Bytes) (off : Int) : Srv × HOut :=
  match s.hs[i]? with
  | none => (s, .nohandle)
  | some h =>
    if h.closed then (s, .n 0 (some .closed))
    else if off < 0 then (s, .n 0 (some .fail))
    else
      let r := clientWriteAt s h b off.toNat
      (r.1, .n r.2.1 r.2.2)

/-- `sftp.File.Read` -/
def clientRead (s : Srv) (i : Nat) (len : Nat) : Srv × HOut :=
  match s.hs[i]? with
  | none => (s, .nohandle)
  | some h =>
    if !h.rd then (s, .undef)
    else if h.closed then (s, .bytes [] (some .closed))
    else
      let r := srvReadAt (content s h.obj) h.pos len
      (setH s i { h with pos := h.pos + r.1.length }, .bytes r.1 r.2)

/-- `sftp.File.ReadAt` -/
def clientReadAt (s : Srv) (i : Nat) (len : Nat) (off : Int) : Srv × HOut :=
  match s.hs[i]? with
  | none => (s, .nohandle)
  | some h =>
    if !h.rd then (s, .undef)
    else if h.closed then (s, .bytes [] (some .closed))
    else if len = 0 then (s, .bytes [] none)                  -- no request is sent at all
    else if off < 0 then (s, .bytes [] (some .fail))           -- memFile.ReadAt: negative offset
    else
      let r := srvReadAt (content s h.obj) off.toNat len
      (s, .bytes r.1 r.2)

/-- `sftp.File.Seek`; `SeekEnd` asks the server for the size (FSTAT, by name) -/
def clientSeek (s : Srv) (i : Nat) (off : Int) (whence : Nat) : Srv × HOut :=
  match s.hs[i]? with
  | none => (s, .nohandle)
  | some h =>
    if h.closed then (s, .err .closed)
    else
      let target : Except SErr Int :=
        match whence with
        | 0 => .ok off
        | 1 => .ok (h.pos + off)
        | 2 => match srvStat s h.key with
               | .error e => .error e
               | .ok i => .ok (i.size + off)
        | _ => .error .fail          -- unimplemented whence
      match target with
      | .error e => (s, .err e)
      | .ok t => if t < 0 then (s, .err .inval) else (setH s i { h with pos := t.toNat }, .pos t.toNat)

/-- `sftp.File.Truncate` = FSETSTAT with a size, which this server applies by name -/
def clientTruncate (s : Srv) (i : Nat) (size : Int) : Srv × HOut :=
  match s.hs[i]? with
  | none => (s, .nohandle)
  | some h =>
    if h.closed then (s, .err .closed)
    else
      let r := srvSetSize s h.key size
      match r.2 with
      | some e => (r.1, .err e)
      | none => (r.1, .ok)

/-- `sftp.File.Stat` = FSTAT, by name -/
def clientFstat (s : Srv) (i : Nat) : Srv × HOut :=
  match s.hs[i]? with
  | none => (s, .nohandle)
  | some h =>
    if h.closed then (s, .err .closed)
    else match srvStat s h.key with
      | .error e => (s, .err e)
      | .ok inf => (s, .info inf)

/-- `sftp.File.Close` -/
def clientClose (s : Srv) (i : Nat) : Srv × HOut :=
  match s.hs[i]? with
  | none => (s, .nohandle)
  | some h =>
    if h.closed then (s, .err .closed)
    else (setH s i { h with closed := true }, .ok)

/-! ### sftpfs/file.go — every method is the client's -/

def fileWrite (s : Srv) (i : Nat) (b : Bytes) : Srv × HOut := clientWrite s i b
/-- `File.WriteString`: `f.fd.Write([]byte(s))` -/
def fileWriteString (s : Srv) (i : Nat) (b : Bytes) : Srv × HOut := clientWrite s i b
/-- `File.WriteAt`, as repaired: `f.fd.WriteAt(b, off)` -/
def fileWriteAt (s : Srv) (i : Nat) (b : Bytes) (off : Int) : Srv × HOut := clientWriteAtH s i b off
/-- `File.WriteAt` as the pinned source has it (`return 0, nil`): nothing stored, nothing reported -/
def fileWriteAtAsIs (s : Srv) (_i : Nat) (_b : Bytes) (_off : Int) : Srv × HOut := (s, .n 0 none)
def fileRead (s : Srv) (i : Nat) (len : Nat) : Srv × HOut := clientRead s i len
def fileReadAt (s : Srv) (i : Nat) (len : Nat) (off : Int) : Srv × HOut := clientReadAt s i len off
def fileSeek (s : Srv) (i : Nat) (off : Int) (whence : Nat) : Srv × HOut := clientSeek s i off whence
def fileTruncate (s : Srv) (i : Nat) (size : Int) : Srv × HOut := clientTruncate s i size
def fileStat (s : Srv) (i : Nat) : Srv × HOut := clientFstat s i
def fileClose (s : Srv) (i : Nat) : Srv × HOut := clientClose s i

/-! ### sftpfs/sftp.go -/

/-- `Fs.Create` → `Client.Create` = open with O_RDWR|O_CREATE|O_TRUNC -/
def fsCreate (s : Srv) (p : Str) : Srv × Option SErr :=
  clientOpen s (keyOf p) { read := true, write := true, creat := true, excl := false, trunc := true }

/-- `Fs.Open` → `Client.Open` -/
def fsOpen (s : Srv) (p : Str) : Srv × Option SErr :=
  clientOpen s (keyOf p) { read := true, write := false, creat := false, excl := false, trunc := false }

/-- `Fs.OpenFile`: `Client.OpenFile`, then `Chmod` through the new handle (FSETSTAT by name) -/
def fsOpenFile (s : Srv) (p : Str) (flag : Nat) (perm : Nat) : Srv × Option SErr :=
  let r := clientOpen s (keyOf p) (pflagsOf flag)
  match r.2 with
  | some e => (r.1, some e)
  | none => srvChmod r.1 (keyOf p) perm

/-- `Fs.Mkdir`: MKDIR, then `Chmod` (SETSTAT) -/
def fsMkdir (s : Srv) (p : Str) (perm : Nat) : Srv × Option SErr :=
  let r := srvMkdir s (keyOf p)
  match r.2 with
  | some e => (r.1, some e)
  | none => srvChmod r.1 (keyOf p) perm

def fsStat (s : Srv) (p : Str) : Except SErr Info := srvStat s (keyOf p)
def fsRemove (s : Srv) (p : Str) : Srv × Option SErr := clientRemove s (keyOf p)
def fsRename (s : Srv) (a b : Str) : Srv × Option SErr := clientRename s (keyOf a) (keyOf b)

/-- length of `path` without its trailing separators (`i` in the source) -/
def scanI (path : Str) : Nat := path.length - (path.reverse.takeWhile (· = sep)).length

/-- start of the last element of `path[0:i]` (`j` in the source) -/
def scanJ (path : Str) : Nat :=
  let i := scanI path
  i - ((path.take i).reverse.takeWhile (· ≠ sep)).length

/-- `Fs.MkdirAll` (as repaired).  `fuel` bounds the recursion on the parent string, which is
    strictly shorter than `path`. -/
def mkdirAllAux (perm : Nat) : Nat → Srv → Str → Srv × Option SErr
  | 0, s, _ => (s, some .fail)
  | fuel + 1, s, path =>
    -- fast path
    match fsStat s path with
    | .ok inf => if inf.dir then (s, none) else (s, some .fail)     -- ENOTDIR (the pinned source returns nil here)
    | .error _ =>
      -- slow path: make sure the parent exists, then Mkdir
      let j := scanJ path
      let rp : Srv × Option SErr := if j > 1 then mkdirAllAux perm fuel s (path.take (j - 1)) else (s, none)
      match rp.2 with
      | some e => (rp.1, some e)
      | none =>
        let rm := fsMkdir rp.1 path perm
        match rm.2 with
        | none => (rm.1, none)
        | some e =>
          -- "foo/.": double-check that the directory does not exist
          match fsStat rm.1 path with
          | .ok inf => if inf.dir then (rm.1, none) else (rm.1, some e)
          | .error _ => (rm.1, some e)

def fsMkdirAll (s : Srv) (p : Str) (perm : Nat) : Srv × Option SErr := mkdirAllAux perm (p.length + 1) s p

/-! ### one script step -/

inductive SOp where
  | create (p : Str) | open_ (p : Str) | openFile (p : Str) (flag : Nat) (perm : Nat)
  | mkdir (p : Str) (perm : Nat) | mkdirAll (p : Str) (perm : Nat) | remove (p : Str) | rename (a b : Str) | stat (p : Str)
  | write (h : Nat) (b : Bytes) | writeString (h : Nat) (b : Bytes) | writeAt (h : Nat) (b : Bytes) (off : Int)
  | read (h : Nat) (len : Nat) | readAt (h : Nat) (len : Nat) (off : Int)
  | seek (h : Nat) (off : Int) (whence : Nat) | trunc (h : Nat) (size : Int) | hstat (h : Nat) | close (h : Nat)
  deriving Repr, Inhabited

inductive SRes where
  | fs (e : Option SErr)            -- Fs-level call: nil or error
  | info (r : Except SErr Info)
  | h (o : HOut)
  deriving Repr, Inhabited

def step (s : Srv) (op : SOp) : Srv × SRes :=
  match op with
  | .create p => let r := fsCreate s p; (r.1, .fs r.2)
  | .open_ p => let r := fsOpen s p; (r.1, .fs r.2)
  | .openFile p f perm => let r := fsOpenFile s p f perm; (r.1, .fs r.2)
  | .mkdir p perm => let r := fsMkdir s p perm; (r.1, .fs r.2)
  | .mkdirAll p perm => let r := fsMkdirAll s p perm; (r.1, .fs r.2)
  | .remove p => let r := fsRemove s p; (r.1, .fs r.2)
  | .rename a b => let r := fsRename s a b; (r.1, .fs r.2)
  | .stat p => (s, .info (fsStat s p))
  | .write i b => let r := fileWrite s i b; (r.1, .h r.2)
  | .writeString i b => let r := fileWriteString s i b; (r.1, .h r.2)
  | .writeAt i b off => let r := fileWriteAt s i b off; (r.1, .h r.2)
  | .read i n => let r := fileRead s i n; (r.1, .h r.2)
  | .readAt i n off => let r := fileReadAt s i n off; (r.1, .h r.2)
  | .seek i off wh => let r := fileSeek s i off wh; (r.1, .h r.2)
  | .trunc i n => let r := fileTruncate s i n; (r.1, .h r.2)
  | .hstat i => let r := fileStat s i; (r.1, .h r.2)
  | .close i => let r := fileClose s i; (r.1, .h r.2)

def run : Srv → List SOp → Srv
  | s, [] => s
  | s, op :: ops => run (step s op).1 ops

end Sftp
end AferoVerif
