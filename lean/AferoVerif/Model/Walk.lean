/-
  Models of afero.Walk (path.go, as repaired: a SkipDir that reaches the top is not an error) and of
  path/filepath.Walk (Go 1.23), over a directory tree whose children are kept in lexical order
  (both implementations sort the names they read), with a callback that may depend on the whole
  history of visits.  `SkipAll` (Go 1.20) is the reserved error code 0: an ordinary error inside
  the walk, turned into success at the top by both implementations.
-/
import AferoVerif.Model.Path
namespace AferoVerif.Walk
open AferoVerif

mutual
inductive Tree where
  | file (name : Str)
  | dir (name : Str) (kids : Forest)
inductive Forest where
  | nil
  | cons (t : Tree) (rest : Forest)
end

def Tree.name : Tree → Str
  | .file n => n
  | .dir n _ => n

def Tree.isDir : Tree → Bool
  | .file _ => false
  | .dir _ _ => true

/-- what the callback answers -/
inductive Action where
  | continue_ | skipDir | error (code : Nat)
  deriving DecidableEq, Repr

/-- outcome of a (sub)walk -/
inductive Outcome where
  | ok | skipDir | error (code : Nat)
  deriving DecidableEq, Repr

abbrev Visit := Str × Bool       -- path, isDir
/-- the callback: sees everything visited so far, the path and the directory flag -/
abbrev Callback := List Visit → Str → Bool → Action

def joinPath (dir name : Str) : Str := Path.join2 dir name

structure R where
  visits : List Visit
  out : Outcome

def actOut : Action → Outcome
  | .continue_ => .ok | .skipDir => .skipDir | .error c => .error c

mutual
/-- afero's `walk` -/
def walkA (cb : Callback) (path : Str) (vs : List Visit) : Tree → R
  | .file _ =>
    let vs' := vs ++ [(path, false)]
    match cb vs path false with
    | .continue_ => ⟨vs', .ok⟩
    | .skipDir => ⟨vs', .skipDir⟩          -- a file: SkipDir is handed to the parent
    | .error c => ⟨vs', .error c⟩
  | .dir _ kids =>
    let vs' := vs ++ [(path, true)]
    match cb vs path true with
    | .error c => ⟨vs', .error c⟩
    | .skipDir => ⟨vs', .ok⟩               -- a directory: skipped, not an error
    | .continue_ => walkAF cb path vs' kids
def walkAF (cb : Callback) (dir : Str) (vs : List Visit) : Forest → R
  | .nil => ⟨vs, .ok⟩
  | .cons t rest =>
    let r := walkA cb (joinPath dir t.name) vs t
    match r.out with
    | .ok => walkAF cb dir r.visits rest
    | .skipDir => if t.isDir then walkAF cb dir r.visits rest else ⟨r.visits, .skipDir⟩
    | .error c => ⟨r.visits, .error c⟩
end

mutual
/-- path/filepath's `walk` -/
def walkS (cb : Callback) (path : Str) (vs : List Visit) : Tree → R
  | .file _ => ⟨vs ++ [(path, false)], actOut (cb vs path false)⟩
  | .dir _ kids =>
    let vs' := vs ++ [(path, true)]
    match cb vs path true with
    | .continue_ => walkSF cb path vs' kids
    | a => ⟨vs', actOut a⟩                  -- SkipDir is handled by the caller
def walkSF (cb : Callback) (dir : Str) (vs : List Visit) : Forest → R
  | .nil => ⟨vs, .ok⟩
  | .cons t rest =>
    let r := walkS cb (joinPath dir t.name) vs t
    match r.out with
    | .ok => walkSF cb dir r.visits rest
    | .skipDir => if t.isDir then walkSF cb dir r.visits rest else ⟨r.visits, .skipDir⟩
    | .error c => ⟨r.visits, .error c⟩
end

/-- the callback's `filepath.SkipAll`: inside both walks it is an error like any other (it is not
    tested for, it travels up); it is modelled as the reserved error code 0 -/
def Action.skipAll : Action := .error 0

/-- top level: a SkipDir — or a SkipAll — that reaches the top is not an error -/
def topOut : Outcome → Outcome
  | .skipDir => .ok
  | .error 0 => .ok
  | o => o
def top (r : R) : R := ⟨r.visits, topOut r.out⟩

/-- `Walk(fs, root, fn)`; `none` = the root does not exist: the callback is told, once -/
def WalkA (cb : Callback) (root : Str) (t : Option Tree) : R :=
  match t with
  | none => top ⟨[(root, false)], actOut (cb [] root false)⟩
  | some t => top (walkA cb root [] t)

def WalkS (cb : Callback) (root : Str) (t : Option Tree) : R :=
  match t with
  | none => top ⟨[(root, false)], actOut (cb [] root false)⟩
  | some t => top (walkS cb root [] t)

end AferoVerif.Walk
