/-
  Model of util.go `readerContainsAny` (as repaired: only the filled part of the buffer is
  searched).  The reader is the remaining content; `io.ReadAtLeast(r, buf[:half], half)` is
  "a full half, or the rest together with an error".
-/
import AferoVerif.Model.Script
namespace AferoVerif

/-- the loop of `readerContainsAny`: `prev` is the half kept from the previous round
    (`buff[:halflen]` after the shift), `rest` what the reader still holds. -/
def containsLoop (half : Nat) (ns : List Bytes) (prev rest : Bytes) : Bool :=
  if hh : half = 0 then false else
  let chunk := rest.take half                      -- io.ReadAtLeast into the free half
  if chunk.length > 0 && ns.any (fun n => decide (n <:+: prev ++ chunk)) then true
  else if hlt : chunk.length < half then false     -- short read: err != nil, loop ends
  else containsLoop half ns chunk (rest.drop half)
termination_by rest.length
decreasing_by
  simp [chunk] at hlt ⊢
  omega

def largest (ns : List Bytes) : Nat := ns.foldl (fun m n => max m n.length) 0

/-- `readerContainsAny(r, subslices...)` for a reader holding `content`. -/
def containsAny (content : Bytes) (ns : List Bytes) : Bool :=
  if ns.isEmpty then false
  else if largest ns = 0 then false
  else containsLoop (largest ns * 4 / 2) ns [] content

end AferoVerif
