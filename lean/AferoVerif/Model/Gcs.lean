/-
  Executable model of gcsfs (fs.go, file.go, file_resource.go, file_info.go) over an object
  store with the stated GCS semantics (the in-memory fake of harness-gcs/fake.go has the same
  definitions).  Property C20.

  Names are byte strings, represented as `List Char` (one `Char` per byte) so that the prefix /
  delimiter arithmetic is plain list arithmetic.  One bucket (`bkt`); the store maps
  bucket-relative object names to bytes.  The model describes the code *as repaired* by
  patches/01 (readdirImpl compares full names) and patches/02 (RemoveAll tolerates the
  disappearance of an implicit folder); everything else is transcribed as it stands, including
  behaviour outside the domain of C20 (positional calls move the handle offset, Truncate pads with
  spaces, Readdir(count > entries) panics).
-/
import AferoVerif.Model.Script
namespace AferoVerif.Gcs

abbrev Name := List Char
/-- the bucket: object name ↦ bytes; keys are unique (`put` keeps them so) -/
abbrev Store := List (Name × Bytes)

inductive GErr where
  | closed | eof | range | notexist | notempty | notdir | isdir | perm
  | nobucketname | emptyname | nobucket | badrange | other | nohandle
  | objnotexist     -- storage.ErrObjectNotExist (same class as ENOENT for the comparison, distinct for the code)
  deriving DecidableEq, Repr, Inhabited

def GErr.tag : GErr → String
  | .closed => "closed" | .eof => "eof" | .range => "range" | .notexist => "notexist"
  | .notempty => "notempty" | .notdir => "notdir" | .isdir => "isdir" | .perm => "perm"
  | .nobucketname => "nobucketname" | .emptyname => "emptyname" | .nobucket => "nobucket"
  | .badrange => "badrange" | .other => "other" | .nohandle => "nohandle" | .objnotexist => "notexist"

def sep : Char := '/'
def bkt : Name := ['b', 'k', 't']

/-! ### the object store (fake) -/

def get (s : Store) (n : Name) : Option Bytes := s.lookup n
def put (s : Store) (n : Name) (d : Bytes) : Store := (n, d) :: s.filter (fun o => o.1 != n)
def del (s : Store) (n : Name) : Store := s.filter (fun o => o.1 != n)

/-- `ObjectHandle.Attrs`: the size, or one of the two errors gcsfs matches on -/
def attrs (s : Store) (p : Name) : Except GErr Nat :=
  if p = [] then .error .emptyname
  else match get s p with
    | none => .error .objnotexist
    | some d => .ok d.length

/-- `NewRangeReader(off, len)`: a snapshot of the requested range (`len < 0`: to the end) -/
def rangeReader (s : Store) (p : Name) (off len : Int) : Except GErr Bytes :=
  if p = [] then .error .emptyname
  else match get s p with
    | none => .error .objnotexist
    | some d =>
      if off < 0 ∨ off > d.length then .error .badrange
      else if len < 0 then .ok (d.drop off.toNat) else .ok ((d.drop off.toNat).take len.toNat)

/-- `Writer.Close`: atomic replacement of the whole object -/
def putObj (s : Store) (p : Name) (d : Bytes) : Except GErr Store :=
  if p = [] then .error .emptyname else .ok (put s p d)

def delObj (s : Store) (p : Name) : Except GErr Store :=
  if p = [] then .error .emptyname
  else match get s p with
    | none => .error .objnotexist
    | some _ => .ok (del s p)

/-- first occurrences only -/
def dedup : List Name → List Name
  | [] => []
  | x :: xs => x :: (dedup xs).filter (fun y => y != x)

/-- one result of `Objects(prefix, delimiter "/")` -/
inductive Entry where
  | item (n : Name) (size : Nat)
  | pfx (p : Name)
  deriving DecidableEq, Repr, Inhabited

/-- the rolled-up prefix of an object name under a query prefix, if the rest holds a delimiter -/
def rollup (pre n : Name) : Option Name :=
  let rest := n.drop pre.length
  if rest.contains sep then some (pre ++ rest.takeWhile (· != sep) ++ [sep]) else none

/-- `Bucket.Objects(Query{Prefix: pre, Delimiter: "/"})`: the items, then each prefix once.
    (The fake returns both groups in name order; every consumer in gcsfs is order-insensitive
    or sorts, and the engines compare listings as sorted sets.) -/
def listObjects (s : Store) (pre : Name) : List Entry :=
  let m := s.filter (fun o => pre.isPrefixOf o.1)
  (m.filterMap fun o => match rollup pre o.1 with
      | none => some (Entry.item o.1 o.2.length) | some _ => none)
  ++ ((dedup (m.filterMap fun o => rollup pre o.1)).map Entry.pfx)

/-! ### name arithmetic of fs.go -/

def gsPrefix : Name := ['g', 's', ':', '/', '/']

def ensureNoPrefix (n : Name) : Name := if gsPrefix.isPrefixOf n then n.drop gsPrefix.length else n
def normSeps (n : Name) : Name := n.map fun c => if c = '\\' then sep else c
def ensureTrailing (n : Name) : Name := if n ≠ [] ∧ n.getLast? ≠ some sep then n ++ [sep] else n
def ensureNoLeading (n : Name) : Name :=
  match n with
  | c :: t => if c = sep then t else n
  | [] => []

/-- `Create/OpenFile/Remove/RemoveAll/Rename/Stat`: name normalisation -/
def normName (n : Name) : Name := ensureNoLeading (normSeps (ensureNoPrefix n))
/-- `Mkdir/MkdirAll`: name normalisation -/
def normDir (n : Name) : Name := ensureNoLeading (ensureTrailing (normSeps (ensureNoPrefix n)))

/-- `splitName`: bucket = text before the first separator, path = everything after it -/
def bucketOf (n : Name) : Name := n.takeWhile (· != sep)
def pathOf (n : Name) : Name := (n.dropWhile (· != sep)).drop 1

def trimSeps (n : Name) : Name := (n.reverse.dropWhile (· == sep)).reverse

/-- `filepath.Base` -/
def base (n : Name) : Name :=
  if n = [] then ['.']
  else
    let t := trimSeps n
    if t = [] then [sep] else (t.reverse.takeWhile (· != sep)).reverse

/-- `strings.Split(n, "/")` -/
def splitSep : Name → List Name
  | [] => [[]]
  | c :: t =>
    if c = sep then [] :: splitSep t
    else match splitSep t with
      | [] => [[c]]
      | x :: xs => (c :: x) :: xs

/-! ### file_info.go -/

structure Info where
  name : Name      -- full name as stored in `FileInfo.name`
  size : Nat
  isDir : Bool
  deriving DecidableEq, Repr, Inhabited

def folderSize : Nat := 42

/-- `getObj`/`getBucket`: only bucket `bkt` exists -/
def bucketErr (name : Name) : Option GErr := if bucketOf name = bkt then none else some .nobucket

/-- `newFileInfo` -/
def newFileInfo (s : Store) (name : Name) : Except GErr Info :=
  match bucketErr name with
  | some e => .error e
  | none =>
    match attrs s (pathOf name) with
    | .ok sz => .ok { name := name, size := sz, isDir := false }
    | .error .emptyname => .ok { name := ensureTrailing name, size := folderSize, isDir := true }
    | .error .objnotexist =>
      -- folders do not exist: is anything listed under the name used as a prefix?
      if (listObjects s (pathOf name)).isEmpty then .error .notexist
      else .ok { name := ensureTrailing name, size := folderSize, isDir := true }
    | .error e => .error e

/-- `newFileInfoFromAttrs` -/
def infoOfEntry : Entry → Info
  | .item n sz => { name := n, size := sz, isDir := false }
  | .pfx p => { name := p, size := folderSize, isDir := true }

/-! ### file_resource.go -/

structure Res where
  name : Name
  curSize : Int := 0            -- currentGcsSize
  offset : Int := 0
  reader : Option Bytes := none  -- unread rest of the open range reader
  writer : Option Bytes := none  -- bytes buffered in the open writer
  deriving DecidableEq, Repr, Inhabited

structure CloseRes where
  s : Store
  r : Res
  failed : Bool

/-- `maybeCloseWriter`: re-append the tail of the old object, then commit -/
def closeWriter (s : Store) (r : Res) : CloseRes :=
  match r.writer with
  | none => ⟨s, r, false⟩
  | some buf =>
    if r.curSize > r.offset then
      match rangeReader s (pathOf r.name) r.offset (-1) with
      | .error _ => ⟨s, r, true⟩
      | .ok rest =>
        match putObj s (pathOf r.name) (buf ++ rest) with
        | .error _ => ⟨s, { r with writer := some (buf ++ rest) }, true⟩
        | .ok s' => ⟨s', { r with writer := none }, false⟩
    else
      match putObj s (pathOf r.name) buf with
      | .error _ => ⟨s, r, true⟩
      | .ok s' => ⟨s', { r with writer := none }, false⟩

/-- `maybeCloseIo` (any failure is re-wrapped with `%v`: class `other`) -/
def closeIo (s : Store) (r : Res) : CloseRes := closeWriter s { r with reader := none }

structure ReadRes where
  s : Store
  r : Res
  got : Bytes
  err : Option GErr

/-- `reader.Read(p)` on the open reader holding `rem`, then `offset += n` -/
def readFrom (s : Store) (r : Res) (rem : Bytes) (len : Nat) : ReadRes :=
  if rem = [] then ⟨s, { r with reader := some [] }, [], some .eof⟩
  else ⟨s, { r with reader := some (rem.drop len), offset := r.offset + (rem.take len).length }, rem.take len, none⟩

/-- `gcsFileResource.ReadAt`, the path that (re)opens a range reader at `off` -/
def resReadSlow (s : Store) (r : Res) (len : Nat) (off : Int) : ReadRes :=
  let chk : Option GErr :=
    if r.reader.isNone ∧ r.writer.isNone then
      match newFileInfo s r.name with
      | .error e => some e
      | .ok i => if i.isDir then some .isdir else none
    else none
  match chk with
  | some e => ⟨s, r, [], some e⟩
  | none =>
    let c := closeIo s r
    if c.failed then ⟨c.s, c.r, [], some .other⟩
    else
      match rangeReader c.s (pathOf r.name) off (-1) with
      | .error e => ⟨c.s, c.r, [], some e⟩
      | .ok d => readFrom c.s { c.r with reader := some d, offset := off } d len

/-- `gcsFileResource.ReadAt` -/
def resReadAt (s : Store) (r : Res) (len : Nat) (off : Int) : ReadRes :=
  if len = 0 then ⟨s, r, [], none⟩
  else
    match (if off = r.offset then r.reader else none) with
    | some rem => readFrom s r rem len
    | none => resReadSlow s r len off

structure WriteRes where
  s : Store
  r : Res
  n : Nat
  err : Option GErr

/-- `gcsFileResource.WriteAt`, the path that commits pending I/O and opens a new writer at `off` -/
def resWriteSlow (s : Store) (r : Res) (b : Bytes) (off : Int) : WriteRes :=
  let c := closeIo s r
  if c.failed then ⟨c.s, c.r, 0, some .other⟩
  else
    match attrs c.s (pathOf r.name) with
    | .error e =>
      if off > 0 then ⟨c.s, c.r, 0, some e⟩
      else -- `off > currentGcsSize` cannot hold; nothing to copy
        ⟨c.s, { c.r with curSize := 0, writer := some b, offset := off + b.length }, b.length, none⟩
    | .ok sz =>
      if off > sz then ⟨c.s, { c.r with curSize := sz }, 0, some .range⟩
      else
        match (if off > 0 then rangeReader c.s (pathOf r.name) 0 off else .ok []) with
        | .error e => ⟨c.s, { c.r with curSize := sz }, 0, some e⟩
        | .ok pre =>
          ⟨c.s, { c.r with curSize := sz, writer := some (pre ++ b), offset := off + b.length }, b.length, none⟩

/-- `gcsFileResource.WriteAt` -/
def resWriteAt (s : Store) (r : Res) (b : Bytes) (off : Int) : WriteRes :=
  match (if off = r.offset then r.writer else none) with
  | some buf => ⟨s, { r with writer := some (buf ++ b), offset := r.offset + b.length }, b.length, none⟩
  | none => resWriteSlow s r b off

def spaces (n : Nat) : Bytes := List.replicate n 32

/-- `gcsFileResource.Truncate`: copy the first `n` bytes, pad with spaces, commit -/
def resTruncate (s : Store) (r : Res) (n : Int) : Store × Res × Option GErr :=
  if n < 0 then (s, r, some .range)
  else
    let c := closeIo s r
    if c.failed then (c.s, c.r, some .other)
    else
      match rangeReader c.s (pathOf r.name) 0 n with
      | .error e => (c.s, c.r, some e)
      | .ok d =>
        match putObj c.s (pathOf r.name) (d ++ spaces (n.toNat - d.length)) with
        | .error _ => (c.s, c.r, some .other)
        | .ok s' => (s', c.r, none)

/-! ### file.go: one handle on one resource -/

structure Handle where
  flags : Nat
  pos : Int := 0       -- fhOffset
  closed : Bool := false
  rid : Nat := 0
  deriving DecidableEq, Repr, Inhabited

def O_CREATE : Nat := 64
def O_TRUNC : Nat := 512
def O_APPEND : Nat := 1024

inductive Out where
  | ok
  | err (e : GErr)
  | h (k : Nat)
  | n (k : Nat) (e : Option GErr)
  | bytes (b : Bytes) (e : Option GErr)
  | pos (p : Int)
  | info (name : Name) (size : Nat) (dir : Bool)
  | names (l : List (Name × Bool)) (e : Option GErr)
  | objs (l : Store)
  | panic
  | badop
  deriving DecidableEq, Repr, Inhabited

/-- store, resource and handle a file call works on -/
structure Ctx where
  s : Store
  r : Res
  h : Handle
  deriving Repr, Inhabited

/-- `GcsFile.ReadAt` (`Read` = `ReadAt(p, fhOffset)`); note `fhOffset += read` for both -/
def hReadAt (c : Ctx) (len : Nat) (off : Int) : Ctx × Out :=
  if c.h.closed then (c, .bytes [] (some .closed))
  else
    let q := resReadAt c.s c.r len off
    (⟨q.s, q.r, { c.h with pos := c.h.pos + q.got.length }⟩, .bytes q.got q.err)

def hRead (c : Ctx) (len : Nat) : Ctx × Out := hReadAt c len c.h.pos

/-- `GcsFile.WriteAt` (`Write` = `WriteAt(p, fhOffset)`) -/
def hWriteAt (c : Ctx) (b : Bytes) (off : Int) : Ctx × Out :=
  if c.h.closed then (c, .n 0 (some .closed))
  else
    match attrs c.s (pathOf c.r.name) with
    | .error .objnotexist =>
      if c.h.flags &&& O_CREATE = 0 then (c, .n 0 (some .notexist))
      else
        let q := resWriteAt c.s c.r b off
        (⟨q.s, q.r, { c.h with pos := c.h.pos + q.n }⟩, .n q.n q.err)
    | .error _ => (c, .n 0 (some .other))
    | .ok _ =>
      let q := resWriteAt c.s c.r b off
      (⟨q.s, q.r, { c.h with pos := c.h.pos + q.n }⟩, .n q.n q.err)

def hWrite (c : Ctx) (b : Bytes) : Ctx × Out := hWriteAt c b c.h.pos

/-- `GcsFile.Stat` = `Sync` + `newFileInfo` -/
def hStat (c : Ctx) : Ctx × Except GErr Info :=
  let q := closeIo c.s c.r
  if q.failed then (⟨q.s, q.r, c.h⟩, .error .other)
  else (⟨q.s, q.r, c.h⟩, newFileInfo q.s c.r.name)

/-- `GcsFile.Seek` -/
def hSeek (c : Ctx) (off : Int) (whence : Nat) : Ctx × Out :=
  if c.h.closed then (c, .err .closed)
  else if (whence = 0 ∧ off = c.h.pos) ∨ (whence = 1 ∧ off = 0) then (c, .pos c.h.pos)
  else
    let q := closeIo c.s c.r
    if q.failed then (⟨q.s, q.r, c.h⟩, .err .other)
    else
      match newFileInfo q.s c.r.name with
      | .error _ => (⟨q.s, q.r, c.h⟩, .pos 0)       -- `return 0, nil`
      | .ok i =>
        let p : Int :=
          if whence = 0 then off else if whence = 1 then c.h.pos + off
          else if whence = 2 then i.size + off else c.h.pos       -- the switch has no default
        (⟨q.s, q.r, { c.h with pos := p }⟩, .pos p)

/-- `GcsFile.Truncate` -/
def hTruncate (c : Ctx) (n : Int) : Ctx × Out :=
  if c.h.closed then (c, .err .closed)
  else if c.h.flags = 0 then (c, .err .other)
  else
    let q := resTruncate c.s c.r n
    (⟨q.1, q.2.1, c.h⟩, match q.2.2 with | none => .ok | some e => .err e)

/-- `GcsFile.Close` -/
def hClose (c : Ctx) : Ctx × Out :=
  if c.h.closed then (c, .err .closed)
  else
    let q := closeIo c.s c.r
    (⟨q.s, q.r, { c.h with closed := true }⟩, if q.failed then .err .other else .ok)

def nameLt : Name → Name → Bool
  | [], [] => false
  | [], _ :: _ => true
  | _ :: _, [] => false
  | a :: as, b :: bs => if a.toNat < b.toNat then true else if b.toNat < a.toNat then false else nameLt as bs

def insertBy {α : Type} (lt : α → α → Bool) (x : α) : List α → List α
  | [] => [x]
  | y :: ys => if lt y x then y :: insertBy lt x ys else x :: y :: ys

/-- insertion sort -/
def sortBy {α : Type} (lt : α → α → Bool) (l : List α) : List α := l.foldr (insertBy lt) []

/-- the filter of `readdirImpl`'s loop: nameless entries and the folder's own placeholder are
    skipped (as repaired: the placeholder is recognised by its full name, not its base name) -/
def keepEntry (bp : Name) (e : Entry) : Option Info :=
  if (infoOfEntry e).name = [] then none
  else if trimSeps (infoOfEntry e).name = trimSeps bp then none
  else some (infoOfEntry e)

/-- `readdirImpl` after `Sync`/`Stat` succeeded, on the store: the folder's entries.
    (as repaired: the folder's own placeholder is recognised by its full name) -/
def readdirS (s : Store) (name : Name) : Except GErr (List Info) :=
  match newFileInfo s name with
  | .error e => .error e
  | .ok own =>
    if !own.isDir then .error .notdir
    else
      let bp := pathOf (ensureTrailing name)
      .ok ((listObjects s bp).filterMap (keepEntry bp))

/-- `GcsFile.Readdir(count)` -/
def hReaddir (c : Ctx) (count : Int) : Ctx × Out :=
  let q := closeIo c.s c.r
  if q.failed then (if count > 0 then (⟨q.s, q.r, c.h⟩, .panic) else (⟨q.s, q.r, c.h⟩, .names [] (some .other)))
  else
    match readdirS q.s c.r.name with
    | .error e =>
      -- `fi[:count]` on the nil slice
      if count > 0 then (⟨q.s, q.r, c.h⟩, .panic) else (⟨q.s, q.r, c.h⟩, .names [] (some e))
    | .ok l =>
      let ns := sortBy (fun a b => nameLt a.1 b.1) (l.map fun i => (base i.name, i.isDir))   -- sort.Sort(ByName)
      if count ≤ 0 then (⟨q.s, q.r, c.h⟩, .names ns none)
      else if count.toNat ≤ ns.length then (⟨q.s, q.r, c.h⟩, .names (ns.take count.toNat) none)
      else (⟨q.s, q.r, c.h⟩, .panic)        -- `fi[:count]` beyond the length

/-! ### fs.go on the store -/

def validate (n : Name) : Option GErr := if n = [] then some .nobucketname else none

/-- `Fs.Mkdir` -/
def mkdirS (s : Store) (raw : Name) : Store × Option GErr :=
  let name := normDir raw
  if name = [] then (s, some .nobucketname)
  else if bucketOf name = [] then (s, some .nobucketname)
  else if pathOf name = [] then (s, some .emptyname)
  else match bucketErr name with
    | some e => (s, some e)
    | none => match putObj s (pathOf name) [] with
      | .error e => (s, some e)
      | .ok s' => (s', none)

def mkdirAllLoop : Store → Name → Nat → List Name → Store × Option GErr
  | s, _, _, [] => (s, none)
  | s, root, i, f :: fs =>
    if f = [] ∧ i ≠ 0 then mkdirAllLoop s root (i + 1) fs
    else if root ≠ [] then
      let q := mkdirS s (root ++ [sep] ++ f)
      match q.2 with
      | none => mkdirAllLoop q.1 (root ++ [sep] ++ f) (i + 1) fs
      | some e => (q.1, some e)
    else mkdirAllLoop s f (i + 1) fs

/-- `Fs.MkdirAll` -/
def mkdirAllS (s : Store) (raw : Name) : Store × Option GErr :=
  let path := normDir raw
  if path = [] then (s, some .nobucketname)
  else if bucketOf path = [] then (s, some .nobucketname)
  else if pathOf path = [] then (s, some .emptyname)
  else mkdirAllLoop s [] 0 (splitSep path)

/-- `Fs.Remove` on a normalised, validated name (the handle `Remove` opens on a folder is fresh:
    a name registered in `rawGcsObjects` always has its object, so it is never a folder) -/
def removeS (s : Store) (name : Name) : Store × Option GErr :=
  match bucketErr name with
  | some e => (s, some e)
  | none =>
    match newFileInfo s name with
    | .error e => (s, some e)
    | .ok info =>
      if info.isDir then
        match readdirS s name with
        | .error e => (s, some e)
        | .ok ents =>
          if ents ≠ [] then (s, some .notempty)
          else match delObj s (pathOf (ensureTrailing name)) with
            | .error e => (s, some e)
            | .ok s' => (s', none)
      else match delObj s (pathOf name) with
        | .error e => (s, some e)
        | .ok s' => (s', none)

/-- the loop of `Fs.RemoveAll` over the folder's entries: stops at the first error -/
def foldKids (f : Store → Name → Store × Option GErr) (path : Name) (kids : List Name) (s : Store) :
    Store × Option GErr :=
  kids.foldl (fun acc k =>
    match acc.2 with
    | some _ => acc
    | none => f acc.1 (path ++ [sep] ++ normSeps k)) (s, none)

/-- `Fs.RemoveAll` on a normalised, validated name (as repaired: the final `Remove` of a folder
    that has no placeholder object and just lost its last child reports not-exist; that is
    success).  `fuel` bounds the recursion depth (callers pass more than any name is long). -/
def removeAllS : Nat → Store → Name → Store × Option GErr
  | 0, s, _ => (s, some .other)
  | fuel + 1, s, path =>
    match newFileInfo s path with
    | .error .notexist => (s, none)
    | .error e => (s, some e)
    | .ok info =>
      if !info.isDir then removeS s path
      else
        match readdirS s path with
        | .error e => (s, some e)
        | .ok ents =>
          let kids := sortBy nameLt (ents.map fun i => base i.name)
          let q := foldKids (removeAllS fuel) path kids s
          match q.2 with
          | some e => (q.1, some e)
          | none =>
            let z := removeS q.1 path
            match z.2 with
            | some .notexist => (z.1, none)
            | _ => z

def storeFuel (s : Store) : Nat := (s.map fun o => o.1.length).foldl (· + ·) 2

/-- `Fs.Rename` on normalised, validated names -/
def renameS (s : Store) (old new : Name) : Store × Option GErr :=
  match bucketErr old with
  | some e => (s, some e)
  | none =>
    match bucketErr new with
    | some e => (s, some e)
    | none =>
      if pathOf old = [] then (s, some .emptyname)
      else match get s (pathOf old) with
        | none => (s, some .objnotexist)
        | some d =>
          match putObj s (pathOf new) d with
          | .error e => (s, some e)
          | .ok s1 =>
            match delObj s1 (pathOf old) with
            | .error e => (s1, some e)
            | .ok s2 => (s2, none)

/-! ### the whole file system: resources are shared through `rawGcsObjects` -/

structure St where
  store : Store := []
  raw : List (Name × Nat) := []     -- rawGcsObjects: name ↦ resource
  res : List Res := []
  hs : List Handle := []
  deriving Repr, Inhabited

inductive Op where
  | create (p : Name) | openFile (p : Name) (flag : Nat)
  | stat (p : Name) | mkdir (p : Name) | mkdirAll (p : Name)
  | remove (p : Name) | removeAll (p : Name) | rename (a b : Name)
  | read (k len : Nat) | readAt (k len : Nat) (off : Int)
  | write (k : Nat) (b : Bytes) | writeAt (k : Nat) (b : Bytes) (off : Int)
  | seek (k : Nat) (off : Int) (wh : Nat) | trunc (k : Nat) (n : Int) | close (k : Nat)
  | hstat (k : Nat) | readdir (k : Nat) (n : Int)
  | bucket
  deriving Repr, Inhabited

def rawDel (raw : List (Name × Nat)) (n : Name) : List (Name × Nat) := raw.filter (fun e => e.1 != n)

def infoOut : Except GErr Info → Out
  | .error e => .err e
  | .ok i => .info (base i.name) i.size i.isDir

/-- `Fs.Create` on a normalised name -/
def createN (st : St) (name : Name) : St × Out :=
  match validate name with
  | some e => (st, .err e)
  | none =>
    match bucketErr name with
    | some e => (st, .err e)
    | none =>
      match putObj st.store (pathOf name) [] with
      | .error e => (st, .err e)
      | .ok s' =>
        let rid := st.res.length
        ({ store := s', raw := (name, rid) :: rawDel st.raw name, res := st.res ++ [({ name := name } : Res)],
           hs := st.hs ++ [({ flags := 2 + O_CREATE + O_TRUNC, rid := rid } : Handle)] }, .h st.hs.length)

/-- run a file call on handle `k` and write store, resource and handle back -/
def withH (st : St) (k : Nat) (f : Ctx → Ctx × Out) : St × Out :=
  match st.hs[k]? with
  | none => (st, .err .nohandle)
  | some h =>
    match st.res[h.rid]? with
    | none => (st, .err .nohandle)
    | some r =>
      let q := f ⟨st.store, r, h⟩
      ({ st with store := q.1.s, res := st.res.set h.rid q.1.r, hs := st.hs.set k q.1.h }, q.2)

/-- outcome of the part of `Fs.OpenFile` that works on the store and on one resource -/
inductive OpenKind where
  | handle      -- a handle on the resource is returned
  | fail (e : GErr)
  | recreate    -- O_TRUNC: the object was deleted, `Fs.Create(name)` follows
  deriving DecidableEq, Repr

structure OpenRes where
  c : Ctx
  kind : OpenKind

/-- `Fs.OpenFile` after name validation, on the store and the (shared or fresh) resource `r0` -/
def openCtx (s : Store) (r0 : Res) (name : Name) (flag : Nat) (rid : Nat) : OpenRes :=
  let c0 : Ctx := ⟨s, r0, { flags := flag, rid := rid }⟩
  -- flag == O_RDONLY: must exist
  let a : Ctx × Option GErr :=
    if flag = 0 then
      let q := hStat c0
      (q.1, match q.2 with | .error e => some e | .ok _ => none)
    else (c0, none)
  match a.2 with
  | some e => ⟨a.1, .fail e⟩
  | none =>
    if flag &&& O_TRUNC ≠ 0 then
      match delObj a.1.s (pathOf name) with
      | .error e => ⟨a.1, .fail e⟩
      | .ok s' => ⟨{ a.1 with s := s' }, .recreate⟩
    else
      let b : Ctx × Option GErr :=
        if flag &&& O_APPEND ≠ 0 then
          let q := hSeek a.1 0 2
          (q.1, match q.2 with | .err e => some e | _ => none)
        else (a.1, none)
      match b.2 with
      | some e => ⟨b.1, .fail e⟩
      | none =>
        if flag &&& O_CREATE ≠ 0 then
          let q := hStat b.1
          match q.2 with
          | .ok _ => ⟨q.1, .fail .perm⟩
          | .error _ =>
            let w := hWrite q.1 []
            match w.2 with
            | .n _ (some e) => ⟨w.1, .fail e⟩
            | _ => ⟨w.1, .handle⟩
        else ⟨b.1, .handle⟩

/-- `Fs.OpenFile` -/
def openFile (st : St) (rawName : Name) (flag : Nat) : St × Out :=
  let name := normName rawName
  match validate name with
  | some e => (st, .err e)
  | none =>
    -- the resource: shared with the registered handle of that name, or fresh
    let found := st.raw.lookup name
    match (match found with | some _ => none | none => bucketErr name) with
    | some e => (st, .err e)
    | none =>
      let rid := found.getD st.res.length
      let res1 := match found with | some _ => st.res | none => st.res ++ [({ name := name } : Res)]
      match res1[rid]? with
      | none => (st, .err .nohandle)
      | some r0 =>
        let q := openCtx st.store r0 name flag rid
        -- a dropped handle leaves what the calls did to the store and to a shared resource
        let kept : List Res := match found with | some _ => st.res.set rid q.c.r | none => st.res
        match q.kind with
        | .fail e => ({ st with store := q.c.s, res := kept }, .err e)
        | .recreate => createN { st with store := q.c.s, res := kept } name
        | .handle => ({ st with store := q.c.s, res := res1.set rid q.c.r, hs := st.hs ++ [q.c.h] }, .h st.hs.length)

def errOut (q : Store × Option GErr) : Out := match q.2 with | none => .ok | some e => .err e

def step (st : St) (op : Op) : St × Out :=
  match op with
  | .create p => createN st (normName p)
  | .openFile p flag => openFile st p flag
  | .stat p =>
    match validate (normName p) with
    | some e => (st, .err e)
    | none => (st, infoOut (newFileInfo st.store (normName p)))
  | .mkdir p => let q := mkdirS st.store p; ({ st with store := q.1 }, errOut q)
  | .mkdirAll p => let q := mkdirAllS st.store p; ({ st with store := q.1 }, errOut q)
  | .remove p =>
    let name := normName p
    match validate name with
    | some e => (st, .err e)
    | none =>
      let q := removeS st.store name
      -- `delete(fs.rawGcsObjects, name)` happens once `Stat` succeeded
      let statOk := match bucketErr name with
        | some _ => false
        | none => match newFileInfo st.store name with | .ok _ => true | .error _ => false
      ({ st with store := q.1, raw := if statOk then rawDel st.raw name else st.raw }, errOut q)
  | .removeAll p =>
    let name := normName p
    match validate name with
    | some e => (st, .err e)
    | none =>
      let q := removeAllS (storeFuel st.store + name.length) st.store name
      -- every object that disappeared lost its registration
      ({ st with store := q.1,
                 raw := st.raw.filter fun e => !((get st.store (pathOf e.1)).isSome && (get q.1 (pathOf e.1)).isNone) },
       errOut q)
  | .rename a b =>
    let old := normName a
    let new := normName b
    match validate old with
    | some e => (st, .err e)
    | none =>
      match validate new with
      | some e => (st, .err e)
      | none =>
        let q := renameS st.store old new
        -- the registration goes once the copy succeeded (the final Delete cannot fail then)
        ({ st with store := q.1, raw := if q.2.isNone then rawDel st.raw old else st.raw }, errOut q)
  | .read k len => withH st k fun c => hRead c len
  | .readAt k len off => withH st k fun c => hReadAt c len off
  | .write k b => withH st k fun c => hWrite c b
  | .writeAt k b off => withH st k fun c => hWriteAt c b off
  | .seek k off wh => withH st k fun c => hSeek c off wh
  | .trunc k n => withH st k fun c => hTruncate c n
  | .close k => withH st k hClose
  | .hstat k => withH st k fun c => let q := hStat c; (q.1, infoOut q.2)
  | .readdir k n => withH st k fun c => hReaddir c n
  | .bucket => (st, .objs st.store)

end AferoVerif.Gcs
