/-
  Executable model of mem/file.go (handle I/O part), mirroring the Go control flow,
  and the flat byte-array specification it is compared with (property C02).

  Concrete side (`…C`): the code's arithmetic — tail re-append, gap fill, Go slice
  bounds made explicit (`goSlice` returns `none` where Go panics).
  Spec side (`…S`): one byte list, per-handle offsets, defined by take/drop/replicate.
-/
import AferoVerif.Model.Script
namespace AferoVerif

/-- outcome classes of a handle call (messages are never compared) -/
inductive FErr where
  | closed | eof | ueof | rohandle | range | inval | notdir   -- ueof = io.ErrUnexpectedEOF (same class as eof)
  deriving DecidableEq, Repr, Inhabited

def FErr.tag : FErr → String
  | .closed => "closed" | .eof => "eof" | .ueof => "eof" | .rohandle => "rohandle"
  | .range => "range" | .inval => "inval" | .notdir => "notdir"

/-- result of one handle call -/
inductive FOut where
  | ok
  | err (e : FErr)
  | n (k : Nat) (e : Option FErr)          -- write-type: count, error
  | bytes (b : Bytes) (e : Option FErr)    -- read-type: bytes read, error
  | pos (p : Int)
  | size (k : Nat)
  | panic
  deriving DecidableEq, Repr, Inhabited

/-- did a write-type call succeed? (`File.Write`/`Truncate` stamp the mtime only then) -/
def FOut.success : FOut → Bool
  | .n _ none => true
  | .ok => true
  | _ => false

structure Handle where
  pos : Int := 0
  readOnly : Bool := false
  closed : Bool := false
  deriving DecidableEq, Repr, Inhabited

/-- Go `s[lo:hi]` on a slice whose capacity equals its length: panics (none) out of bounds. -/
def goSlice (d : Bytes) (lo hi : Int) : Option Bytes :=
  if 0 ≤ lo ∧ lo ≤ hi ∧ hi ≤ d.length then some ((d.take hi.toNat).drop lo.toNat) else none

/-! ### concrete: transcription of mem/file.go -/

/-- `File.Read` (mem/file.go:208-228) on the shared data. -/
def readC (d : Bytes) (h : Handle) (len : Nat) : Handle × FOut :=
  if h.closed then (h, .bytes [] (some .closed))
  else if len > 0 ∧ h.pos = d.length then (h, .bytes [] (some .eof))
  else if h.pos > d.length then (h, .bytes [] (some .ueof))      -- io.ErrUnexpectedEOF: class eof
  else
    let n : Int := if (d.length : Int) - h.pos ≥ len then len else d.length - h.pos
    match goSlice d h.pos (h.pos + n) with
    | none => (h, .panic)
    | some s => ({ h with pos := h.pos + n }, .bytes s none)

/-- `File.ReadAt` (mem/file.go:230-236, as repaired): negative offset is an error,
    a short read reports EOF, the handle offset is restored. -/
def readAtC (d : Bytes) (h : Handle) (len : Nat) (off : Int) : Handle × FOut :=
  if off < 0 then (h, .bytes [] (some .inval))
  else
    match (readC d { h with pos := off } len).2 with
    | .bytes s none => if s.length < len then (h, .bytes s (some .eof)) else (h, .bytes s none)
    | o => (h, o)

/-- `File.Write` (mem/file.go:279-312). -/
def writeC (d : Bytes) (h : Handle) (b : Bytes) : Bytes × Handle × FOut :=
  if h.closed then (d, h, .n 0 (some .closed))
  else if h.readOnly then (d, h, .n 0 (some .rohandle))
  else if b = [] then (d, h, .n 0 none)        -- writing nothing changes nothing
  else
    let n : Int := b.length
    let cur := h.pos
    let diff := cur - d.length
    let tailO : Option Bytes :=
      if n + cur < d.length then goSlice d (n + cur) d.length else some []
    match tailO with
    | none => (d, h, .panic)
    | some tail =>
      if diff > 0 then
        (d ++ (List.replicate diff.toNat 0 ++ b) ++ tail, { h with pos := cur + n }, .n b.length none)
      else
        match goSlice d 0 cur with
        | none => (d, h, .panic)
        | some pre => (pre ++ b ++ tail, { h with pos := cur + n }, .n b.length none)

/-- `File.WriteAt` (mem/file.go:314-317, as repaired): negative offset is an error and the
    handle offset is preserved. -/
def writeAtC (d : Bytes) (h : Handle) (b : Bytes) (off : Int) : Bytes × Handle × FOut :=
  if off < 0 then (d, h, .n 0 (some .inval))
  else
    let r := writeC d { h with pos := off } b
    (r.1, h, r.2.2)

/-- `File.Truncate` (mem/file.go:238-262). -/
def truncC (d : Bytes) (h : Handle) (size : Int) : Bytes × FOut :=
  if h.closed then (d, .err .closed)
  else if h.readOnly then (d, .err .rohandle)
  else if size < 0 then (d, .err .range)
  else if size > d.length then (d ++ List.replicate (size - d.length).toNat 0, .ok)
  else match goSlice d 0 size with
    | none => (d, .panic)
    | some s => (s, .ok)

/-- the position `Seek` computes (the source's switch has no default: an unknown whence leaves
    the position where it is) -/
def seekTarget (d : Bytes) (h : Handle) (off : Int) (whence : Nat) : Int :=
  match whence with
  | 0 => off
  | 1 => h.pos + off
  | 2 => d.length + off
  | _ => h.pos

/-- `File.Seek` (mem/file.go:264-277, as repaired: a negative resulting position is rejected
    and leaves the offset alone). -/
def seekC (d : Bytes) (h : Handle) (off : Int) (whence : Nat) : Handle × FOut :=
  if h.closed then (h, .err .closed)
  else if seekTarget d h off whence < 0 then (h, .err .inval)
  else ({ h with pos := seekTarget d h off whence }, .pos (seekTarget d h off whence))

def closeC (h : Handle) : Handle × FOut := ({ h with closed := true }, .ok)

/-! ### flat specification -/

/-- bytes `[off, off+len)` of the array, clipped at the end -/
def readS (d : Bytes) (off : Nat) (len : Nat) : Bytes := (d.drop off).take len

/-- write `b` at `off`: zero-fill any gap, overwrite, keep everything after -/
def writeS (d : Bytes) (off : Nat) (b : Bytes) : Bytes :=
  let d' := d ++ List.replicate (off - d.length) 0
  d'.take off ++ b ++ d'.drop (off + b.length)

/-- cut or zero-extend to `size` -/
def truncS (d : Bytes) (size : Nat) : Bytes :=
  d.take size ++ List.replicate (size - d.length) 0

/-! ### the C02 state machine: one shared byte array, k handles used one call at a time -/

inductive FOp where
  | read (h : Nat) (len : Nat)
  | readAt (h : Nat) (len : Nat) (off : Int)
  | write (h : Nat) (b : Bytes)
  | writeAt (h : Nat) (b : Bytes) (off : Int)
  | truncate (h : Nat) (size : Int)
  | seek (h : Nat) (off : Int) (whence : Nat)
  | close (h : Nat)
  | size
  deriving Repr, Inhabited

structure FileSt where
  data : Bytes
  hs : List Handle
  deriving Repr, Inhabited

/-- a call on a handle index that does not exist is not a call at all -/
def FileSt.setH (s : FileSt) (i : Nat) (h : Handle) : FileSt := { s with hs := s.hs.set i h }

def stepC (s : FileSt) (op : FOp) : FileSt × FOut :=
  match op with
  | .size => (s, .size s.data.length)
  | .read i len => match s.hs[i]? with
    | none => (s, .err .inval)
    | some h => let (h', o) := readC s.data h len; (s.setH i h', o)
  | .readAt i len off => match s.hs[i]? with
    | none => (s, .err .inval)
    | some h => let (h', o) := readAtC s.data h len off; (s.setH i h', o)
  | .write i b => match s.hs[i]? with
    | none => (s, .err .inval)
    | some h => let (d, h', o) := writeC s.data h b; ({ s with data := d }.setH i h', o)
  | .writeAt i b off => match s.hs[i]? with
    | none => (s, .err .inval)
    | some h => let (d, h', o) := writeAtC s.data h b off; ({ s with data := d }.setH i h', o)
  | .truncate i size => match s.hs[i]? with
    | none => (s, .err .inval)
    | some h => let (d, o) := truncC s.data h size; ({ s with data := d }, o)
  | .seek i off wh => match s.hs[i]? with
    | none => (s, .err .inval)
    | some h => let (h', o) := seekC s.data h off wh; (s.setH i h', o)
  | .close i => match s.hs[i]? with
    | none => (s, .err .inval)
    | some h => let (h', o) := closeC h; (s.setH i h', o)

/-- The specification: a plain byte array with per-handle offsets.  Offsets are kept
    non-negative by construction (negative positions are rejected), positional calls do not
    touch the offset, a short positional read reports EOF, a read-only or closed handle never
    changes the array.  (A read positioned strictly beyond the end reports EOF even for an empty
    buffer — the behaviour `TestMemFsUnexpectedEOF` pins for `Read`.) -/
def stepS (s : FileSt) (op : FOp) : FileSt × FOut :=
  match op with
  | .size => (s, .size s.data.length)
  | .read i len => match s.hs[i]? with
    | none => (s, .err .inval)
    | some h =>
      if h.closed then (s, .bytes [] (some .closed))
      else if h.pos > s.data.length then (s, .bytes [] (some .ueof))
      else if h.pos = s.data.length ∧ len > 0 then (s, .bytes [] (some .eof))
      else
        let r := readS s.data h.pos.toNat len
        (s.setH i { h with pos := h.pos + r.length }, .bytes r none)
  | .readAt i len off => match s.hs[i]? with
    | none => (s, .err .inval)
    | some h =>
      if off < 0 then (s, .bytes [] (some .inval))
      else if h.closed then (s, .bytes [] (some .closed))
      else
        let r := readS s.data off.toNat len
        (s, .bytes r (if off > s.data.length then some .ueof else if r.length < len then some .eof else none))
  | .write i b => match s.hs[i]? with
    | none => (s, .err .inval)
    | some h =>
      if h.closed then (s, .n 0 (some .closed))
      else if h.readOnly then (s, .n 0 (some .rohandle))
      else if b = [] then (s, .n 0 none)
      else ({ s with data := writeS s.data h.pos.toNat b }.setH i { h with pos := h.pos + b.length },
            .n b.length none)
  | .writeAt i b off => match s.hs[i]? with
    | none => (s, .err .inval)
    | some h =>
      if off < 0 then (s, .n 0 (some .inval))
      else if h.closed then (s, .n 0 (some .closed))
      else if h.readOnly then (s, .n 0 (some .rohandle))
      else if b = [] then (s, .n 0 none)
      else ({ s with data := writeS s.data off.toNat b }, .n b.length none)
  | .truncate i size => match s.hs[i]? with
    | none => (s, .err .inval)
    | some h =>
      if h.closed then (s, .err .closed)
      else if h.readOnly then (s, .err .rohandle)
      else if size < 0 then (s, .err .range)
      else ({ s with data := truncS s.data size.toNat }, .ok)
  | .seek i off wh => match s.hs[i]? with
    | none => (s, .err .inval)
    | some h =>
      if h.closed then (s, .err .closed)
      else
        if seekTarget s.data h off wh < 0 then (s, .err .inval)
        else (s.setH i { h with pos := seekTarget s.data h off wh }, .pos (seekTarget s.data h off wh))
  | .close i => match s.hs[i]? with
    | none => (s, .err .inval)
    | some h => (s.setH i { h with closed := true }, .ok)

def runWith (step : FileSt → FOp → FileSt × FOut) : FileSt → List FOp → FileSt × List FOut
  | s, [] => (s, [])
  | s, op :: ops =>
    let (s1, o) := step s op
    let (s2, os) := runWith step s1 ops
    (s2, o :: os)

end AferoVerif
