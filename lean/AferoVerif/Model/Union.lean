/-
  Model of unionFile.go: a `UnionFile` over one handle of a base filesystem and one handle of
  a layer filesystem (both MemMapFs models), and of `copyFile` / `copyToLayer`.
  Modelled is the repaired source: `ReadAt` does not move the base handle, `Readdir(c ≤ 0)`
  consumes the listing.
-/
import AferoVerif.Model.FsOp
namespace AferoVerif
open Path

/-- a pair of layers -/
structure Layers where
  b : MemFs := MemFs.init
  l : MemFs := MemFs.init
  deriving Repr, Inhabited

/-- `UnionFile{Base, Layer}` with its listing cursor -/
structure UFile where
  bi : Nat
  li : Nat
  off : Nat := 0
  files : List (Str × Bool) := []      -- merged (name, isDir), filled by the first Readdir
  deriving Repr, Inhabited

def fErrOf : MRes → Option FErr
  | .file (.err e) => some e
  | .file (.n _ e) => e
  | .file (.bytes _ e) => e
  | .file .panic => some .inval
  | .err _ => some .inval
  | _ => none

def isOkOrEOF (r : MRes) : Bool :=
  match fErrOf r with
  | none => true
  | some .eof => true      -- io.EOF only; io.ErrUnexpectedEOF does not compare equal
  | _ => false

namespace UFile

def bytesLen : MRes → Nat
  | .file (.bytes bs _) => bs.length
  | _ => 0

def withErr (r : MRes) (e : Option FErr) : MRes :=
  match r with
  | .file (.bytes bs _) => .file (.bytes bs e)
  | x => x

/-- `UnionFile.Read` -/
def read (s : Layers) (u : UFile) (len : Nat) : Layers × MRes :=
  let rl := s.l.hRead u.li len
  if isOkOrEOF rl.2 then
    let rb := s.b.hSeek u.bi (bytesLen rl.2) 1
    match rb.2 with
    | .file (.pos _) => ({ b := rb.1, l := rl.1 }, rl.2)
    | other => ({ b := rb.1, l := rl.1 }, withErr rl.2 (fErrOf other))
  else ({ s with l := rl.1 }, rl.2)

/-- `UnionFile.ReadAt` (repaired: positional, the base handle is left alone) -/
def readAt (s : Layers) (u : UFile) (len : Nat) (off : Int) : Layers × MRes :=
  let (l', r) := s.l.hReadAt u.li len off
  ({ s with l := l' }, r)

/-- `UnionFile.Seek` -/
def seek (s : Layers) (u : UFile) (off : Int) (wh : Nat) : Layers × MRes :=
  let (l', r) := s.l.hSeek u.li off wh
  match r with
  | .file (.pos p) =>
    let (b', br) := s.b.hSeek u.bi off wh
    match br with
    | .file (.pos _) => ({ b := b', l := l' }, .file (.pos p))
    | other => ({ b := b', l := l' }, other)
  | _ => ({ s with l := l' }, r)

/-- `UnionFile.Write` -/
def write (s : Layers) (u : UFile) (bs : Bytes) : Layers × MRes :=
  let (l', r) := s.l.hWrite u.li bs
  match r with
  | .file (.n k none) =>
    let (b', br) := s.b.hWrite u.bi bs
    ({ b := b', l := l' }, .file (.n k (fErrOf br)))
  | _ => ({ s with l := l' }, r)

/-- `UnionFile.WriteAt` -/
def writeAt (s : Layers) (u : UFile) (bs : Bytes) (off : Int) : Layers × MRes :=
  let (l', r) := s.l.hWriteAt u.li bs off
  match r with
  | .file (.n k none) =>
    let (b', br) := s.b.hWriteAt u.bi bs off
    ({ b := b', l := l' }, .file (.n k (fErrOf br)))
  | _ => ({ s with l := l' }, r)

/-- `UnionFile.Truncate` -/
def truncate (s : Layers) (u : UFile) (size : Int) : Layers × MRes :=
  let (l', r) := s.l.hTruncate u.li size
  match r with
  | .file .ok =>
    let (b', br) := s.b.hTruncate u.bi size
    ({ b := b', l := l' }, br)
  | _ => ({ s with l := l' }, r)

/-- `UnionFile.Close`: closes both, reports the layer's result -/
def close (s : Layers) (u : UFile) : Layers × MRes :=
  let (b', _) := s.b.hClose u.bi
  let (l', r) := s.l.hClose u.li
  ({ b := b', l := l' }, r)

/-- `defaultUnionMergeDirsFn`: overlay entries win, base entries fill in, each name once.
    (Go iterates a map here: the order is unspecified; the model keeps overlay order then
    base order, and listings are compared as sets / by page sizes.) -/
def merge (lofi bofi : List (Str × Bool)) : List (Str × Bool) :=
  let l := lofi.foldl (fun acc e => if acc.any (·.1 = e.1) then acc.map (fun x => if x.1 = e.1 then e else x) else acc ++ [e]) []
  bofi.foldl (fun acc e => if acc.any (·.1 = e.1) then acc else acc ++ [e]) l

def infosOf (m : MemFs) (fs : List Nat) : List (Str × Bool) :=
  fs.map fun o => (baseName (m.obj o).name, (m.obj o).dir)

/-- `UnionFile.Readdir(c)` (repaired: a non-positive count consumes the rest) -/
def readdir (s : Layers) (u : UFile) (c : Int) : Layers × UFile × Option (List (Str × Bool)) × Option FErr :=
  let rl := s.l.readdir u.li (-1)
  let rb := s.b.readdir u.bi (-1)
  -- first call: read both listings completely and merge
  let first : Layers × UFile × Option FErr :=
    if u.off = 0 then
      match rl.2.1 with
      | none => ({ s with l := rl.1 }, u, some (rl.2.2.getD .inval))
      | some lfs =>
        match rb.2.1 with
        | none => ({ b := rb.1, l := rl.1 }, u, some (rb.2.2.getD .inval))
        | some bfs =>
          ({ b := rb.1, l := rl.1 }, { u with files := u.files ++ merge (infosOf rl.1 lfs) (infosOf rb.1 bfs) }, none)
    else (s, u, none)
  let s := first.1
  let u := first.2.1
  match first.2.2 with
  | some e => (s, u, none, some e)
  | none =>
    let files := u.files.drop u.off
    if c ≤ 0 then (s, { u with off := u.files.length }, some files, none)
    else if files.length = 0 then (s, u, some [], some .eof)
    else
      let k := min c.toNat files.length
      (s, { u with off := u.off + k }, some (files.take k), none)

end UFile

/-! ### afero helpers used by the wrappers -/

/-- `IsDir(fs, path)`: (isDir, error?) -/
def fsIsDir (m : MemFs) (k : Key) : Bool × Option FsErr :=
  match m.lookup k with
  | none => (false, some .notexist)
  | some f => ((m.obj f).dir, none)

/-- `Exists(fs, path)` -/
def fsExists (m : MemFs) (k : Key) : Bool := (m.lookup k).isSome

/-- `copyFile(base, layer, name, bfh)` with `bfh` a fresh read handle on the base object `bo`:
    MkdirAll the parent in the layer if missing, Create, io.Copy, size check, Close, Chtimes.
    `dirStr` is `filepath.Dir(name)` of the *given* name string. Fault-free version
    (the fault-injected one is in Model/CopyFault.lean). -/
def copyFileFrom (base layer : MemFs) (name : Str) (bo : Nat) (startPos : Nat) : MemFs × Option FsErr :=
  let dk := keyOfStr (Path.dir name)
  let layer := if fsExists layer dk then layer else (layer.mkdirAll dk 0o777).1
  let k := keyOfStr name
  let (layer, lf) := layer.create k
  let src := base.obj bo
  -- mem.File.Read with the offset beyond the end (O_APPEND then O_TRUNC in the caller's flags):
  -- io.ErrUnexpectedEOF; io.Copy fails, the fresh layer file is removed again
  if !src.dir && startPos > src.data.length then ((layer.remove k).1, some .eof) else
  -- io.Copy reads from the handle's position on; a directory handle yields no bytes
  let copied : Bytes := if src.dir then [] else src.data.drop startPos
  let layer := layer.setObj lf ((layer.obj lf).withIO copied (copied ≠ []) layer.now)
  let size := if src.dir then 42 else src.data.length
  if size ≠ copied.length then
    ((layer.remove k).1, some .io)           -- syscall.EIO
  else
    -- lfh.Close() stamps now, then Chtimes restores the base's mtime
    let layer := layer.setObj lf { layer.obj lf with mtime := layer.now }
    ((layer.chtimes k src.mtime).1, none)

def copyFile (base layer : MemFs) (name : Str) (bo : Nat) : MemFs × Option FsErr :=
  copyFileFrom base layer name bo 0

/-- `copyToLayer(base, layer, name)` -/
def copyToLayer (base layer : MemFs) (name : Str) : MemFs × Option FsErr :=
  match base.lookup (keyOfStr name) with
  | none => (layer, some .notexist)
  | some bo => copyFile base layer name bo

end AferoVerif
