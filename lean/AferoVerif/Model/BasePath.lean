/-
  Model of basepath.go `RealPath` / `BasePathFile.Name` and httpFs.go `httpDir.Open`'s path
  computation, at string level exactly as the source has them.
-/
import AferoVerif.Model.Path
namespace AferoVerif
open Path

/-- strings.TrimSuffix(s, "/") -/
def trimSuffixSep (s : Str) : Str :=
  match s.getLast? with
  | some c => if c = sep then s.dropLast else s
  | none => s

/-- what is left of a cleaned path below the base path must not begin with `..` -/
def restOK (rest : Str) : Bool := rest ≠ dotdot ∧ ¬ hasPrefix rest (dotdot ++ [sep])

/-- `withinBasePath` (as repaired): the cleaned path is the cleaned base path, or lies below it — on a
    separator boundary, and (for relative base paths such as "." or "..") without climbing out again -/
def withinBasePath (bpath path : Str) : Bool :=
  path = bpath ∨
    (if bpath = dot then restOK path
     else hasPrefix path (trimSuffixSep bpath ++ [sep]) ∧ restOK (path.drop (trimSuffixSep bpath ++ [sep]).length))

/-- `(*BasePathFs).RealPath` (as repaired). `none` = os.ErrNotExist. -/
def realPath (base name : Str) : Option Str :=
  let bpath := clean base
  let path := clean (join2 bpath name)
  if withinBasePath bpath path then some path else none

/-- `BasePathFile.Name` (as repaired): strings.TrimPrefix(sourcename, TrimSuffix(Clean(f.path), "/")); below
    the base path "." the source's names carry no prefix, and the separator is put in front unless it is
    there; a relative base path on a source that reports rooted names is compared with the separator in front -/
def bpFileName (base sourcename : Str) : Str :=
  let bpath := trimSuffixSep (clean base)
  if bpath = dot then
    (if sourcename = dot then [] else if isRooted sourcename then sourcename else sep :: sourcename)
  else
    let bpath := if bpath ≠ [] ∧ ¬ isRooted bpath ∧ isRooted sourcename then sep :: bpath else bpath
    trimPrefix sourcename bpath

/-- the name `httpDir.Open` hands to the source: Join(dir, path.Clean("/"+name)) -/
def httpPath (basePath name : Str) : Str :=
  let dir := if basePath = [] then dot else basePath
  join2 dir (clean (sep :: name))

/-- util.go FullBaseFsPath for a two-level nesting: outer.RealPath(inner-combined) -/
def fullBasePath2 (outer inner name : Str) : Str :=
  let combined := join2 inner name      -- filepath.Join(inner.path, relativePath)
  join2 outer combined

end AferoVerif
