/-
  Model of basepath.go `RealPath` / `BasePathFile.Name` and httpFs.go `httpDir.Open`'s path
  computation, at string level exactly as the source has them.
-/
import AferoVerif.Model.Path
namespace AferoVerif
open Path

/-- strings.TrimSuffix(s, "/") -/
def trimSuffixSep (s : Str) : Str :=
  match s.getLast? with
  | some c => if c = sep then s.dropLast else s
  | none => s

/-- `(*BasePathFs).RealPath` (as repaired: the prefix test is made on a separator boundary).
    `none` = os.ErrNotExist. -/
def realPath (base name : Str) : Option Str :=
  let bpath := clean base
  let path := clean (join2 bpath name)
  if path = bpath ∨ hasPrefix path (trimSuffixSep bpath ++ [sep]) then some path else none

/-- `BasePathFile.Name` (as repaired): strings.TrimPrefix(sourcename, TrimSuffix(Clean(f.path), "/")) -/
def bpFileName (base sourcename : Str) : Str := trimPrefix sourcename (trimSuffixSep (clean base))

/-- the name `httpDir.Open` hands to the source: Join(dir, path.Clean("/"+name)) -/
def httpPath (basePath name : Str) : Str :=
  let dir := if basePath = [] then dot else basePath
  join2 dir (clean (sep :: name))

/-- util.go FullBaseFsPath for a two-level nesting: outer.RealPath(inner-combined) -/
def fullBasePath2 (outer inner name : Str) : Str :=
  let combined := join2 inner name      -- filepath.Join(inner.path, relativePath)
  join2 outer combined

end AferoVerif
