/-
  Executable model of iofs.go: `IOFS` (afero.Fs ↦ io/fs.FS) and `FromIOFS` (io/fs.FS ↦ afero.Fs),
  function by function, over any source given as a step function on the MemMapFs model (so that
  `IOFS` nests over BasePathFs, ReadOnlyFs and `FromIOFS` itself).

  Strings are byte strings (`Str = List Char`, one `Char` per byte).
  `IOFS.Open` and `IOFS.ReadFile` validate their argument with fs.ValidPath; `IOFS.ReadDir`,
  `IOFS.Stat` (the embedded Fs.Stat), `IOFS.Glob` and `IOFS.Sub` do not — the repository's own test
  suite relies on that (`fs.WalkDir(iofs, "", …)` in TestIOFSNativeDirEntryWhenPossible), so it
  is modelled as it is.  Behaviour modelled is that of the *repaired* source in one point:
  `Sub(".")` is the file system itself (BasePathFs rooted at "." serves nothing but ".").
-/
import AferoVerif.Model.BasePathFs
namespace AferoVerif
open Path

/-! ### io/fs.ValidPath -/

/-- one element of a path: not "", "." or ".." -/
def okElem (e : Seg) : Bool := e ≠ [] && e ≠ dot && e ≠ dotdot

/-- the loop of `fs.ValidPath`: scan up to the next '/', check the element, go on behind it -/
def validAux : Str → Seg → Bool
  | [], cur => okElem cur.reverse
  | c :: cs, cur => if c = sep then okElem cur.reverse && validAux cs [] else validAux cs (c :: cur)

/-- `utf8.ValidString` as a state machine over the bytes: `need` continuation bytes are still
    owed, the next of which must lie in [lo, hi] (RFC 3629: no overlong forms, no surrogates,
    nothing above U+10FFFF) -/
def utf8Aux : Str → Nat → Nat → Nat → Bool
  | [], need, _, _ => need = 0
  | c :: cs, need, lo, hi =>
    let x := c.toNat
    if need = 0 then
      if x < 0x80 then utf8Aux cs 0 0 0
      else if 0xC2 ≤ x ∧ x ≤ 0xDF then utf8Aux cs 1 0x80 0xBF
      else if x = 0xE0 then utf8Aux cs 2 0xA0 0xBF
      else if x = 0xED then utf8Aux cs 2 0x80 0x9F
      else if 0xE1 ≤ x ∧ x ≤ 0xEF then utf8Aux cs 2 0x80 0xBF
      else if x = 0xF0 then utf8Aux cs 3 0x90 0xBF
      else if x = 0xF4 then utf8Aux cs 3 0x80 0x8F
      else if 0xF1 ≤ x ∧ x ≤ 0xF3 then utf8Aux cs 3 0x80 0xBF
      else false
    else if lo ≤ x ∧ x ≤ hi then utf8Aux cs (need - 1) 0x80 0xBF else false

def validUTF8 (s : Str) : Bool := utf8Aux s 0 0 0

/-- `fs.ValidPath(name)` -/
def validPath (name : Str) : Bool :=
  if !validUTF8 name then false else if name = dot then true else validAux name []

/-! ### path.Match(pattern, "") ≠ nil: the guard of `IOFS.Glob` -/

/-- bytes of the UTF-8 sequence starting with this lead byte (valid UTF-8 assumed) -/
def runeLen (c : Char) : Nat :=
  if c.toNat < 0xC0 then 1 else if c.toNat < 0xE0 then 2 else if c.toNat < 0xF0 then 3 else 4

/-- `getEsc`: the rest of the chunk behind one (possibly escaped) character; `none` = ErrBadPattern -/
def getEsc (chunk : Str) : Option Str :=
  match chunk with
  | [] => none
  | c :: rest =>
    if c = '-' ∨ c = ']' then none
    else
      let chunk1 := if c = '\\' then rest else chunk
      match chunk1 with
      | [] => none
      | d :: _ =>
        let n := chunk1.drop (runeLen d)
        if n = [] then none else some n

/-- the range loop of a character class (behind `[` and an optional `^`); returns what follows
    the closing `]`, `none` = ErrBadPattern.  Fuel: every round consumes a character. -/
def classLoop : Nat → Str → Nat → Option Str
  | 0, _, _ => none
  | fuel + 1, chunk, nrange =>
    if chunk.head? = some ']' ∧ nrange > 0 then some chunk.tail
    else
      match getEsc chunk with
      | none => none
      | some ch1 =>
        if ch1.head? = some '-' then
          match getEsc ch1.tail with
          | none => none
          | some ch2 => classLoop fuel ch2 (nrange + 1)
        else classLoop fuel ch1 (nrange + 1)

/-- `matchChunk(chunk, "")` reports ErrBadPattern -/
def chunkBad : Nat → Str → Bool
  | 0, _ => false
  | _ + 1, [] => false
  | fuel + 1, c :: rest =>
    if c = '[' then
      let rest' := if rest.head? = some '^' then rest.tail else rest
      match classLoop (rest'.length + 1) rest' 0 with
      | none => true
      | some r => chunkBad fuel r
    else if c = '\\' then
      match rest with
      | [] => true
      | _ :: r => chunkBad fuel r
    else chunkBad fuel rest

/-- the scan loop of `scanChunk` (leading stars already dropped): (chunk, rest) -/
def scanAux : Str → Bool → Str → Str × Str
  | [], _, acc => (acc.reverse, [])
  | c :: cs, inrange, acc =>
    if c = '\\' then
      match cs with
      | d :: ds => scanAux ds inrange (d :: c :: acc)
      | [] => (List.reverse (c :: acc), [])
    else if c = '[' then scanAux cs true (c :: acc)
    else if c = ']' then scanAux cs false (c :: acc)
    else if c = '*' ∧ !inrange then (acc.reverse, c :: cs)
    else scanAux cs inrange (c :: acc)

def scanChunk (pattern : Str) : Str × Str := scanAux (pattern.dropWhile (· = '*')) false []

/-- the chunk loop of `path.Match(pattern, "")` as far as the error is concerned -/
def badLoop : Nat → Str → Bool
  | 0, _ => false
  | fuel + 1, p =>
    if p = [] then false
    else
      let sc := scanChunk p
      if chunkBad (sc.1.length + 1) sc.1 then true else badLoop fuel sc.2

/-- `_, err := path.Match(pattern, ""); err != nil` -/
def badPattern (p : Str) : Bool := badLoop (p.length + 1) p

/-- match.go `hasMeta` -/
def hasMeta (p : Str) : Bool := p.any fun c => c = '*' || c = '?' || c = '['

/-! ### IOFS -/

/-- order of `sort.Slice(items, func(i, j) bool { return items[i].Name() < items[j].Name() })`;
    names in one directory are distinct, so the result is the sorted list -/
def sortEntries (es : List (Str × Bool)) : List (Str × Bool) := es.mergeSort fun a b => strLe a.1 b.1

inductive GlobOut where
  | bad                         -- path.ErrBadPattern
  | names (ns : List Str)
  | beyond                      -- a pattern with wildcards that passes the guard: afero.Glob proper (C16), not modelled here
  deriving DecidableEq, Repr, Inhabited

namespace IOFS

/-- `IOFS.Open` (the `readDirFile` wrapper adds `ReadDir` to handles that lack it: `fileReadDir`) -/
def open_ (src : StepFn) (m : MemFs) (name : Str) : MemFs × MRes :=
  if !validPath name then (m, .err .inval) else src m (.open_ name)

/-- `IOFS.Stat`: the embedded `Fs.Stat`, reached by `fs.Stat` because IOFS is a StatFS -/
def stat (src : StepFn) (m : MemFs) (name : Str) : MemFs × MRes := src m (.stat name)

/-- `readDirFile.ReadDir(n)` = `mem.File.ReadDir(n)`: `Readdir(n)`, nothing but the error if there is one -/
def fileReadDir (src : StepFn) (m : MemFs) (h : Nat) (n : Int) : MemFs × MRes :=
  let r := src m (.hReaddir h n)
  match r.2 with
  | .infos es none => (r.1, .infos es none)
  | .infos _ (some e) => (r.1, .infos [] (some e))
  | other => (r.1, other)

/-- `IOFS.ReadDir`: Open (of the source: the name is not validated), ReadDir(-1), sort by name,
    deferred Close -/
def readDir (src : StepFn) (m : MemFs) (name : Str) : MemFs × MRes :=
  let r := src m (.open_ name)
  match r.2 with
  | .handle h _ =>
    let r2 := fileReadDir src r.1 h (-1)
    let r3 := src r2.1 (.hClose h)
    match r2.2 with
    | .infos es none => (r3.1, .infos (sortEntries es) none)
    | .infos _ (some e) => (r3.1, .file (.err e))
    | other => (r3.1, other)
  | other => (r.1, other)

/-- `bytes.Buffer.ReadFrom` inside `readAll`: Read into the free space until io.EOF -/
def readAllLoop (src : StepFn) (h : Nat) : Nat → MemFs → Bytes → Nat → MemFs × MRes
  | 0, m, acc, _ => (m, .file (.bytes acc none))
  | fuel + 1, m, acc, chunk =>
    let r := src m (.hRead h chunk)
    match r.2 with
    | .file (.bytes b none) => readAllLoop src h fuel r.1 (acc ++ b) 512
    | .file (.bytes b (some .eof)) => (r.1, .file (.bytes (acc ++ b) none))
    | .file (.bytes _ (some e)) => (r.1, .file (.err e))
    | other => (r.1, other)

/-- `IOFS.ReadFile` = validate, then ioutil.go `ReadFile`: Open, Stat for the size hint,
    read everything (first into size+bytes.MinRead bytes of room), deferred Close -/
def readFile (src : StepFn) (m : MemFs) (name : Str) : MemFs × MRes :=
  if !validPath name then (m, .err .inval)
  else
    let r := src m (.open_ name)
    match r.2 with
    | .handle h _ =>
      let st := src r.1 (.hStat h)
      let size := match st.2 with | .info _ sz _ _ => sz | _ => 0
      let r2 := readAllLoop src h (size + 2) st.1 [] (size + 512)
      let r3 := src r2.1 (.hClose h)
      (r3.1, r2.2)
    | other => (r.1, other)

/-- `IOFS.Glob`: the guard, and `afero.Glob` for a pattern without wildcards (one Lstat) -/
def glob (src : StepFn) (m : MemFs) (pattern : Str) : MemFs × GlobOut :=
  if badPattern pattern then (m, .bad)
  else if !hasMeta pattern then
    let r := src m (.stat pattern)
    match r.2 with
    | .info _ _ _ _ => (r.1, .names [pattern])
    | _ => (r.1, .names [])
  else (m, .beyond)

/-- `IOFS.Sub(dir)` (as repaired: "." is the file system itself): the step function of the file
    system the result wraps -/
def sub (src : StepFn) (dir : Str) : StepFn := if dir = dot then src else bpStep src dir

end IOFS

/-! ### FromIOFS over IOFS over a source -/

/-- `FromIOFS{IOFS{src}}` without `File.Name` (which needs the name table below): every
    mutator is refused, reads go to the wrapped io/fs file system -/
def fromStepM (src : StepFn) (m : MemFs) : Op → MemFs × MRes
  | .create _ | .mkdir _ _ | .mkdirAll _ _ | .remove _ | .removeAll _ | .rename _ _
  | .chmod _ _ | .chown _ _ _ | .chtimes _ _ => (m, .err .perm)
  | .open_ p => IOFS.open_ src m p
  | .openFile p _ _ => IOFS.open_ src m p                 -- OpenFile ignores flag and perm
  | .stat p => IOFS.stat src m p                          -- fs.Stat: IOFS is a StatFS
  | .hWrite _ _ | .hWriteAt _ _ _ | .hTrunc _ _ => (m, .err .perm)
  | .hSync _ => (m, .ok)
  | .hName _ => (m, .err .inval)
  | .hReaddir h n => IOFS.fileReadDir src m h n           -- ReadDir(n), then Info() of every entry
  | .hReaddirnames h n =>
    let r := IOFS.fileReadDir src m h n
    match r.2 with
    | .infos es e => (r.1, .names (es.map (·.1)) e)
    | other => (r.1, other)
  | op => src m op                                        -- Read, ReadAt, Seek, Stat, Close of the wrapped file

structure FromSt where
  m : MemFs := MemFs.init
  names : List (Nat × Str) := []       -- handle ↦ the name it was opened with (`fromIOFSFile.name`)
  deriving Inhabited

/-- `FromIOFS` with its files' names -/
def fromStep (src : StepFn) (s : FromSt) (op : Op) : FromSt × MRes :=
  match op with
  | .hName h =>
    match s.names.find? (·.1 = h) with
    | some e => (s, .str e.2)
    | none => (s, .err .inval)
  | op =>
    let r := fromStepM src s.m op
    let p? : Option Str := match op with | .open_ p => some p | .openFile p _ _ => some p | _ => none
    match p?, r.2 with
    | some p, .handle h _ => ({ m := r.1, names := (h, p) :: s.names }, r.2)
    | _, _ => ({ s with m := r.1 }, r.2)

end AferoVerif
