/-
  The uniform operation vocabulary of the Fs-level script language, and the MemMapFs model as
  one step function over it.  Wrapper models (ReadOnlyFs, BasePathFs, RegexpFs, CopyOnWriteFs,
  CacheOnReadFs) are written against this vocabulary.
-/
import AferoVerif.Model.MemMapFs
namespace AferoVerif

inductive Op where
  | create (p : Str)
  | mkdir (p : Str) (perm : Nat)
  | mkdirAll (p : Str) (perm : Nat)
  | open_ (p : Str)
  | openFile (p : Str) (flag perm : Nat)
  | remove (p : Str)
  | removeAll (p : Str)
  | rename (a b : Str)
  | stat (p : Str)
  | chmod (p : Str) (mode : Nat)
  | chown (p : Str) (uid gid : Int)
  | chtimes (p : Str) (t : Int)
  -- handle methods
  | hRead (h len : Nat)
  | hReadAt (h len : Nat) (off : Int)
  | hWrite (h : Nat) (b : Bytes)
  | hWriteAt (h : Nat) (b : Bytes) (off : Int)
  | hTrunc (h : Nat) (size : Int)
  | hSeek (h : Nat) (off : Int) (wh : Nat)
  | hClose (h : Nat)
  | hName (h : Nat)
  | hStat (h : Nat)
  | hSync (h : Nat)
  | hReaddir (h : Nat) (n : Int)
  | hReaddirnames (h : Nat) (n : Int)
  deriving Repr, Inhabited

/-- does the op address a handle? -/
def Op.handle? : Op → Option Nat
  | .hRead h _ | .hReadAt h _ _ | .hWrite h _ | .hWriteAt h _ _ | .hTrunc h _ | .hSeek h _ _
  | .hClose h | .hName h | .hStat h | .hSync h | .hReaddir h _ | .hReaddirnames h _ => some h
  | _ => none

namespace MemFs

/-- the MemMapFs model as a step function -/
def step (m : MemFs) : Op → MemFs × MRes
  | .create p => let (m1, f) := m.create (keyOfStr p); let (m2, h) := m1.addHandle f false; (m2, .handle h none)
  | .mkdir p perm => m.mkdir (keyOfStr p) perm
  | .mkdirAll p perm => m.mkdirAll (keyOfStr p) perm
  | .open_ p => m.openRO (keyOfStr p)
  | .openFile p flag perm => m.openFile (keyOfStr p) flag perm
  | .remove p => m.remove (keyOfStr p)
  | .removeAll p => m.removeAll (keyOfStr p)
  | .rename a b => m.rename (keyOfStr a) (keyOfStr b)
  | .stat p => (m, m.stat (keyOfStr p))
  | .chmod p mode => m.chmod (keyOfStr p) mode
  | .chown p u g => m.chown (keyOfStr p) u g
  | .chtimes p t => m.chtimes (keyOfStr p) t
  | .hRead h n => m.hRead h n
  | .hReadAt h n off => m.hReadAt h n off
  | .hWrite h b => m.hWrite h b
  | .hWriteAt h b off => m.hWriteAt h b off
  | .hTrunc h n => m.hTruncate h n
  | .hSeek h off wh => m.hSeek h off wh
  | .hClose h => m.hClose h
  | .hName h => (m, m.hName h)
  | .hStat h => (m, m.hStat h)
  | .hSync h => (m, if h < m.handles.length then .ok else .err .inval)
  | .hReaddir h n =>
    let (m', fs, e) := m.readdir h n
    (m', match fs with
      | none => .file (.err (e.getD .inval))
      | some fs => .infos (fs.map fun o => (baseName (m'.obj o).name, (m'.obj o).dir)) e)
  | .hReaddirnames h n =>
    let (m', fs, e) := m.readdir h n
    (m', match fs with
      | none => .file (.err (e.getD .inval))
      | some fs => .names (fs.map fun o => baseName (m'.obj o).name) e)

end MemFs
end AferoVerif
