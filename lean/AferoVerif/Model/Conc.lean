/-
  Concurrency model for MemMapFs (properties C03, C04).

  Part 1 — lock protocol.  Each goroutine is the sequence of lock events its calls perform
  (acquire/release of the filesystem's RWMutex `mu` in write or read mode, acquire/release of one
  file's mutex).  The semantics is Go's: a write acquire needs `mu` free, a read acquire needs no
  writer, a file acquire needs that file's mutex free; *releasing a lock that is not held is a
  fatal runtime error*.  `Held.step` is the per-goroutine discipline the instrumented harness
  checks on every observed trace.

  Part 2 — atomic operations: each call with a single effect section is a function S → S × R run
  under mutual exclusion.
-/
namespace AferoVerif.Conc

inductive Ev where
  | acqMuW | acqMuR | relMuW | relMuR
  | acqF (o : Nat) | relF (o : Nat)
  deriving DecidableEq, Repr

/-- what one goroutine holds -/
structure Held where
  muW : Bool := false
  muR : Bool := false
  file : Option Nat := none
  deriving DecidableEq, Repr

def Held.empty : Held := {}

/-- the discipline: `mu` is acquired only while holding nothing; a file mutex only while holding no
    other file mutex; only held locks are released. `none` = the event leaves the discipline. -/
def Held.step (h : Held) : Ev → Option Held
  | .acqMuW => if h = Held.empty then some { muW := true } else none
  | .acqMuR => if h = Held.empty then some { muR := true } else none
  | .acqF o => if h.file = none then some { h with file := some o } else none
  | .relMuW => if h.muW then some { h with muW := false } else none
  | .relMuR => if h.muR then some { h with muR := false } else none
  | .relF o => if h.file = some o then some { h with file := none } else none

/-- a goroutine's remaining events obey the discipline from `h` on and end holding nothing -/
def Typed : Held → List Ev → Prop
  | h, [] => h = Held.empty
  | h, e :: es => ∃ h', h.step e = some h' ∧ Typed h' es

def typedB : Held → List Ev → Bool
  | h, [] => decide (h = Held.empty)
  | h, e :: es => match h.step e with
    | some h' => typedB h' es
    | none => false

structure Thread where
  held : Held := {}
  rest : List Ev := []
  deriving Repr

abbrev Pool := List Thread

/-- global lock state, as Go keeps it: is there a writer, how many readers, which file mutexes -/
def writers (p : Pool) : Nat := (p.filter (·.held.muW)).length
def readers (p : Pool) : Nat := (p.filter (·.held.muR)).length
def holdsFile (p : Pool) (o : Nat) : Nat := (p.filter (·.held.file = some o)).length

/-- can event `e` proceed in pool `p` (Go semantics)? releases always can. -/
def canProceed (p : Pool) : Ev → Bool
  | .acqMuW => writers p = 0 && readers p = 0
  | .acqMuR => writers p = 0
  | .acqF o => holdsFile p o = 0
  | _ => true

/-- would event `e` be a *fatal error* in pool `p` (release of a lock nobody holds)? -/
def fatal (p : Pool) : Ev → Bool
  | .relMuW => writers p = 0
  | .relMuR => readers p = 0
  | .relF o => holdsFile p o = 0
  | _ => false

/-! ### Part 2: operations with a single effect section -/

/-- an operation whose whole effect happens in one critical section -/
abbrev AOp (S R : Type) := S → S × R

/-- run the operations in the order the schedule gives their critical sections -/
def runSeq {S R : Type} (s : S) : List (AOp S R) → S × List R
  | [] => (s, [])
  | op :: ops => let r := op s; let rest := runSeq r.1 ops; (rest.1, r.2 :: rest.2)

end AferoVerif.Conc
