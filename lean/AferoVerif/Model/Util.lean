/-
  Model of the whole-file helpers of util.go / ioutil.go over the MemMapFs model:
  WriteFile, ReadFile, WriteReader, SafeWriteReader (with a reader that hands its bytes over in
  one Write, as bytes.Reader.WriteTo does).
-/
import AferoVerif.Model.FsOp
namespace AferoVerif
namespace Util
open MemFs

/-- outcome of a helper that returns only an error -/
inductive Res where
  | ok | fail (e : String)
  deriving DecidableEq, Repr

def wflags : Nat := O_WRONLY ||| O_CREATE ||| O_TRUNC

/-- `Write` then `Close` on a fresh handle, as the three writers do -/
def writeClose (m : MemFs) (h : Nat) (data : Bytes) : MemFs × Res :=
  let r := m.hWrite h data
  let c := r.1.hClose h
  match r.2 with
  | .file (.n n none) => if n < data.length then (c.1, .fail "short write") else (c.1, match c.2 with | .ok => .ok | _ => .fail "close")
  | _ => (c.1, .fail "write")

/-- `WriteFile(fs, name, data, perm)`: OpenFile(O_WRONLY|O_CREATE|O_TRUNC), Write, Close -/
def writeFile (m : MemFs) (name : Str) (data : Bytes) (perm : Nat) : MemFs × Res :=
  let r := m.openFile (keyOfStr name) wflags perm
  match r.2 with
  | .handle h none => writeClose r.1 h data
  | _ => (r.1, .fail "open")

/-- `WriteReader(fs, path, r)`: MkdirAll of the directory part (if any), Create, io.Copy, Close -/
def writeReader (m : MemFs) (path : Str) (data : Bytes) : MemFs × Res :=
  let dir := (Path.splitDirFile path).1
  let r0 : MemFs × MRes := if dir = [] then (m, .ok) else m.mkdirAll (keyOfStr dir) 0o777
  match r0.2 with
  | .ok =>
    let c := r0.1.create (keyOfStr path)
    let a := c.1.addHandle c.2 false
    writeClose a.1 a.2 data
  | _ => (r0.1, .fail "mkdirall")

/-- `SafeWriteReader`: refuses an existing path, otherwise as WriteReader -/
def safeWriteReader (m : MemFs) (path : Str) (data : Bytes) : MemFs × Res :=
  if (m.lookup (keyOfStr path)).isSome then (m, .fail "already exists") else writeReader m path data

/-- `ReadFile(fs, name)`: Open, one Read into a buffer with room for size + bytes.MinRead bytes,
    a second Read that finds the end, Close -/
def readFile (m : MemFs) (name : Str) : MemFs × Option Bytes :=
  let r := m.openRO (keyOfStr name)
  match r.2 with
  | .handle h _ =>
    let size := match r.1.hStat h with | .info _ s _ _ => s | _ => 0
    let r1 := r.1.hRead h (size + 512)
    let c := r1.1.hClose h
    match r1.2 with
    | .file (.bytes b none) => (c.1, some b)
    | .file (.bytes b (some .eof)) => (c.1, some b)        -- an empty file: the first Read already reports EOF
    | _ => (c.1, none)
  | _ => (r.1, none)

end Util
end AferoVerif
