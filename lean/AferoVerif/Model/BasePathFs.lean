/-
  Model of basepath.go's per-method delegation: every name goes through `RealPath`; an escaping
  name is reported as not existing without consulting the source; `BasePathFile.Name` strips
  the cleaned root.  Parametric in the source's step function so that wrappers nest.
-/
import AferoVerif.Model.BasePath
import AferoVerif.Model.FsOp
namespace AferoVerif

abbrev StepFn := MemFs → Op → MemFs × MRes

/-- the op with its name argument(s) mapped through `RealPath`; `none` if one of them escapes -/
def bpMapOp (D : Str) : Op → Option Op
  | .create p => (realPath D p).map .create
  | .mkdir p perm => (realPath D p).map (.mkdir · perm)
  | .mkdirAll p perm => (realPath D p).map (.mkdirAll · perm)
  | .open_ p => (realPath D p).map .open_
  | .openFile p f perm => (realPath D p).map (.openFile · f perm)
  | .remove p => (realPath D p).map .remove
  | .removeAll p => (realPath D p).map .removeAll
  | .rename a b => match realPath D a, realPath D b with
    | some a', some b' => some (.rename a' b')
    | _, _ => none
  | .stat p => (realPath D p).map .stat
  | .chmod p m => (realPath D p).map (.chmod · m)
  | .chown p u g => (realPath D p).map (.chown · u g)
  | .chtimes p t => (realPath D p).map (.chtimes · t)
  | op => some op        -- handle methods are forwarded

/-- BasePathFs over any source -/
def bpStep (src : StepFn) (D : Str) (m : MemFs) (op : Op) : MemFs × MRes :=
  match op with
  | .hName h =>
    let r := src m (.hName h)
    match r.2 with
    | .str s => (r.1, .str (bpFileName D s))
    | other => (r.1, other)
  | op =>
    match bpMapOp D op with
    | none => (m, .err .notexist)
    | some op' => src m op'

end AferoVerif
