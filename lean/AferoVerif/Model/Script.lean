/-
  Script helpers shared by all driver engines: hex encoding of byte strings,
  integer parsing, canonical output rendering.  Core only.
-/
namespace AferoVerif

abbrev Bytes := List UInt8

namespace Script

def hexDigit (n : Nat) : Char :=
  if n < 10 then Char.ofNat (48 + n) else Char.ofNat (87 + n)

def hexOfBytes (b : Bytes) : String :=
  String.ofList (b.flatMap fun x => [hexDigit (x.toNat / 16), hexDigit (x.toNat % 16)])

def hexVal (c : Char) : Option Nat :=
  if '0' ≤ c ∧ c ≤ '9' then some (c.toNat - 48)
  else if 'a' ≤ c ∧ c ≤ 'f' then some (c.toNat - 87)
  else if 'A' ≤ c ∧ c ≤ 'F' then some (c.toNat - 55)
  else none

def bytesOfHexAux : List Char → Option Bytes
  | [] => some []
  | [_] => none
  | a :: b :: rest => do
    let x ← hexVal a
    let y ← hexVal b
    let r ← bytesOfHexAux rest
    pure (UInt8.ofNat (x * 16 + y) :: r)

/-- `-` denotes the empty byte string, so that every token is non-empty. -/
def bytesOfHex (s : String) : Option Bytes :=
  if s = "-" then some [] else bytesOfHexAux s.toList

def hexOrDash (b : Bytes) : String :=
  if b.isEmpty then "-" else hexOfBytes b

def strOfBytes (b : Bytes) : String :=
  String.fromUTF8! (ByteArray.mk b.toArray)

def bytesOfStr (s : String) : Bytes := s.toUTF8.data.toList

/-- strings travel hex encoded (they may hold spaces, separators, dots) -/
def strOfHex (s : String) : Option String := (bytesOfHex s).map fun b => String.ofList (b.map fun x => Char.ofNat x.toNat)

def hexOfStr (s : String) : String := hexOrDash (s.toList.map fun c => UInt8.ofNat c.toNat)

def parseInt (s : String) : Option Int := s.toInt?

def parseNat (s : String) : Option Nat := s.toNat?

def tokens (line : String) : List String :=
  (line.splitOn " ").filter (· ≠ "")

end Script
end AferoVerif
