/-
  An invariant of every reachable MemMapFs state: every value of the path map is an allocated
  object (`ValsOK`), hence `InRange`. Preserved by every operation of `MemFs.step`, so the
  hypotheses `InRange` of the content theorems hold in every state reachable from `MemFs.init`.
-/
import AferoVerif.Proofs.CopyUp
import AferoVerif.Model.FsOp
namespace AferoVerif
namespace MemFs

def ValsOK (m : MemFs) : Prop := ∀ e ∈ m.data, e.2 < m.objs.length

theorem valsOK_inRange {m : MemFs} (h : ValsOK m) : InRange m := by
  intro k f hl
  unfold lookup alLookup at hl
  cases hf : m.data.find? (·.1 = k) with
  | none => rw [hf] at hl; cases hl
  | some e =>
    rw [hf] at hl
    simp only [Option.map_some, Option.some.injEq] at hl
    rw [← hl]
    exact h e (List.mem_of_find?_eq_some hf)

theorem valsOK_init : ValsOK MemFs.init := by
  intro e he
  simp [init] at he
  subst he
  simp [init]

/-- same map, at least as many objects -/
theorem valsOK_objs (m m' : MemFs) (h : ValsOK m) (hd : m'.data = m.data) (hl : m.objs.length ≤ m'.objs.length) : ValsOK m' := by
  intro e he; rw [hd] at he; exact Nat.lt_of_lt_of_le (h e he) hl

theorem valsOK_setObj (m : MemFs) (h : ValsOK m) (i : Nat) (d : FData) : ValsOK (m.setObj i d) :=
  valsOK_objs m _ h rfl (by rw [length_setObj]; exact Nat.le_refl _)

theorem valsOK_handles (m : MemFs) (h : ValsOK m) (hs : List MHandle) : ValsOK { m with handles := hs } :=
  valsOK_objs m _ h rfl (Nat.le_refl _)

theorem valsOK_filter (m : MemFs) (h : ValsOK m) (p : Key × Nat → Bool) : ValsOK { m with data := m.data.filter p } := by
  intro e he
  exact h e (List.mem_filter.mp he).1

theorem valsOK_erase (m : MemFs) (h : ValsOK m) (k : Key) : ValsOK { m with data := alErase m.data k } := by
  unfold alErase; exact valsOK_filter m h _

theorem valsOK_insert (m : MemFs) (h : ValsOK m) (k : Key) (v : Nat) (hv : v < m.objs.length) :
    ValsOK { m with data := alInsert m.data k v } := by
  intro e he
  simp only at he
  unfold alInsert at he
  split at he
  · obtain ⟨x, hx, rfl⟩ := List.mem_map.mp he
    split
    · exact hv
    · exact h x hx
  · rcases List.mem_append.mp he with he | he
    · exact h e he
    · simp at he; subst he; exact hv

theorem valsOK_alloc_insert (m : MemFs) (h : ValsOK m) (d : FData) (k : Key) :
    ValsOK { (m.alloc d).1 with data := alInsert (m.alloc d).1.data k (m.alloc d).2 } := by
  have h1 : ValsOK (m.alloc d).1 := valsOK_objs m _ h rfl (by simp [alloc])
  exact valsOK_insert _ h1 k _ (by simp [alloc])

theorem reg_valsOK (fuel : Nat) : ∀ (m : MemFs) (f perm : Nat), ValsOK m → ValsOK (registerWithParent fuel m f perm) := by
  induction fuel with
  | zero => intro m f perm h; exact h
  | succ n ih =>
    intro m f perm hr
    unfold registerWithParent
    simp only
    cases hl : m.lookup (parentKey (m.obj f).name) with
    | some p => simp only; exact valsOK_setObj _ hr _ _
    | none =>
      simp only
      have e2 := ih _ (m.alloc { (m.newDir (parentKey (m.obj f).name)) with mode := modeDir ||| perm }).2 perm
        (valsOK_alloc_insert m hr { (m.newDir (parentKey (m.obj f).name)) with mode := modeDir ||| perm } (parentKey (m.obj f).name))
      split
      · exact e2
      · exact valsOK_setObj _ e2 _ _

theorem valsOK_create (m : MemFs) (k : Key) (h : ValsOK m) : ValsOK (m.create k).1 := by
  unfold create
  cases hl : m.lookup k with
  | none => simp only; exact reg_valsOK _ _ _ _ (valsOK_alloc_insert m h _ _)
  | some f =>
    simp only
    split
    · exact reg_valsOK _ _ _ _ (valsOK_alloc_insert m h _ _)
    · exact valsOK_setObj _ h _ _

theorem valsOK_setFileMode (m : MemFs) (k : Key) (mode : Nat) (h : ValsOK m) : ValsOK (m.setFileMode k mode).1 := by
  unfold setFileMode
  split
  · exact h
  · exact valsOK_setObj _ h _ _

theorem valsOK_mkdir (m : MemFs) (k : Key) (perm : Nat) (h : ValsOK m) : ValsOK (m.mkdir k perm).1 := by
  unfold mkdir
  simp only
  cases hl : m.lookup k with
  | some f => exact h
  | none =>
    simp only
    have h3 := reg_valsOK
      (MemFs.regFuel { (m.alloc { (m.newDir k) with mode := modeDir ||| (perm &&& chmodBits) }).1 with
        data := alInsert (m.alloc { (m.newDir k) with mode := modeDir ||| (perm &&& chmodBits) }).1.data k (m.alloc { (m.newDir k) with mode := modeDir ||| (perm &&& chmodBits) }).2 }
        (m.alloc { (m.newDir k) with mode := modeDir ||| (perm &&& chmodBits) }).2)
      _ (m.alloc { (m.newDir k) with mode := modeDir ||| (perm &&& chmodBits) }).2 (perm &&& chmodBits)
      (valsOK_alloc_insert m h { (m.newDir k) with mode := modeDir ||| (perm &&& chmodBits) } k)
    have h4 := valsOK_setFileMode _ k ((perm &&& chmodBits) ||| modeDir) h3
    split <;> rename_i heq <;> rw [heq] at h4 <;> exact h4

theorem valsOK_mkdirAll (m : MemFs) (k : Key) (perm : Nat) (h : ValsOK m) : ValsOK (m.mkdirAll k perm).1 := by
  have hmk := valsOK_mkdir m k perm h
  unfold mkdirAll
  split
  · rename_i m' heq; rw [heq] at hmk; exact hmk
  · exact hmk

theorem valsOK_unreg (m : MemFs) (k : Key) (h : ValsOK m) (m1 : MemFs) (hu : m.unRegisterWithParent k = .ok m1) : ValsOK m1 := by
  unfold unRegisterWithParent at hu
  split at hu
  · cases hu
  · split at hu
    · cases hu
    · injection hu with hu; rw [← hu]; exact valsOK_setObj _ h _ _

end MemFs
end AferoVerif

namespace AferoVerif
namespace MemFs

theorem valsOK_openFile (m : MemFs) (k : Key) (flag perm : Nat) (h : ValsOK m) : ValsOK (m.openFile k flag perm).1 := by
  unfold openFile
  simp only
  split
  · exact h
  · cases hl : m.lookup k with
    | some f =>
      simp only
      by_cases hT : (flag &&& O_TRUNC > 0 ∧ flag &&& (O_RDWR ||| O_WRONLY) > 0)
      · simp only [hT, and_self, if_true, Bool.false_eq_true, if_false]
        exact valsOK_handles _ (valsOK_setObj _ h _ _) _
      · simp only [hT, if_false, Bool.false_eq_true]
        exact valsOK_handles _ h _
    | none =>
      simp only
      by_cases hC : flag &&& O_CREATE > 0
      · simp only [hC, if_true]
        have hc := valsOK_create m k h
        generalize m.create k = C at hc
        obtain ⟨m1, f⟩ := C
        simp only at hc ⊢
        by_cases hT : (flag &&& O_TRUNC > 0 ∧ flag &&& (O_RDWR ||| O_WRONLY) > 0)
        · simp only [hT, and_self, if_true]
          exact valsOK_setFileMode _ _ _ (valsOK_handles _ (valsOK_setObj _ hc _ _) _)
        · simp only [hT, if_false]
          exact valsOK_setFileMode _ _ _ (valsOK_handles _ hc _)
      · simp only [hC, if_false]
        exact h

theorem valsOK_remove (m : MemFs) (k : Key) (h : ValsOK m) : ValsOK (m.remove k).1 := by
  unfold remove
  split
  · exact h
  · split
    · rename_i m1 hu; exact valsOK_erase _ (valsOK_unreg m k h m1 hu) k
    · exact h
    · exact h

theorem valsOK_removeAll (m : MemFs) (k : Key) (h : ValsOK m) : ValsOK (m.removeAll k).1 := by
  unfold removeAll
  split
  · exact h
  · rename_i r _
    simp only
    split
    · rename_i m1 hu; exact valsOK_filter _ (valsOK_unreg m k h m1 hu) _
    · exact valsOK_filter _ h _

theorem valsOK_chmod (m : MemFs) (k : Key) (mode : Nat) (h : ValsOK m) : ValsOK (m.chmod k mode).1 := by
  unfold chmod
  simp only
  split
  · exact h
  · rename_i f _
    have := valsOK_setFileMode m k (((m.obj f).mode - ((m.obj f).mode &&& chmodBits)) ||| (mode &&& chmodBits)) h
    split <;> rename_i heq <;> rw [heq] at this <;> exact this

theorem valsOK_chown (m : MemFs) (k : Key) (u g : Int) (h : ValsOK m) : ValsOK (m.chown k u g).1 := by
  unfold chown; split
  · exact h
  · exact valsOK_setObj _ h _ _

theorem valsOK_chtimes (m : MemFs) (k : Key) (t : Int) (h : ValsOK m) : ValsOK (m.chtimes k t).1 := by
  unfold chtimes; split
  · exact h
  · exact valsOK_setObj _ h _ _

theorem valsOK_fileIO (m : MemFs) (hi : Nat) (f : Bytes → Handle → Bytes × Handle × FOut) (t : Bool) (h : ValsOK m) :
    ValsOK (m.fileIO hi f t).1 := by
  unfold fileIO; split
  · exact h
  · exact valsOK_handles _ (valsOK_setObj _ h _ _) _

theorem valsOK_hClose (m : MemFs) (hi : Nat) (h : ValsOK m) : ValsOK (m.hClose hi).1 := by
  unfold hClose; split
  · exact h
  · simp only
    split
    · exact valsOK_handles _ h _
    · exact valsOK_handles _ (valsOK_setObj _ h _ _) _

theorem valsOK_readdir (m : MemFs) (hi : Nat) (c : Int) (h : ValsOK m) : ValsOK (m.readdir hi c).1 := by
  unfold readdir; split
  · exact h
  · simp only
    split
    · exact h
    · exact valsOK_handles _ h _

end MemFs
end AferoVerif

namespace AferoVerif
namespace MemFs

theorem findDescendants_inRange (m : MemFs) (name : Key) (h : ValsOK m) : ∀ d ∈ m.findDescendants name, d < m.objs.length := by
  intro d hd
  unfold findDescendants at hd
  simp only at hd
  have hp := (List.mergeSort_perm ((m.data.filter fun e => isUnder name e.1).map (·.2))
    (fun a b => decide (depthOf (m.obj a).name ≤ depthOf (m.obj b).name))).mem_iff.mp hd
  obtain ⟨e, he, rfl⟩ := List.mem_map.mp hp
  exact h e (List.mem_filter.mp he).1

theorem unreg_len (m : MemFs) (k : Key) (m1 : MemFs) (hu : m.unRegisterWithParent k = .ok m1) : m1.objs.length = m.objs.length := by
  unfold unRegisterWithParent at hu
  split at hu
  · cases hu
  · split at hu
    · cases hu
    · injection hu with hu; rw [← hu]; exact length_setObj _ _ _

/-- one round of `renameDescendants` keeps the invariant and does not lose objects -/
theorem renameOneDesc_ok (o n : Key) (N : Nat) (acc : Option (MemFs × List Key)) (desc : Nat) (hd : desc < N)
    (hacc : ∀ m' rs, acc = some (m', rs) → ValsOK m' ∧ N ≤ m'.objs.length) :
    ∀ m' rs, renameOneDesc o n acc desc = some (m', rs) → ValsOK m' ∧ N ≤ m'.objs.length := by
  intro m' rs hr
  unfold renameOneDesc at hr
  split at hr
  · cases hr
  · rename_i m0 removes
    obtain ⟨v0, l0⟩ := hacc m0 removes rfl
    simp only at hr
    split at hr
    · rename_i m1 hu
      have v1 := valsOK_unreg m0 _ v0 m1 hu
      have l1 := unreg_len m0 _ m1 hu
      injection hr with hr
      injection hr with hr1 hr2
      rw [← hr1]
      have v2 := valsOK_setObj m1 v1 desc { m1.obj desc with name := rePrefix o n (m0.obj desc).name }
      have v3 := valsOK_insert _ v2 (rePrefix o n (m0.obj desc).name) desc (by rw [length_setObj]; omega)
      refine ⟨reg_valsOK _ _ _ _ v3, ?_⟩
      have ex := reg_ext
        (MemFs.regFuel { (m1.setObj desc { m1.obj desc with name := rePrefix o n (m0.obj desc).name }) with
          data := alInsert (m1.setObj desc { m1.obj desc with name := rePrefix o n (m0.obj desc).name }).data (rePrefix o n (m0.obj desc).name) desc } desc)
        { (m1.setObj desc { m1.obj desc with name := rePrefix o n (m0.obj desc).name }) with
          data := alInsert (m1.setObj desc { m1.obj desc with name := rePrefix o n (m0.obj desc).name }).data (rePrefix o n (m0.obj desc).name) desc } desc 0
      have := ex.len
      simp only [length_setObj] at this
      omega
    · cases hr

theorem foldl_renameOneDesc_ok (o n : Key) (N : Nat) (ds : List Nat) (hds : ∀ d ∈ ds, d < N) :
    ∀ (acc : Option (MemFs × List Key)), (∀ m' rs, acc = some (m', rs) → ValsOK m' ∧ N ≤ m'.objs.length) →
    ∀ m' rs, ds.foldl (renameOneDesc o n) acc = some (m', rs) → ValsOK m' ∧ N ≤ m'.objs.length := by
  induction ds with
  | nil => intro acc h m' rs e; exact h m' rs e
  | cons d ds ih =>
    intro acc h
    simp only [List.foldl_cons]
    exact ih (fun x hx => hds x (List.mem_cons_of_mem _ hx)) _
      (renameOneDesc_ok o n N acc d (hds d List.mem_cons_self) h)

theorem valsOK_rename (m : MemFs) (a b : Key) (h : ValsOK m) : ValsOK (m.rename a b).1 := by
  unfold rename
  cases hl : m.lookup a with
  | none => exact h
  | some f =>
    simp only
    split
    · exact h
    · have hf := valsOK_inRange h a f hl
      split
      · exact h
      · exact h
      · rename_i m1 hu
        have v1 := valsOK_unreg m a h m1 hu
        have l1 := unreg_len m a m1 hu
        have v2 := valsOK_setObj m1 v1 f { m1.obj f with name := b }
        have v3 := valsOK_insert _ v2 b f (by rw [length_setObj]; omega)
        split
        · exact h
        · rename_i m4 removes hfold
          have hinv := foldl_renameOneDesc_ok a b
            ({ (m1.setObj f { m1.obj f with name := b }) with data := alInsert (m1.setObj f { m1.obj f with name := b }).data b f } : MemFs).objs.length
            _ (findDescendants_inRange _ a v3) (some (_, [])) (by
              intro m' rs e; injection e with e; injection e with e1 e2; rw [← e1]; exact ⟨v3, Nat.le_refl _⟩)
            m4 removes hfold
          exact reg_valsOK _ _ _ _ (valsOK_erase _ (valsOK_filter _ hinv.1 _) _)

end MemFs
end AferoVerif

namespace AferoVerif
namespace MemFs

/-- **every operation preserves the invariant** -/
theorem valsOK_step (m : MemFs) (op : Op) (h : ValsOK m) : ValsOK (m.step op).1 := by
  cases op with
  | create p =>
    simp only [step]
    have hc := valsOK_create m (keyOfStr p) h
    generalize m.create (keyOfStr p) = C at hc
    obtain ⟨m1, f⟩ := C
    exact valsOK_handles _ hc _
  | mkdir p perm => exact valsOK_mkdir m _ perm h
  | mkdirAll p perm => exact valsOK_mkdirAll m _ perm h
  | open_ p =>
    simp only [step, openRO]
    split
    · exact h
    · exact valsOK_handles _ h _
  | openFile p flag perm => exact valsOK_openFile m _ flag perm h
  | remove p => exact valsOK_remove m _ h
  | removeAll p => exact valsOK_removeAll m _ h
  | rename a b => exact valsOK_rename m _ _ h
  | stat p => exact h
  | chmod p mode => exact valsOK_chmod m _ mode h
  | chown p u g => exact valsOK_chown m _ u g h
  | chtimes p t => exact valsOK_chtimes m _ t h
  | hRead hi n => exact valsOK_fileIO m hi _ _ h
  | hReadAt hi n off => exact valsOK_fileIO m hi _ _ h
  | hWrite hi b => exact valsOK_fileIO m hi _ _ h
  | hWriteAt hi b off => exact valsOK_fileIO m hi _ _ h
  | hTrunc hi n => exact valsOK_fileIO m hi _ _ h
  | hSeek hi off wh => exact valsOK_fileIO m hi _ _ h
  | hClose hi => exact valsOK_hClose m hi h
  | hName hi => exact h
  | hStat hi => exact h
  | hSync hi => exact h
  | hReaddir hi n =>
    simp only [step]
    have := valsOK_readdir m hi n h
    generalize m.readdir hi n = R at this
    obtain ⟨m', fs, e⟩ := R
    exact this
  | hReaddirnames hi n =>
    simp only [step]
    have := valsOK_readdir m hi n h
    generalize m.readdir hi n = R at this
    obtain ⟨m', fs, e⟩ := R
    exact this

/-- the state after a sequence of operations -/
def run (m : MemFs) : List Op → MemFs
  | [] => m
  | op :: ops => run (m.step op).1 ops

/-- **every state reachable from the initial filesystem maps names to allocated objects** -/
theorem reachable_inRange (ops : List Op) : InRange (run MemFs.init ops) := by
  suffices ∀ m, ValsOK m → ValsOK (run m ops) from valsOK_inRange (this _ valsOK_init)
  induction ops with
  | nil => intro m h; exact h
  | cons op ops ih => intro m h; exact ih _ (valsOK_step m op h)

end MemFs
end AferoVerif
