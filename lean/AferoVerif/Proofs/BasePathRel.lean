/-
  C09 for EVERY root — relative ones included ("rel", "./rel/", "a/b", "..", "../up", and the working
  directory "." / "").

  `Props/C09.lean` states the re-rooting theorems for absolute roots.  Here they are lifted:

  * `prependAll D n` — "D prepended to n" for every root: the empty root is the working directory
    ".", everything else is `D`, `D/n`.  For absolute roots it is `C09.prepend` (`prependAll_rooted`).
  * `realPath_key_all` — an accepted name resolves to the key of `prependAll D n` (no hypothesis on D).
  * `bp_commutes_all` — the commuting theorem for every root.
  * `nested_key_all` — stacking = one base-path filesystem on the joined roots, for every outer root
    D1 and every inner root D2 (relative inner roots: no side condition at all; absolute inner
    roots: `D2/name` never steps above its start, the condition `C09.nested_key` has too).
  * `fullBasePath2_key` — the full-path helper returns (a path with the key of) that joined path.
  * `bp_file_name_rel`, `bp_file_name_rel_rooted` — `File.Name` below a relative root.
-/
import AferoVerif.Props.C09
import AferoVerif.Proofs.RealPathRel
namespace AferoVerif
open Path C09

/-! ### cleaning is idempotent, for rooted and relative strings alike -/

theorem segsR_normal_of_rooted (s : Str) (h : isRooted s = true) : ∀ x ∈ segsR s, Normal x := by
  unfold segsR; rw [h]; exact cleanSegs_rooted_normal _ (split_no_sep s)

theorem segsR_relShape (s : Str) (h : isRooted s = false) : RelShape (segsR s) := by
  unfold segsR; rw [h]; exact cleanSegs_rel_shape _ (split_no_sep s)

theorem segsR_clean (s : Str) : segsR (clean s) = segsR s := by
  rw [clean_eq_render]
  cases h : isRooted s with
  | true => exact segsR_render_true _ (segsR_normal_of_rooted s h)
  | false => exact segsR_render_false _ (segsR_relShape s h)

theorem clean_clean (s : Str) : clean (clean s) = clean s := by
  rw [clean_eq_render (clean s), isRooted_clean, segsR_clean, ← clean_eq_render]

theorem keyOfStr_eq (s : Str) : keyOfStr s = normKey ⟨isRooted s, segsR s⟩ := rfl

/-- cleaning first does not change the key — every string -/
theorem keyOfStr_clean_all (s : Str) : keyOfStr (clean s) = keyOfStr s := by
  rw [keyOfStr_eq, keyOfStr_eq, isRooted_clean, segsR_clean]

theorem cleanStep_skip (r : Bool) (stk : List Seg) (s : Seg) (h : s = [] ∨ s = dot) :
    cleanStep r stk s = stk := by
  unfold cleanStep; simp only [h, if_true]

theorem cleanSegs_skip_dot (r : Bool) (d q : List Seg) :
    cleanSegs r (d ++ dot :: q) = cleanSegs r (d ++ q) := by
  unfold cleanSegs
  simp only [List.foldl_append, List.foldl_cons]
  rw [cleanStep_skip r _ dot (Or.inr rfl)]

/-- the stack after reading `Clean(Y)` is the stack after reading `Y` -/
theorem foldl_split_clean (Y : Str) :
    (split (clean Y)).foldl (cleanStep (isRooted Y)) [] = (split Y).foldl (cleanStep (isRooted Y)) [] := by
  have h := segsR_clean Y
  unfold segsR cleanSegs at h
  rw [isRooted_clean] at h
  exact List.reverse_inj.mp h

/-- Clean is a left fold: cleaning a prefix first changes nothing (rooted or not) -/
theorem cleanSegs_split_clean_append (Y : Str) (c : List Seg) :
    cleanSegs (isRooted Y) (split (clean Y) ++ c) = cleanSegs (isRooted Y) (split Y ++ c) := by
  unfold cleanSegs
  rw [List.foldl_append, List.foldl_append, foldl_split_clean]

/-! ### the root prepended, for every root -/

/-- the empty root is the working directory -/
def rootOf (D : Str) : Str := if D = [] then dot else D

theorem rootOf_ne_nil (D : Str) : rootOf D ≠ [] := by
  unfold rootOf
  by_cases h : D = []
  · simp only [h, if_true]; decide
  · simp only [h, if_false]; exact h

theorem rootOf_of_ne_nil (D : Str) (h : D ≠ []) : rootOf D = D := by
  unfold rootOf; simp only [h, if_false]

theorem rootOf_of_rooted (D : Str) (h : isRooted D = true) : rootOf D = D := by
  apply rootOf_of_ne_nil
  intro e; rw [e] at h; exact absurd h (by decide)

theorem clean_rootOf (D : Str) : clean (rootOf D) = clean D := by
  unfold rootOf
  by_cases h : D = []
  · simp only [h, if_true]; decide
  · simp only [h, if_false]

/-- `RealPath` sees the root only through `Clean`: "" and "." are the same root -/
theorem realPath_rootOf (D n : Str) : realPath (rootOf D) n = realPath D n := by
  unfold realPath; rw [clean_rootOf]

/-- **D prepended to a name, every root**: `D` for the empty name, `D/n` otherwise, the empty root
    being "." (what `filepath.Join(D, n)` denotes below the root; for `D = ""` the name is made
    relative, as `RealPath` does with `Join(Clean(""), n)`) -/
def prependAll (D n : Str) : Str := prepend (rootOf D) n

theorem prependAll_rooted (D n : Str) (h : isRooted D = true) : prependAll D n = prepend D n := by
  unfold prependAll; rw [rootOf_of_rooted D h]

theorem prependAll_ne_nil (D n : Str) (h : D ≠ []) : prependAll D n = prepend D n := by
  unfold prependAll; rw [rootOf_of_ne_nil D h]

/-- rootedness and cleaned segments of `D/n` (`D` not empty; the empty name adds nothing) -/
theorem prepend_shape (D n : Str) (hD : D ≠ []) :
    isRooted (prepend D n) = isRooted D ∧
    segsR (prepend D n) = cleanSegs (isRooted D) (split D ++ split n) := by
  unfold prepend
  by_cases hn : n = []
  · subst hn
    rw [if_pos rfl]
    refine ⟨rfl, ?_⟩
    have : split ([] : Str) = [[]] := rfl
    rw [this, cleanSegs_skip_empty, List.append_nil]; rfl
  · simp only [hn, if_false]
    refine ⟨isRooted_append_ne D _ hD, ?_⟩
    unfold segsR
    rw [isRooted_append_ne D _ hD, split_append_sep]

/-- the same for what `RealPath` computes before its test: `Join(Clean(D), n)` -/
theorem join2_clean_shape (D n : Str) :
    isRooted (join2 (clean D) n) = isRooted D ∧
    segsR (join2 (clean D) n) = cleanSegs (isRooted D) (split D ++ split n) := by
  have hc := clean_ne_nil D
  unfold join2
  simp only [hc, if_false]
  by_cases hn : n = []
  · subst hn
    simp only [if_true]
    refine ⟨by rw [isRooted_clean, isRooted_clean], ?_⟩
    have : split ([] : Str) = [[]] := rfl
    rw [segsR_clean, segsR_clean, this, cleanSegs_skip_empty, List.append_nil]; rfl
  · simp only [hn, if_false]
    have hr : isRooted (clean D ++ sep :: n) = isRooted D := by
      rw [isRooted_append_ne _ _ hc, isRooted_clean]
    refine ⟨by rw [isRooted_clean, hr], ?_⟩
    rw [segsR_clean]
    unfold segsR
    rw [hr, split_append_sep, cleanSegs_split_clean_append]

theorem realPath_eq (D n p : Str) (h : realPath D n = some p) : p = clean (join2 (clean D) n) := by
  unfold realPath at h; simp only at h
  split at h
  · injection h with h; exact h.symm
  · exact absurd h (by simp)

/-- what an accepted path is made of: rooted iff the root is, segments of `D/n` -/
theorem realPath_shape (D n p : Str) (h : realPath D n = some p) :
    isRooted p = isRooted D ∧ segsR p = cleanSegs (isRooted D) (split D ++ split n) := by
  rw [realPath_eq D n p h, isRooted_clean, segsR_clean]
  exact join2_clean_shape D n

/-- **(1) what an accepted name resolves to, every root**: the key of `D/name` (`D` itself for the
    empty name, "." for the empty root).  No hypothesis on the root: absolute, relative, with
    trailing separators, "..", "../up", ".", "". -/
theorem realPath_key_all (D n p : Str) (h : realPath D n = some p) :
    keyOfStr p = keyOfStr (prependAll D n) := by
  rw [← realPath_rootOf] at h
  obtain ⟨h1, h2⟩ := realPath_shape (rootOf D) n p h
  obtain ⟨h3, h4⟩ := prepend_shape (rootOf D) n (rootOf_ne_nil D)
  unfold prependAll
  rw [keyOfStr_eq, keyOfStr_eq, h1, h2, h3, h4]

/-- below a root that cleans to "." the name is simply made relative -/
theorem prependAll_dot (D n : Str) (hd : clean D = dot) :
    keyOfStr (prependAll D n) = keyOfStr (join2 dot n) := by
  obtain ⟨h1, h2⟩ := join2_clean_shape (rootOf D) n
  obtain ⟨h3, h4⟩ := prepend_shape (rootOf D) n (rootOf_ne_nil D)
  rw [clean_rootOf, hd] at h1 h2
  unfold prependAll
  rw [keyOfStr_eq, keyOfStr_eq, h1, h2, h3, h4]

/-! ### (2) the commuting theorem, every root -/

/-- the op with the root prepended to its name argument(s), every root -/
def prependOpAll (D : Str) (op : Op) : Op := prependOp (rootOf D) op

theorem prependOpAll_rooted (D : Str) (op : Op) (h : isRooted D = true) : prependOpAll D op = prependOp D op := by
  unfold prependOpAll; rw [rootOf_of_rooted D h]

/-- **(2) C09, main theorem, every root.** For every root D — absolute or relative — and every
    Fs-level operation all of whose names are accepted by `RealPath`, the call through BasePathFs
    has exactly the result and the effect of the same call on the underlying filesystem with D
    prepended. -/
theorem bp_commutes_all (m : MemFs) (D : Str) (op op' : Op) (hop : isNameOp op = true)
    (h : bpMapOp D op = some op') :
    bpStep MemFs.step D m op = m.step (prependOpAll D op) := by
  have hstep : bpStep MemFs.step D m op = m.step op' := by
    cases op <;> simp [isNameOp] at hop <;> simp only [bpStep, h]
  rw [hstep]
  apply step_key_congr
  have K : ∀ n p, realPath D n = some p → keyOfStr p = keyOfStr (prepend (rootOf D) n) :=
    fun n p hr => realPath_key_all D n p hr
  unfold prependOpAll
  cases op with
  | create p => obtain ⟨p', hr, rfl⟩ := map_some h; exact K _ _ hr
  | mkdir p a => obtain ⟨p', hr, rfl⟩ := map_some h; exact ⟨K _ _ hr, rfl⟩
  | mkdirAll p a => obtain ⟨p', hr, rfl⟩ := map_some h; exact ⟨K _ _ hr, rfl⟩
  | open_ p => obtain ⟨p', hr, rfl⟩ := map_some h; exact K _ _ hr
  | openFile p a b => obtain ⟨p', hr, rfl⟩ := map_some h; exact ⟨K _ _ hr, rfl, rfl⟩
  | remove p => obtain ⟨p', hr, rfl⟩ := map_some h; exact K _ _ hr
  | removeAll p => obtain ⟨p', hr, rfl⟩ := map_some h; exact K _ _ hr
  | stat p => obtain ⟨p', hr, rfl⟩ := map_some h; exact K _ _ hr
  | chmod p a => obtain ⟨p', hr, rfl⟩ := map_some h; exact ⟨K _ _ hr, rfl⟩
  | chown p a b => obtain ⟨p', hr, rfl⟩ := map_some h; exact ⟨K _ _ hr, rfl, rfl⟩
  | chtimes p a => obtain ⟨p', hr, rfl⟩ := map_some h; exact ⟨K _ _ hr, rfl⟩
  | rename a b =>
    simp only [bpMapOp] at h
    cases ha : realPath D a with
    | none => rw [ha] at h; simp at h
    | some a' =>
      cases hb : realPath D b with
      | none => rw [ha, hb] at h; simp at h
      | some b' =>
        rw [ha, hb] at h; simp at h; subst h
        exact ⟨K _ _ ha, K _ _ hb⟩
  | _ => simp [isNameOp] at hop

/-! ### (3) stacking: a relative path read on top of any stack -/

/-- a cleaned relative stack `T` (normal segments over `..` elements) put on top of a stack `S`:
    the `..` elements of `T` pop `S` the way the machine with flag `r` pops -/
def rebase (r : Bool) (S : List Seg) : List Seg → List Seg
  | [] => S
  | t :: ts => if t = dotdot then cleanStep r (rebase r S ts) dotdot else t :: rebase r S ts

theorem rebase_step (r : Bool) (S T : List Seg) (s : Seg) :
    rebase r S (cleanStep false T s) = cleanStep r (rebase r S T) s := by
  by_cases h1 : s = [] ∨ s = dot
  · rw [cleanStep_skip _ _ _ h1, cleanStep_skip _ _ _ h1]
  · by_cases h2 : s = dotdot
    · subst h2
      cases T with
      | nil =>
        have : cleanStep false [] dotdot = [dotdot] := by decide
        rw [this]; simp only [rebase, if_true]
      | cons t ts =>
        by_cases ht : t = dotdot
        · have : cleanStep false (t :: ts) dotdot = dotdot :: t :: ts := by
            unfold cleanStep; simp only [h1, if_false, if_true, ht]
          rw [this]; simp only [rebase, if_true]
        · have e1 : cleanStep false (t :: ts) dotdot = ts := by
            unfold cleanStep; simp only [h1, if_false, if_true, ht]
          have e2 : ∀ X : List Seg, cleanStep r (t :: X) dotdot = X := by
            intro X; unfold cleanStep; simp only [h1, if_false, if_true, ht]
          rw [e1]; simp only [rebase, ht, if_false]; rw [e2]
    · have e : ∀ (r' : Bool) (X : List Seg), cleanStep r' X s = s :: X := by
        intro r' X; unfold cleanStep; simp only [h1, h2, if_false]
      rw [e, e]; simp only [rebase, h2, if_false]

theorem rebase_foldl (r : Bool) (S : List Seg) (b T : List Seg) :
    rebase r S (b.foldl (cleanStep false) T) = b.foldl (cleanStep r) (rebase r S T) := by
  induction b generalizing T with
  | nil => rfl
  | cons a as ih => simp only [List.foldl_cons]; rw [ih, rebase_step]

/-- reading a relative path and reading its cleaned form have the same effect on every stack,
    whatever the flag: `Clean(A/Clean(b)) = Clean(A/b)` for relative `b` -/
theorem foldl_cleanSegs_false (r : Bool) (S b : List Seg) (hb : ∀ x ∈ b, sep ∉ x) :
    (cleanSegs false b).foldl (cleanStep r) S = b.foldl (cleanStep r) S := by
  have A := rebase_foldl r S b []
  have B := rebase_foldl r S (cleanSegs false b) []
  have C : (cleanSegs false b).foldl (cleanStep false) [] = b.foldl (cleanStep false) [] := by
    have := cleanSegs_rel_id (cleanSegs false b) (cleanSegs_rel_shape b hb)
    unfold cleanSegs at this ⊢
    exact List.reverse_inj.mp this
  rw [C] at B
  simp only [rebase] at A B
  rw [← A, ← B]

theorem cleanSegs_append_cleanSegs_false (r : Bool) (a b : List Seg) (hb : ∀ x ∈ b, sep ∉ x) :
    cleanSegs r (a ++ cleanSegs false b) = cleanSegs r (a ++ b) := by
  unfold cleanSegs
  rw [List.foldl_append, List.foldl_append]
  exact congrArg List.reverse (foldl_cleanSegs_false r _ b hb)

/-- a path that never steps above its start is cleaned the same way rooted or not -/
theorem foldl_depthOK_flag (segs own : List Seg) (hown : ∀ x ∈ own, Normal x)
    (hs : ∀ x ∈ segs, sep ∉ x) (hd : depthOK segs own.length = true) :
    segs.foldl (cleanStep true) own = segs.foldl (cleanStep false) own := by
  induction segs generalizing own with
  | nil => rfl
  | cons s rest ih =>
    simp only [List.foldl_cons]
    unfold depthOK at hd
    by_cases h1 : s = [] ∨ s = dot
    · simp only [h1, if_true] at hd
      rw [cleanStep_skip _ _ _ h1, cleanStep_skip _ _ _ h1]
      exact ih own hown (fun x hx => hs x (by simp [hx])) hd
    · simp only [h1, if_false] at hd
      by_cases h2 : s = dotdot
      · simp only [h2, if_true, Bool.and_eq_true, decide_eq_true_eq] at hd
        subst h2
        cases own with
        | nil => simp at hd
        | cons t ts =>
          have ht : t ≠ dotdot := (hown t (by simp)).2.2.1
          have e : ∀ r' : Bool, cleanStep r' (t :: ts) dotdot = ts := by
            intro r'; unfold cleanStep; simp only [h1, if_false, if_true, ht]
          rw [e, e]
          exact ih ts (fun x hx => hown x (by simp [hx])) (fun x hx => hs x (by simp [hx])) (by simpa using hd.2)
      · simp only [h2, if_false] at hd
        have hn : Normal s := ⟨fun e => h1 (Or.inl e), fun e => h1 (Or.inr e), h2, hs s (by simp)⟩
        rw [cleanStep_push true _ s hn, cleanStep_push false _ s hn]
        exact ih (s :: own) (by intro x hx; rcases List.mem_cons.mp hx with rfl | hx; exact hn; exact hown x hx)
          (fun x hx => hs x (by simp [hx])) (by simpa using hd)

theorem cleanSegs_depthOK_flag (segs : List Seg) (hs : ∀ x ∈ segs, sep ∉ x) (hd : depthOK segs 0 = true) :
    cleanSegs true segs = cleanSegs false segs := by
  unfold cleanSegs
  rw [foldl_depthOK_flag segs [] (by simp) hs (by simpa using hd)]

/-- `depthOK` is monotone in the depth, and composes -/
theorem depthOK_mono (l : List Seg) (d d' : Nat) (h : depthOK l d = true) (hle : d ≤ d') : depthOK l d' = true := by
  induction l generalizing d d' with
  | nil => rfl
  | cons s rest ih =>
    unfold depthOK at h ⊢
    by_cases h1 : s = [] ∨ s = dot
    · simp only [h1, if_true] at h ⊢; exact ih d d' h hle
    · simp only [h1, if_false] at h ⊢
      by_cases h2 : s = dotdot
      · simp only [h2, if_true, Bool.and_eq_true, decide_eq_true_eq] at h ⊢
        exact ⟨by omega, ih (d - 1) (d' - 1) h.2 (by omega)⟩
      · simp only [h2, if_false] at h ⊢
        exact ih (d + 1) (d' + 1) h (by omega)

theorem depthOK_append (a b : List Seg) (d : Nat) (ha : depthOK a d = true) (hb : depthOK b 0 = true) :
    depthOK (a ++ b) d = true := by
  induction a generalizing d with
  | nil => exact depthOK_mono b 0 d hb (by omega)
  | cons s rest ih =>
    rw [List.cons_append]
    unfold depthOK at ha ⊢
    by_cases h1 : s = [] ∨ s = dot
    · simp only [h1, if_true] at ha ⊢; exact ih d ha
    · simp only [h1, if_false] at ha ⊢
      by_cases h2 : s = dotdot
      · simp only [h2, if_true, Bool.and_eq_true, decide_eq_true_eq] at ha ⊢
        exact ⟨ha.1, ih (d - 1) ha.2⟩
      · simp only [h2, if_false] at ha ⊢
        exact ih (d + 1) ha

/-! ### the string form of a cleaned path, read again on top of a stack -/

theorem split_render_true (q : List Seg) (hq : ∀ x ∈ q, Normal x) :
    split (render true q) = [] :: (if q = [] then [[]] else q) := by
  unfold render; simp only [if_true]; rw [split_sep_cons]
  by_cases hqe : q = []
  · simp [hqe, joinSegs, split, splitAux]
  · simp only [hqe, if_false]; rw [split_joinSegs q (fun x hx => (hq x hx).2.2.2) hqe]

/-- reading `Clean(X)` (any flag, any stack) is reading the cleaned segments of `X` -/
theorem foldl_split_clean_segs (r : Bool) (S : List Seg) (X : Str) :
    (split (clean X)).foldl (cleanStep r) S = (segsR X).foldl (cleanStep r) S := by
  rw [clean_eq_render]
  cases h : isRooted X with
  | true =>
    rw [split_render_true _ (segsR_normal_of_rooted X h)]
    simp only [List.foldl_cons]
    rw [cleanStep_skip r S [] (Or.inl rfl)]
    by_cases hq : segsR X = []
    · simp only [hq, if_true, List.foldl_cons, List.foldl_nil]
      exact cleanStep_skip r S [] (Or.inl rfl)
    · simp only [hq, if_false]
  | false =>
    by_cases hq : segsR X = []
    · rw [hq]
      have : split (render false []) = [dot] := by decide
      rw [this]
      simp only [List.foldl_cons, List.foldl_nil]
      exact cleanStep_skip r S dot (Or.inr rfl)
    · rw [split_render_false _ (segsR_relShape X h) hq]

theorem cleanSegs_append_split_clean (r : Bool) (a : List Seg) (X : Str) :
    cleanSegs r (a ++ split (clean X)) = cleanSegs r (a ++ segsR X) := by
  unfold cleanSegs
  rw [List.foldl_append, List.foldl_append, foldl_split_clean_segs]

/-- the condition on an inner root: a relative inner root needs none; below an absolute inner root
    `D2/name` must not step above its start (Clean of a rooted path silently drops such steps,
    and the outer root would not) -/
def innerOK (D2 n : Str) : Prop := isRooted D2 = true → depthOK (split D2 ++ split n) 0 = true

instance (D2 n : Str) : Decidable (innerOK D2 n) := by unfold innerOK; exact inferInstance

/-- the hypotheses of `C09.nested_key` imply `innerOK` -/
theorem innerOK_of_depthOK (D2 n : Str) (hd2 : depthOK (split D2) 0 = true) (hd : depthOK (split n) 0 = true) :
    innerOK D2 n := fun _ => depthOK_append _ _ 0 hd2 hd

theorem innerOK_of_rel (D2 n : Str) (h : isRooted D2 = false) : innerOK D2 n := by
  intro h'; rw [h] at h'; exact absurd h' (by decide)

/-- segments of the inner path seen from the outer root: `A/Clean(D2/n)` is `A/D2/n` -/
theorem cleanSegs_inner (r : Bool) (a : List Seg) (D2 n : Str) (hd : innerOK D2 n) :
    cleanSegs r (a ++ cleanSegs (isRooted D2) (split D2 ++ split n)) = cleanSegs r (a ++ (split D2 ++ split n)) := by
  have hs : ∀ x ∈ split D2 ++ split n, sep ∉ x := by
    intro x hx
    rcases List.mem_append.mp hx with hx | hx
    · exact split_no_sep D2 x hx
    · exact split_no_sep n x hx
  cases h2 : isRooted D2 with
  | false => exact cleanSegs_append_cleanSegs_false r a _ hs
  | true =>
    rw [cleanSegs_depthOK_flag _ hs (hd h2)]
    exact cleanSegs_append_cleanSegs_false r a _ hs

/-- segments of `Join(D1, D2)/n` -/
theorem join2_prepend_shape (D1 D2 n : Str) (h1 : D1 ≠ []) :
    join2 D1 D2 ≠ [] ∧ isRooted (join2 D1 D2) = isRooted D1 ∧
    cleanSegs (isRooted D1) (split (join2 D1 D2) ++ split n) =
      cleanSegs (isRooted D1) (split D1 ++ (split (rootOf D2) ++ split n)) := by
  unfold join2
  simp only [h1, if_false]
  by_cases h2 : D2 = []
  · subst h2
    simp only [if_true]
    refine ⟨clean_ne_nil D1, isRooted_clean D1, ?_⟩
    have : split (rootOf []) = [dot] := by decide
    rw [cleanSegs_split_clean_append, this, List.singleton_append, cleanSegs_skip_dot]
  · simp only [h2, if_false]
    have hr : isRooted (D1 ++ sep :: D2) = isRooted D1 := isRooted_append_ne D1 _ h1
    refine ⟨clean_ne_nil _, by rw [isRooted_clean, hr], ?_⟩
    rw [← hr, cleanSegs_split_clean_append, split_append_sep, rootOf_of_ne_nil D2 h2, List.append_assoc]

/-- **(3) stacking = joining the roots, every outer root, every inner root.**  Under
    `BasePathFs(BasePathFs(src, D1), D2)` an accepted name reaches the source with the key of
    `Join(D1, D2)/name` (the empty outer root being "."). -/
theorem nested_key_prepend (D1 D2 n p2 p1 : Str) (hd : innerOK D2 n)
    (hp2 : realPath D2 n = some p2) (hp1 : realPath D1 p2 = some p1) :
    keyOfStr p1 = keyOfStr (prependAll (join2 (rootOf D1) D2) n) := by
  have hne1 := rootOf_ne_nil D1
  -- the inner path
  have hp2e : p2 = clean (join2 (clean (rootOf D2)) n) := by
    rw [clean_rootOf]; exact realPath_eq D2 n p2 hp2
  obtain ⟨_, hX⟩ := join2_clean_shape (rootOf D2) n
  have hd' : innerOK (rootOf D2) n := by
    intro hr
    by_cases h2 : D2 = []
    · rw [h2] at hr; exact absurd hr (by decide)
    · rw [rootOf_of_ne_nil D2 h2] at hr ⊢; exact hd hr
  -- the outer path
  rw [← realPath_rootOf] at hp1
  obtain ⟨a1, a2⟩ := realPath_shape (rootOf D1) p2 p1 hp1
  obtain ⟨hJne, hJr, hJs⟩ := join2_prepend_shape (rootOf D1) D2 n hne1
  obtain ⟨b1, b2⟩ := prepend_shape (join2 (rootOf D1) D2) n hJne
  rw [prependAll_ne_nil _ _ hJne, keyOfStr_eq, keyOfStr_eq, a1, a2, b1, b2, hJr, hJs,
    hp2e, cleanSegs_append_split_clean, hX, cleanSegs_inner _ _ _ _ hd']

/-- **(3), in the wording of the property**: the key the source finally sees under the stacked
    pair is the key a single `BasePathFs(src, Join(D1, D2))` resolves the name to. -/
theorem nested_key_all (D1 D2 n p2 p1 p : Str) (hd : innerOK D2 n)
    (hp2 : realPath D2 n = some p2) (hp1 : realPath D1 p2 = some p1)
    (hp : realPath (join2 (rootOf D1) D2) n = some p) :
    keyOfStr p1 = keyOfStr p := by
  rw [nested_key_prepend D1 D2 n p2 p1 hd hp2 hp1, realPath_key_all _ n p hp]

/-- relative inner root (leading `..` included): no side condition -/
theorem nested_key_rel (D1 D2 n p2 p1 p : Str) (h2 : isRooted D2 = false)
    (hp2 : realPath D2 n = some p2) (hp1 : realPath D1 p2 = some p1)
    (hp : realPath (join2 (rootOf D1) D2) n = some p) :
    keyOfStr p1 = keyOfStr p :=
  nested_key_all D1 D2 n p2 p1 p (innerOK_of_rel D2 n h2) hp2 hp1 hp

/-- **the full-path helper returns that joined path** (`FullBaseFsPath` over a two-level nesting,
    non-empty roots): `Join(D1, Join(D2, name))` has the key of `Join(D1, D2)/name` -/
theorem fullBasePath2_key (D1 D2 n : Str) (h1 : D1 ≠ []) (h2 : D2 ≠ []) (hd : innerOK D2 n) :
    keyOfStr (fullBasePath2 D1 D2 n) = keyOfStr (prependAll (join2 D1 D2) n) := by
  have hin : join2 D2 n = clean (prepend D2 n) := by
    unfold join2 prepend
    by_cases hn : n = []
    · simp only [h2, hn, if_false, if_true]
    · simp only [h2, hn, if_false]
  have hout : fullBasePath2 D1 D2 n = clean (D1 ++ sep :: clean (prepend D2 n)) := by
    unfold fullBasePath2
    simp only [hin]
    unfold join2
    simp only [h1, clean_ne_nil, if_false]
  obtain ⟨_, hZ⟩ := prepend_shape D2 n h2
  obtain ⟨hJne, hJr, hJs⟩ := join2_prepend_shape D1 D2 n h1
  obtain ⟨b1, b2⟩ := prepend_shape (join2 D1 D2) n hJne
  have hr : isRooted (D1 ++ sep :: clean (prepend D2 n)) = isRooted D1 := isRooted_append_ne D1 _ h1
  rw [hout, keyOfStr_clean_all, prependAll_ne_nil _ _ hJne, keyOfStr_eq, keyOfStr_eq, b1, b2, hJr, hJs, hr]
  unfold segsR
  rw [hr, split_append_sep, cleanSegs_append_split_clean, hZ, cleanSegs_inner _ _ _ _ hd,
    rootOf_of_ne_nil D2 h2]

/-! ### (4) `File.Name` below a relative root -/

/-- a cleaned relative root other than "." does not end with a separator -/
theorem trimSuffixSep_clean_rel (D : Str) (hD : isRooted D = false) (hd : clean D ≠ dot) :
    trimSuffixSep (clean D) = clean D := by
  have hS := segsR_relShape D hD
  have hc : clean D = render false (segsR D) := by rw [clean_eq_render, hD]
  have hne : segsR D ≠ [] := by intro e; apply hd; rw [hc, e]; rfl
  have hsp := split_render_false _ hS hne
  rw [hc]
  rcases trimSuffixSep_spec (render false (segsR D)) with h1 | h1
  · exact h1
  · exfalso
    rw [h1, split_append_sep] at hsp
    have h3 : ([] : Seg) ∈ segsR D := by rw [← hsp]; simp [split, splitAux]
    exact absurd rfl (hS.elems [] h3).1

/-- **(4a)** relative root D (not the working directory), source reporting relative names:
    `Clean(D)` followed by `rel` is reported as `rel` -/
theorem bp_file_name_rel (D rel : Str) (hD : isRooted D = false) (hd : clean D ≠ dot) :
    bpFileName D (clean D ++ rel) = rel := by
  have ht := trimSuffixSep_clean_rel D hD hd
  have hne := clean_ne_nil D
  have hr : isRooted (clean D) = false := by rw [isRooted_clean]; exact hD
  have hr2 : isRooted (clean D ++ rel) = false := by rw [isRooted_append_ne _ _ hne]; exact hr
  unfold bpFileName trimPrefix
  simp only [ht, hd, if_false]
  have hb : (if clean D ≠ [] ∧ ¬ isRooted (clean D) = true ∧ isRooted (clean D ++ rel) = true
      then sep :: clean D else clean D) = clean D := by simp [hr2]
  rw [hb]
  have : (clean D).isPrefixOf (clean D ++ rel) = true :=
    List.isPrefixOf_iff_prefix.mpr (List.prefix_append _ _)
  simp [this]

/-- **(4b)** the same root over a source that reports rooted names (the nested case the repaired
    `BasePathFile.Name` handles): `/Clean(D)` followed by `rel` is reported as `rel` -/
theorem bp_file_name_rel_rooted (D rel : Str) (hD : isRooted D = false) (hd : clean D ≠ dot) :
    bpFileName D (sep :: (clean D ++ rel)) = rel := by
  have ht := trimSuffixSep_clean_rel D hD hd
  have hne := clean_ne_nil D
  have hr : isRooted (clean D) = false := by rw [isRooted_clean]; exact hD
  have hr2 : isRooted (sep :: (clean D ++ rel)) = true := by simp [isRooted]
  unfold bpFileName trimPrefix
  simp only [ht, hd, if_false]
  have hb : (if clean D ≠ [] ∧ ¬ isRooted (clean D) = true ∧ isRooted (sep :: (clean D ++ rel)) = true
      then sep :: clean D else clean D) = sep :: clean D := by simp [hr2, hr, hne]
  rw [hb]
  have : (sep :: clean D).isPrefixOf (sep :: (clean D ++ rel)) = true :=
    List.isPrefixOf_iff_prefix.mpr (List.prefix_append (sep :: clean D) rel)
  rw [if_pos this]
  simp

/-! ### concrete instances (non-vacuity) and the boundary of the stacking law -/

def rootsL : List Str := [s "", s ".", s "rel", s "./rel/", s "..", s "../up", s "/", s "/base/"]
def namesL : List Str := [s "x", s "/x", s "a/../b", s "", s "/"]

/-- (1): each of the listed roots accepts each of the listed names, and the accepted path has the
    key of `prependAll` (so the hypothesis of `realPath_key_all` is met 40 times here; the corner
    `D = ".."`, `n = ""` is among them: both sides are the root key) -/
example : (rootsL.all fun D => namesL.all fun n =>
    (realPath D n).map keyOfStr == some (keyOfStr (prependAll D n))) = true := by decide

example : prependAll (s "../up") (s "x") = s "../up/x" ∧ prependAll (s "") (s "x") = s "./x" ∧
    prependAll (s "") (s "") = s "." ∧ prependAll (s "..") (s "") = s ".." ∧
    prependAll (s "./rel/") (s "/x") = s "./rel///x" ∧ prependAll (s "/base/") (s "x") = s "/base//x" := by decide

/-- (2): a Rename through a BasePathFs on "../up" -/
example (m : MemFs) : bpStep MemFs.step (s "../up") m (.rename (s "x") (s "a/../b")) =
    m.step (.rename (s "../up/x") (s "../up/a/../b")) := by
  have ha : realPath (s "../up") (s "x") = some (s "../up/x") := by decide
  have hb : realPath (s "../up") (s "a/../b") = some (s "../up/b") := by decide
  exact bp_commutes_all m (s "../up") _ (.rename (s "../up/x") (s "../up/b")) rfl
    (by simp only [bpMapOp, ha, hb])

/-- (2): a Stat of the root itself through a BasePathFs on the working directory -/
example (m : MemFs) : bpStep MemFs.step (s "") m (.stat (s "")) = m.step (.stat (s ".")) := by
  have ha : realPath (s "") (s "") = some (s ".") := by decide
  exact bp_commutes_all m (s "") _ (.stat (s ".")) rfl (by simp only [bpMapOp, ha]; rfl)

/-- (3): relative outer and inner root -/
example : innerOK (s "./rel/") (s "/x") ∧ realPath (s "./rel/") (s "/x") = some (s "rel/x") ∧
    realPath (s "../up") (s "rel/x") = some (s "../up/rel/x") ∧
    realPath (join2 (rootOf (s "../up")) (s "./rel/")) (s "/x") = some (s "../up/rel/x") := by decide
/-- (3): the working directory as outer root -/
example : innerOK (s "a/b") (s "a/../b") ∧ realPath (s "a/b") (s "a/../b") = some (s "a/b/b") ∧
    realPath (s "") (s "a/b/b") = some (s "a/b/b") ∧
    realPath (join2 (rootOf (s "")) (s "a/b")) (s "a/../b") = some (s "a/b/b") := by decide
/-- (3): an inner root with a leading `..` -/
example : innerOK (s "..") (s "a/../b") ∧ realPath (s "..") (s "a/../b") = some (s "../b") ∧
    realPath (s "a/b") (s "../b") = some (s "a/b") ∧
    realPath (join2 (rootOf (s "a/b")) (s "..")) (s "a/../b") = some (s "a/b") := by decide
/-- (3): absolute inner root below a relative outer root -/
example : innerOK (s "/base/") (s "x") ∧ realPath (s "/base/") (s "x") = some (s "/base/x") ∧
    realPath (s "rel") (s "/base/x") = some (s "rel/base/x") ∧
    realPath (join2 (rootOf (s "rel")) (s "/base/")) (s "x") = some (s "rel/base/x") := by decide
/-- (3), boundary: an absolute inner root that steps above its start fails `innerOK`, and there
    stacking and joining really differ -/
example : ¬ innerOK (s "/../a") (s "x") ∧
    (realPath (s "/../a") (s "x")).bind (realPath (s "/r")) = some (s "/r/a/x") ∧
    realPath (join2 (s "/r") (s "/../a")) (s "x") = some (s "/a/x") := by decide
/-- the full-path helper -/
example : innerOK (s "./rel/") (s "x/../y") ∧ fullBasePath2 (s "../up") (s "./rel/") (s "x/../y") = s "../up/rel/y" := by
  decide

/-- (4): relative roots, relative and rooted source names -/
example : isRooted (s "./rel/") = false ∧ clean (s "./rel/") ≠ dot ∧ clean (s "./rel/") ++ s "/d/f" = s "rel/d/f" ∧
    bpFileName (s "./rel/") (s "rel/d/f") = s "/d/f" ∧ bpFileName (s "./rel/") (s "/rel/d/f") = s "/d/f" := by decide
example : isRooted (s "../up") = false ∧ clean (s "../up") ≠ dot ∧
    bpFileName (s "../up") (s "../up/x") = s "/x" ∧ bpFileName (s "..") (s "../x") = s "/x" ∧
    bpFileName (s "a/b") (s "/a/b/x") = s "/x" := by decide

end AferoVerif
