/-
  The index invariant `Consistent` through `Rename` of a directory WITH its subtree onto a free
  name: every object below the old name moves to the corresponding key below the new name, the
  directory objects keep their identity and their indexes follow, entry by entry.

  Structure:
  * key arithmetic: `below a t` (the key `a/t`), `rePrefix` on it, parents;
  * `RenCtx`: the hypotheses, bundled; `Moved`: the final state described relative to the initial
    one; `consistent_of_moved_subtree` proves `Consistent` from that description (key arithmetic);
  * `Mid`: the description of every intermediate state of `renameDescendants` in terms of the list
    `P` of keys already processed; it is preserved by `renameOneDesc` for ANY processing order in
    which a key's parent is processed before the key itself (`mid_step`, `fold_spec`);
  * `KeysNodup`: the path map holds every key once — needed because `findDescendants` lists entries,
    not keys; an invariant of every operation (`keysNodup_step`, `keysNodup_run`);
  * `findDescendants_unlink`: `mergeSort` yields a permutation sorted by depth, hence such an order;
  * `rename_dir_moved` (the call succeeds and ends in a `Moved` state), `consistent_rename_dir`;
  * a concrete instance (`exD`: `/a`, `/a/b`, `/a/b/f`, `/a/g`; `rename /a /z`).
-/
import AferoVerif.Proofs.MemFsInv4
import AferoVerif.Proofs.MemFsInv5
namespace AferoVerif

/-! ### key arithmetic: the key `a/t` -/

/-- the key `a` extended by the elements `t` -/
def below (a : Key) (t : List Seg) : Key := ⟨a.rooted, a.segs ++ t⟩

theorem below_nil (a : Key) : below a [] = a := by
  cases a; simp [below]

theorem rePrefix_below (a b : Key) (t : List Seg) : rePrefix a b (below a t) = below b t := by
  simp [rePrefix, below]

theorem rePrefix_self (a b : Key) : rePrefix a b a = b := by
  have := rePrefix_below a b []
  rw [below_nil, below_nil] at this; exact this

theorem exists_below (a k : Key) (h : isUnder a k = true) : ∃ t, t ≠ [] ∧ k = below a t := by
  obtain ⟨hr, _, hlen, ⟨t, ht⟩⟩ := (isUnder_iff a k).1 h
  refine ⟨t, ?_, ?_⟩
  · intro e; subst e
    rw [List.append_nil] at ht; rw [ht] at hlen; exact Nat.lt_irrefl _ hlen
  · cases k
    simp only [below] at *
    rw [hr, ht]

theorem isUnder_below (a : Key) (t : List Seg) (ha : a.segs ≠ []) (ht : t ≠ []) :
    isUnder a (below a t) = true := by
  rw [isUnder_iff]
  refine ⟨rfl, ha, ?_, List.prefix_append _ _⟩
  have : 0 < t.length := List.length_pos_iff.2 ht
  simp only [below, List.length_append]; omega

theorem not_isUnder_self (a : Key) : isUnder a a = false := by
  cases h : isUnder a a with
  | false => rfl
  | true => exact absurd ((isUnder_iff a a).1 h).2.2.1 (Nat.lt_irrefl _)

theorem normKey_below (a : Key) (t : List Seg) (hn : normKey a = a) (ha : a.segs ≠ []) :
    normKey (below a t) = below a t := by
  obtain ⟨r, s⟩ := a
  simp only at ha
  unfold normKey
  split
  · rename_i h
    exfalso
    simp only [below] at h
    obtain ⟨hr, hs⟩ := h
    subst hr
    cases s with
    | nil => exact ha rfl
    | cons x xs =>
      rcases hs with hs | hs
      · simp at hs
      · simp only [List.cons_append, List.cons.injEq, List.append_eq_nil_iff] at hs
        obtain ⟨hx, hxs, _⟩ := hs
        subst hx; subst hxs
        have : normKey ⟨false, [Path.dotdot]⟩ = rootKey := by simp [normKey]
        rw [this] at hn
        simp [rootKey] at hn
  · rfl

theorem parentKey_below (a : Key) (t : List Seg) (hn : normKey a = a) (ha : a.segs ≠ []) (ht : t ≠ []) :
    parentKey (below a t) = below a t.dropLast := by
  unfold parentKey
  have h1 : (below a t).segs ≠ [] := by simp [below, ha]
  simp only [h1, if_false]
  have h2 : (⟨(below a t).rooted, (below a t).segs.dropLast⟩ : Key) = below a t.dropLast := by
    simp [below, List.dropLast_append_of_ne_nil ht]
  rw [h2]; exact normKey_below a _ hn ha

/-- a key whose parent is `a` or lies below `a` lies below `a` -/
theorem under_of_parent (a k : Key) (ha : a.segs ≠ [])
    (h : parentKey k = a ∨ isUnder a (parentKey k) = true) : isUnder a k = true := by
  have hroot : ¬ (rootKey = a ∨ isUnder a rootKey = true) := by
    intro e; rcases e with e | e
    · exact ha (by rw [← e]; rfl)
    · rw [not_isUnder_root] at e; cases e
  unfold parentKey at h
  by_cases hs : k.segs = []
  · simp only [hs, if_true] at h; exact absurd h hroot
  · simp only [hs, if_false] at h
    rcases normKey_cases ⟨k.rooted, k.segs.dropLast⟩ with e | e
    · rw [e] at h; exact absurd h hroot
    · rw [e] at h
      have hlen : k.segs.dropLast.length < k.segs.length := by
        rw [List.length_dropLast]
        have : 0 < k.segs.length := List.length_pos_iff.2 hs
        omega
      rw [isUnder_iff]
      rcases h with h | h
      · refine ⟨by rw [← h], ha, by rw [← h]; exact hlen, by rw [← h]; exact List.dropLast_prefix _⟩
      · obtain ⟨h1, h2, h3, h4⟩ := (isUnder_iff _ _).1 h
        exact ⟨h1, h2, Nat.lt_trans h3 hlen, h4.trans (List.dropLast_prefix _)⟩

/-- two keys above a common key are comparable -/
theorem under_both (a b k : Key) (h1 : isUnder a k = true) (h2 : isUnder b k = true) :
    a = b ∨ isUnder a b = true ∨ isUnder b a = true := by
  obtain ⟨r1, n1, _, p1⟩ := (isUnder_iff _ _).1 h1
  obtain ⟨r2, n2, _, p2⟩ := (isUnder_iff _ _).1 h2
  rcases Nat.lt_trichotomy a.segs.length b.segs.length with h | h | h
  · right; left; rw [isUnder_iff]
    exact ⟨r1.trans r2.symm, n1, h, List.prefix_of_prefix_length_le p1 p2 (Nat.le_of_lt h)⟩
  · left
    have := List.IsPrefix.eq_of_length (List.prefix_of_prefix_length_le p1 p2 (Nat.le_of_eq h)) h
    cases a; cases b
    simp only at r1 r2 this
    rw [this, r1, r2]
  · right; right; rw [isUnder_iff]
    exact ⟨r2.trans r1.symm, n2, h, List.prefix_of_prefix_length_le p2 p1 (Nat.le_of_lt h)⟩

/-- re-prefixing a key below `a` gives a key below `b`; it can be undone and commutes with
    taking the parent -/
theorem rePrefix_under (a b k : Key) (hna : normKey a = a) (hnb : normKey b = b)
    (ha : a.segs ≠ []) (hb : b.segs ≠ []) (h : isUnder a k = true) :
    isUnder b (rePrefix a b k) = true ∧ rePrefix b a (rePrefix a b k) = k ∧
      parentKey (rePrefix a b k) = rePrefix a b (parentKey k) := by
  obtain ⟨t, ht, e⟩ := exists_below a k h
  subst e
  rw [rePrefix_below, rePrefix_below, parentKey_below a t hna ha ht, parentKey_below b t hnb hb ht,
    rePrefix_below]
  exact ⟨isUnder_below b t hb ht, rfl, rfl⟩

/-- the parent of a key below `a` is strictly less deep -/
theorem depthOf_parent_lt (a k : Key) (hna : normKey a = a) (ha : a.segs ≠ []) (h : isUnder a k = true) :
    MemFs.depthOf (parentKey k) < MemFs.depthOf k := by
  obtain ⟨t, ht, e⟩ := exists_below a k h
  subst e
  rw [parentKey_below a t hna ha ht]
  have : 0 < t.length := List.length_pos_iff.2 ht
  unfold MemFs.depthOf
  have h1 : (below a t.dropLast).rooted = (below a t).rooted := rfl
  rw [h1]
  apply Nat.add_lt_add_left
  simp only [below, List.length_append, List.length_dropLast]
  omega

/-! ### association lists: entries and look-ups -/

theorem mem_of_alLookup (l : List (Key × Nat)) (k : Key) (v : Nat) (h : alLookup l k = some v) : (k, v) ∈ l := by
  induction l with
  | nil => simp [alLookup_nil] at h
  | cons e l ih =>
    rw [alLookup_cons] at h
    by_cases he : e.1 = k
    · simp only [he, if_true] at h
      injection h with h
      have : e = (k, v) := by cases e; simp only at he h; rw [he, h]
      rw [this]; exact List.mem_cons_self
    · simp only [he, if_false] at h
      exact List.mem_cons_of_mem _ (ih h)

theorem alLookup_of_mem_nodup (l : List (Key × Nat)) (hnd : (l.map (·.1)).Nodup) (e : Key × Nat) (he : e ∈ l) :
    alLookup l e.1 = some e.2 := by
  induction l with
  | nil => cases he
  | cons a l ih =>
    rw [List.map_cons, List.nodup_cons] at hnd
    rw [alLookup_cons]
    rcases List.mem_cons.1 he with h | h
    · rw [h]; simp
    · have hne : a.1 ≠ e.1 := by
        intro e1; apply hnd.1; rw [e1]; exact List.mem_map_of_mem h
      simp only [hne, if_false]
      exact ih hnd.2 h

/-- erase one key, enter another -/
theorem alLookup_insert_erase (d : List (Key × Nat)) (a b k' : Key) (v : Nat) :
    alLookup (alInsert (alErase d a) b v) k' = if k' = b then some v else if k' = a then none else alLookup d k' := by
  by_cases h1 : k' = b
  · rw [if_pos h1, h1]; exact alLookup_insert_self _ _ _
  · rw [if_neg h1, alLookup_insert_ne _ _ _ _ h1]
    by_cases h2 : k' = a
    · rw [if_pos h2, h2]; exact alLookup_erase_self _ _
    · rw [if_neg h2]; exact alLookup_erase_ne _ _ _ h2

namespace MemFs

/-! ### the situation of a directory rename -/

/-- `old ↦ f` (listed by the directory object `p`) is renamed to the free name `new` below the
    existing directory object `p'` -/
structure RenCtx (m : MemFs) (old new : Key) (f p p' : Nat) : Prop where
  hc : Consistent m
  hl : m.lookup old = some f
  hn : normKey old = old
  hn' : normKey new = new
  hold : old.segs ≠ []
  hnew : new.segs ≠ []
  hfree : m.lookup new = none
  hnotunder : isUnder old new = false
  hp : m.lookup (parentKey old) = some p
  hp' : m.lookup (parentKey new) = some p'
  hpd' : (m.obj p').memDir.isSome = true

namespace RenCtx
variable {m : MemFs} {old new : Key} {f p p' : Nat} (X : RenCtx m old new f p p')
include X

/-- nothing exists at or below the new name -/
theorem noNew (k : Key) (g : Nat) (h : m.lookup k = some g) : k ≠ new ∧ isUnder new k = false := by
  constructor
  · intro e; rw [e, X.hfree] at h; cases h
  · cases hu : isUnder new k with
    | false => rfl
    | true =>
      have := ancestor_exists m X.hc new X.hn' _ k g rfl h hu
      rw [X.hfree] at this; cases this

theorem ne : old ≠ new := by
  intro e; have := X.hl; rw [e, X.hfree] at this; cases this

/-- the two subtrees do not meet -/
theorem disj (k : Key) (h1 : isUnder new k = true) (h2 : isUnder old k = true) : False := by
  rcases under_both new old k h1 h2 with e | e | e
  · exact X.ne e.symm
  · rw [(X.noNew old f X.hl).2] at e; cases e
  · rw [X.hnotunder] at e; cases e

theorem oldRoot : old ≠ rootKey := fun e => X.hold (by rw [e]; rfl)
theorem newRoot : new ≠ rootKey := fun e => X.hnew (by rw [e]; rfl)

/-- the parent of the new name lies outside the old subtree -/
theorem pnew : parentKey new ≠ old ∧ isUnder old (parentKey new) = false := by
  constructor
  · intro e
    have := under_of_parent old new X.hold (Or.inl e)
    rw [X.hnotunder] at this; cases this
  · cases hu : isUnder old (parentKey new) with
    | false => rfl
    | true =>
      have := under_of_parent old new X.hold (Or.inr hu)
      rw [X.hnotunder] at this; cases this

theorem fwd (k : Key) (h : isUnder old k = true) :
    isUnder new (rePrefix old new k) = true ∧ rePrefix new old (rePrefix old new k) = k ∧
      parentKey (rePrefix old new k) = rePrefix old new (parentKey k) :=
  rePrefix_under old new k X.hn X.hn' X.hold X.hnew h

theorem back (k' : Key) (h : isUnder new k' = true) :
    isUnder old (rePrefix new old k') = true ∧ rePrefix old new (rePrefix new old k') = k' ∧
      parentKey (rePrefix new old k') = rePrefix new old (parentKey k') :=
  rePrefix_under new old k' X.hn' X.hn X.hnew X.hold h

/-- the parent of a key below `new`, through the corresponding key below `old` -/
theorem parent_back (k' : Key) (h : isUnder new k' = true) :
    parentKey k' = rePrefix old new (parentKey (rePrefix new old k')) := by
  obtain ⟨a, b, _⟩ := X.back k' h
  have := (X.fwd _ a).2.2
  rw [b] at this; exact this

end RenCtx

/-! ### the state after the move, described relative to the state before -/

/-- `m'` is `m` with the subtree at `old` moved to `new`: the path map, the objects' names and the
    directory indexes (look-up by look-up) -/
structure Moved (m m' : MemFs) (old new : Key) (f p p' : Nat) : Prop where
  len : m'.objs.length = m.objs.length
  lk : ∀ k', m'.lookup k' =
    if k' = new then some f
    else if isUnder new k' = true then m.lookup (rePrefix new old k')
    else if k' = old ∨ isUnder old k' = true then none
    else m.lookup k'
  name : ∀ j, (m'.obj j).name =
    if j = f then new
    else if isUnder old (m.obj j).name = true ∧ m.lookup (m.obj j).name = some j then rePrefix old new (m.obj j).name
    else (m.obj j).name
  mdNone : ∀ j, (m.obj j).memDir = none → (m'.obj j).memDir = none
  md : ∀ j d, (m.obj j).memDir = some d → ∃ d', (m'.obj j).memDir = some d' ∧ ∀ k', alLookup d' k' =
    if j = p' ∧ k' = new then some f
    else if isUnder old k' = true ∧ (m.lookup k').isSome = true ∧ m.lookup (parentKey k') = some j then none
    else if isUnder new k' = true ∧ (m.lookup (rePrefix new old k')).isSome = true ∧
        m.lookup (parentKey (rePrefix new old k')) = some j then m.lookup (rePrefix new old k')
    else if j = p ∧ k' = old then none
    else alLookup d k'

/-- **a tree whose subtree at `old` has been moved to the free name `new` is consistent** -/
theorem consistent_of_moved_subtree (m m' : MemFs) (old new : Key) (f p p' : Nat)
    (X : RenCtx m old new f p p') (M : Moved m m' old new f p p') : Consistent m' := by
  have hc := X.hc
  -- the keys of the new state
  have hsurv : ∀ k' x, m'.lookup k' = some x →
      (k' = new ∧ x = f) ∨
      (k' ≠ new ∧ isUnder new k' = true ∧ m.lookup (rePrefix new old k') = some x) ∨
      (k' ≠ new ∧ isUnder new k' = false ∧ k' ≠ old ∧ isUnder old k' = false ∧ m.lookup k' = some x) := by
    intro k' x h
    rw [M.lk] at h
    by_cases h1 : k' = new
    · rw [if_pos h1] at h; injection h with h; exact Or.inl ⟨h1, h.symm⟩
    · rw [if_neg h1] at h
      by_cases h2 : isUnder new k' = true
      · rw [if_pos h2] at h; exact Or.inr (Or.inl ⟨h1, h2, h⟩)
      · rw [if_neg h2] at h
        by_cases h3 : k' = old ∨ isUnder old k' = true
        · rw [if_pos h3] at h; cases h
        · rw [if_neg h3] at h
          refine Or.inr (Or.inr ⟨h1, Bool.eq_false_iff.2 h2, fun e => h3 (Or.inl e), ?_, h⟩)
          cases hu : isUnder old k' with
          | false => rfl
          | true => exact absurd (Or.inr hu) h3
  have hnewl : m'.lookup new = some f := by rw [M.lk, if_pos rfl]
  have hmovedl : ∀ k g, isUnder old k = true → m.lookup k = some g → m'.lookup (rePrefix old new k) = some g := by
    intro k g hu h
    obtain ⟨a, b, _⟩ := X.fwd k hu
    rw [M.lk, if_neg (fun e => by rw [e, not_isUnder_self] at a; cases a), if_pos a, b]; exact h
  have hkeep : ∀ k g, m.lookup k = some g → k ≠ old → isUnder old k = false → m'.lookup k = some g := by
    intro k g h h1 h2
    obtain ⟨a, b⟩ := X.noNew k g h
    rw [M.lk, if_neg a, if_neg (by rw [b]; exact Bool.false_ne_true), if_neg ?_]; exact h
    intro e; rcases e with e | e
    · exact h1 e
    · rw [h2] at e; cases e
  refine ⟨?_, ?_, ?_, ?_, ?_⟩
  · intro k' x h
    rw [M.len]
    rcases hsurv k' x h with ⟨_, hx⟩ | ⟨_, _, h0⟩ | ⟨_, _, _, _, h0⟩
    · rw [hx]; exact hc.inRange _ _ X.hl
    · exact hc.inRange _ _ h0
    · exact hc.inRange _ _ h0
  · intro k' x h
    rw [M.name]
    rcases hsurv k' x h with ⟨hk, hx⟩ | ⟨_, hu, h0⟩ | ⟨_, _, hko, huo, h0⟩
    · rw [if_pos hx, hk]
    · obtain ⟨a, b, _⟩ := X.back k' hu
      have hxf : x ≠ f := by
        intro e; rw [e] at h0
        have := hc.inj _ _ _ h0 X.hl
        rw [this, not_isUnder_self] at a; cases a
      rw [if_neg hxf, hc.nameEq _ _ h0, if_pos ⟨a, h0⟩, b]
    · have hxf : x ≠ f := by
        intro e; rw [e] at h0; exact hko (hc.inj _ _ _ h0 X.hl)
      rw [if_neg hxf, hc.nameEq _ _ h0, if_neg (fun e => by have := e.1; rw [huo] at this; cases this)]
  · intro k' x h hr
    rcases hsurv k' x h with ⟨hk, hx⟩ | ⟨hkn, hu, h0⟩ | ⟨hkn, hun, hko, huo, h0⟩
    · -- the new name itself: listed by p'
      subst hk; subst hx
      cases hd : (m.obj p').memDir with
      | none => have := X.hpd'; rw [hd] at this; cases this
      | some pd' =>
        obtain ⟨d', h1, h2⟩ := M.md p' pd' hd
        refine ⟨p', d', hkeep _ _ X.hp' X.pnew.1 X.pnew.2, h1, ?_⟩
        rw [h2, if_pos ⟨rfl, rfl⟩]
    · -- a moved key: listed by the directory that listed it before
      obtain ⟨a, b, _⟩ := X.back k' hu
      have hne0 : rePrefix new old k' ≠ rootKey := by
        intro e; rw [e, not_isUnder_root] at a; cases a
      obtain ⟨pg, d, h1, h2, h3⟩ := hc.hasParent _ x h0 hne0
      obtain ⟨d', h4, h5⟩ := M.md pg d h2
      refine ⟨pg, d', ?_, h4, ?_⟩
      · rw [X.parent_back k' hu]
        rcases parent_of_under old _ X.hn a with e | e
        · rw [e, rePrefix_self]; rw [e, X.hl] at h1; rw [hnewl]; exact h1
        · exact hmovedl _ _ e h1
      · rw [h5, if_neg (fun e => hkn e.2), if_neg (fun e => X.disj k' hu e.1), if_pos ⟨hu, by rw [h0]; rfl, h1⟩]; exact h0
    · obtain ⟨pg, d, h1, h2, h3⟩ := hc.hasParent _ x h0 hr
      obtain ⟨d', h4, h5⟩ := M.md pg d h2
      obtain ⟨hp1, hp2⟩ := parent_survives old k' X.hold hko huo
      refine ⟨pg, d', hkeep _ _ h1 hp1 hp2, h4, ?_⟩
      rw [h5, if_neg (fun e => hkn e.2), if_neg (fun e => by have := e.1; rw [huo] at this; cases this),
        if_neg (fun e => by have := e.1; rw [hun] at this; cases this), if_neg (fun e => hko e.2)]
      exact h3
  · intro kd q d' k'' g' h hd hx
    cases hd0 : (m.obj q).memDir with
    | none => rw [M.mdNone q hd0] at hd; cases hd
    | some d =>
      obtain ⟨d'', h1, h2⟩ := M.md q d hd0
      rw [h1] at hd; injection hd with hd; subst hd
      rw [h2] at hx
      -- the key under which q was known before
      have horig : ∃ k0, m.lookup k0 = some q ∧
          ((k0 = old ∧ kd = new) ∨ (isUnder old k0 = true ∧ kd = rePrefix old new k0) ∨
            (k0 ≠ old ∧ isUnder old k0 = false ∧ kd = k0)) := by
        rcases hsurv kd q h with ⟨hk, hq⟩ | ⟨_, hu, h0⟩ | ⟨_, _, hko, huo, h0⟩
        · exact ⟨old, by rw [hq]; exact X.hl, Or.inl ⟨rfl, hk⟩⟩
        · obtain ⟨a, b, _⟩ := X.back kd hu
          exact ⟨_, h0, Or.inr (Or.inl ⟨a, b.symm⟩)⟩
        · exact ⟨kd, h0, Or.inr (Or.inr ⟨hko, huo, rfl⟩)⟩
      obtain ⟨k0, hk0, hcase⟩ := horig
      by_cases c1 : q = p' ∧ k'' = new
      · rw [if_pos c1] at hx; injection hx with hx
        obtain ⟨hq, hk⟩ := c1
        subst hk; subst hx
        refine ⟨hnewl, ?_, X.newRoot⟩
        have hk0p : k0 = parentKey k'' := hc.inj _ _ _ hk0 (by rw [hq]; exact X.hp')
        rcases hcase with ⟨e, _⟩ | ⟨e, _⟩ | ⟨_, _, e⟩
        · exact absurd (hk0p.symm.trans e) X.pnew.1
        · rw [hk0p, X.pnew.2] at e; cases e
        · rw [e, hk0p]
      · rw [if_neg c1] at hx
        by_cases c2 : isUnder old k'' = true ∧ (m.lookup k'').isSome = true ∧ m.lookup (parentKey k'') = some q
        · rw [if_pos c2] at hx; cases hx
        · rw [if_neg c2] at hx
          by_cases c3 : isUnder new k'' = true ∧ (m.lookup (rePrefix new old k'')).isSome = true ∧
              m.lookup (parentKey (rePrefix new old k'')) = some q
          · rw [if_pos c3] at hx
            obtain ⟨hu, _, hpq⟩ := c3
            obtain ⟨a, b, _⟩ := X.back k'' hu
            refine ⟨?_, ?_, ?_⟩
            · have := hmovedl _ _ a hx; rw [b] at this; exact this
            · have hk0e : k0 = parentKey (rePrefix new old k'') := hc.inj _ _ _ hk0 hpq
              rw [X.parent_back k'' hu, ← hk0e]
              rcases hcase with ⟨e1, e2⟩ | ⟨_, e2⟩ | ⟨e1, e2, _⟩
              · rw [e1, rePrefix_self, e2]
              · exact e2.symm
              · exfalso
                rcases parent_of_under old _ X.hn a with e | e
                · exact e1 (hk0e.trans e)
                · rw [← hk0e, e2] at e; cases e
            · intro e; rw [e, not_isUnder_root] at hu; cases hu
          · rw [if_neg c3] at hx
            by_cases c4 : q = p ∧ k'' = old
            · rw [if_pos c4] at hx; cases hx
            · rw [if_neg c4] at hx
              obtain ⟨a, b, c⟩ := hc.noStale _ _ _ _ _ hk0 hd0 hx
              rcases hcase with ⟨e1, _⟩ | ⟨e1, _⟩ | ⟨e1, e2, e3⟩
              · exfalso; apply c2
                exact ⟨under_of_parent old k'' X.hold (Or.inl (b.trans e1)), by rw [a]; rfl, by rw [b]; exact hk0⟩
              · exfalso; apply c2
                exact ⟨under_of_parent old k'' X.hold (Or.inr (by rw [b]; exact e1)), by rw [a]; rfl, by rw [b]; exact hk0⟩
              · have hko : k'' ≠ old := by
                  intro e; apply c4; refine ⟨?_, e⟩
                  rw [e] at b; rw [← b, X.hp] at hk0; injection hk0 with hk0; exact hk0.symm
                have huo : isUnder old k'' = false := by
                  cases hu : isUnder old k'' with
                  | false => rfl
                  | true =>
                    rcases parent_of_under old k'' X.hn hu with e | e
                    · exact absurd (b.symm.trans e) e1
                    · rw [b, e2] at e; cases e
                exact ⟨hkeep _ _ a hko huo, by rw [b, e3], c⟩
  · obtain ⟨r, hr1, hr2⟩ := hc.root
    refine ⟨r, hkeep _ _ hr1 (Ne.symm X.oldRoot) (not_isUnder_root old), ?_⟩
    cases hd : (m.obj r).memDir with
    | none => rw [hd] at hr2; cases hr2
    | some d => obtain ⟨d', h1, _⟩ := M.md r d hd; rw [h1]; rfl

/-! ### one round of `renameDescendants`, spelled out -/

/-- the descendant `g`, known as `k` and listed by the directory object `pg`, becomes `k2` -/
def moveDesc (mi : MemFs) (k k2 : Key) (g pg : Nat) : MemFs :=
  let m1 := mi.setObj pg { mi.obj pg with memDir := (mi.obj pg).memDir.map fun d => alErase d k }
  let m2 := m1.setObj g { m1.obj g with name := k2 }
  let m3 : MemFs := { m2 with data := alInsert m2.data k2 g }
  m3.regInto g pg

theorem lookup_moveDesc (mi : MemFs) (k k2 k' : Key) (g pg : Nat) :
    (mi.moveDesc k k2 g pg).lookup k' = if k' = k2 then some g else mi.lookup k' := by
  show alLookup (alInsert mi.data k2 g) k' = _
  by_cases h : k' = k2
  · rw [if_pos h, h]; exact alLookup_insert_self _ _ _
  · rw [if_neg h]; exact alLookup_insert_ne _ _ _ _ h

theorem length_moveDesc (mi : MemFs) (k k2 : Key) (g pg : Nat) :
    (mi.moveDesc k k2 g pg).objs.length = mi.objs.length := by
  unfold moveDesc
  simp only [length_regInto]
  show ((mi.setObj pg _).setObj g _).objs.length = _
  rw [length_setObj, length_setObj]

theorem obj_moveDesc (mi : MemFs) (k k2 : Key) (g pg j : Nat) (d : List (Key × Nat))
    (hg : g < mi.objs.length) (hpg : pg < mi.objs.length) (hne : g ≠ pg) (hmd : (mi.obj pg).memDir = some d) :
    ((mi.moveDesc k k2 g pg).obj j).name = (if j = g then k2 else (mi.obj j).name) ∧
    ((mi.moveDesc k k2 g pg).obj j).memDir =
      (if j = pg then some (alInsert (alErase d k) k2 g) else (mi.obj j).memDir) := by
  let A : FData := { mi.obj pg with memDir := (mi.obj pg).memDir.map fun d => alErase d k }
  let m1 := mi.setObj pg A
  let m2 := m1.setObj g { m1.obj g with name := k2 }
  let m3 : MemFs := { m2 with data := alInsert m2.data k2 g }
  have e1 : ∀ i, m1.obj i = if i = pg then A else mi.obj i := fun i => obj_setObj_ite mi pg i A hpg
  have e2 : ∀ i, m2.obj i = if i = g then { m1.obj g with name := k2 } else m1.obj i :=
    fun i => obj_setObj_ite m1 g i _ (by rw [length_setObj]; exact hg)
  have e3 : ∀ i, m3.obj i = m2.obj i := fun _ => rfl
  have hm3g : (m3.obj g).name = k2 := by rw [e3, e2, if_pos rfl]
  have hm3pg : m3.obj pg = A := by rw [e3, e2, if_neg (Ne.symm hne), e1, if_pos rfl]
  have hlen3 : pg < m3.objs.length := by
    show pg < ((mi.setObj pg _).setObj g _).objs.length
    rw [length_setObj, length_setObj]; exact hpg
  show ((m3.regInto g pg).obj j).name = _ ∧ ((m3.regInto g pg).obj j).memDir = _
  by_cases hj : j = pg
  · subst hj
    obtain ⟨a, b⟩ := obj_regInto_self m3 g j hlen3
    rw [a, b, hm3pg, hm3g, if_neg (Ne.symm hne), if_pos rfl]
    refine ⟨rfl, ?_⟩
    show some (alInsert (((mi.obj j).memDir.map fun d => alErase d k).getD []) k2 g) = _
    rw [hmd]; rfl
  · rw [obj_regInto_ne _ _ _ _ hj, e3, e2, if_neg hj]
    by_cases hjg : j = g
    · rw [if_pos hjg, if_pos hjg]
      refine ⟨rfl, ?_⟩
      show (m1.obj g).memDir = _
      rw [e1, if_neg hne, hjg]
    · rw [if_neg hjg, if_neg hjg, e1, if_neg hj]
      exact ⟨rfl, rfl⟩

/-- `renameOneDesc` when the descendant, its old parent entry and its new parent are where they
    should be -/
theorem renameOneDesc_eq (old new : Key) (mi : MemFs) (P : List Key) (g pg : Nat) (k : Key)
    (hname : (mi.obj g).name = k) (hlk : mi.lookup k = some g) (hpl : mi.lookup (parentKey k) = some pg)
    (hg : g < mi.objs.length) (hne : parentKey (rePrefix old new k) ≠ rePrefix old new k)
    (hpl2 : mi.lookup (parentKey (rePrefix old new k)) = some pg) :
    renameOneDesc old new (some (mi, P)) g = some (mi.moveDesc k (rePrefix old new k) g pg, P ++ [k]) := by
  have key : ∀ m3 : MemFs, (m3.obj g).name = rePrefix old new k → m3.lookup (parentKey (rePrefix old new k)) = some pg →
      registerWithParent (m3.regFuel g) m3 g 0 = m3.regInto g pg := by
    intro m3 h1 h2
    unfold regFuel
    exact registerWithParent_some _ m3 g 0 pg (by rw [h1]; exact h2)
  unfold renameOneDesc unRegisterWithParent findParent
  simp only [hname, hlk, hpl]
  rw [key]
  · rfl
  · show (((mi.setObj pg _).setObj g _).obj g).name = _
    rw [obj_setObj_self _ _ _ (by rw [length_setObj]; exact hg)]
  · show alLookup (alInsert mi.data (rePrefix old new k) g) (parentKey (rePrefix old new k)) = some pg
    rw [alLookup_insert_ne _ _ _ _ hne]; exact hpl2

/-! ### the intermediate states of `renameDescendants` -/

/-- the directory index of object `j` (which was `d`), looked up at `k'`, after the keys `P` have
    been processed -/
def midIdx (m : MemFs) (old new : Key) (p : Nat) (P : List Key) (j : Nat) (d : List (Key × Nat)) (k' : Key) :
    Option Nat :=
  if k' ∈ P ∧ m.lookup (parentKey k') = some j then none
  else if isUnder new k' = true ∧ rePrefix new old k' ∈ P ∧ m.lookup (parentKey (rePrefix new old k')) = some j then
    m.lookup (rePrefix new old k')
  else if j = p ∧ k' = old then none
  else alLookup d k'

/-- the state `mi` reached from `m` when `old ↦ f` has been unlinked and entered as `new ↦ f`, and
    the descendants with the (old) keys `P` have been processed -/
structure Mid (m mi : MemFs) (old new : Key) (f p : Nat) (P : List Key) : Prop where
  len : mi.objs.length = m.objs.length
  lk : ∀ k', mi.lookup k' =
    if k' = new then some f
    else if isUnder new k' = true ∧ rePrefix new old k' ∈ P then m.lookup (rePrefix new old k')
    else m.lookup k'
  name : ∀ j, (mi.obj j).name =
    if j = f then new
    else if (m.obj j).name ∈ P ∧ m.lookup (m.obj j).name = some j then rePrefix old new (m.obj j).name
    else (m.obj j).name
  mdNone : ∀ j, (m.obj j).memDir = none → (mi.obj j).memDir = none
  md : ∀ j d, (m.obj j).memDir = some d → ∃ d', (mi.obj j).memDir = some d' ∧
    ∀ k', alLookup d' k' = midIdx m old new p P j d k'
  sub : ∀ k ∈ P, isUnder old k = true ∧ (m.lookup k).isSome = true

/-- the state in which `renameDescendants` starts -/
theorem mid_init (m : MemFs) (old new : Key) (f p p' : Nat) (X : RenCtx m old new f p p') :
    Mid m (m.unlink old new f p) old new f p [] := by
  have ho := fun j => obj_unlink m old new f p j (X.hc.inRange _ _ X.hl) (X.hc.inRange _ _ X.hp)
  refine ⟨length_unlink m old new f p, ?_, ?_, ?_, ?_, ?_⟩
  · intro k'
    show alLookup (alInsert m.data new f) k' = _
    by_cases h : k' = new
    · rw [if_pos h, h]; exact alLookup_insert_self _ _ _
    · rw [if_neg h, if_neg (fun e => List.not_mem_nil e.2)]; exact alLookup_insert_ne _ _ _ _ h
  · intro j
    rw [(ho j).1, if_neg (fun e : (m.obj j).name ∈ [] ∧ _ => List.not_mem_nil e.1)]
  · intro j h
    rw [(ho j).2, h]; rfl
  · intro j d h
    refine ⟨if j = p then alErase d old else d, by rw [(ho j).2, h]; rfl, ?_⟩
    intro k'
    unfold midIdx
    have n1 : ¬ (k' ∈ ([] : List Key) ∧ m.lookup (parentKey k') = some j) := fun e => List.not_mem_nil e.1
    have n2 : ¬ (isUnder new k' = true ∧ rePrefix new old k' ∈ ([] : List Key) ∧
        m.lookup (parentKey (rePrefix new old k')) = some j) := fun e => List.not_mem_nil e.2.1
    rw [if_neg n1, if_neg n2]
    by_cases hj : j = p
    · rw [if_pos hj]
      by_cases hk : k' = old
      · rw [if_pos ⟨hj, hk⟩, hk]; exact alLookup_erase_self _ _
      · rw [if_neg (fun e => hk e.2)]; exact alLookup_erase_ne _ _ _ hk
    · rw [if_neg hj, if_neg (fun e => hj e.1)]
  · intro k hk; exact absurd hk List.not_mem_nil

/-- processing one more key changes the indexes at two places -/
theorem midIdx_snoc {m : MemFs} {old new : Key} {f p p' : Nat} (X : RenCtx m old new f p p') (P : List Key)
    (hP : ∀ k ∈ P, isUnder old k = true ∧ (m.lookup k).isSome = true)
    (k : Key) (g pg : Nat) (hk : m.lookup k = some g) (hu : isUnder old k = true) (hkP : k ∉ P)
    (hpg : m.lookup (parentKey k) = some pg) (j : Nat) (d : List (Key × Nat)) (k' : Key) :
    midIdx m old new p (P ++ [k]) j d k' =
      if j = pg ∧ k' = rePrefix old new k then some g
      else if j = pg ∧ k' = k then none
      else midIdx m old new p P j d k' := by
  obtain ⟨a, b, _⟩ := X.fwd k hu
  obtain ⟨hkn, hkun⟩ := X.noNew k g hk
  have hρP : rePrefix old new k ∉ P ++ [k] := by
    intro e
    rcases List.mem_append.1 e with e | e
    · obtain ⟨_, hs⟩ := hP _ e
      cases hx : m.lookup (rePrefix old new k) with
      | none => rw [hx] at hs; cases hs
      | some x => rw [(X.noNew _ x hx).2] at a; cases a
    · rw [List.mem_singleton] at e
      rw [e, hkun] at a; cases a
  have hjpg : ∀ {j : Nat}, m.lookup (parentKey k) = some j → j = pg := by
    intro j e; rw [hpg] at e; injection e with e; exact e.symm
  unfold midIdx
  by_cases c1 : k' = rePrefix old new k
  · rw [c1]
    have n1 : ¬ (rePrefix old new k ∈ P ++ [k] ∧ m.lookup (parentKey (rePrefix old new k)) = some j) :=
      fun e => hρP e.1
    rw [if_neg n1, b]
    by_cases hj : j = pg
    · have y2 : isUnder new (rePrefix old new k) = true ∧ k ∈ P ++ [k] ∧ m.lookup (parentKey k) = some j :=
        ⟨a, List.mem_append_right _ List.mem_cons_self, by rw [hj]; exact hpg⟩
      have y3 : j = pg ∧ rePrefix old new k = rePrefix old new k := ⟨hj, rfl⟩
      rw [if_pos y2, if_pos y3]; exact hk
    · have n2 : ¬ (isUnder new (rePrefix old new k) = true ∧ k ∈ P ++ [k] ∧ m.lookup (parentKey k) = some j) :=
        fun e => hj (hjpg e.2.2)
      have n3 : ¬ (j = pg ∧ rePrefix old new k = rePrefix old new k) := fun e => hj e.1
      have n4 : ¬ (j = pg ∧ rePrefix old new k = k) := fun e => hj e.1
      have n5 : ¬ (rePrefix old new k ∈ P ∧ m.lookup (parentKey (rePrefix old new k)) = some j) :=
        fun e => hρP (List.mem_append_left _ e.1)
      have n6 : ¬ (isUnder new (rePrefix old new k) = true ∧ k ∈ P ∧ m.lookup (parentKey k) = some j) :=
        fun e => hkP e.2.1
      rw [if_neg n2, if_neg n3, if_neg n4, if_neg n5, if_neg n6]
  · have n0 : ¬ (j = pg ∧ k' = rePrefix old new k) := fun e => c1 e.2
    rw [if_neg n0]
    by_cases c2 : k' = k
    · rw [c2]
      have nu : ∀ Q : Prop, ¬ (isUnder new k = true ∧ Q) := fun Q e => by
        have := e.1; rw [hkun] at this; cases this
      by_cases hj : j = pg
      · have y1 : k ∈ P ++ [k] ∧ m.lookup (parentKey k) = some j :=
          ⟨List.mem_append_right _ List.mem_cons_self, by rw [hj]; exact hpg⟩
        have y2 : j = pg ∧ k = k := ⟨hj, rfl⟩
        rw [if_pos y1, if_pos y2]
      · have n1 : ¬ (k ∈ P ++ [k] ∧ m.lookup (parentKey k) = some j) := fun e => hj (hjpg e.2)
        have n2 : ¬ (j = pg ∧ k = k) := fun e => hj e.1
        have n3 : ¬ (k ∈ P ∧ m.lookup (parentKey k) = some j) := fun e => hkP e.1
        rw [if_neg n1, if_neg n2, if_neg n3, if_neg (nu _), if_neg (nu _)]
    · have n1 : ¬ (j = pg ∧ k' = k) := fun e => c2 e.2
      rw [if_neg n1]
      have e1 : (k' ∈ P ++ [k]) ↔ k' ∈ P := by
        rw [List.mem_append, List.mem_singleton]
        exact ⟨fun h => h.resolve_right c2, Or.inl⟩
      have e2 : (isUnder new k' = true ∧ rePrefix new old k' ∈ P ++ [k] ∧ m.lookup (parentKey (rePrefix new old k')) = some j) ↔
          (isUnder new k' = true ∧ rePrefix new old k' ∈ P ∧ m.lookup (parentKey (rePrefix new old k')) = some j) := by
        constructor
        · rintro ⟨h1, h2, h3⟩
          refine ⟨h1, ?_, h3⟩
          rcases List.mem_append.1 h2 with h2 | h2
          · exact h2
          · rw [List.mem_singleton] at h2
            exfalso; apply c1
            rw [← (X.back k' h1).2.1, h2]
        · rintro ⟨h1, h2, h3⟩
          exact ⟨h1, List.mem_append_left _ h2, h3⟩
      simp only [e1, e2]

/-- **one round of `renameDescendants` takes `Mid … P` to `Mid … (P ++ [k])`**, provided the
    parent of `k` has been processed before (or is `old` itself) -/
theorem mid_step {m : MemFs} {old new : Key} {f p p' : Nat} (X : RenCtx m old new f p p') (mi : MemFs)
    (P : List Key) (M : Mid m mi old new f p P) (k : Key) (g : Nat) (hk : m.lookup k = some g)
    (hu : isUnder old k = true) (hkP : k ∉ P) (hpar : parentKey k = old ∨ parentKey k ∈ P) :
    ∃ mi', renameOneDesc old new (some (mi, P)) g = some (mi', P ++ [k]) ∧
      Mid m mi' old new f p (P ++ [k]) := by
  have hc := X.hc
  have hkr : k ≠ rootKey := by intro e; rw [e, not_isUnder_root] at hu; cases hu
  obtain ⟨pg, d, h1, h2, h3⟩ := hc.hasParent k g hk hkr
  obtain ⟨a, b, c⟩ := X.fwd k hu
  obtain ⟨hkn, hkun⟩ := X.noNew k g hk
  obtain ⟨hpn, hpun⟩ := X.noNew _ pg h1
  have hgf : g ≠ f := by
    intro e; rw [e] at hk
    have := hc.inj _ _ _ hk X.hl
    rw [this, not_isUnder_self] at hu; cases hu
  have hgn : (m.obj g).name = k := hc.nameEq _ _ hk
  have hmemk : k ∈ P ++ [k] := List.mem_append_right _ List.mem_cons_self
  -- the current state, around g
  have hnm : (mi.obj g).name = k := by
    have n : ¬ ((m.obj g).name ∈ P ∧ m.lookup (m.obj g).name = some g) := by
      rw [hgn]; exact fun e => hkP e.1
    rw [M.name, if_neg hgf, if_neg n, hgn]
  have hlk : mi.lookup k = some g := by
    have n : ¬ (isUnder new k = true ∧ rePrefix new old k ∈ P) := fun e => by
      have := e.1; rw [hkun] at this; cases this
    rw [M.lk, if_neg hkn, if_neg n]; exact hk
  have hpl : mi.lookup (parentKey k) = some pg := by
    have n : ¬ (isUnder new (parentKey k) = true ∧ rePrefix new old (parentKey k) ∈ P) := fun e => by
      have := e.1; rw [hpun] at this; cases this
    rw [M.lk, if_neg hpn, if_neg n]; exact h1
  have hρn : rePrefix old new k ≠ new := by
    intro e; rw [e, not_isUnder_self] at a; cases a
  have hne2 : parentKey (rePrefix old new k) ≠ rePrefix old new k := by
    intro e
    have := depthOf_parent_lt new _ X.hn' X.hnew a
    rw [e] at this; exact Nat.lt_irrefl _ this
  have hpl2 : mi.lookup (parentKey (rePrefix old new k)) = some pg := by
    rw [c]
    rcases hpar with e | e
    · rw [e, rePrefix_self, M.lk, if_pos rfl]
      rw [e, X.hl] at h1; exact h1
    · obtain ⟨hu', _⟩ := M.sub _ e
      obtain ⟨a', b', _⟩ := X.fwd _ hu'
      have n : rePrefix old new (parentKey k) ≠ new := by
        intro e'; rw [e', not_isUnder_self] at a'; cases a'
      have y : isUnder new (rePrefix old new (parentKey k)) = true ∧
          rePrefix new old (rePrefix old new (parentKey k)) ∈ P := ⟨a', by rw [b']; exact e⟩
      rw [M.lk, if_neg n, if_pos y, b']; exact h1
  have hgr : g < mi.objs.length := by rw [M.len]; exact hc.inRange _ _ hk
  have hpgr : pg < mi.objs.length := by rw [M.len]; exact hc.inRange _ _ h1
  have hgpg : g ≠ pg := by
    intro e; rw [← e] at h1
    have := hc.inj _ _ _ h1 hk
    have hlt := depthOf_parent_lt old k X.hn X.hold hu
    rw [this] at hlt; exact Nat.lt_irrefl _ hlt
  obtain ⟨di, hdi, hform⟩ := M.md pg d h2
  have ho := fun j => obj_moveDesc mi k (rePrefix old new k) g pg j di hgr hpgr hgpg hdi
  refine ⟨mi.moveDesc k (rePrefix old new k) g pg,
    renameOneDesc_eq old new mi P g pg k hnm hlk hpl hgr hne2 hpl2, ?_⟩
  refine ⟨by rw [length_moveDesc]; exact M.len, ?_, ?_, ?_, ?_, ?_⟩
  · -- the path map
    intro k'
    rw [lookup_moveDesc, M.lk]
    by_cases c1 : k' = rePrefix old new k
    · have y : isUnder new (rePrefix old new k) = true ∧ rePrefix new old (rePrefix old new k) ∈ P ++ [k] :=
        ⟨a, by rw [b]; exact hmemk⟩
      rw [if_pos c1, c1, if_neg hρn, if_pos y, b]; exact hk.symm
    · rw [if_neg c1]
      have e : (isUnder new k' = true ∧ rePrefix new old k' ∈ P ++ [k]) ↔
          (isUnder new k' = true ∧ rePrefix new old k' ∈ P) := by
        constructor
        · rintro ⟨h1', h2'⟩
          refine ⟨h1', ?_⟩
          rcases List.mem_append.1 h2' with h | h
          · exact h
          · rw [List.mem_singleton] at h
            exfalso; apply c1
            rw [← (X.back k' h1').2.1, h]
        · rintro ⟨h1', h2'⟩; exact ⟨h1', List.mem_append_left _ h2'⟩
      simp only [e]
  · -- the names
    intro j
    rw [(ho j).1, M.name]
    by_cases hj : j = g
    · have y : k ∈ P ++ [k] ∧ m.lookup k = some g := ⟨hmemk, hk⟩
      rw [if_pos hj, hj, if_neg hgf, hgn, if_pos y]
    · rw [if_neg hj]
      have e : ((m.obj j).name ∈ P ++ [k] ∧ m.lookup (m.obj j).name = some j) ↔
          ((m.obj j).name ∈ P ∧ m.lookup (m.obj j).name = some j) := by
        constructor
        · rintro ⟨h1', h2'⟩
          refine ⟨?_, h2'⟩
          rcases List.mem_append.1 h1' with h | h
          · exact h
          · rw [List.mem_singleton] at h
            rw [h, hk] at h2'; injection h2' with h2'; exact absurd h2'.symm hj
        · rintro ⟨h1', h2'⟩; exact ⟨List.mem_append_left _ h1', h2'⟩
      simp only [e]
  · intro j hj
    have : j ≠ pg := by intro e; rw [e, h2] at hj; cases hj
    rw [(ho j).2, if_neg this]; exact M.mdNone j hj
  · -- the directory indexes
    intro j dj hdj
    obtain ⟨dij, hdij, hformj⟩ := M.md j dj hdj
    by_cases hj : j = pg
    · refine ⟨alInsert (alErase di k) (rePrefix old new k) g, by rw [(ho j).2, if_pos hj], ?_⟩
      intro k'
      have hdd : dj = d := by
        rw [hj, h2] at hdj; injection hdj with hdj; exact hdj.symm
      rw [alLookup_insert_erase, midIdx_snoc X P M.sub k g pg hk hu hkP h1, hform, hdd, hj]
      simp only [true_and]
    · refine ⟨dij, by rw [(ho j).2, if_neg hj]; exact hdij, ?_⟩
      intro k'
      have n1 : ¬ (j = pg ∧ k' = rePrefix old new k) := fun e => hj e.1
      have n2 : ¬ (j = pg ∧ k' = k) := fun e => hj e.1
      rw [hformj, midIdx_snoc X P M.sub k g pg hk hu hkP h1, if_neg n1, if_neg n2]
  · intro k0 hk0
    rcases List.mem_append.1 hk0 with h | h
    · exact M.sub _ h
    · rw [List.mem_singleton] at h; rw [h]; exact ⟨hu, by rw [hk]; rfl⟩

/-- **the whole loop**, for any list of descendants in which parents come before their children
    (here: sorted by depth and closed under taking parents below `old`) -/
theorem fold_spec {m : MemFs} {old new : Key} {f p p' : Nat} (X : RenCtx m old new f p p') :
    ∀ (L : List Nat) (mi : MemFs) (P : List Key), Mid m mi old new f p P →
    (∀ g ∈ L, m.lookup (m.obj g).name = some g ∧ isUnder old (m.obj g).name = true) →
    (L.map fun g => (m.obj g).name).Nodup →
    (∀ g ∈ L, (m.obj g).name ∉ P) →
    L.Pairwise (fun a b => depthOf (m.obj a).name ≤ depthOf (m.obj b).name) →
    (∀ g ∈ L, parentKey (m.obj g).name = old ∨ parentKey (m.obj g).name ∈ P ∨
      parentKey (m.obj g).name ∈ L.map fun g => (m.obj g).name) →
    ∃ mf, L.foldl (renameOneDesc old new) (some (mi, P)) = some (mf, P ++ L.map fun g => (m.obj g).name) ∧
      Mid m mf old new f p (P ++ L.map fun g => (m.obj g).name) := by
  intro L
  induction L with
  | nil =>
    intro mi P M _ _ _ _ _
    refine ⟨mi, ?_, ?_⟩
    · simp
    · simpa using M
  | cons g L ih =>
    intro mi P M hmem hnd hnP hsort hclosed
    obtain ⟨hk, hu⟩ := hmem g List.mem_cons_self
    rw [List.map_cons, List.nodup_cons] at hnd
    rw [List.pairwise_cons] at hsort
    have hlt := depthOf_parent_lt old _ X.hn X.hold hu
    have hpar : parentKey (m.obj g).name = old ∨ parentKey (m.obj g).name ∈ P := by
      rcases hclosed g List.mem_cons_self with h | h | h
      · exact Or.inl h
      · exact Or.inr h
      · exfalso
        rw [List.map_cons, List.mem_cons] at h
        rcases h with h | h
        · rw [h] at hlt; exact Nat.lt_irrefl _ hlt
        · obtain ⟨g', hg', e⟩ := List.mem_map.1 h
          have := hsort.1 g' hg'
          rw [e] at this
          exact Nat.lt_irrefl _ (Nat.lt_of_lt_of_le hlt this)
    obtain ⟨mi', hstep, M'⟩ := mid_step X mi P M _ g hk hu (hnP g List.mem_cons_self) hpar
    obtain ⟨mf, hfold, Mf⟩ := ih mi' (P ++ [(m.obj g).name]) M'
      (fun g' hg' => hmem g' (List.mem_cons_of_mem _ hg')) hnd.2
      (by
        intro g' hg' e
        rcases List.mem_append.1 e with e | e
        · exact hnP g' (List.mem_cons_of_mem _ hg') e
        · rw [List.mem_singleton] at e
          apply hnd.1; rw [← e]; exact List.mem_map.2 ⟨g', hg', rfl⟩)
      hsort.2
      (by
        intro g' hg'
        rcases hclosed g' (List.mem_cons_of_mem _ hg') with h | h | h
        · exact Or.inl h
        · exact Or.inr (Or.inl (List.mem_append_left _ h))
        · rw [List.map_cons, List.mem_cons] at h
          rcases h with h | h
          · exact Or.inr (Or.inl (by rw [h]; exact List.mem_append_right _ List.mem_cons_self))
          · exact Or.inr (Or.inr h))
    refine ⟨mf, ?_, ?_⟩
    · rw [List.foldl_cons, hstep, hfold, List.map_cons, List.append_assoc]; rfl
    · rw [List.map_cons]
      have : P ++ (m.obj g).name :: List.map (fun g => (m.obj g).name) L =
          P ++ [(m.obj g).name] ++ List.map (fun g => (m.obj g).name) L := by
        rw [List.append_assoc]; rfl
      rw [this]; exact Mf

/-! ### the path map holds every key once: an invariant of every operation

  `findDescendants` lists the ENTRIES of the path map.  `Consistent` speaks about `lookup` only, so it
  does not exclude a second (shadowed) entry for a key; `KeysNodup` does.  It holds initially and is
  kept by every operation (`keysNodup_step`, `keysNodup_run`), hence in every reachable state. -/

theorem nodup_init : (MemFs.init.data.map (·.1)).Nodup := by decide

theorem nodup_filter (l : List (Key × Nat)) (q : Key × Nat → Bool) (h : (l.map (·.1)).Nodup) :
    ((l.filter q).map (·.1)).Nodup :=
  List.Nodup.sublist (List.Sublist.map _ List.filter_sublist) h

theorem nodup_alErase (l : List (Key × Nat)) (k : Key) (h : (l.map (·.1)).Nodup) :
    ((alErase l k).map (·.1)).Nodup := nodup_filter l _ h

theorem nodup_alInsert (l : List (Key × Nat)) (k : Key) (v : Nat) (h : (l.map (·.1)).Nodup) :
    ((alInsert l k v).map (·.1)).Nodup := by
  unfold alInsert
  split
  · have : (l.map fun e => if e.1 = k then (k, v) else e).map (·.1) = l.map (·.1) := by
      rw [List.map_map]
      apply List.map_congr_left
      intro e _
      by_cases he : e.1 = k
      · simp [he]
      · simp [he]
    rw [this]; exact h
  · rename_i hs
    rw [List.map_append, List.nodup_append]
    refine ⟨h, by simp, ?_⟩
    intro a ha b hb e
    rw [List.map_cons, List.map_nil, List.mem_singleton] at hb
    obtain ⟨x, hx, hxa⟩ := List.mem_map.1 ha
    have := alLookup_isSome_of_mem l x hx
    rw [hxa, e, hb] at this
    exact hs this

/-- the path map holds every key once (Go map semantics) -/
def KeysNodup (m : MemFs) : Prop := (m.data.map (·.1)).Nodup

theorem keysNodup_init : KeysNodup MemFs.init := nodup_init

theorem keysNodup_reg (perm : Nat) : ∀ (fuel : Nat) (m : MemFs) (f : Nat), KeysNodup m →
    KeysNodup (registerWithParent fuel m f perm) := by
  intro fuel
  induction fuel with
  | zero => intro m f h; unfold registerWithParent; exact h
  | succ n ih =>
    intro m f h
    cases hp : m.lookup (parentKey (m.obj f).name) with
    | some p => rw [registerWithParent_some _ _ _ _ p hp]; exact h
    | none =>
      have h2 : KeysNodup (m.pend (parentKey (m.obj f).name)
          { (m.newDir (parentKey (m.obj f).name)) with mode := modeDir ||| perm }) := nodup_alInsert _ _ _ h
      have h3 := ih _ m.objs.length h2
      cases hq : (registerWithParent n (m.pend (parentKey (m.obj f).name)
          { (m.newDir (parentKey (m.obj f).name)) with mode := modeDir ||| perm }) m.objs.length perm).lookup
          (parentKey (m.obj f).name) with
      | some q => rw [registerWithParent_none _ _ _ _ q hp hq]; exact h3
      | none =>
        have : registerWithParent (n + 1) m f perm = registerWithParent n (m.pend (parentKey (m.obj f).name)
            { (m.newDir (parentKey (m.obj f).name)) with mode := modeDir ||| perm }) m.objs.length perm := by
          unfold pend at hq ⊢
          rw [registerWithParent]
          simp only [hp, alloc, hq]
        rw [this]; exact h3

theorem data_setFileMode (m : MemFs) (k : Key) (mode : Nat) : (m.setFileMode k mode).1.data = m.data := by
  unfold setFileMode; split <;> rfl

theorem keysNodup_create (m : MemFs) (k : Key) (h : KeysNodup m) : KeysNodup (m.create k).1 := by
  unfold create
  split
  · split
    · exact keysNodup_reg _ _ _ _ (nodup_alInsert _ _ _ h)
    · exact h
  · exact keysNodup_reg _ _ _ _ (nodup_alInsert _ _ _ h)

theorem keysNodup_mkdir (m : MemFs) (k : Key) (perm : Nat) (h : KeysNodup m) : KeysNodup (m.mkdir k perm).1 := by
  unfold mkdir
  simp only
  split
  · exact h
  · have h2 : KeysNodup (m.pend k { (m.newDir k) with mode := modeDir ||| (perm &&& chmodBits) }) :=
      nodup_alInsert _ _ _ h
    have h3 := keysNodup_reg (perm &&& chmodBits)
      ((m.pend k { (m.newDir k) with mode := modeDir ||| (perm &&& chmodBits) }).regFuel m.objs.length) _ m.objs.length h2
    have hfm : ∀ m3 : MemFs, KeysNodup m3 → KeysNodup (m3.setFileMode k ((perm &&& chmodBits) ||| modeDir)).1 := by
      intro m3 h'; unfold KeysNodup; rw [data_setFileMode]; exact h'
    have := hfm _ h3
    split <;> rename_i heq <;> (unfold pend at this; unfold alloc at heq; simp only at heq; rw [heq] at this) <;> exact this

theorem keysNodup_mkdirAll (m : MemFs) (k : Key) (perm : Nat) (h : KeysNodup m) : KeysNodup (m.mkdirAll k perm).1 := by
  have hmk := keysNodup_mkdir m k perm h
  unfold mkdirAll
  split
  · rename_i m' heq; rw [heq] at hmk; exact hmk
  · exact hmk

theorem data_unreg (m m1 : MemFs) (k : Key) (h : m.unRegisterWithParent k = .ok m1) : m1.data = m.data := by
  unfold unRegisterWithParent at h
  split at h
  · cases h
  · split at h
    · cases h
    · injection h with h; rw [← h]; rfl

theorem keysNodup_remove (m : MemFs) (k : Key) (h : KeysNodup m) : KeysNodup (m.remove k).1 := by
  unfold remove
  split
  · exact h
  · split
    · rename_i m1 heq
      show ((alErase m1.data k).map (·.1)).Nodup
      rw [data_unreg m m1 k heq]; exact nodup_alErase _ _ h
    · exact h
    · exact h

theorem keysNodup_removeAll (m : MemFs) (k : Key) (h : KeysNodup m) : KeysNodup (m.removeAll k).1 := by
  unfold removeAll
  split
  · exact h
  · rename_i r _
    simp only
    cases hr : m.unRegisterWithParent k with
    | ok m1 =>
      show ((m1.data.filter _).map (·.1)).Nodup
      rw [data_unreg m m1 k hr]; exact nodup_filter _ _ h
    | notFound => exact nodup_filter _ _ h
    | noParent => exact nodup_filter _ _ h

theorem keysNodup_renameOneDesc (old new : Key) (acc : Option (MemFs × List Key)) (d : Nat)
    (h : ∀ m r, acc = some (m, r) → KeysNodup m) :
    ∀ m r, renameOneDesc old new acc d = some (m, r) → KeysNodup m := by
  intro m r e
  unfold renameOneDesc at e
  cases acc with
  | none => cases e
  | some a =>
    obtain ⟨m0, r0⟩ := a
    simp only at e
    split at e
    · rename_i m1 heq
      injection e with e
      injection e with e1 e2
      rw [← e1]
      refine keysNodup_reg _ _ _ _ ?_
      show ((alInsert m1.data _ d).map (·.1)).Nodup
      rw [data_unreg _ m1 _ heq]
      exact nodup_alInsert _ _ _ (h m0 r0 rfl)
    · cases e

theorem keysNodup_fold (old new : Key) : ∀ (L : List Nat) (acc : Option (MemFs × List Key)),
    (∀ m r, acc = some (m, r) → KeysNodup m) →
    ∀ m r, L.foldl (renameOneDesc old new) acc = some (m, r) → KeysNodup m := by
  intro L
  induction L with
  | nil => intro acc h m r e; exact h m r e
  | cons d L ih =>
    intro acc h m r e
    rw [List.foldl_cons] at e
    exact ih _ (keysNodup_renameOneDesc old new acc d h) m r e

theorem keysNodup_rename (m : MemFs) (old new : Key) (h : KeysNodup m) : KeysNodup (m.rename old new).1 := by
  unfold rename
  split
  · exact h
  · rename_i f _
    split
    · exact h
    · split
      · exact h
      · exact h
      · rename_i m1 heq
        simp only
        split
        · exact h
        · rename_i m4 removes hfold
          refine keysNodup_reg _ _ _ _ ?_
          have h4 : KeysNodup m4 := by
            refine keysNodup_fold old new _ _ ?_ m4 removes hfold
            intro m' r' e
            injection e with e; injection e with e1 e2
            rw [← e1]
            show ((alInsert m1.data new f).map (·.1)).Nodup
            rw [data_unreg m m1 old heq]; exact nodup_alInsert _ _ _ h
          exact nodup_alErase _ _ (nodup_filter _ _ h4)

theorem keysNodup_openFile (m : MemFs) (k : Key) (flag perm : Nat) (h : KeysNodup m) :
    KeysNodup (m.openFile k flag perm).1 := by
  unfold openFile
  simp only
  split
  · exact h
  · cases hl : m.lookup k with
    | some f =>
      simp only
      by_cases hT : (flag &&& O_TRUNC > 0 ∧ flag &&& (O_RDWR ||| O_WRONLY) > 0)
      · simp only [hT, and_self, if_true, Bool.false_eq_true, if_false]
        exact h
      · simp only [hT, if_false, Bool.false_eq_true]
        exact h
    | none =>
      simp only
      by_cases hC : flag &&& O_CREATE > 0
      · simp only [hC, if_true]
        have hcr := keysNodup_create m k h
        generalize m.create k = C at hcr
        obtain ⟨m1, f⟩ := C
        simp only at hcr ⊢
        by_cases hT : (flag &&& O_TRUNC > 0 ∧ flag &&& (O_RDWR ||| O_WRONLY) > 0)
        · simp only [hT, and_self, if_true]
          unfold KeysNodup; rw [data_setFileMode]; exact hcr
        · simp only [hT, if_false]
          unfold KeysNodup; rw [data_setFileMode]; exact hcr
      · simp only [hC, if_false]
        exact h

theorem data_fileIO (m : MemFs) (hi : Nat) (f : Bytes → Handle → Bytes × Handle × FOut) (t : Bool) :
    (m.fileIO hi f t).1.data = m.data := by
  unfold fileIO; split <;> rfl

theorem data_readdir (m : MemFs) (hi : Nat) (n : Int) : (m.readdir hi n).1.data = m.data := by
  unfold readdir
  split
  · rfl
  · simp only
    split <;> rfl

/-- **every operation keeps the keys of the path map distinct** -/
theorem keysNodup_step (m : MemFs) (op : Op) (h : KeysNodup m) : KeysNodup (m.step op).1 := by
  have hd : ∀ m' : MemFs, m'.data = m.data → KeysNodup m' := fun m' e => by unfold KeysNodup; rw [e]; exact h
  cases op with
  | create p =>
    simp only [step]
    have := keysNodup_create m (keyOfStr p) h
    generalize m.create (keyOfStr p) = C at this
    obtain ⟨m1, f⟩ := C
    exact this
  | mkdir p perm => exact keysNodup_mkdir m _ perm h
  | mkdirAll p perm => exact keysNodup_mkdirAll m _ perm h
  | open_ p => simp only [step, openRO]; split <;> exact h
  | openFile p flag perm => exact keysNodup_openFile m _ flag perm h
  | remove p => exact keysNodup_remove m _ h
  | removeAll p => exact keysNodup_removeAll m _ h
  | rename a b => exact keysNodup_rename m _ _ h
  | stat p => exact h
  | chmod p mode =>
    simp only [step]; unfold chmod; simp only
    split
    · exact h
    · rename_i f _
      have := hd _ (data_setFileMode m (keyOfStr p) (((m.obj f).mode - ((m.obj f).mode &&& chmodBits)) ||| (mode &&& chmodBits)))
      split <;> rename_i heq <;> rw [heq] at this <;> exact this
  | chown p u g => simp only [step]; unfold chown; split <;> exact h
  | chtimes p t => simp only [step]; unfold chtimes; split <;> exact h
  | hRead hi n => exact hd _ (data_fileIO m hi _ _)
  | hReadAt hi n off => exact hd _ (data_fileIO m hi _ _)
  | hWrite hi b => exact hd _ (data_fileIO m hi _ _)
  | hWriteAt hi b off => exact hd _ (data_fileIO m hi _ _)
  | hTrunc hi n => exact hd _ (data_fileIO m hi _ _)
  | hSeek hi off wh => exact hd _ (data_fileIO m hi _ _)
  | hClose hi =>
    simp only [step]; unfold hClose; split
    · exact h
    · simp only
      split <;> exact h
  | hName hi => exact h
  | hStat hi => exact h
  | hSync hi => exact h
  | hReaddir hi n =>
    simp only [step]
    have := hd _ (data_readdir m hi n)
    generalize m.readdir hi n = R at this
    obtain ⟨m', fs, e⟩ := R
    exact this
  | hReaddirnames hi n =>
    simp only [step]
    have := hd _ (data_readdir m hi n)
    generalize m.readdir hi n = R at this
    obtain ⟨m', fs, e⟩ := R
    exact this

/-- … hence every state a program reaches from the initial one has it -/
theorem keysNodup_run (ops : List Op) : ∀ m, KeysNodup m → KeysNodup (run m ops) := by
  induction ops with
  | nil => intro m h; exact h
  | cons op ops ih => intro m h; exact ih _ (keysNodup_step m op h)

/-! ### the list of descendants: a permutation of the keys below `old`, parents first -/

theorem findDescendants_unlink {m : MemFs} {old new : Key} {f p p' : Nat} (X : RenCtx m old new f p p')
    (hnodup : KeysNodup m) :
    (∀ g ∈ (m.unlink old new f p).findDescendants old,
      m.lookup (m.obj g).name = some g ∧ isUnder old (m.obj g).name = true) ∧
    (((m.unlink old new f p).findDescendants old).map fun g => (m.obj g).name).Nodup ∧
    ((m.unlink old new f p).findDescendants old).Pairwise
      (fun a b => depthOf (m.obj a).name ≤ depthOf (m.obj b).name) ∧
    (∀ g ∈ (m.unlink old new f p).findDescendants old, parentKey (m.obj g).name = old ∨
      parentKey (m.obj g).name ∈ ((m.unlink old new f p).findDescendants old).map fun g => (m.obj g).name) ∧
    (∀ k g, m.lookup k = some g → isUnder old k = true →
      k ∈ ((m.unlink old new f p).findDescendants old).map fun g => (m.obj g).name) := by
  have hc := X.hc
  -- the list before sorting
  have hd : (m.unlink old new f p).data = m.data ++ [(new, f)] := by
    rw [data_unlink]; unfold alInsert
    have : (alLookup m.data new).isSome = false := by
      have := X.hfree; unfold lookup at this; rw [this]; rfl
    simp [this]
  have hfd : (m.unlink old new f p).findDescendants old =
      ((m.data.filter fun e => isUnder old e.1).map (·.2)).mergeSort
        (fun a b => decide (depthOf ((m.unlink old new f p).obj a).name ≤ depthOf ((m.unlink old new f p).obj b).name)) := by
    unfold findDescendants
    have : List.filter (fun e => isUnder old e.1) [(new, f)] = [] := by simp [X.hnotunder]
    simp only [hd, List.filter_append, this, List.append_nil]
  have hperm := List.mergeSort_perm ((m.data.filter fun e => isUnder old e.1).map (·.2))
    (fun a b => decide (depthOf ((m.unlink old new f p).obj a).name ≤ depthOf ((m.unlink old new f p).obj b).name))
  have hsorted := List.pairwise_mergeSort
    (le := fun a b => decide (depthOf ((m.unlink old new f p).obj a).name ≤ depthOf ((m.unlink old new f p).obj b).name))
    (by intro a b c h1 h2; simp only [decide_eq_true_eq] at *; exact Nat.le_trans h1 h2)
    (by intro a b; simp only [Bool.or_eq_true, decide_eq_true_eq]; exact Nat.le_total _ _)
    ((m.data.filter fun e => isUnder old e.1).map (·.2))
  rw [← hfd] at hperm hsorted
  -- entries of the unsorted list
  have hentry : ∀ e ∈ m.data, m.lookup e.1 = some e.2 := fun e he => alLookup_of_mem_nodup m.data hnodup e he
  have hB : ∀ g ∈ (m.data.filter fun e => isUnder old e.1).map (·.2),
      m.lookup (m.obj g).name = some g ∧ isUnder old (m.obj g).name = true := by
    intro g hg
    obtain ⟨e, he, heg⟩ := List.mem_map.1 hg
    obtain ⟨he1, he2⟩ := List.mem_filter.1 he
    have hl := hentry e he1
    rw [heg] at hl
    rw [hc.nameEq _ _ hl]; exact ⟨hl, he2⟩
  have hC : ∀ k g, m.lookup k = some g → isUnder old k = true →
      g ∈ (m.data.filter fun e => isUnder old e.1).map (·.2) := by
    intro k g hl hu
    exact List.mem_map.2 ⟨(k, g), List.mem_filter.2 ⟨mem_of_alLookup _ _ _ hl, hu⟩, rfl⟩
  have hmapeq : ((m.data.filter fun e => isUnder old e.1).map (·.2)).map (fun g => (m.obj g).name) =
      (m.data.filter fun e => isUnder old e.1).map (·.1) := by
    rw [List.map_map]
    apply List.map_congr_left
    intro e he
    have hl := hentry e (List.mem_filter.1 he).1
    exact hc.nameEq _ _ hl
  have hL : ∀ g, g ∈ (m.unlink old new f p).findDescendants old ↔
      g ∈ (m.data.filter fun e => isUnder old e.1).map (·.2) := fun g => hperm.mem_iff
  have hcompl : ∀ k g, m.lookup k = some g → isUnder old k = true →
      k ∈ ((m.unlink old new f p).findDescendants old).map fun g => (m.obj g).name := by
    intro k g hl hu
    exact List.mem_map.2 ⟨g, (hL g).2 (hC k g hl hu), hc.nameEq _ _ hl⟩
  refine ⟨fun g hg => hB g ((hL g).1 hg), ?_, ?_, ?_, hcompl⟩
  · have h1 : (((m.data.filter fun e => isUnder old e.1).map (·.2)).map fun g => (m.obj g).name).Nodup := by
      rw [hmapeq]
      exact List.Nodup.sublist (List.Sublist.map _ List.filter_sublist) hnodup
    exact (hperm.map fun g => (m.obj g).name).nodup_iff.2 h1
  · refine List.Pairwise.imp_of_mem ?_ hsorted
    intro a b ha hb hab
    have hne : ∀ x, x ∈ (m.unlink old new f p).findDescendants old → ((m.unlink old new f p).obj x).name = (m.obj x).name := by
      intro x hx
      obtain ⟨h1, h2⟩ := hB x ((hL x).1 hx)
      have hxf : x ≠ f := by
        intro e; rw [e] at h1 h2
        have := hc.inj _ _ _ h1 X.hl
        rw [this, not_isUnder_self] at h2; cases h2
      rw [(obj_unlink m old new f p x (hc.inRange _ _ X.hl) (hc.inRange _ _ X.hp)).1, if_neg hxf]
    simp only [decide_eq_true_eq] at hab
    rw [hne a ha, hne b hb] at hab; exact hab
  · intro g hg
    obtain ⟨h1, h2⟩ := hB g ((hL g).1 hg)
    have hr : (m.obj g).name ≠ rootKey := by
      intro e; rw [e, not_isUnder_root] at h2; cases h2
    obtain ⟨pg, _, h3, _, _⟩ := hc.hasParent _ g h1 hr
    rcases parent_of_under old _ X.hn h2 with e | e
    · exact Or.inl e
    · exact Or.inr (hcompl _ pg h3 e)

/-! ### after the loop: the old keys are swept out of the path map, `f` is registered with `p'` -/

def sweep (mf : MemFs) (P : List Key) (old : Key) : MemFs :=
  { mf with data := alErase (mf.data.filter fun e => ¬ P.contains e.1) old }

theorem lookup_sweep (mf : MemFs) (P : List Key) (old k' : Key) :
    (sweep mf P old).lookup k' = if k' = old then none else if k' ∈ P then none else mf.lookup k' := by
  show alLookup (alErase (mf.data.filter fun e => ¬ P.contains e.1) old) k' = _
  by_cases h : k' = old
  · rw [if_pos h, h]; exact alLookup_erase_self _ _
  · rw [if_neg h, alLookup_erase_ne _ _ _ h]
    have := alLookup_filter mf.data (fun x => decide (¬ (P.contains x = true))) k'
    rw [this]
    by_cases hP : k' ∈ P
    · rw [if_pos hP]; simp [hP]
    · rw [if_neg hP]; simp [hP]; rfl

/-- the state `Rename` ends in -/
def finish (mf : MemFs) (P : List Key) (old : Key) (f p' : Nat) : MemFs := (sweep mf P old).regInto f p'

theorem moved_of_mid {m : MemFs} {old new : Key} {f p p' : Nat} (X : RenCtx m old new f p p') (mf : MemFs)
    (P : List Key) (M : Mid m mf old new f p P)
    (hall : ∀ k g, m.lookup k = some g → isUnder old k = true → k ∈ P) :
    Moved m (finish mf P old f p') old new f p p' := by
  have hc := X.hc
  have hPiff : ∀ k, k ∈ P ↔ (isUnder old k = true ∧ (m.lookup k).isSome = true) := by
    intro k
    constructor
    · exact M.sub k
    · rintro ⟨h1, h2⟩
      cases hx : m.lookup k with
      | none => rw [hx] at h2; cases h2
      | some x => exact hall k x hx h1
  have hnone : ∀ k, (m.lookup k).isSome = true → k ≠ new ∧ isUnder new k = false := by
    intro k h
    cases hx : m.lookup k with
    | none => rw [hx] at h; cases h
    | some x => exact X.noNew k x hx
  have hp'r : p' < (sweep mf P old).objs.length := by
    show p' < mf.objs.length; rw [M.len]; exact hc.inRange _ _ X.hp'
  have hobj : ∀ j, (sweep mf P old).obj j = mf.obj j := fun _ => rfl
  have hfn : ((sweep mf P old).obj f).name = new := by rw [hobj, M.name, if_pos rfl]
  obtain ⟨hs1, hs2⟩ := obj_regInto_self (sweep mf P old) f p' hp'r
  rw [hfn] at hs2
  refine ⟨by show (finish mf P old f p').objs.length = _; unfold finish; rw [length_regInto]; exact M.len,
    ?_, ?_, ?_, ?_⟩
  · -- the path map
    intro k'
    show (sweep mf P old).lookup k' = _
    rw [lookup_sweep, M.lk]
    by_cases c1 : k' = new
    · have n1 : k' ≠ old := by rw [c1]; exact Ne.symm X.ne
      have n2 : k' ∉ P := by
        intro e; exact (hnone _ ((hPiff _).1 e).2).1 c1
      rw [if_neg n1, if_neg n2, if_pos c1, if_pos c1]
    · rw [if_neg c1, if_neg c1]
      by_cases c2 : isUnder new k' = true
      · have n1 : k' ≠ old := by
          intro e; rw [e, (X.noNew old f X.hl).2] at c2; cases c2
        have n2 : k' ∉ P := by
          intro e; rw [(hnone _ ((hPiff _).1 e).2).2] at c2; cases c2
        rw [if_neg n1, if_neg n2, if_pos c2]
        by_cases c3 : rePrefix new old k' ∈ P
        · rw [if_pos ⟨c2, c3⟩]
        · have n3 : ¬ (isUnder new k' = true ∧ rePrefix new old k' ∈ P) := fun e => c3 e.2
          rw [if_neg n3]
          have e1 : m.lookup k' = none := by
            cases hx : m.lookup k' with
            | none => rfl
            | some x => rw [(X.noNew k' x hx).2] at c2; cases c2
          have e2 : m.lookup (rePrefix new old k') = none := by
            cases hx : m.lookup (rePrefix new old k') with
            | none => rfl
            | some x => exact absurd (hall _ x hx (X.back k' c2).1) c3
          rw [e1, e2]
      · have n3 : ¬ (isUnder new k' = true ∧ rePrefix new old k' ∈ P) := fun e => c2 e.1
        rw [if_neg c2, if_neg n3]
        by_cases c4 : k' = old
        · rw [if_pos c4, if_pos (Or.inl c4)]
        · rw [if_neg c4]
          by_cases c5 : isUnder old k' = true
          · rw [if_pos (Or.inr c5)]
            by_cases c6 : k' ∈ P
            · rw [if_pos c6]
            · rw [if_neg c6]
              cases hx : m.lookup k' with
              | none => rfl
              | some x => exact absurd (hall _ x hx c5) c6
          · have n4 : ¬ (k' = old ∨ isUnder old k' = true) := fun e => e.elim c4 c5
            have n5 : k' ∉ P := fun e => c5 ((hPiff _).1 e).1
            rw [if_neg n4, if_neg n5]
  · -- the names
    intro j
    have e : ((m.obj j).name ∈ P ∧ m.lookup (m.obj j).name = some j) ↔
        (isUnder old (m.obj j).name = true ∧ m.lookup (m.obj j).name = some j) := by
      constructor
      · rintro ⟨h1, h2⟩; exact ⟨((hPiff _).1 h1).1, h2⟩
      · rintro ⟨h1, h2⟩; exact ⟨hall _ _ h2 h1, h2⟩
    have hnm : ((finish mf P old f p').obj j).name = (mf.obj j).name := by
      unfold finish
      by_cases hj : j = p'
      · rw [hj, hs1]; rfl
      · rw [obj_regInto_ne _ _ _ _ hj]; rfl
    rw [hnm, M.name]
    simp only [e]
  · intro j hj
    have hjp : j ≠ p' := by
      intro e; have := X.hpd'; rw [← e, hj] at this; cases this
    unfold finish
    rw [obj_regInto_ne _ _ _ _ hjp]
    exact M.mdNone j hj
  · -- the directory indexes
    intro j d hd
    obtain ⟨di, hdi, hform⟩ := M.md j d hd
    have hE : ∀ k', midIdx m old new p P j d k' =
        if isUnder old k' = true ∧ (m.lookup k').isSome = true ∧ m.lookup (parentKey k') = some j then none
        else if isUnder new k' = true ∧ (m.lookup (rePrefix new old k')).isSome = true ∧
            m.lookup (parentKey (rePrefix new old k')) = some j then m.lookup (rePrefix new old k')
        else if j = p ∧ k' = old then none
        else alLookup d k' := by
      intro k'
      have e1 : (k' ∈ P ∧ m.lookup (parentKey k') = some j) ↔
          (isUnder old k' = true ∧ (m.lookup k').isSome = true ∧ m.lookup (parentKey k') = some j) := by
        rw [hPiff]; exact and_assoc
      have e2 : (isUnder new k' = true ∧ rePrefix new old k' ∈ P ∧ m.lookup (parentKey (rePrefix new old k')) = some j) ↔
          (isUnder new k' = true ∧ (m.lookup (rePrefix new old k')).isSome = true ∧
            m.lookup (parentKey (rePrefix new old k')) = some j) := by
        constructor
        · rintro ⟨h1, h2, h3⟩; exact ⟨h1, ((hPiff _).1 h2).2, h3⟩
        · rintro ⟨h1, h2, h3⟩; exact ⟨h1, (hPiff _).2 ⟨(X.back k' h1).1, h2⟩, h3⟩
      unfold midIdx
      simp only [e1, e2]
    by_cases hj : j = p'
    · refine ⟨alInsert di new f, ?_, ?_⟩
      · unfold finish
        rw [hj, hs2, hobj, ← hj, hdi]; rfl
      · intro k'
        by_cases hk : k' = new
        · rw [if_pos ⟨hj, hk⟩, hk]; exact alLookup_insert_self _ _ _
        · have n : ¬ (j = p' ∧ k' = new) := fun e => hk e.2
          rw [if_neg n, alLookup_insert_ne _ _ _ _ hk, hform, hE]
    · refine ⟨di, ?_, ?_⟩
      · unfold finish
        rw [obj_regInto_ne _ _ _ _ hj]; exact hdi
      · intro k'
        have n : ¬ (j = p' ∧ k' = new) := fun e => hj e.1
        rw [if_neg n, hform, hE]

/-- **`Rename` of a directory with its subtree onto a free name succeeds and moves the subtree**:
    the final state is the initial one with every key at or below `old` re-prefixed (`Moved`) -/
theorem rename_dir_moved (m : MemFs) (old new : Key) (f p p' : Nat) (X : RenCtx m old new f p p')
    (hnodup : KeysNodup m) :
    (m.rename old new).2 = .ok ∧ Moved m (m.rename old new).1 old new f p p' := by
  have hc := X.hc
  obtain ⟨h1, h2, h3, h4, h5⟩ := findDescendants_unlink X hnodup
  obtain ⟨mf, hfold, Mf⟩ := fold_spec X _ _ [] (mid_init m old new f p p' X) h1 h2
    (fun _ _ => List.not_mem_nil) h3
    (fun g hg => (h4 g hg).elim Or.inl (fun h => Or.inr (Or.inr h)))
  rw [List.nil_append] at hfold Mf
  generalize ((m.unlink old new f p).findDescendants old).map (fun g => (m.obj g).name) = P at hfold Mf h5
  rw [rename_eq_of_unlink m old new f p X.hl X.ne (hc.nameEq _ _ X.hl) X.hp, hfold]
  simp only
  have hM := moved_of_mid X mf P Mf h5
  -- the final registerWithParent
  have hfin : registerWithParent ((sweep mf P old).regFuel f) (sweep mf P old) f 0 = finish mf P old f p' := by
    unfold regFuel finish
    refine registerWithParent_some _ _ f 0 p' ?_
    have e1 : ((sweep mf P old).obj f).name = new := by
      show (mf.obj f).name = new
      rw [Mf.name, if_pos rfl]
    rw [e1]
    have := hM.lk (parentKey new)
    obtain ⟨a, b⟩ := X.noNew _ p' X.hp'
    have n : ¬ (parentKey new = old ∨ isUnder old (parentKey new) = true) := by
      intro e; rcases e with e | e
      · exact X.pnew.1 e
      · rw [X.pnew.2] at e; cases e
    rw [if_neg a, if_neg (by rw [b]; exact Bool.false_ne_true), if_neg n] at this
    rw [← X.hp', ← this]; rfl
  refine ⟨trivial, ?_⟩
  show Moved m (registerWithParent ((sweep mf P old).regFuel f) (sweep mf P old) f 0) old new f p p'
  rw [hfin]
  exact hM

/-- **`Rename` of a directory with its subtree onto a free name keeps the tree consistent.**

    Hypothesis added to the ones asked for: `hnodup : KeysNodup m`, the path map holds every key
    once (Go map semantics).  It holds in `MemFs.init` and is kept by every operation
    (`keysNodup_init`, `keysNodup_step`, `keysNodup_run`), so every reachable state has it.  The proof
    genuinely needs it: `findDescendants` lists the ENTRIES of the path map, so a key entered twice
    would have its object processed twice by `renameDescendants`, the second time under its already
    re-prefixed name, which wrecks the tree; and `Consistent` alone does not exclude such a
    (shadowed) second entry, because it speaks about `lookup` only. -/
theorem consistent_rename_dir (m : MemFs) (hc : Consistent m) (old new : Key) (f : Nat)
    (hl : m.lookup old = some f) (hn : normKey old = old) (hn' : normKey new = new)
    (hold : old.segs ≠ []) (hnew : new.segs ≠ [])
    (hfree : m.lookup new = none)
    (hnotunder : isUnder old new = false)
    (hp' : ∃ p' pd', m.lookup (parentKey new) = some p' ∧ (m.obj p').memDir = some pd')
    (hnodup : KeysNodup m) :   -- added: see above
    Consistent (m.rename old new).1 := by
  obtain ⟨p', pd', hp'l, hpd'⟩ := hp'
  have holdr : old ≠ rootKey := fun e => hold (by rw [e]; rfl)
  obtain ⟨p, _, hp, _, _⟩ := hc.hasParent old f hl holdr
  have X : RenCtx m old new f p p' :=
    ⟨hc, hl, hn, hn', hold, hnew, hfree, hnotunder, hp, hp'l, by rw [hpd']; rfl⟩
  exact consistent_of_moved_subtree m _ old new f p p' X (rename_dir_moved m old new f p p' X hnodup).2

/-- the preconditions of `consistent_rename_dir`, bundled -/
def RenameDir (m : MemFs) (old new : Key) : Prop :=
  ∃ f, m.lookup old = some f ∧ normKey old = old ∧ normKey new = new ∧ old.segs ≠ [] ∧ new.segs ≠ [] ∧
    m.lookup new = none ∧ isUnder old new = false ∧
    (∃ p' pd', m.lookup (parentKey new) = some p' ∧ (m.obj p').memDir = some pd') ∧
    KeysNodup m

theorem consistent_rename_of_renameDir (m : MemFs) (hc : Consistent m) (old new : Key)
    (h : RenameDir m old new) : Consistent (m.rename old new).1 := by
  obtain ⟨f, h1, h2, h3, h4, h5, h6, h7, h8, h9⟩ := h
  exact consistent_rename_dir m hc old new f h1 h2 h3 h4 h5 h6 h7 h8 h9

/-! ### non-vacuity: `mkdir /a; mkdir /a/b; create /a/b/f; create /a/g`, then `rename /a /z` -/

def dA : Key := keyOfStr ['/', 'a']
def dAB : Key := keyOfStr ['/', 'a', '/', 'b']
def dABF : Key := keyOfStr ['/', 'a', '/', 'b', '/', 'f']
def dAG : Key := keyOfStr ['/', 'a', '/', 'g']
def dZ : Key := keyOfStr ['/', 'z']
def dZB : Key := keyOfStr ['/', 'z', '/', 'b']
def dZBF : Key := keyOfStr ['/', 'z', '/', 'b', '/', 'f']
def dZG : Key := keyOfStr ['/', 'z', '/', 'g']

/-- the state after `mkdir /a; mkdir /a/b; create /a/b/f; create /a/g` (objects 1, 2, 3, 4) -/
def exD : MemFs := ((((MemFs.init.mkdir dA 0o755).1.mkdir dAB 0o755).1.create dABF).1.create dAG).1

theorem consistent_exD : Consistent exD := by
  have h1 := consistent_mkdir_any MemFs.init consistent_init dA 0o755 (by decide)
  have h2 := consistent_mkdir_any _ h1 dAB 0o755 (by decide)
  have h3 := consistent_create_any _ h2 dABF (by decide) (by decide)
  exact consistent_create_any _ h3 dAG (by decide) (by decide)

theorem keysNodup_exD : KeysNodup exD :=
  keysNodup_create _ _ (keysNodup_create _ _ (keysNodup_mkdir _ _ _ (keysNodup_mkdir _ _ _ keysNodup_init)))

/-- `rename /a /z` meets every hypothesis of `consistent_rename_dir` in `exD` -/
theorem exD_renameDir : RenameDir exD dA dZ :=
  ⟨1, by decide, by decide, by decide, by decide, by decide, by decide, by decide, ⟨0, _, by decide, rfl⟩, keysNodup_exD⟩

theorem exD_ctx : RenCtx exD dA dZ 1 0 0 :=
  ⟨consistent_exD, by decide, by decide, by decide, by decide, by decide, by decide, by decide, by decide,
    by decide, by decide⟩

/-- non-vacuity: the theorem applies to `rename /a /z` in `exD`; the call reports success, the whole
    subtree is found below `/z` (same objects) and nothing is left at or below `/a` -/
example :
    Consistent exD ∧ RenameDir exD dA dZ ∧ Consistent (exD.rename dA dZ).1 ∧ (exD.rename dA dZ).2 = .ok ∧
    (exD.rename dA dZ).1.lookup dZ = some 1 ∧ (exD.rename dA dZ).1.lookup dZB = some 2 ∧
    (exD.rename dA dZ).1.lookup dZBF = some 3 ∧ (exD.rename dA dZ).1.lookup dZG = some 4 ∧
    (exD.rename dA dZ).1.lookup dA = none ∧ (exD.rename dA dZ).1.lookup dAB = none ∧
    (exD.rename dA dZ).1.lookup dABF = none ∧ (exD.rename dA dZ).1.lookup dAG = none ∧
    ((exD.rename dA dZ).1.obj 3).name = dZBF := by
  obtain ⟨hok, hM⟩ := rename_dir_moved exD dA dZ 1 0 0 exD_ctx keysNodup_exD
  refine ⟨consistent_exD, exD_renameDir, consistent_rename_of_renameDir _ consistent_exD _ _ exD_renameDir, hok,
    ?_, ?_, ?_, ?_, ?_, ?_, ?_, ?_, ?_⟩
  all_goals first | (rw [hM.lk]; decide) | (rw [hM.name]; decide)

end MemFs

end AferoVerif
